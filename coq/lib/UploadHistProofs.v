(* C19 -- invariants of the file-system model under EVERY operation, and what they give for histories of service
   calls: crash / fault at any point, restart on the leftover directory, symlinks planted between incarnations. *)
From Coq Require Import NArith List Bool Arith Lia.
Import ListNotations.
Require Import Verif.lib.UploadShape Verif.gen.UploadGen Verif.lib.Paths Verif.lib.PathsProofs
               Verif.lib.Upload Verif.lib.UploadProofs Verif.lib.UploadHist.

(* ---------- the invariant: inode numbers below `next`, no two names for one inode ---------- *)
Definition winv (n : str -> option ent) (nx : nat) : Prop :=
  (forall p i, n p = Some (F i) -> (i < nx)%nat) /\
  (forall p q i, n p = Some (F i) -> n q = Some (F i) -> p = q).
Definition Inv (s : st) : Prop := winv (names s) (next s).

Lemma Inv_wf : forall s, Inv s -> wf_st s.
Proof. intros s [H _]. exact H. Qed.
Lemma Inv_unshared : forall s tmp, Inv s -> unshared s tmp.
Proof. intros s tmp [_ H] q i Hq Ht Hc. apply Hq. exact (H q tmp i Hc Ht). Qed.

Lemma upd_cases : forall A (f : str -> A) p v q, (q = p /\ upd f p v q = v) \/ (q <> p /\ upd f p v q = f q).
Proof.
  intros. unfold upd. destruct (str_eqb q p) eqn:E.
  - left. split; [apply str_eqb_eq; exact E|reflexivity].
  - right. split; [intros ->; rewrite str_eqb_refl in E; discriminate|reflexivity].
Qed.

Lemma winv_set : forall n nx p v, (forall i, v <> Some (F i)) -> winv n nx -> winv (upd n p v) nx.
Proof.
  intros n nx p v Hv [H1 H2]. split.
  - intros q i Hq. destruct (upd_cases _ n p v q) as [[-> E]|[_ E]]; rewrite E in Hq; [exfalso; exact (Hv i Hq)|eapply H1; eauto].
  - intros a b i Ha Hb.
    destruct (upd_cases _ n p v a) as [[-> E]|[_ E]]; rewrite E in Ha; [exfalso; exact (Hv i Ha)|].
    destruct (upd_cases _ n p v b) as [[-> E']|[_ E']]; rewrite E' in Hb; [exfalso; exact (Hv i Hb)|]. eapply H2; eauto.
Qed.

Lemma winv_create : forall n nx p, winv n nx -> winv (upd n p (Some (F nx))) (S nx).
Proof.
  intros n nx p [H1 H2]. split.
  - intros q i Hq. destruct (upd_cases _ n p (Some (F nx)) q) as [[-> E]|[_ E]]; rewrite E in Hq.
    + injection Hq as <-. lia.
    + apply H1 in Hq. lia.
  - intros a b i Ha Hb.
    destruct (upd_cases _ n p (Some (F nx)) a) as [[-> E]|[_ E]]; rewrite E in Ha;
    destruct (upd_cases _ n p (Some (F nx)) b) as [[-> E']|[_ E']]; rewrite E' in Hb.
    + reflexivity.
    + injection Ha as <-. apply H1 in Hb. lia.
    + injection Hb as <-. apply H1 in Ha. lia.
    + eapply H2; eauto.
Qed.

Lemma winv_move : forall n nx a b e, winv n nx -> n a = Some e -> a <> b -> winv (upd (upd n b (Some e)) a None) nx.
Proof.
  intros n nx a b e [H1 H2] Hae Hab. split.
  - intros q i Hq. destruct (upd_cases _ (upd n b (Some e)) a None q) as [[-> E]|[_ E]]; rewrite E in Hq; [discriminate|].
    destruct (upd_cases _ n b (Some e) q) as [[-> E']|[_ E']]; rewrite E' in Hq.
    + injection Hq as ->. eapply H1; eauto.
    + eapply H1; eauto.
  - intros x y i Hx Hy.
    destruct (upd_cases _ (upd n b (Some e)) a None x) as [[-> E]|[Hxa E]]; rewrite E in Hx; [discriminate|].
    destruct (upd_cases _ (upd n b (Some e)) a None y) as [[-> E2]|[Hya E2]]; rewrite E2 in Hy; [discriminate|].
    destruct (upd_cases _ n b (Some e) x) as [[-> E3]|[_ E3]]; rewrite E3 in Hx;
    destruct (upd_cases _ n b (Some e) y) as [[-> E4]|[_ E4]]; rewrite E4 in Hy.
    + reflexivity.
    + injection Hx as ->. exfalso. apply Hya. exact (H2 y a i Hy Hae).
    + injection Hy as ->. exfalso. apply Hxa. exact (H2 x a i Hx Hae).
    + eapply H2; eauto.
Qed.

Lemma str_eqb_false_neq : forall a b, str_eqb a b = false -> a <> b.
Proof. intros a b E ->. rewrite str_eqb_refl in E. discriminate. Qed.

Lemma step_rename_inv : forall s a b, Inv s -> Inv (step_rename s a b).
Proof.
  intros s a b H. unfold step_rename. destruct (names s a) as [e|] eqn:Ea; [|exact H].
  destruct (names s b) as [[i|t|]|] eqn:Eb; try exact H;
    (destruct (str_eqb a b) eqn:Eab; [exact H|]; unfold Inv; cbn [names next];
     apply winv_move; [exact H|exact Ea|apply str_eqb_false_neq; exact Eab]).
Qed.

Lemma unlink_quiet_inv : forall s p, Inv s -> Inv (unlink_quiet s p).
Proof.
  intros s p H. unfold unlink_quiet. destruct (names s p) as [[i|t|]|]; try exact H;
    unfold Inv; cbn [names next]; apply winv_set; [discriminate|exact H|discriminate|exact H].
Qed.

Lemma step_inv : forall s o, Inv s -> Inv (step s o).
Proof.
  intros s o H. unfold step. destruct (failed s); [exact H|].
  destruct o.
  - destruct (names s p) as [[i|t|]|]; try exact H. unfold Inv. cbn [names next]. apply winv_create. exact H.
  - destruct (handle s) as [[i pend]|]; exact H.
  - destruct (handle s) as [[i pend]|]; exact H.
  - apply step_rename_inv. exact H.
  - destruct (failed (step_rename s a b)); [|apply step_rename_inv; exact H].
    destruct (names s c) as [[i|t|]|]; try exact H; unfold Inv; cbn [names next]; apply winv_set; try discriminate; exact H.
  - destruct (failed (step_rename s a b)); [|apply step_rename_inv; exact H].
    apply step_rename_inv. apply unlink_quiet_inv. exact H.
  - destruct (names s p) as [[i|t|]|]; exact H.
  - destruct (names s p) as [e|]; [|exact H]. unfold Inv. cbn [names next]. apply winv_set; [discriminate|exact H].
  - destruct (names s p) as [[i|t|]|]; try exact H. unfold Inv. cbn [names next]. apply winv_set; [discriminate|exact H].
  - destruct (exists_at exists_fuel s p); [|exact H]. unfold Inv. cbn [names next]. apply winv_set; [discriminate|exact H].
Qed.

Lemma run_inv : forall ops s, Inv s -> Inv (run s ops).
Proof. induction ops as [|o ops IH]; intros s H; [exact H|]. rewrite run_cons. apply IH. apply step_inv. exact H. Qed.

Lemma step_fault_inv : forall s o, Inv s -> Inv (step_fault s o).
Proof.
  intros s o H. unfold step_fault. destruct (failed s); [exact H|].
  destruct o; try exact H; apply (unlink_quiet_inv s _ H).
Qed.

Lemma run_fault_inv : forall k ops s, Inv s -> Inv (run_fault k s ops).
Proof.
  intros k ops s H. unfold run_fault. destruct (nth_error ops k); [apply step_fault_inv|]; apply run_inv; exact H.
Qed.

Lemma plant_inv : forall s p t, Inv s -> Inv (plant s p t).
Proof.
  intros s p t H. unfold plant. destruct (names s p) as [[i|t'|]|]; try exact H;
    unfold Inv; cbn [names next]; apply winv_set; try discriminate; exact H.
Qed.

Theorem fs_invariant : forall s o, Inv s -> Inv (step s o) /\ Inv (step_fault s o) /\ Inv (reboot s).
Proof. intros s o H. split; [apply step_inv; exact H|split; [apply step_fault_inv; exact H|exact H]]. Qed.

(* ---------- the WEAKER invariant: only the names in T (the temporaries) must not share their inode ----------
   `Inv` forbids every hard link in the directory.  What the write-then-rename protocols need is less: the TEMPORARY they
   truncate and write must not be a second name of some other entry's inode (else writing it changes that entry).  Hard
   links among the other entries are harmless and allowed by InvT.  It is kept by every operation whose renames do not move
   an entry from outside T to a name in T (the services rename their temporary -- in T -- to the final name). *)
Definition winvT (T : str -> Prop) (n : str -> option ent) (nx : nat) : Prop :=
  (forall p i, n p = Some (F i) -> (i < nx)%nat) /\
  (forall p q i, T p -> n p = Some (F i) -> n q = Some (F i) -> p = q).
Definition InvT (T : str -> Prop) (s : st) : Prop := winvT T (names s) (next s).

Lemma Inv_InvT : forall T s, Inv s -> InvT T s.
Proof. intros T s [H1 H2]. split; [exact H1|]. intros p q i _ Hp Hq. exact (H2 p q i Hp Hq). Qed.
Lemma InvT_wf : forall T s, InvT T s -> wf_st s.
Proof. intros T s [H _]. exact H. Qed.
Lemma InvT_unshared : forall (T : str -> Prop) s tmp, T tmp -> InvT T s -> unshared s tmp.
Proof. intros T s tmp Ht [_ H] q i Hq Hn Hc. apply Hq. symmetry. exact (H tmp q i Ht Hn Hc). Qed.

Lemma winvT_set : forall T n nx p v, (forall i, v <> Some (F i)) -> winvT T n nx -> winvT T (upd n p v) nx.
Proof.
  intros T n nx p v Hv [H1 H2]. split.
  - intros q i Hq. destruct (upd_cases _ n p v q) as [[-> E]|[_ E]]; rewrite E in Hq; [exfalso; exact (Hv i Hq)|eapply H1; eauto].
  - intros a b i Ta Ha Hb.
    destruct (upd_cases _ n p v a) as [[-> E]|[_ E]]; rewrite E in Ha; [exfalso; exact (Hv i Ha)|].
    destruct (upd_cases _ n p v b) as [[-> E']|[_ E']]; rewrite E' in Hb; [exfalso; exact (Hv i Hb)|]. eapply H2; eauto.
Qed.

Lemma winvT_create : forall T n nx p, winvT T n nx -> winvT T (upd n p (Some (F nx))) (S nx).
Proof.
  intros T n nx p [H1 H2]. split.
  - intros q i Hq. destruct (upd_cases _ n p (Some (F nx)) q) as [[-> E]|[_ E]]; rewrite E in Hq.
    + injection Hq as <-. lia.
    + apply H1 in Hq. lia.
  - intros a b i Ta Ha Hb.
    destruct (upd_cases _ n p (Some (F nx)) a) as [[-> E]|[_ E]]; rewrite E in Ha;
    destruct (upd_cases _ n p (Some (F nx)) b) as [[-> E']|[_ E']]; rewrite E' in Hb.
    + reflexivity.
    + injection Ha as <-. apply H1 in Hb. lia.
    + injection Hb as <-. apply H1 in Ha. lia.
    + eapply H2; eauto.
Qed.

Lemma winvT_move : forall (T : str -> Prop) n nx a b e, (T b -> T a) ->
  winvT T n nx -> n a = Some e -> a <> b -> winvT T (upd (upd n b (Some e)) a None) nx.
Proof.
  intros T n nx a b e Tba [H1 H2] Hae Hab. split.
  - intros q i Hq. destruct (upd_cases _ (upd n b (Some e)) a None q) as [[-> E]|[_ E]]; rewrite E in Hq; [discriminate|].
    destruct (upd_cases _ n b (Some e) q) as [[-> E']|[_ E']]; rewrite E' in Hq.
    + injection Hq as ->. eapply H1; eauto.
    + eapply H1; eauto.
  - intros x y i Tx Hx Hy.
    destruct (upd_cases _ (upd n b (Some e)) a None x) as [[-> E]|[Hxa E]]; rewrite E in Hx; [discriminate|].
    destruct (upd_cases _ (upd n b (Some e)) a None y) as [[-> E2]|[Hya E2]]; rewrite E2 in Hy; [discriminate|].
    destruct (upd_cases _ n b (Some e) x) as [[-> E3]|[_ E3]]; rewrite E3 in Hx;
    destruct (upd_cases _ n b (Some e) y) as [[-> E4]|[_ E4]]; rewrite E4 in Hy.
    + reflexivity.
    + injection Hx as ->. exfalso. apply Hya. symmetry. exact (H2 a y i (Tba Tx) Hae Hy).
    + injection Hy as ->. exfalso. apply Hxa. exact (H2 x a i Tx Hx Hae).
    + eapply H2; eauto.
Qed.

(* the renames an operation performs: (source, destination) *)
Definition renames (o : op) : list (str * str) :=
  match o with Rename a b | RenameElseUnlink a b _ | RenameRetry a b => [(a, b)] | _ => [] end.
Definition keepsT (T : str -> Prop) (o : op) : Prop := forall a b, In (a, b) (renames o) -> T b -> T a.

Lemma step_rename_invT : forall (T : str -> Prop) s a b, (T b -> T a) -> InvT T s -> InvT T (step_rename s a b).
Proof.
  intros T s a b Tba H. unfold step_rename. destruct (names s a) as [e|] eqn:Ea; [|exact H].
  destruct (names s b) as [[i|t|]|] eqn:Eb; try exact H;
    (destruct (str_eqb a b) eqn:Eab; [exact H|]; unfold InvT; cbn [names next];
     apply winvT_move; [exact Tba|exact H|exact Ea|apply str_eqb_false_neq; exact Eab]).
Qed.

Lemma unlink_quiet_invT : forall T s p, InvT T s -> InvT T (unlink_quiet s p).
Proof.
  intros T s p H. unfold unlink_quiet. destruct (names s p) as [[i|t|]|]; try exact H;
    unfold InvT; cbn [names next]; apply winvT_set; [discriminate|exact H|discriminate|exact H].
Qed.

Lemma step_invT : forall T s o, keepsT T o -> InvT T s -> InvT T (step s o).
Proof.
  intros T s o K H. unfold step. destruct (failed s); [exact H|].
  destruct o; unfold keepsT in K; cbn [renames] in K.
  - destruct (names s p) as [[i|t|]|]; try exact H. unfold InvT. cbn [names next]. apply winvT_create. exact H.
  - destruct (handle s) as [[i pend]|]; exact H.
  - destruct (handle s) as [[i pend]|]; exact H.
  - apply step_rename_invT; [apply K; left; reflexivity|exact H].
  - destruct (failed (step_rename s a b)); [|apply step_rename_invT; [apply K; left; reflexivity|exact H]].
    destruct (names s c) as [[i|t|]|]; try exact H; unfold InvT; cbn [names next]; apply winvT_set; try discriminate; exact H.
  - destruct (failed (step_rename s a b)); [|apply step_rename_invT; [apply K; left; reflexivity|exact H]].
    apply step_rename_invT; [apply K; left; reflexivity|]. apply unlink_quiet_invT. exact H.
  - destruct (names s p) as [[i|t|]|]; exact H.
  - destruct (names s p) as [e|]; [|exact H]. unfold InvT. cbn [names next]. apply winvT_set; [discriminate|exact H].
  - destruct (names s p) as [[i|t|]|]; try exact H. unfold InvT. cbn [names next]. apply winvT_set; [discriminate|exact H].
  - destruct (exists_at exists_fuel s p); [|exact H]. unfold InvT. cbn [names next]. apply winvT_set; [discriminate|exact H].
Qed.

Lemma run_invT : forall T ops s, (forall o, In o ops -> keepsT T o) -> InvT T s -> InvT T (run s ops).
Proof.
  induction ops as [|o ops IH]; intros s K H; [exact H|]. rewrite run_cons. apply IH.
  - intros o' Ho'. apply K. right. exact Ho'.
  - apply step_invT; [apply K; left; reflexivity|exact H].
Qed.

Lemma step_fault_invT : forall T s o, InvT T s -> InvT T (step_fault s o).
Proof.
  intros T s o H. unfold step_fault. destruct (failed s); [exact H|].
  destruct o; try exact H; apply (unlink_quiet_invT T s _ H).
Qed.

Lemma plant_invT : forall T s p t, InvT T s -> InvT T (plant s p t).
Proof.
  intros T s p t H. unfold plant. destruct (names s p) as [[i|t'|]|]; try exact H;
    unfold InvT; cbn [names next]; apply winvT_set; try discriminate; exact H.
Qed.

(* kept by every operation that does not rename INTO T from outside T, performed or failing, and by a restart *)
Theorem fs_invariant_T : forall T s o, InvT T s ->
  (keepsT T o -> InvT T (step s o)) /\ InvT T (step_fault s o) /\ InvT T (reboot s).
Proof. intros T s o H. split; [intros K; apply step_invT; assumption|split; [apply step_fault_invT; exact H|exact H]]. Qed.

(* the temporaries of the upload service: every name that ends in the temporary extension *)
Definition is_utmp (p : str) : Prop := exists f, p = f ++ putfile_tmp_ext.

(* ---------- directories stay where they are ---------- *)
Definition dn (n n' : str -> option ent) : Prop := forall p, n' p = Some D <-> n p = Some D.
Definition dsame (s s' : st) : Prop := dn (names s) (names s').

Lemma dn_refl : forall n, dn n n.
Proof. intros n p. tauto. Qed.
Lemma dn_trans : forall a b c, dn a b -> dn b c -> dn a c.
Proof. intros a b c H1 H2 p. rewrite (H2 p). apply H1. Qed.
Lemma dn_set : forall n p v, n p <> Some D -> v <> Some D -> dn n (upd n p v).
Proof.
  intros n p v Hn Hv q. destruct (upd_cases _ n p v q) as [[-> E]|[_ E]]; rewrite E; [|tauto].
  split; intros H; contradiction.
Qed.

Lemma step_rename_dsame : forall s a b, names s a <> Some D -> dsame s (step_rename s a b).
Proof.
  intros s a b Ha. unfold step_rename, dsame. destruct (names s a) as [e|] eqn:Ea; [|apply dn_refl].
  destruct (names s b) as [[i|t|]|] eqn:Eb; try apply dn_refl;
    (destruct (str_eqb a b) eqn:Eab; [apply dn_refl|]; cbn [names];
     apply (dn_trans _ (upd (names s) b (Some e)));
     [apply dn_set; [rewrite Eb; discriminate|exact Ha]
     |apply dn_set; [rewrite upd_other by (apply str_eqb_false_neq; exact Eab); rewrite Ea; exact Ha|discriminate]]).
Qed.

Lemma unlink_quiet_dsame : forall s p, dsame s (unlink_quiet s p).
Proof.
  intros s p. unfold unlink_quiet, dsame. destruct (names s p) as [[i|t|]|] eqn:E; try apply dn_refl;
    cbn [names]; apply dn_set; try discriminate; rewrite E; discriminate.
Qed.

Lemma step_dsame : forall s o, (forall a, In a (movable o) -> names s a <> Some D) -> dsame s (step s o).
Proof.
  intros s o H. unfold step, dsame. destruct (failed s); [apply dn_refl|].
  destruct o; cbn [movable] in H.
  - destruct (names s p) as [[i|t|]|] eqn:E; try apply dn_refl. cbn [names]. apply dn_set; [rewrite E|]; discriminate.
  - destruct (handle s) as [[i pend]|]; apply dn_refl.
  - destruct (handle s) as [[i pend]|]; apply dn_refl.
  - apply step_rename_dsame. apply H. left. reflexivity.
  - destruct (failed (step_rename s a b)); [|apply step_rename_dsame; apply H; left; reflexivity].
    destruct (names s c) as [[i|t|]|] eqn:E; try apply dn_refl; cbn [names]; apply dn_set; try discriminate; rewrite E; discriminate.
  - destruct (failed (step_rename s a b)); [|apply step_rename_dsame; apply H; left; reflexivity].
    apply (dn_trans _ (names (unlink_quiet s b))); [apply unlink_quiet_dsame|].
    apply step_rename_dsame. intros E. apply (H a (or_introl eq_refl)). apply (unlink_quiet_dsame s b a). exact E.
  - destruct (names s p) as [[i|t|]|]; apply dn_refl.
  - destruct (names s p) as [e|] eqn:E; [|apply dn_refl]. cbn [names]. apply dn_set; [apply H; left; reflexivity|discriminate].
  - destruct (names s p) as [[i|t|]|] eqn:E; try apply dn_refl. cbn [names]. apply dn_set; [rewrite E|]; discriminate.
  - destruct (exists_at exists_fuel s p); [|apply dn_refl]. cbn [names]. apply dn_set; [apply H; left; reflexivity|discriminate].
Qed.

Lemma run_dsame : forall ops s, (forall o a, In o ops -> In a (movable o) -> names s a <> Some D) -> dsame s (run s ops).
Proof.
  induction ops as [|o ops IH]; intros s H; [apply dn_refl|]. rewrite run_cons.
  assert (H1 : dsame s (step s o)) by (apply step_dsame; intros a Ha; apply (H o a (or_introl eq_refl) Ha)).
  apply (dn_trans _ (names (step s o))); [exact H1|]. apply IH.
  intros o' a Ho' Ha E. apply (H o' a (or_intror Ho') Ha). apply (H1 a). exact E.
Qed.

Lemma step_fault_dsame : forall s o, dsame s (step_fault s o).
Proof.
  intros s o. unfold step_fault. destruct (failed s); [apply dn_refl|].
  destruct o; try apply dn_refl; apply unlink_quiet_dsame.
Qed.

Lemma plant_dsame : forall s p t, dsame s (plant s p t).
Proof.
  intros s p t. unfold plant, dsame. destruct (names s p) as [[i|t'|]|] eqn:E; try apply dn_refl;
    cbn [names]; apply dn_set; try discriminate; rewrite E; discriminate.
Qed.

(* ---------- no operation turns a name into a symlink, except a rename onto it ---------- *)
Lemma nl_set : forall (n : str -> option ent) p q v, (p = q -> forall t, v <> Some (L t)) ->
  (forall t, n p <> Some (L t)) -> forall t, upd n q v p <> Some (L t).
Proof.
  intros n p q v Hv Hn t. destruct (upd_cases _ n q v p) as [[Hpq E]|[_ E]]; rewrite E; [apply Hv; exact Hpq|apply Hn].
Qed.

Lemma step_rename_nolink : forall s a b p, p <> b -> no_link_at s p -> no_link_at (step_rename s a b) p.
Proof.
  intros s a b p Hpb H. unfold step_rename. destruct (names s a) as [e|]; [|exact H].
  destruct (names s b) as [[i|t|]|]; try exact H;
    (destruct (str_eqb a b); [exact H|]; unfold no_link_at; cbn [names];
     apply nl_set; [discriminate|]; apply nl_set; [intros E; contradiction|exact H]).
Qed.

Lemma unlink_quiet_nolink : forall s q p, no_link_at s p -> no_link_at (unlink_quiet s q) p.
Proof.
  intros s q p H. unfold unlink_quiet. destruct (names s q) as [[i|t|]|]; try exact H;
    unfold no_link_at; cbn [names]; apply nl_set; try discriminate; exact H.
Qed.

Lemma step_nolink : forall s o p, ~ In p (dests o) -> no_link_at s p -> no_link_at (step s o) p.
Proof.
  intros s o p Hd H. unfold step. destruct (failed s); [exact H|].
  destruct o; cbn [dests] in Hd.
  - destruct (names s p0) as [[i|t|]|]; try exact H. unfold no_link_at. cbn [names]. apply nl_set; [discriminate|exact H].
  - destruct (handle s) as [[i pend]|]; exact H.
  - destruct (handle s) as [[i pend]|]; exact H.
  - apply step_rename_nolink; [intros ->; apply Hd; left; reflexivity|exact H].
  - destruct (failed (step_rename s a b)); [|apply step_rename_nolink; [intros ->; apply Hd; left; reflexivity|exact H]].
    destruct (names s c) as [[i|t|]|]; try exact H; unfold no_link_at; cbn [names]; apply nl_set; try discriminate; exact H.
  - destruct (failed (step_rename s a b)); [|apply step_rename_nolink; [intros ->; apply Hd; left; reflexivity|exact H]].
    apply step_rename_nolink; [intros ->; apply Hd; left; reflexivity|]. apply unlink_quiet_nolink. exact H.
  - destruct (names s p0) as [[i|t|]|]; exact H.
  - destruct (names s p0) as [e|]; [|exact H]. unfold no_link_at. cbn [names]. apply nl_set; [discriminate|exact H].
  - destruct (names s p0) as [[i|t|]|]; try exact H. unfold no_link_at. cbn [names]. apply nl_set; [discriminate|exact H].
  - destruct (exists_at exists_fuel s p0); [|exact H]. unfold no_link_at. cbn [names]. apply nl_set; [discriminate|exact H].
Qed.

Lemma run_nolink : forall ops s p, (forall o, In o ops -> ~ In p (dests o)) -> no_link_at s p -> no_link_at (run s ops) p.
Proof.
  induction ops as [|o ops IH]; intros s p Hd H; [exact H|]. rewrite run_cons. apply IH.
  - intros o' Ho'. apply Hd. right. exact Ho'.
  - apply step_nolink; [apply Hd; left; reflexivity|exact H].
Qed.

Lemma step_fault_nolink : forall s o p, no_link_at s p -> no_link_at (step_fault s o) p.
Proof.
  intros s o p H. unfold step_fault. destruct (failed s); [exact H|].
  destruct o; try exact H; apply unlink_quiet_nolink; exact H.
Qed.

Lemma step_fault_followed : forall s o, followed (step_fault s o) = followed s.
Proof.
  intros s o. unfold step_fault. destruct (failed s); [reflexivity|].
  destruct o; try reflexivity; unfold unlink_quiet; (destruct (names s _) as [[i|t|]|]; reflexivity).
Qed.

(* ---------- what the operation lists of the services can remove / where they rename to ---------- *)
Lemma upload_ops_movable : forall final blocks oc o a,
  In o (upload_ops final blocks oc) -> In a (movable o) -> a = final ++ putfile_tmp_ext.
Proof.
  intros final blocks oc o a Ho Ha.
  assert (G : forall tl, (forall o', In o' tl -> forall a', In a' (movable o') -> a' = final ++ putfile_tmp_ext) ->
              In o (UnlinkIfLink (final ++ putfile_tmp_ext) :: Open (final ++ putfile_tmp_ext) ::
                    map (Write (final ++ putfile_tmp_ext)) blocks ++ tl) -> a = final ++ putfile_tmp_ext).
  { intros tl Htl Hin. destruct Hin as [<-|[<-|Hin]]; [destruct Ha|destruct Ha|].
    apply in_app_or in Hin. destruct Hin as [Hin|Hin].
    - apply in_map_iff in Hin. destruct Hin as (b & <- & _). destruct Ha.
    - eapply Htl; eauto. }
  destruct oc.
  - rewrite upload_ops_done in Ho. unfold core_ops in Ho. apply (G _) in Ho; [exact Ho|].
    intros o' Ho' a' Ha'. cbn in Ho'. destruct Ho' as [<-|[<-|[<-|[]]]]; cbn in Ha'; intuition (subst; auto).
  - rewrite upload_ops_err in Ho. unfold err_ops in Ho. apply (G _) in Ho; [exact Ho|].
    intros o' Ho' a' Ha'. cbn in Ho'. destruct Ho' as [<-|[<-|[]]]; cbn in Ha'; intuition (subst; auto).
  - rewrite upload_ops_badblock, upload_ops_err in Ho. unfold err_ops in Ho. apply (G _) in Ho; [exact Ho|].
    intros o' Ho' a' Ha'. cbn in Ho'. destruct Ho' as [<-|[<-|[]]]; cbn in Ha'; intuition (subst; auto).
Qed.

Lemma registry_ops_shape : forall basedir chunks o,
  In o (registry_ops basedir chunks) ->
  (forall a, In a (movable o) -> a = registry_final basedir ++ registry_tmp_ext) /\
  (forall b, In b (dests o) -> b = registry_final basedir).
Proof.
  intros basedir chunks o Ho. rewrite registry_ops_core in Ho. apply In_firstn in Ho.
  unfold core_ops in Ho. destruct Ho as [<-|Ho]; [split; intros x []|].
  apply in_app_or in Ho. destruct Ho as [Ho|Ho].
  - apply in_map_iff in Ho. destruct Ho as (b & <- & _). split; intros x [].
  - cbn in Ho. destruct Ho as [<-|[<-|[<-|[]]]]; split; intros x Hx; cbn in Hx; intuition (subst; auto).
Qed.

(* ---------- the temporary name is an existing DIRECTORY: open() raises, nothing is ever touched ---------- *)
Lemma run_failed : forall ops s, failed s = true -> run s ops = s.
Proof.
  induction ops as [|o ops IH]; intros s H; [reflexivity|]. rewrite run_cons.
  assert (E : step s o = s) by (unfold step; rewrite H; reflexivity). rewrite E. apply IH. exact H.
Qed.

Lemma upload_ops_head : forall final blocks oc, exists tl,
  upload_ops final blocks oc = UnlinkIfLink (final ++ putfile_tmp_ext) :: Open (final ++ putfile_tmp_ext) :: tl.
Proof.
  intros final blocks oc. destruct oc.
  - rewrite upload_ops_done. unfold core_ops. eexists. reflexivity.
  - rewrite upload_ops_err. unfold err_ops. eexists. reflexivity.
  - rewrite upload_ops_badblock, upload_ops_err. unfold err_ops. eexists. reflexivity.
Qed.

Theorem upload_tmp_is_directory : forall s0 final blocks oc k,
  failed s0 = false -> names s0 (final ++ putfile_tmp_ext) = Some D ->
  (run s0 (firstn k (upload_ops final blocks oc)) = s0 \/ run s0 (firstn k (upload_ops final blocks oc)) = fail s0) /\
  ((2 <= k)%nat -> failed (run s0 (firstn k (upload_ops final blocks oc))) = true).
Proof.
  intros s0 final blocks oc k Hf E. destruct (upload_ops_head final blocks oc) as (tl & ->).
  assert (E1 : step s0 (UnlinkIfLink (final ++ putfile_tmp_ext)) = s0) by (unfold step; rewrite Hf, E; reflexivity).
  assert (E2 : step s0 (Open (final ++ putfile_tmp_ext)) = fail s0) by (unfold step; rewrite Hf, E; reflexivity).
  destruct k as [|[|k]]; cbn [firstn].
  - split; [left; reflexivity|intros; lia].
  - rewrite run_cons, E1. split; [left; reflexivity|intros; lia].
  - rewrite run_cons, E1, run_cons, E2, run_failed by reflexivity. split; [right; reflexivity|reflexivity].
Qed.

(* ---------- one incarnation of an upload, from ANY state that satisfies the invariant ---------- *)
Lemma look_reboot : forall s q, look (reboot s) q = look s q.
Proof. reflexivity. Qed.

(* every operation of an upload is one of these seven *)
Lemma upload_ops_forall : forall (P : op -> Prop) final blocks oc,
  P (UnlinkIfLink (final ++ putfile_tmp_ext)) -> P (Open (final ++ putfile_tmp_ext)) ->
  (forall b, P (Write (final ++ putfile_tmp_ext) b)) -> P (Close (final ++ putfile_tmp_ext)) ->
  P (RenameElseUnlink (final ++ putfile_tmp_ext) final (final ++ putfile_tmp_ext)) -> P (Chmod final) ->
  P (Unlink (final ++ putfile_tmp_ext)) ->
  forall o, In o (upload_ops final blocks oc) -> P o.
Proof.
  intros P final blocks oc P1 P2 P3 P4 P5 P6 P7 o Ho.
  assert (G : forall tl, (forall o', In o' tl -> P o') ->
              In o (UnlinkIfLink (final ++ putfile_tmp_ext) :: Open (final ++ putfile_tmp_ext) ::
                    map (Write (final ++ putfile_tmp_ext)) blocks ++ tl) -> P o).
  { intros tl Htl Hin. destruct Hin as [<-|[<-|Hin]]; [exact P1|exact P2|].
    apply in_app_or in Hin. destruct Hin as [Hin|Hin].
    - apply in_map_iff in Hin. destruct Hin as (b & <- & _). apply P3.
    - apply Htl. exact Hin. }
  destruct oc.
  - rewrite upload_ops_done in Ho. unfold core_ops in Ho. apply (G _) in Ho; [exact Ho|].
    intros o' Ho'. cbn in Ho'. destruct Ho' as [<-|[<-|[<-|[]]]]; assumption.
  - rewrite upload_ops_err in Ho. unfold err_ops in Ho. apply (G _) in Ho; [exact Ho|].
    intros o' Ho'. cbn in Ho'. destruct Ho' as [<-|[<-|[]]]; assumption.
  - rewrite upload_ops_badblock, upload_ops_err in Ho. unfold err_ops in Ho. apply (G _) in Ho; [exact Ho|].
    intros o' Ho'. cbn in Ho'. destruct Ho' as [<-|[<-|[]]]; assumption.
Qed.

Lemma usession_gen : forall s final blocks oc k,
  wf_st s -> unshared s (final ++ putfile_tmp_ext) -> failed s = false -> followed s = false ->
  dsame s (run s (firstn k (upload_ops final blocks oc))) /\
  followed (run s (firstn k (upload_ops final blocks oc))) = false /\
  (forall q, q <> final ++ putfile_tmp_ext -> q <> final ->
     look (run s (firstn k (upload_ops final blocks oc))) q = look s q) /\
  (look (run s (firstn k (upload_ops final blocks oc))) final = look s final \/
   (oc = Done /\ look (run s (firstn k (upload_ops final blocks oc))) final = VFile (concat blocks))).
Proof.
  intros s final blocks oc k Hwf Hun Hf Hfl.
  assert (Hcase : names s (final ++ putfile_tmp_ext) = Some D \/ names s (final ++ putfile_tmp_ext) <> Some D).
  { destruct (names s (final ++ putfile_tmp_ext)) as [[i0|t0|]|]; [right|right|left|right]; (reflexivity || discriminate). }
  destruct Hcase as [Etmp|Hnd].
  { destruct (upload_tmp_is_directory s final blocks oc k Hf Etmp) as [[R|R] _]; rewrite R;
      (split; [apply dn_refl|split; [exact Hfl|split; [intros; reflexivity|left; reflexivity]]]). }
  split.
  { apply run_dsame. intros o a Ho Ha. apply In_firstn in Ho.
    rewrite (upload_ops_movable final blocks oc o a Ho Ha). exact Hnd. }
  assert (Hcl : clean s) by (split; assumption).
  assert (Hne : final <> final ++ putfile_tmp_ext) by (apply not_eq_sym, tmp_ext_neq).
  destruct oc.
  - destruct (names s final) as [[i|t|]|] eqn:Ef.
    + assert (Hndf : no_dir_at s final) by (unfold no_dir_at; rewrite Ef; discriminate).
      pose proof (upload_atomic s final blocks k Hndf Hwf Hun Hcl Hnd) as (Ha & Hb & _ & Hd). cbv zeta in *.
      split; [exact Hb|]. split; [exact Hd|]. destruct Ha as [Ha|Ha]; [left; exact Ha|right; split; [reflexivity|exact Ha]].
    + assert (Hndf : no_dir_at s final) by (unfold no_dir_at; rewrite Ef; discriminate).
      pose proof (upload_atomic s final blocks k Hndf Hwf Hun Hcl Hnd) as (Ha & Hb & _ & Hd). cbv zeta in *.
      split; [exact Hb|]. split; [exact Hd|]. destruct Ha as [Ha|Ha]; [left; exact Ha|right; split; [reflexivity|exact Ha]].
    + pose proof (upload_publish_failure s final blocks k Ef Hwf Hun Hcl Hnd) as (Ha & Hb & _). cbv zeta in *.
      split; [exact Hb|]. split; [intros q Hq _; apply Ha; exact Hq|]. left. apply Ha. exact Hne.
    + assert (Hndf : no_dir_at s final) by (unfold no_dir_at; rewrite Ef; discriminate).
      pose proof (upload_atomic s final blocks k Hndf Hwf Hun Hcl Hnd) as (Ha & Hb & _ & Hd). cbv zeta in *.
      split; [exact Hb|]. split; [exact Hd|]. destruct Ha as [Ha|Ha]; [left; exact Ha|right; split; [reflexivity|exact Ha]].
  - assert (Hoc : SrcError <> Done) by discriminate.
    pose proof (upload_interrupted SrcError s final blocks k Hoc Hwf Hun Hcl Hnd) as (Ha & Hb & _). cbv zeta in *.
    split; [exact Hb|]. split; [intros q Hq _; apply Ha; exact Hq|]. left. apply Ha. exact Hne.
  - assert (Hoc : BadBlock <> Done) by discriminate.
    pose proof (upload_interrupted BadBlock s final blocks k Hoc Hwf Hun Hcl Hnd) as (Ha & Hb & _). cbv zeta in *.
    split; [exact Hb|]. split; [intros q Hq _; apply Ha; exact Hq|]. left. apply Ha. exact Hne.
Qed.

Lemma usession : forall s final blocks oc k,
  Inv s -> failed s = false -> followed s = false ->
  Inv (run s (firstn k (upload_ops final blocks oc))) /\
  dsame s (run s (firstn k (upload_ops final blocks oc))) /\
  followed (run s (firstn k (upload_ops final blocks oc))) = false /\
  (forall q, q <> final ++ putfile_tmp_ext -> q <> final ->
     look (run s (firstn k (upload_ops final blocks oc))) q = look s q) /\
  (look (run s (firstn k (upload_ops final blocks oc))) final = look s final \/
   (oc = Done /\ look (run s (firstn k (upload_ops final blocks oc))) final = VFile (concat blocks))).
Proof.
  intros s final blocks oc k HI Hf Hfl. split; [apply run_inv; exact HI|].
  exact (usession_gen s final blocks oc k (Inv_wf _ HI) (Inv_unshared _ _ HI) Hf Hfl).
Qed.

(* ---------- what the history theorems need of an invariant: Inv has it, and so has the weaker InvT is_utmp ---------- *)
Definition good_inv (P : st -> Prop) : Prop :=
  (forall s, P s -> wf_st s) /\
  (forall s final, P s -> unshared s (final ++ putfile_tmp_ext)) /\
  (forall s final blocks oc k, P s -> P (reboot (run s (firstn k (upload_ops final blocks oc))))) /\
  (forall s p t, P s -> P (plant s p t)).

Lemma good_inv_Inv : good_inv Inv.
Proof.
  split; [exact Inv_wf|]. split; [intros s final H; apply Inv_unshared; exact H|].
  split; [intros s final blocks oc k H; exact (run_inv _ _ H)|exact plant_inv].
Qed.

Lemma upload_ops_keepsT : forall final blocks oc o, In o (upload_ops final blocks oc) -> keepsT is_utmp o.
Proof.
  intros final blocks oc.
  apply (upload_ops_forall (keepsT is_utmp) final blocks oc).
  - intros a b H. destruct H.
  - intros a b H. destruct H.
  - intros d a b H. destruct H.
  - intros a b H. destruct H.
  - intros a b [H|[]] _. injection H as <- _. exists final. reflexivity.
  - intros a b H. destruct H.
  - intros a b H. destruct H.
Qed.

Lemma good_inv_InvT : good_inv (InvT is_utmp).
Proof.
  split; [exact (InvT_wf is_utmp)|].
  split; [intros s final H; apply (InvT_unshared is_utmp); [exists final; reflexivity|exact H]|].
  split; [|exact (plant_invT is_utmp)].
  intros s final blocks oc k H. change (InvT is_utmp (run s (firstn k (upload_ops final blocks oc)))).
  apply run_invT; [|exact H]. intros o Ho. apply In_firstn in Ho. exact (upload_ops_keepsT final blocks oc o Ho).
Qed.

Lemma utmps_app : forall a b, utmps (a ++ b) = utmps a ++ utmps b.
Proof. intros. unfold utmps. apply flat_map_app. Qed.

Lemma uallowed_mono : forall s0 es e q v, uallowed s0 es q v -> uallowed s0 (es ++ [e]) q v.
Proof.
  intros s0 es e q v [H|[(t & Hi & H)|(bl & k & Hi & H)]].
  - left. exact H.
  - right. left. exists t. split; [apply in_or_app; left; exact Hi|exact H].
  - right. right. exists bl, k. split; [apply in_or_app; left; exact Hi|exact H].
Qed.

(* EVERY history of uploads (any names, any block lists, each one completed, interrupted or killed at any point),
   restarts on the leftover directory and symlinks planted between incarnations -- nothing ever goes through a
   symlink, directories stay, and every name that is not the temporary of one of the uploads shows its initial entry,
   a planted link, or the complete content of an upload sent under that name *)
Theorem uhistory_safe_gen : forall P, good_inv P -> forall s0 es,
  P s0 -> failed s0 = false -> followed s0 = false ->
  P (uhistory s0 es) /\ failed (uhistory s0 es) = false /\ followed (uhistory s0 es) = false /\
  dsame s0 (uhistory s0 es) /\
  (forall q, ~ In q (utmps es) -> uallowed s0 es q (look (uhistory s0 es) q)).
Proof.
  intros P (G1 & G2 & G3 & G4) s0 es HI Hf Hfl. induction es as [|e es IH] using rev_ind.
  - cbn. split; [exact HI|]. split; [exact Hf|]. split; [exact Hfl|]. split; [apply dn_refl|]. intros q _. left. reflexivity.
  - unfold uhistory in *. rewrite fold_left_app. cbn [fold_left].
    destruct IH as (I1 & I2 & I3 & I4 & I5).
    set (s1 := fold_left do_uevent es s0) in *.
    destruct e as [final blocks oc k|p t]; cbn [do_uevent].
    + destruct (usession_gen s1 final blocks oc k (G1 _ I1) (G2 _ final I1) I2 I3) as (J2 & J3 & J4 & J5).
      split; [exact (G3 s1 final blocks oc k I1)|]. split; [reflexivity|]. split; [exact J3|].
      split; [exact (dn_trans _ _ _ I4 J2)|].
      intros q Hq. rewrite look_reboot. rewrite utmps_app in Hq.
      assert (Hq1 : ~ In q (utmps es)) by (intros X; apply Hq; apply in_or_app; left; exact X).
      assert (Hq2 : q <> final ++ putfile_tmp_ext) by (intros ->; apply Hq; apply in_or_app; right; cbn; left; reflexivity).
      destruct (str_eqb q final) eqn:Eq.
      * apply str_eqb_eq in Eq. subst q. destruct J5 as [J5|[-> J5]].
        -- rewrite J5. apply uallowed_mono. apply I5. exact Hq1.
        -- rewrite J5. right. right. exists blocks, k. split; [apply in_or_app; right; left; reflexivity|reflexivity].
      * apply str_eqb_false_neq in Eq. rewrite (J4 q Hq2 Eq). apply uallowed_mono. apply I5. exact Hq1.
    + split; [apply G4; exact I1|].
      split; [unfold plant; destruct (names s1 p) as [[i|t'|]|]; exact I2|].
      split; [unfold plant; destruct (names s1 p) as [[i|t'|]|]; exact I3|].
      split; [exact (dn_trans _ _ _ I4 (plant_dsame s1 p t))|].
      intros q Hq. rewrite utmps_app in Hq. cbn in Hq. rewrite app_nil_r in Hq.
      destruct (str_eqb q p) eqn:Eq.
      * apply str_eqb_eq in Eq. subst q. unfold plant. destruct (names s1 p) as [[i|t'|]|] eqn:E.
        -- right. left. exists t. split; [apply in_or_app; right; left; reflexivity|]. unfold look. cbn [names]. rewrite upd_same. reflexivity.
        -- right. left. exists t. split; [apply in_or_app; right; left; reflexivity|]. unfold look. cbn [names]. rewrite upd_same. reflexivity.
        -- apply uallowed_mono. apply I5. exact Hq.
        -- right. left. exists t. split; [apply in_or_app; right; left; reflexivity|]. unfold look. cbn [names]. rewrite upd_same. reflexivity.
      * apply str_eqb_false_neq in Eq.
        assert (El : look (plant s1 p t) q = look s1 q).
        { unfold plant. destruct (names s1 p) as [[i|t'|]|]; try reflexivity;
            unfold look; cbn [names data]; rewrite upd_other by exact Eq; reflexivity. }
        rewrite El. apply uallowed_mono. apply I5. exact Hq.
Qed.

Theorem uhistory_safe : forall s0 es,
  Inv s0 -> failed s0 = false -> followed s0 = false ->
  Inv (uhistory s0 es) /\ failed (uhistory s0 es) = false /\ followed (uhistory s0 es) = false /\
  dsame s0 (uhistory s0 es) /\
  (forall q, ~ In q (utmps es) -> uallowed s0 es q (look (uhistory s0 es) q)).
Proof. exact (uhistory_safe_gen Inv good_inv_Inv). Qed.

(* ONE event, from any state that satisfies the invariant: a name that is not THIS upload's temporary keeps its entry, or
   is where the link was planted, or is the upload's final name and now shows the complete content.  The guard
   `q is not the temporary of this upload` is exact: see upload_name_is_temporary_refuted. *)
Theorem uevent_frame : forall P, good_inv P -> forall s e q,
  P s -> failed s = false -> followed s = false -> ~ In q (utmps [e]) ->
  look (do_uevent s e) q = look s q \/
  (exists t, e = UPlant q t /\ look (do_uevent s e) q = VLink t) \/
  (exists blocks k, e = UUpload q blocks Done k /\ look (do_uevent s e) q = VFile (concat blocks)).
Proof.
  intros P (G1 & G2 & _ & _) s e q HI Hf Hfl Hq. destruct e as [final blocks oc k|p t]; cbn [do_uevent].
  - destruct (usession_gen s final blocks oc k (G1 _ HI) (G2 _ final HI) Hf Hfl) as (_ & _ & J4 & J5). rewrite look_reboot.
    assert (Hq2 : q <> final ++ putfile_tmp_ext) by (intros ->; apply Hq; cbn; left; reflexivity).
    destruct (str_eqb q final) eqn:Eq.
    + apply str_eqb_eq in Eq. subst q. destruct J5 as [J5|[-> J5]]; [left; exact J5|].
      right. right. exists blocks, k. split; [reflexivity|exact J5].
    + apply str_eqb_false_neq in Eq. left. apply J4; assumption.
  - destruct (str_eqb q p) eqn:Eq.
    + apply str_eqb_eq in Eq. subst q. unfold plant. destruct (names s p) as [[i|t'|]|] eqn:E.
      * right. left. exists t. split; [reflexivity|]. unfold look. cbn [names]. rewrite upd_same. reflexivity.
      * right. left. exists t. split; [reflexivity|]. unfold look. cbn [names]. rewrite upd_same. reflexivity.
      * left. reflexivity.
      * right. left. exists t. split; [reflexivity|]. unfold look. cbn [names]. rewrite upd_same. reflexivity.
    + apply str_eqb_false_neq in Eq. left. unfold plant. destruct (names s p) as [[i|t'|]|]; try reflexivity;
        unfold look; cbn [names data]; rewrite upd_other by exact Eq; reflexivity.
Qed.

Lemma ufinals_app : forall a b, ufinals (a ++ b) = ufinals a ++ ufinals b.
Proof. intros. unfold ufinals. apply flat_map_app. Qed.

Lemma uhistory_snoc : forall s0 es e, uhistory s0 (es ++ [e]) = do_uevent (uhistory s0 es) e.
Proof. intros. unfold uhistory. rewrite fold_left_app. reflexivity. Qed.

(* ALL HISTORIES, at the FINAL names, under the exact guard `no final name is another upload's temporary`: each event of the
   history leaves every final name of the history as it was, or plants a link there, or publishes the complete content of an
   upload sent under that very name -- so a published file stays until something is sent (or planted) under its own name;
   and at the end every final name shows its initial entry, a planted link or the complete content of one of its uploads *)
Theorem uhistory_final_names : forall P, good_inv P -> forall s0 es1 e es2,
  P s0 -> failed s0 = false -> followed s0 = false -> no_name_collision (es1 ++ e :: es2) ->
  forall f, In f (ufinals (es1 ++ e :: es2)) ->
    (look (uhistory s0 (es1 ++ [e])) f = look (uhistory s0 es1) f \/
     (exists t, e = UPlant f t /\ look (uhistory s0 (es1 ++ [e])) f = VLink t) \/
     (exists blocks k, e = UUpload f blocks Done k /\ look (uhistory s0 (es1 ++ [e])) f = VFile (concat blocks))) /\
    uallowed s0 (es1 ++ e :: es2) f (look (uhistory s0 (es1 ++ e :: es2)) f).
Proof.
  intros P GP s0 es1 e es2 HI Hf Hfl Hg f Hin.
  pose proof (Hg f Hin) as Hnt. split.
  - destruct (uhistory_safe_gen P GP s0 es1 HI Hf Hfl) as (I1 & I2 & I3 & _). rewrite uhistory_snoc.
    apply (uevent_frame P GP); try assumption.
    intros X. apply Hnt. rewrite utmps_app. apply in_or_app. right.
    change (e :: es2) with ([e] ++ es2). rewrite utmps_app. apply in_or_app. left. exact X.
  - destruct (uhistory_safe_gen P GP s0 (es1 ++ e :: es2) HI Hf Hfl) as (_ & _ & _ & _ & I5). apply I5. exact Hnt.
Qed.

(* WITHOUT the guard: `x.partial` is uploaded completely (the call succeeds, the file is published); then `x` is uploaded --
   (a) the source fails after one block: the error path removes `x.partial`, the published file is GONE (directory empty);
   (b) the process is killed after the first write: `x.partial` holds a prefix of ANOTHER upload under a published final name
       (here the empty prefix: what was written is still in the dead process's buffer), which no clause of `uallowed` allows.
   Sequential, names only, no local actor.  Replayed on the code: oracle/upload-name-is-another-uploads-temporary. *)
Definition ex_complete : list N := [67; 79; 77; 80; 76; 69; 84; 69]%N.        (* "COMPLETE" *)
Theorem upload_name_is_temporary_refuted :
  let xp := ex_final ++ putfile_tmp_ext in
  let s0 := mk_st [] [] in
  let up1 := UUpload xp [ex_complete] Done 99%nat in
  let err := UUpload ex_final [[97; 97]]%N SrcError 99%nat in
  let kill := UUpload ex_final [[97; 97]; [98; 98]]%N Done 3%nat in
  Inv s0 /\ clean s0 /\
  look (uhistory s0 [up1]) xp = VFile ex_complete /\ names (uhistory s0 [up1]) (xp ++ putfile_tmp_ext) = None /\
  In xp (ufinals [up1; err]) /\ In xp (utmps [up1; err]) /\ ~ no_name_collision [up1; err] /\ ~ no_name_collision [up1; kill] /\
  look (uhistory s0 [up1; err]) xp = VNone /\ look (uhistory s0 [up1; err]) ex_final = VNone /\
  look (uhistory s0 [up1; kill]) xp = VFile [] /\
  ~ uallowed s0 [up1; kill] xp (look (uhistory s0 [up1; kill]) xp).
Proof.
  cbv zeta.
  assert (Hin1 : forall e, In (ex_final ++ putfile_tmp_ext) (ufinals [UUpload (ex_final ++ putfile_tmp_ext) [ex_complete] Done 99%nat; e]))
    by (intros e; cbn; left; reflexivity).
  assert (Hin2 : forall b oc k, In (ex_final ++ putfile_tmp_ext)
            (utmps [UUpload (ex_final ++ putfile_tmp_ext) [ex_complete] Done 99%nat; UUpload ex_final b oc k]))
    by (intros; cbn; right; left; reflexivity).
  split; [split; intros p; intros; discriminate|]. split; [split; reflexivity|].
  split; [vm_compute; reflexivity|]. split; [vm_compute; reflexivity|].
  split; [apply Hin1|]. split; [apply Hin2|].
  split; [intros H; exact (H _ (Hin1 _) (Hin2 _ _ _))|]. split; [intros H; exact (H _ (Hin1 _) (Hin2 _ _ _))|].
  split; [vm_compute; reflexivity|]. split; [vm_compute; reflexivity|]. split; [vm_compute; reflexivity|].
  assert (E : look (uhistory (mk_st [] []) [UUpload (ex_final ++ putfile_tmp_ext) [ex_complete] Done 99%nat;
                                            UUpload ex_final [[97; 97]; [98; 98]]%N Done 3%nat]) (ex_final ++ putfile_tmp_ext) = VFile [])
    by (vm_compute; reflexivity).
  rewrite E. intros [H|[(t & _ & H)|(bl & k & Hin & H)]].
  - vm_compute in H. discriminate.
  - discriminate.
  - destruct Hin as [Hin|[Hin|[]]].
    + injection Hin as <- _. vm_compute in H. discriminate.
    + injection Hin as Hx _. vm_compute in Hx. discriminate Hx.
Qed.

(* ... and a history inside the guard (non-vacuity of uhistory_final_names): ex_hist below uploads one name only *)

(* recovery: whatever happened before (crashes that left `<name>.partial` behind, planted links), an upload that runs to
   completion publishes the complete file and leaves no temporary *)
Theorem uhistory_recovers : forall P, good_inv P -> forall s0 es final blocks,
  P s0 -> failed s0 = false -> followed s0 = false ->
  names s0 (final ++ putfile_tmp_ext) <> Some D -> names s0 final <> Some D ->
  look (run (uhistory s0 es) (upload_ops final blocks Done)) final = VFile (concat blocks) /\
  names (run (uhistory s0 es) (upload_ops final blocks Done)) (final ++ putfile_tmp_ext) = None /\
  failed (run (uhistory s0 es) (upload_ops final blocks Done)) = false.
Proof.
  intros P GP s0 es final blocks HI Hf Hfl Hnt Hnf.
  destruct (uhistory_safe_gen P GP s0 es HI Hf Hfl) as (I1 & I2 & I3 & I4 & _).
  destruct GP as (G1 & G2 & _ & _).
  apply upload_completes.
  - intros E. apply Hnf. apply (I4 _). exact E.
  - apply G1. exact I1.
  - apply G2. exact I1.
  - split; assumption.
  - intros E. apply Hnt. apply (I4 _). exact E.
Qed.

(* ---------- the registry ---------- *)
Lemma registry_prefix_followed : forall s0 basedir chunks k,
  wf_st s0 -> unshared s0 (registry_final basedir ++ registry_tmp_ext) -> clean s0 ->
  no_link_at s0 (registry_final basedir ++ registry_tmp_ext) -> no_dir_at s0 (registry_final basedir ++ registry_tmp_ext) ->
  no_dir_at s0 (registry_final basedir) ->
  followed (run s0 (firstn k (registry_ops basedir chunks))) = false.
Proof.
  intros s0 basedir chunks k Hwf Hun Hcl Hnl Hnd Hndf.
  assert (Hne : registry_final basedir ++ registry_tmp_ext <> registry_final basedir) by (apply ext_neq; discriminate).
  rewrite registry_ops_core. rewrite firstn_firstn.
  pose proof (core_prefix _ s0 _ _ chunks (Nat.min k (List.length chunks + 3)) (moves_rename _ _) Hndf Hne Hwf Hun Hcl Hnl Hnd)
    as (_ & Hb & _). exact Hb.
Qed.

(* the registry's temporary is the one name that must not be a hard link of another entry (weaker invariant InvT) *)
Definition is_rtmp (basedir : str) (p : str) : Prop := p = registry_final basedir ++ registry_tmp_ext.

Lemma renames_movable : forall o a b, In (a, b) (renames o) -> In a (movable o).
Proof. intros o a b H. destruct o; cbn [renames] in H; try (destruct H; fail); destruct H as [H|[]]; injection H as <- _; cbn; auto. Qed.

Lemma registry_ops_keepsT : forall basedir chunks o, In o (registry_ops basedir chunks) -> keepsT (is_rtmp basedir) o.
Proof.
  intros basedir chunks o Ho a b Hab _. apply renames_movable in Hab.
  exact (proj1 (registry_ops_shape basedir chunks o Ho) a Hab).
Qed.

Definition rstate_ok (basedir : str) (s : st) : Prop :=
  InvT (is_rtmp basedir) s /\ clean s /\ no_link_at s (registry_final basedir ++ registry_tmp_ext) /\
  no_dir_at s (registry_final basedir ++ registry_tmp_ext) /\ no_dir_at s (registry_final basedir).

Lemma rsession : forall basedir s chunks k f, rstate_ok basedir s ->
  rstate_ok basedir (do_revent basedir s (RSave chunks k f)) /\
  (forall q, q <> registry_final basedir ++ registry_tmp_ext -> q <> registry_final basedir ->
     look (do_revent basedir s (RSave chunks k f)) q = look s q) /\
  (look (do_revent basedir s (RSave chunks k f)) (registry_final basedir) = look s (registry_final basedir) \/
   look (do_revent basedir s (RSave chunks k f)) (registry_final basedir) = VFile (concat chunks)).
Proof.
  intros basedir s chunks k f (HI & Hcl & Hnl & Hnd & Hndf).
  pose proof (InvT_wf _ _ HI) as Hwf.
  pose proof (InvT_unshared (is_rtmp basedir) _ (registry_final basedir ++ registry_tmp_ext) eq_refl HI) as Hun.
  assert (Hne : registry_final basedir ++ registry_tmp_ext <> registry_final basedir) by (apply ext_neq; discriminate).
  pose proof (registry_atomic s basedir chunks k Hwf Hun Hcl Hnl Hnd Hndf) as (Ha & _ & Hd & _). cbv zeta in *.
  pose proof (registry_prefix_followed s basedir chunks k Hwf Hun Hcl Hnl Hnd Hndf) as Hfo.
  assert (Hds : dsame s (run s (firstn k (registry_ops basedir chunks)))).
  { apply run_dsame. intros o a Ho Ha' . apply In_firstn in Ho.
    rewrite (proj1 (registry_ops_shape basedir chunks o Ho) a Ha'). exact Hnd. }
  assert (Hln : no_link_at (run s (firstn k (registry_ops basedir chunks))) (registry_final basedir ++ registry_tmp_ext)).
  { apply run_nolink; [|exact Hnl]. intros o Ho Hin. apply In_firstn in Ho.
    apply Hne. exact (proj2 (registry_ops_shape basedir chunks o Ho) _ Hin). }
  assert (Hprefix : rstate_ok basedir (reboot (run s (firstn k (registry_ops basedir chunks))))).
  { split; [change (InvT (is_rtmp basedir) (run s (firstn k (registry_ops basedir chunks)))); apply run_invT; [|exact HI];
            intros o Ho; apply In_firstn in Ho; exact (registry_ops_keepsT basedir chunks o Ho)|].
    split; [split; [reflexivity|exact Hfo]|]. split; [exact Hln|].
    split; [intros E; apply Hnd; apply (Hds _); exact E|intros E; apply Hndf; apply (Hds _); exact E]. }
  destruct f; cbn [do_revent].
  - (* the k-th operation fails *)
    unfold run_fault. destruct (nth_error (registry_ops basedir chunks) k) as [o|] eqn:E.
    + pose proof (registry_ops_plain basedir chunks) as Hp. rewrite forallb_forall in Hp.
      assert (Hpo : plain o = true) by (apply Hp; eapply nth_error_In; eauto).
      split; [|split].
      * destruct Hprefix as (P1 & (_ & P2) & P3 & P4 & P5).
        split; [apply (step_fault_invT (is_rtmp basedir)); exact P1|]. split; [split; [reflexivity|]|].
        { cbn [reboot followed]. rewrite step_fault_followed. exact Hfo. }
        split; [apply step_fault_nolink; exact Hln|].
        split; [intros X; apply P4; exact (proj1 (step_fault_dsame _ o _) X)
               |intros X; apply P5; exact (proj1 (step_fault_dsame _ o _) X)].
      * intros q Hq Hq2. rewrite look_reboot, step_fault_plain by exact Hpo. apply Hd; assumption.
      * rewrite look_reboot, step_fault_plain by exact Hpo. exact Ha.
    + (* k beyond the end: no fault *)
      assert (Hall : firstn k (registry_ops basedir chunks) = registry_ops basedir chunks).
      { apply firstn_all2. apply nth_error_None. exact E. }
      rewrite Hall in *. split; [exact Hprefix|]. split; [intros q Hq Hq2; rewrite look_reboot; apply Hd; assumption|].
      rewrite look_reboot. exact Ha.
  - split; [exact Hprefix|]. split; [intros q Hq Hq2; rewrite look_reboot; apply Hd; assumption|].
    rewrite look_reboot. exact Ha.
Qed.

Lemma rallowed_mono : forall s0 es e q v, rallowed s0 es q v -> rallowed s0 (es ++ [e]) q v.
Proof.
  intros s0 es e q v [H|[(t & Hi & H)|(c & k & f & Hi & H)]].
  - left. exact H.
  - right. left. exists t. split; [apply in_or_app; left; exact Hi|exact H].
  - right. right. exists c, k, f. split; [apply in_or_app; left; exact Hi|exact H].
Qed.

(* EVERY history of registry rewrites (each one killed at any point, or with any system call failing, or completing),
   restarts on the leftover directory (a stale services.json.tmp included) and links planted anywhere but at the
   temporary name: services.json always shows its initial version, a planted link, or the COMPLETE text of one of the
   rewrites; nothing else changes *)
Theorem rhistory_safe : forall basedir s0 es, rstate_ok basedir s0 ->
  (forall p t, In (RPlant p t) es -> p <> registry_final basedir ++ registry_tmp_ext) ->
  rstate_ok basedir (rhistory basedir s0 es) /\
  (forall q, q <> registry_final basedir ++ registry_tmp_ext ->
     rallowed s0 es q (look (rhistory basedir s0 es) q)).
Proof.
  intros basedir s0 es H0. induction es as [|e es IH] using rev_ind; intros Hp.
  - cbn. split; [exact H0|]. intros q _. left. reflexivity.
  - unfold rhistory in *. rewrite fold_left_app. cbn [fold_left].
    destruct IH as (I1 & I2). { intros p t Hi. apply (Hp p t). apply in_or_app. left. exact Hi. }
    set (s1 := fold_left (do_revent basedir) es s0) in *.
    destruct e as [chunks k f|p t].
    + destruct (rsession basedir s1 chunks k f I1) as (J1 & J2 & J3).
      split; [exact J1|]. intros q Hq. destruct (str_eqb q (registry_final basedir)) eqn:Eq.
      * apply str_eqb_eq in Eq. subst q. destruct J3 as [J3|J3]; rewrite J3.
        -- apply rallowed_mono. apply I2. exact Hq.
        -- right. right. exists chunks, k, f. split; [apply in_or_app; right; left; reflexivity|reflexivity].
      * apply str_eqb_false_neq in Eq. rewrite (J2 q Hq Eq). apply rallowed_mono. apply I2. exact Hq.
    + assert (Hpt : p <> registry_final basedir ++ registry_tmp_ext) by (apply (Hp p t); apply in_or_app; right; left; reflexivity).
      cbn [do_revent]. destruct I1 as (K1 & (K2a & K2b) & K3 & K4 & K5).
      split.
      * split; [apply (plant_invT (is_rtmp basedir)); exact K1|].
        split; [split; unfold plant; destruct (names s1 p) as [[i|t'|]|]; assumption|].
        split; [|split; [intros X; apply K4; apply (plant_dsame s1 p t _); exact X
                        |intros X; apply K5; apply (plant_dsame s1 p t _); exact X]].
        unfold plant. destruct (names s1 p) as [[i|t'|]|]; try exact K3;
          unfold no_link_at; cbn [names]; (apply nl_set; [intros X; exfalso; apply Hpt; symmetry; exact X|exact K3]).
      * intros q Hq. destruct (str_eqb q p) eqn:Eq.
        -- apply str_eqb_eq in Eq. subst q. unfold plant. destruct (names s1 p) as [[i|t'|]|] eqn:E.
           ++ right. left. exists t. split; [apply in_or_app; right; left; reflexivity|]. unfold look. cbn [names]. rewrite upd_same. reflexivity.
           ++ right. left. exists t. split; [apply in_or_app; right; left; reflexivity|]. unfold look. cbn [names]. rewrite upd_same. reflexivity.
           ++ apply rallowed_mono. apply I2. exact Hq.
           ++ right. left. exists t. split; [apply in_or_app; right; left; reflexivity|]. unfold look. cbn [names]. rewrite upd_same. reflexivity.
        -- apply str_eqb_false_neq in Eq.
           assert (El : look (plant s1 p t) q = look s1 q).
           { unfold plant. destruct (names s1 p) as [[i|t'|]|]; try reflexivity;
               unfold look; cbn [names data]; rewrite upd_other by exact Eq; reflexivity. }
           rewrite El. apply rallowed_mono. apply I2. exact Hq.
Qed.

(* load_service_data reads exactly the file save_service_data publishes *)
Lemma registry_load_same_file : registry_load_basename = registry_basename.
Proof. reflexivity. Qed.

(* save / load as a PAIR: whatever prefix of a rewrite was executed, or whichever of its system calls failed, what
   load_service_data reads back is what it read before, or the complete new text *)
Theorem registry_save_load : forall s0 basedir chunks k f, rstate_ok basedir s0 ->
  registry_load (do_revent basedir s0 (RSave chunks k f)) basedir = registry_load s0 basedir \/
  registry_load (do_revent basedir s0 (RSave chunks k f)) basedir = LoadedJson (concat chunks).
Proof.
  intros s0 basedir chunks k f H0. destruct (rsession basedir s0 chunks k f H0) as (_ & _ & J).
  unfold registry_load. rewrite registry_load_same_file. fold (registry_final basedir).
  destruct J as [J|J]; rewrite J; [left; reflexivity|right; reflexivity].
Qed.

(* recovery: after ANY history (a stale services.json.tmp may be lying around), a rewrite that runs to completion is
   what load_service_data reads, and the temporary is gone *)
Theorem rhistory_recovers : forall basedir s0 es chunks, rstate_ok basedir s0 ->
  (forall p t, In (RPlant p t) es -> p <> registry_final basedir ++ registry_tmp_ext) ->
  registry_load (run (rhistory basedir s0 es) (registry_ops basedir chunks)) basedir = LoadedJson (concat chunks) /\
  names (run (rhistory basedir s0 es) (registry_ops basedir chunks)) (registry_final basedir ++ registry_tmp_ext) = None.
Proof.
  intros basedir s0 es chunks H0 Hp. destruct (rhistory_safe basedir s0 es H0 Hp) as ((HI & Hcl & Hnl & Hnd & Hndf) & _).
  pose proof (registry_atomic _ basedir chunks (List.length (registry_ops basedir chunks)) (InvT_wf _ _ HI)
                (InvT_unshared (is_rtmp basedir) _ _ eq_refl HI) Hcl Hnl Hnd Hndf) as (_ & _ & _ & He). cbv zeta in He. rewrite firstn_all in He.
  destruct (He (le_n _)) as [H1 H2]. split; [|exact H2].
  unfold registry_load. rewrite registry_load_same_file. fold (registry_final basedir). rewrite H1. reflexivity.
Qed.

(* ---------- a link planted WHILE an upload is running (between the islink() test and open()) is followed: the
   containment sentence does not hold against a concurrent LOCAL actor with write access to the directory.  The
   property speaks of what the REMOTE peer supplies; this is recorded as outside it. ---------- *)
Theorem concurrent_symlink_refuted :
  let tmp := ex_final ++ putfile_tmp_ext in
  let s0 := mk_st [] [] in
  Inv s0 /\ clean s0 /\
  followed (run (plant (run s0 [UnlinkIfLink tmp]) tmp [47; 101; 116; 99; 47; 110; 101; 119]%N) [Open tmp]) = true /\
  followed (run (plant s0 tmp [47; 101; 116; 99; 47; 110; 101; 119]%N) [UnlinkIfLink tmp; Open tmp]) = false.
Proof.
  cbv zeta. split; [|split; [split; reflexivity|split; vm_compute; reflexivity]].
  split; intros p; intros; discriminate.
Qed.

(* ---------- non-vacuity: the invariant and a history with a crash, a planted link and a recovery ---------- *)
Lemma mk_st_inv1 : forall p c, Inv (mk_st [(p, F 0%nat)] [c]).
Proof.
  intros p c. split.
  - intros q i. unfold mk_st. cbn [names next find fst snd]. destruct (str_eqb p q); [|discriminate].
    intros H. injection H as <-. cbn. lia.
  - intros a b i. unfold mk_st. cbn [names find fst snd].
    destruct (str_eqb p a) eqn:Ea; [|discriminate]. destruct (str_eqb p b) eqn:Eb; [|discriminate].
    intros _ _. apply str_eqb_eq in Ea, Eb. congruence.
Qed.

Definition ex_hist : list uevent :=
  [UUpload ex_final [[97]; [98]]%N Done 4%nat;                         (* killed after the first block: x.partial is left *)
   UPlant (ex_final ++ putfile_tmp_ext) [47; 101; 116; 99]%N;         (* the leftover is replaced by a link to /etc *)
   UUpload ex_final [[99]]%N SrcError 9%nat;                           (* interrupted upload *)
   UUpload ex_final [[100]; [101]]%N Done 9%nat].                      (* complete upload *)

Example ex_hist_runs :
  let s0 := mk_st [(ex_final, F 0%nat)] [[111; 108; 100]%N] in
  map (fun n => code_view (look (uhistory s0 (firstn n ex_hist)) ex_final)) (seq 0%nat 5%nat)
    = [[2; 111; 108; 100]; [2; 111; 108; 100]; [2; 111; 108; 100]; [2; 111; 108; 100]; [2; 100; 101]]%N /\
  map (fun n => code_view (look (uhistory s0 (firstn n ex_hist)) (ex_final ++ putfile_tmp_ext))) (seq 0%nat 5%nat)
    = [[0]; [2]; [1; 47; 101; 116; 99]; [0]; [0]]%N /\
  followed (uhistory s0 ex_hist) = false /\ Inv s0.
Proof.
  cbv zeta. split; [vm_compute; reflexivity|]. split; [vm_compute; reflexivity|]. split; [vm_compute; reflexivity|].
  apply mk_st_inv1.
Qed.

(* non-vacuity of the weaker invariant: two entries that are hard links of each other (neither is a temporary): InvT holds,
   Inv does not; the history theorems apply to such a directory *)
Lemma not_utmp : forall p, hd 0%N (rev p) <> hd 0%N (rev putfile_tmp_ext) -> ~ is_utmp p.
Proof.
  intros p H [f E]. apply H. rewrite E, rev_app_distr.
  destruct (rev putfile_tmp_ext) eqn:R; [vm_compute in R; discriminate|reflexivity].
Qed.

Definition ex_hardlinks : st := mk_st [(ex_base ++ [47; 97]%N, F 0%nat); (ex_base ++ [47; 98]%N, F 0%nat)] [[111]%N].
Example ex_hardlinks_ok :
  InvT is_utmp ex_hardlinks /\ ~ Inv ex_hardlinks /\ failed ex_hardlinks = false /\ followed ex_hardlinks = false /\
  look (uhistory ex_hardlinks ex_hist) (ex_base ++ [47; 97]%N) = VFile [111]%N /\
  look (uhistory ex_hardlinks ex_hist) ex_final = VFile [100; 101]%N.
Proof.
  assert (Na : ~ is_utmp (ex_base ++ [47; 97]%N)) by (apply not_utmp; vm_compute; discriminate).
  assert (Nb : ~ is_utmp (ex_base ++ [47; 98]%N)) by (apply not_utmp; vm_compute; discriminate).
  split; [|split; [|split; [reflexivity|split; [reflexivity|split; vm_compute; reflexivity]]]].
  - split.
    + intros p i. unfold ex_hardlinks, mk_st. cbn [names next find fst snd].
      destruct (str_eqb (ex_base ++ [47; 97]%N) p); [intros H; injection H as <-; cbn; lia|].
      destruct (str_eqb (ex_base ++ [47; 98]%N) p); [intros H; injection H as <-; cbn; lia|discriminate].
    + intros p q i Tp. unfold ex_hardlinks, mk_st. cbn [names find fst snd].
      destruct (str_eqb (ex_base ++ [47; 97]%N) p) eqn:Ea; [apply str_eqb_eq in Ea; subst p; contradiction|].
      destruct (str_eqb (ex_base ++ [47; 98]%N) p) eqn:Eb; [apply str_eqb_eq in Eb; subst p; contradiction|discriminate].
  - intros [_ H]. assert (E : ex_base ++ [47; 97]%N = ex_base ++ [47; 98]%N) by (apply (H _ _ 0%nat); vm_compute; reflexivity).
    vm_compute in E. discriminate.
Qed.

Example ex_hist_no_collision : no_name_collision ex_hist /\ In ex_final (ufinals ex_hist).
Proof.
  split; [|cbn; left; reflexivity].
  intros f Hf Ht. cbn in Hf, Ht.
  assert (Ef : f = ex_final) by (destruct Hf as [<-|[<-|[<-|[]]]]; reflexivity).
  assert (Et : f = ex_final ++ putfile_tmp_ext) by (destruct Ht as [<-|[<-|[<-|[]]]]; reflexivity).
  rewrite Ef in Et. exact (tmp_ext_neq ex_final (eq_sym Et)).
Qed.

(* ---------- the read paths that come from a directory listing ---------- *)
Lemma join_wf_base : forall base c, wf_base base -> goodb c = true -> join base c = base ++ sep :: c.
Proof.
  intros base c (comps & Hwf & ->) Hg. apply join_base; [exact Hwf|]. apply (goodb_parts _ Hg).
Qed.

(* every file list_incident_names reports (and get_incident_trigger then opens) is an entry of the log directory
   itself, whatever `since` the remote peer sends *)
Theorem listing_contained : forall base listing since n p, wf_base base ->
  (forall fn, In fn listing -> goodb fn = true) ->
  In (n, p) (list_incidents base listing since) ->
  inside base p /\ exists fn, In fn listing /\ p = base ++ sep :: fn /\ prefixb listing_prefix fn = true.
Proof.
  intros base listing since n p Hb Hl Hin. unfold list_incidents in Hin. apply in_flat_map in Hin.
  destruct Hin as (fn & Hfn & Hin).
  destruct (prefixb listing_prefix fn) eqn:Ep; [|destruct Hin]. cbn [andb] in Hin.
  destruct (negb (suffixb listing_skip_suffix fn)); [|destruct Hin].
  cbv zeta in Hin. destruct (str_ltb since (trim fn listing_trim)); [|destruct Hin].
  destruct Hin as [Hin|[]]. injection Hin as _ <-.
  rewrite (join_wf_base base fn Hb (Hl fn Hfn)).
  split; [exists fn; split; [apply Hl; exact Hfn|reflexivity]|]. exists fn. auto.
Qed.

(* ... and nothing is reported that `since` excludes *)
Theorem listing_since : forall base listing since n p,
  In (n, p) (list_incidents base listing since) -> str_ltb since n = true.
Proof.
  intros base listing since n p Hin. unfold list_incidents in Hin. apply in_flat_map in Hin.
  destruct Hin as (fn & _ & Hin).
  destruct (prefixb listing_prefix fn && negb (suffixb listing_skip_suffix fn)); [|destruct Hin].
  cbv zeta in Hin. destruct (str_ltb since (trim fn listing_trim)) eqn:E; [|destruct Hin].
  destruct Hin as [Hin|[]]. injection Hin as <- _. exact E.
Qed.

(* both files the gatherer writes for an incident -- the savefile named after the remote-supplied incident name and the
   `latest` marker -- are entries of its own directory *)
Theorem gatherer_writes_contained : forall cwd base name l q, wf_base base ->
  gatherer_writes cwd base name = Some l -> In q l -> inside base q.
Proof.
  intros cwd base name l q Hb H Hq. unfold gatherer_writes in H.
  destruct (gatherer_path cwd base name) as [p|] eqn:Hp; [|discriminate]. injection H as <-.
  destruct Hq as [<-|[<-|[]]].
  - eapply gatherer_contained; eauto.
  - assert (Hg : goodb gatherer_latest = true) by reflexivity.
    rewrite (join_wf_base base _ Hb Hg). exists gatherer_latest. auto.
Qed.

Example listing_example :
  list_incidents ex_base [[105; 110; 99; 105; 100; 101; 110; 116; 45; 50; 46; 102; 108; 111; 103; 46; 98; 122; 50];   (* incident-2.flog.bz2 *)
                          [105; 110; 99; 105; 100; 101; 110; 116; 45; 49; 46; 102; 108; 111; 103];                     (* incident-1.flog *)
                          [105; 110; 99; 105; 100; 101; 110; 116; 45; 51; 46; 116; 109; 112];                          (* incident-3.tmp *)
                          [120]]%N
                 [105; 110; 99; 105; 100; 101; 110; 116; 45; 49]%N                                                     (* since incident-1 *)
  = [([105; 110; 99; 105; 100; 101; 110; 116; 45; 50],
      ex_base ++ [47; 105; 110; 99; 105; 100; 101; 110; 116; 45; 50; 46; 102; 108; 111; 103; 46; 98; 122; 50])]%N.
Proof. vm_compute. reflexivity. Qed.

(* non-vacuity of the registry theorems: an initial state with an old registry, and a history with a kill that leaves
   services.json.tmp behind, a failing rename, and a recovery *)
Definition ex_rs0 : st := mk_st [(registry_final ex_base, F 0%nat)] [[111; 108; 100]%N].
Example ex_rstate_ok : rstate_ok ex_base ex_rs0.
Proof.
  split; [apply Inv_InvT; apply mk_st_inv1|]. split; [split; reflexivity|].
  split; [intros t H; vm_compute in H; discriminate|]. split; intros H; vm_compute in H; discriminate.
Qed.

Definition ex_rhist : list revent :=
  [RSave [[110]; [101]; [119]]%N 3%nat false;      (* killed after two of three chunks: services.json.tmp is left *)
   RSave [[120]]%N 3%nat true;                      (* the rename fails *)
   RPlant (ex_base ++ [47; 122])%N [47; 101]%N;     (* a link planted next to the registry *)
   RSave [[110]; [50]]%N 9%nat false].              (* complete rewrite *)

Example ex_rhist_runs :
  map (fun n => code_view (look (rhistory ex_base ex_rs0 (firstn n ex_rhist)) (registry_final ex_base))) (seq 0%nat 5%nat)
    = [[2; 111; 108; 100]; [2; 111; 108; 100]; [2; 111; 108; 100]; [2; 111; 108; 100]; [2; 110; 50]]%N /\
  map (fun n => kind_of (look (rhistory ex_base ex_rs0 (firstn n ex_rhist)) (registry_final ex_base ++ registry_tmp_ext))) (seq 0%nat 5%nat)
    = [[0]; [2]; [2]; [2]; [0]]%N /\
  (forall p t, In (RPlant p t) ex_rhist -> p <> registry_final ex_base ++ registry_tmp_ext).
Proof.
  split; [vm_compute; reflexivity|]. split; [vm_compute; reflexivity|].
  intros p t H. cbn in H. destruct H as [H|[H|[H|[H|[]]]]]; try discriminate. injection H as <- _. vm_compute. discriminate.
Qed.

(* ---------- physical containment of the gatherer's writes / the publisher's reads ---------- *)
Lemma write_ops_prefix_of_err : forall p chunks,
  Open p :: map (Write p) chunks ++ [Close p] = firstn (List.length chunks + 2) (err_ops p chunks).
Proof.
  intros. unfold err_ops. replace (List.length chunks + 2)%nat with (S (List.length chunks + 1)) by lia. cbn [firstn]. f_equal.
  rewrite firstn_app, map_length. rewrite firstn_all2 by (rewrite map_length; lia).
  replace (List.length chunks + 1 - List.length chunks)%nat with 1%nat by lia. reflexivity.
Qed.

Lemma write_ops_movable : forall g p chunks o a, In o (file_write_ops g p chunks) -> In a (movable o) -> False.
Proof.
  intros g p chunks o a Ho Ha. unfold file_write_ops in Ho. apply in_app_or in Ho. destruct Ho as [Ho|Ho].
  - destruct g; [destruct Ho as [<-|[]]; destruct Ha|destruct Ho].
  - destruct Ho as [<-|Ho]; [destruct Ha|]. apply in_app_or in Ho. destruct Ho as [Ho|Ho].
    + apply in_map_iff in Ho. destruct Ho as (b & <- & _). destruct Ha.
    + destruct Ho as [<-|[]]. destruct Ha.
Qed.

(* WITH the guard: after any prefix nothing went through a symlink, nothing failed, only p changed *)
Lemma write_guarded_safe : forall (T : str -> Prop) s p chunks k, T p ->
  InvT T s -> failed s = false -> followed s = false -> names s p <> Some D ->
  followed (run s (firstn k (file_write_ops true p chunks))) = false /\
  failed (run s (firstn k (file_write_ops true p chunks))) = false /\
  InvT T (run s (firstn k (file_write_ops true p chunks))) /\
  dsame s (run s (firstn k (file_write_ops true p chunks))) /\
  (forall q, q <> p -> look (run s (firstn k (file_write_ops true p chunks))) q = look s q).
Proof.
  intros T s p chunks k Tp HI Hf Hfl Hnd.
  assert (HI' : InvT T (run s (firstn k (file_write_ops true p chunks)))).
  { apply run_invT; [|exact HI]. intros o Ho a b Hab _. apply In_firstn in Ho. apply renames_movable in Hab.
    exfalso. exact (write_ops_movable _ _ _ _ _ Ho Hab). }
  assert (Hds : dsame s (run s (firstn k (file_write_ops true p chunks)))).
  { apply run_dsame. intros o a Ho Ha. apply In_firstn in Ho. exfalso. exact (write_ops_movable _ _ _ _ _ Ho Ha). }
  assert (Eops : file_write_ops true p chunks = UnlinkIfLink p :: (Open p :: map (Write p) chunks ++ [Close p])) by reflexivity.
  rewrite Eops in *. clear Eops.
  destruct k as [|k];
    [cbn [firstn run fold_left]; split; [exact Hfl|split; [exact Hf|split; [exact HI|split; [apply dn_refl|reflexivity]]]]|].
  cbn [firstn] in *. rewrite run_cons in *.
  destruct (unlink_if_link_facts s p (InvT_wf _ _ HI) (InvT_unshared T _ _ Tp HI) (conj Hf Hfl) Hnd) as (Hwf' & Hun' & Hcl' & Hnl' & Hnd' & Hlk).
  cbv zeta in *. rewrite write_ops_prefix_of_err in *. rewrite firstn_firstn in *.
  pose proof (err_prefix _ p chunks (Nat.min k (List.length chunks + 2)) Hwf' Hun' Hcl' Hnl' Hnd') as (Ha & Hb & Hc & _).
  cbv zeta in *. split; [exact Hb|]. split; [exact Hc|]. split; [exact HI'|]. split; [exact Hds|].
  intros q Hq. rewrite (Ha q Hq). apply Hlk. exact Hq.
Qed.

(* WITHOUT it: a link at the name is followed *)
Lemma write_unguarded_follows : forall s p t chunks, failed s = false -> names s p = Some (L t) ->
  followed (run s (file_write_ops false p chunks)) = true /\ failed (run s (file_write_ops false p chunks)) = true.
Proof.
  intros s p t chunks Hf E. unfold file_write_ops. cbn [app]. rewrite run_cons.
  assert (E1 : step s (Open p) = follow s) by (unfold step; rewrite Hf, E; reflexivity).
  rewrite E1, run_failed by reflexivity. split; reflexivity.
Qed.

(* the gatherer's two writes for an accepted incident name: contained PHYSICALLY if and only if both opens are guarded.
   Flag-keyed form (the flags are translated from save_incident / update_latest); props/C19.v applies the first conjunct to the
   translated flags with eq_refl, so that it is the unconditional statement about the current source.  Both guards exist since
   fix 34db49e (finding oracle/gatherer-follows-preexisting-symlink before it); the other two conjuncts say what a source
   without one of them does. *)
Theorem gatherer_symlinks :
  (gatherer_save_guarded && gatherer_latest_guarded = true ->
   forall s q latest chunks ltext k, InvT (fun x => x = q \/ x = latest) s -> failed s = false -> followed s = false ->
     names s q <> Some D -> names s latest <> Some D ->
     followed (run s (firstn k (gatherer_ops q latest chunks ltext))) = false) /\
  (gatherer_save_guarded = false ->
   forall s q latest t chunks ltext, failed s = false -> names s q = Some (L t) ->
     followed (run s (gatherer_ops q latest chunks ltext)) = true) /\
  (gatherer_latest_guarded = false ->
   forall s q latest t chunks ltext, InvT (fun x => x = q \/ x = latest) s -> failed s = false -> followed s = false -> gatherer_save_guarded = true ->
     names s q <> Some D -> q <> latest -> names s latest = Some (L t) ->
     followed (run s (gatherer_ops q latest chunks ltext)) = true).
Proof.
  split; [|split].
  - intros Hg s q latest chunks ltext k HI Hf Hfl Hq Hl. apply andb_true_iff in Hg. destruct Hg as [G1 G2].
    unfold gatherer_ops. rewrite G1, G2. rewrite firstn_app, run_app.
    destruct (write_guarded_safe _ s q chunks k (or_introl eq_refl) HI Hf Hfl Hq) as (A1 & A2 & A3 & A4 & _).
    assert (Hl' : names (run s (firstn k (file_write_ops true q chunks))) latest <> Some D).
    { intros E. apply Hl. apply (A4 _). exact E. }
    apply (write_guarded_safe _ _ latest [ltext] _ (or_intror eq_refl) A3 A2 A1 Hl').
  - intros Hg s q latest t chunks ltext Hf E. unfold gatherer_ops. rewrite Hg, run_app.
    destruct (write_unguarded_follows s q t chunks Hf E) as [F1 F2]. rewrite run_failed by exact F2. exact F1.
  - intros Hg s q latest t chunks ltext HI Hf Hfl G1 Hq Hne E. unfold gatherer_ops. rewrite Hg, G1, run_app.
    pose proof (write_guarded_safe _ s q chunks (List.length (file_write_ops true q chunks)) (or_introl eq_refl) HI Hf Hfl Hq) as (A1 & A2 & _ & _ & A5).
    rewrite firstn_all in *.
    assert (El : names (run s (file_write_ops true q chunks)) latest = Some (L t)).
    { pose proof (A5 latest (not_eq_sym Hne)) as Hl. unfold look in Hl. rewrite E in Hl.
      destruct (names (run s (file_write_ops true q chunks)) latest) as [[i|t'|]|]; try discriminate Hl. injection Hl as ->. reflexivity. }
    apply (write_unguarded_follows _ latest t [ltext] A2 El).
Qed.

(* non-vacuity: a savefile name that is a link out of the directory *)
Example gatherer_symlink_witness :
  let q := ex_final ++ gatherer_ext in
  let s := mk_st [(q, L [46; 46; 47; 118]%N)] [] in
  failed s = false /\ names s q = Some (L [46; 46; 47; 118]%N) /\
  gatherer_path [47]%N ex_base [120]%N = Some q.
Proof. cbv zeta. split; [reflexivity|]. split; vm_compute; reflexivity. Qed.

(* ---------- reads: what goes through a symbolic link ---------- *)
Lemma rstep_names : forall s o, names (rstep s o) = names s.
Proof.
  intros s o. unfold rstep. destruct (failed s); [reflexivity|].
  destruct o; (destruct (names s p) as [[i|t|]|]; reflexivity).
Qed.

Lemma rstep_is_link : forall s o p, is_link (rstep s o) p = is_link s p.
Proof. intros. unfold is_link. rewrite rstep_names. reflexivity. Qed.

Lemma rrun_cons : forall s o l, rrun s (o :: l) = rrun (rstep s o) l.
Proof. reflexivity. Qed.

Lemma rrun_names : forall ops s, names (rrun s ops) = names s.
Proof. induction ops as [|o ops IH]; intros s; [reflexivity|]. rewrite rrun_cons, IH. apply rstep_names. Qed.

(* the only read that can set `followed` is a BARE open of a name that is a symbolic link *)
Definition safe_read (s : st) (o : rop) : Prop :=
  match o with ROpen p => is_link s p = false | ROpenUnlessLink _ => True end.

Lemma rstep_safe : forall s o, safe_read s o -> followed (rstep s o) = followed s.
Proof.
  intros s o H. unfold rstep. destruct (failed s); [reflexivity|].
  destruct o; cbn [safe_read] in H.
  - unfold is_link in H. destruct (names s p) as [[i|t|]|]; try reflexivity. discriminate.
  - destruct (names s p) as [[i|t|]|]; reflexivity.
Qed.

Lemma rrun_safe : forall ops s, (forall o, In o ops -> safe_read s o) -> followed (rrun s ops) = followed s.
Proof.
  induction ops as [|o ops IH]; intros s H; [reflexivity|]. rewrite rrun_cons, IH.
  - apply rstep_safe. apply H. left. reflexivity.
  - intros o' Ho'. pose proof (H o' (or_intror Ho')) as G. destruct o'; cbn [safe_read] in *; [|exact I].
    rewrite rstep_is_link. exact G.
Qed.

(* ... and it does: the lstat test in front of the open is NECESSARY *)
Theorem read_link_follows : forall s p t, failed s = false -> names s p = Some (L t) ->
  followed (rstep s (ROpen p)) = true /\ followed (rstep s (ROpenUnlessLink p)) = followed s.
Proof. intros s p t Hf E. unfold rstep. rewrite Hf, E. split; reflexivity. Qed.

Lemma rrun_followed_mono : forall ops s, followed s = true -> followed (rrun s ops) = true.
Proof.
  induction ops as [|o ops IH]; intros s H; [exact H|]. rewrite rrun_cons. apply IH.
  unfold rstep. destruct (failed s); [exact H|].
  destruct o; (destruct (names s p) as [[i|t|]|]; cbn [followed mark_followed fail]; try exact H; reflexivity).
Qed.

(* list_incident_names with the islink test: nothing that is reported is a symbolic link (and everything reported is
   reported by the lexical selection, to which listing_contained applies) *)
Theorem listing_reported_not_links : listing_link_skipped = true ->
  forall s base listing since n p, In (n, p) (list_incidents_at s base listing since) ->
    is_link s p = false /\ In (n, p) (list_incidents base listing since).
Proof.
  intros Hg s base listing since n p Hin. unfold list_incidents_at in Hin. apply filter_In in Hin.
  destruct Hin as [Hin Hf]. rewrite Hg in Hf. cbn [andb snd] in Hf. split; [|exact Hin].
  destruct (is_link s p); [discriminate|reflexivity].
Qed.

(* ... so EVERY sequence of reads of reported files (remote_list_incidents: all of them in listing order; catch_up: one per
   basename, sorted) goes through no symbolic link *)
Theorem listing_reads_contained : listing_link_skipped = true ->
  forall s base listing since ops, followed s = false ->
    (forall o, In o ops -> exists n p, o = ROpen p /\ In (n, p) (list_incidents_at s base listing since)) ->
    followed (rrun s ops) = false.
Proof.
  intros Hg s base listing since ops Hfl H. rewrite rrun_safe; [exact Hfl|].
  intros o Ho. destruct (H o Ho) as (n & p & -> & Hin). cbn [safe_read].
  apply (listing_reported_not_links Hg s base listing since n p Hin).
Qed.

(* lexical AND physical: what is reported on a directory state is an entry of the log directory itself that carries the
   prefix and is not a symbolic link *)
Theorem listing_contained_at : listing_link_skipped = true ->
  forall s base listing since n p, wf_base base -> (forall fn, In fn listing -> goodb fn = true) ->
    In (n, p) (list_incidents_at s base listing since) ->
    inside base p /\ is_link s p = false /\
    exists fn, In fn listing /\ p = base ++ sep :: fn /\ prefixb listing_prefix fn = true.
Proof.
  intros Hg s base listing since n p Hb Hl Hin.
  destruct (listing_reported_not_links Hg s base listing since n p Hin) as [H1 H2].
  destruct (listing_contained base listing since n p Hb Hl H2) as [H3 H4]. auto.
Qed.

(* non-vacuity: a log directory with a regular incident and a symlinked one (to a file outside): only the regular one is
   reported, the reads stay un-followed; a bare open of the link would not *)
Example listing_symlink_example :
  let evil := [105; 110; 99; 105; 100; 101; 110; 116; 45; 101; 46; 102; 108; 111; 103]%N in          (* incident-e.flog *)
  let good := [105; 110; 99; 105; 100; 101; 110; 116; 45; 49; 46; 102; 108; 111; 103]%N in           (* incident-1.flog *)
  let s := mk_st [(ex_base ++ [47]%N ++ evil, L [46; 46; 47; 111; 117; 116]%N); (ex_base ++ [47]%N ++ good, F 0%nat)] [[120]%N] in
  map snd (list_incidents ex_base [evil; good] []) = [ex_base ++ [47]%N ++ evil; ex_base ++ [47]%N ++ good] /\
  map snd (list_incidents_at s ex_base [evil; good] []) = [ex_base ++ [47]%N ++ good] /\
  followed (rrun s (listing_read_ops s ex_base [evil; good] [])) = false /\
  followed (rrun s (map (fun np => ROpen (snd np)) (list_incidents ex_base [evil; good] []))) = true /\
  followed (rrun s (connect_read_ops ex_base)) = false /\
  followed (rrun (plant s (join ex_base gatherer_latest) [46; 46; 47; 111]%N) [ROpen (join ex_base gatherer_latest)]) = true /\
  followed (rrun (plant s (join ex_base gatherer_latest) [46; 46; 47; 111]%N) (connect_read_ops ex_base)) = false.
Proof. cbv zeta. repeat (split; [vm_compute; reflexivity|]). vm_compute. reflexivity. Qed.

Lemma listing_read_ops_reported : forall s base listing since o, In o (listing_read_ops s base listing since) ->
  exists n p, o = ROpen p /\ In (n, p) (list_incidents_at s base listing since).
Proof.
  intros s base listing since o Ho. unfold listing_read_ops in Ho. apply in_map_iff in Ho.
  destruct Ho as ([n p] & <- & Hin). exists n, p. split; [reflexivity|exact Hin].
Qed.

(* WITHOUT the test (the code before the fix) every selected entry is reported, links included, and the first one that is a
   link is read through *)
Theorem listing_unguarded_follows : listing_link_skipped = false ->
  forall s base listing since,
    list_incidents_at s base listing since = list_incidents base listing since /\
    (forall n p t rest, list_incidents base listing since = (n, p) :: rest -> failed s = false -> names s p = Some (L t) ->
       followed (rrun s (listing_read_ops s base listing since)) = true).
Proof.
  intros Hg s base listing since.
  assert (E : list_incidents_at s base listing since = list_incidents base listing since).
  { unfold list_incidents_at. rewrite Hg.
    assert (G : forall l : list (str * str), filter (fun np => negb (false && is_link s (snd np))) l = l).
    { intros l. induction l as [|x l IH]; [reflexivity|]. cbn [filter]. rewrite IH. reflexivity. }
    apply G. }
  split; [exact E|].
  intros n p t rest Hl Hf Hn. unfold listing_read_ops. rewrite E, Hl. cbn [map snd]. rewrite rrun_cons.
  apply rrun_followed_mono. apply (read_link_follows s p t Hf Hn).
Qed.

(* IncidentObserver.connect: the one file it reads is `latest` in its own directory; behind the lstat test it is not read
   through a link, without the test it is *)
Theorem connect_read_contained : forall base o, wf_base base -> In o (connect_read_ops base) ->
  exists p, (o = ROpen p \/ o = ROpenUnlessLink p) /\ inside base p.
Proof.
  intros base o Hb Ho. unfold connect_read_ops in Ho. destruct Ho as [<-|[]].
  assert (Hg : goodb gatherer_latest = true) by reflexivity.
  exists (join base gatherer_latest). split.
  - unfold guarded_read. destruct gatherer_state_read_guarded; [right|left]; reflexivity.
  - rewrite (join_wf_base base _ Hb Hg). exists gatherer_latest. auto.
Qed.

Theorem connect_read_safe : gatherer_state_read_guarded = true ->
  forall s base, followed (rrun s (connect_read_ops base)) = followed s.
Proof.
  intros Hg s base. apply rrun_safe. intros o Ho. unfold connect_read_ops in Ho. rewrite Hg in Ho.
  destruct Ho as [<-|[]]. exact I.
Qed.

Theorem connect_read_unguarded_follows : gatherer_state_read_guarded = false ->
  forall s base t, failed s = false -> names s (join base gatherer_latest) = Some (L t) ->
    followed (rrun s (connect_read_ops base)) = true.
Proof.
  intros Hg s base t Hf E. unfold connect_read_ops. rewrite Hg. cbn [guarded_read]. rewrite rrun_cons.
  apply rrun_followed_mono. apply (read_link_follows s _ t Hf E).
Qed.

(* remote_get_incident: the selected file is opened behind `if os.path.islink(fn): raise KeyError`, or bare *)
Theorem publisher_symlinks :
  (publisher_link_refused = true -> forall s cwd base name, publisher_reads_through_link s cwd base name = false) /\
  (publisher_link_refused = false ->
   forall s cwd base name paths p t, publisher_paths cwd base name = Some paths -> publisher_opened s paths = Some p ->
     names s p = Some (L t) -> publisher_reads_through_link s cwd base name = true).
Proof.
  split.
  - intros Hg s cwd base name. unfold publisher_reads_through_link. rewrite rrun_safe; [reflexivity|].
    intros o Ho. unfold publisher_read_ops in Ho. rewrite Hg in Ho.
    destruct (publisher_paths cwd base name) as [paths|]; [|destruct Ho].
    destruct (publisher_opened s paths); [|destruct Ho]. destruct Ho as [<-|[]]. exact I.
  - intros Hg s cwd base name paths p t Hp Ho E. unfold publisher_reads_through_link, publisher_read_ops.
    rewrite Hp, Ho, Hg. cbn [guarded_read]. rewrite rrun_cons. apply rrun_followed_mono.
    apply (read_link_follows (calm s) p t eq_refl E).
Qed.

Lemma publisher_read_ops_guarded : publisher_link_refused = true ->
  forall s cwd base name o, In o (publisher_read_ops s cwd base name) -> exists p, o = ROpenUnlessLink p.
Proof.
  intros Hg s cwd base name o Ho. unfold publisher_read_ops in Ho. rewrite Hg in Ho.
  destruct (publisher_paths cwd base name) as [paths|]; [|destruct Ho].
  destruct (publisher_opened s paths) as [p|]; [|destruct Ho]. destruct Ho as [<-|[]]. exists p. reflexivity.
Qed.

Example publisher_symlink_witness :
  let name := [105; 110; 99; 105; 100; 101; 110; 116; 45; 49]%N in                      (* "incident-1" *)
  let p := ex_base ++ [47]%N ++ name ++ publisher_ext in
  let s := mk_st [(p, L [46; 46; 47; 118]%N)] [] in
  exists paths, publisher_paths [47]%N ex_base name = Some paths /\ publisher_opened s paths = Some p /\
                names s p = Some (L [46; 46; 47; 118]%N).
Proof. cbv zeta. eexists. split; [vm_compute; reflexivity|]. split; vm_compute; reflexivity. Qed.

(* ---------- a system call of an UPLOAD fails ---------- *)
Definition fault_removed (o : op) : list str :=
  match o with RenameElseUnlink _ _ c => [c] | RenameRetry _ b => [b] | _ => [] end.

Lemma step_fault_look : forall s o q, ~ In q (fault_removed o) -> look (step_fault s o) q = look s q.
Proof.
  intros s o q Hq. unfold step_fault. destruct (failed s); [reflexivity|].
  destruct o; try reflexivity; cbn [fault_removed] in Hq; unfold unlink_quiet.
  - destruct (names s c) as [[i|t|]|]; try reflexivity; unfold look; cbn [names data fail];
      rewrite upd_other by (intros ->; apply Hq; left; reflexivity); reflexivity.
  - destruct (names s b) as [[i|t|]|]; try reflexivity; unfold look; cbn [names data fail];
      rewrite upd_other by (intros ->; apply Hq; left; reflexivity); reflexivity.
Qed.

Lemma upload_ops_fault_removed : forall final blocks oc o q,
  In o (upload_ops final blocks oc) -> In q (fault_removed o) -> q = final ++ putfile_tmp_ext.
Proof.
  intros final blocks oc o q0 Ho. revert q0.
  apply (upload_ops_forall (fun o => forall q, In q (fault_removed o) -> q = final ++ putfile_tmp_ext) final blocks oc);
    [intros q []|intros q []|intros b q []|intros q []|intros q [<-|[]]; reflexivity|intros q []|intros q []|exact Ho].
Qed.

(* whichever system call of an upload fails (any k, any ending of the block stream, any initial directory): the final name
   still shows its old entry or the complete file, nothing went through a link, no other entry changed *)
Theorem upload_fault_atomic : forall P, good_inv P -> forall s0 final blocks oc k,
  P s0 -> failed s0 = false -> followed s0 = false ->
  followed (upload_fault k s0 final blocks oc) = false /\
  (forall q, q <> final ++ putfile_tmp_ext -> q <> final -> look (upload_fault k s0 final blocks oc) q = look s0 q) /\
  (look (upload_fault k s0 final blocks oc) final = look s0 final \/
   (oc = Done /\ look (upload_fault k s0 final blocks oc) final = VFile (concat blocks))).
Proof.
  intros P (G1 & G2 & _ & _) s0 final blocks oc k HI Hf Hfl.
  pose proof (G1 _ HI) as Hwf. pose proof (G2 _ final HI) as Hun.
  assert (Hne : final <> final ++ putfile_tmp_ext) by (apply not_eq_sym, tmp_ext_neq).
  assert (Hwrite : forall bl,
            followed (run s0 (upload_ops final bl BadBlock)) = false /\
            (forall q, q <> final ++ putfile_tmp_ext -> q <> final -> look (run s0 (upload_ops final bl BadBlock)) q = look s0 q) /\
            (look (run s0 (upload_ops final bl BadBlock)) final = look s0 final \/
             (oc = Done /\ look (run s0 (upload_ops final bl BadBlock)) final = VFile (concat blocks)))).
  { intros bl. destruct (usession_gen s0 final bl BadBlock (List.length (upload_ops final bl BadBlock)) Hwf Hun Hf Hfl) as (_ & A & B & C).
    rewrite firstn_all in *. split; [exact A|]. split; [exact B|]. left. destruct C as [C|[C _]]; [exact C|discriminate]. }
  assert (Hfault : followed (run_fault k s0 (upload_ops final blocks oc)) = false /\
            (forall q, q <> final ++ putfile_tmp_ext -> q <> final -> look (run_fault k s0 (upload_ops final blocks oc)) q = look s0 q) /\
            (look (run_fault k s0 (upload_ops final blocks oc)) final = look s0 final \/
             (oc = Done /\ look (run_fault k s0 (upload_ops final blocks oc)) final = VFile (concat blocks)))).
  { unfold run_fault. destruct (nth_error (upload_ops final blocks oc) k) as [o|] eqn:E.
    - destruct (usession_gen s0 final blocks oc k Hwf Hun Hf Hfl) as (_ & A & B & C).
      assert (Ho : In o (upload_ops final blocks oc)) by (eapply nth_error_In; eauto).
      assert (Hrm : forall q, q <> final ++ putfile_tmp_ext -> ~ In q (fault_removed o)).
      { intros q Hq Hin. apply Hq. exact (upload_ops_fault_removed final blocks oc o q Ho Hin). }
      split; [rewrite step_fault_followed; exact A|]. split.
      + intros q Hq Hq2. rewrite step_fault_look by (apply Hrm; exact Hq). apply B; assumption.
      + rewrite step_fault_look by (apply Hrm; exact Hne). exact C.
    - destruct (usession_gen s0 final blocks oc (List.length (upload_ops final blocks oc)) Hwf Hun Hf Hfl) as (_ & A & B & C).
      rewrite firstn_all in *. auto. }
  unfold upload_fault. destruct (nth_error (upload_ops final blocks oc) k) as [[]|]; try exact Hfault. apply Hwrite.
Qed.

(* ... but "nor a leftover temporary" does NOT survive a failing f.close(): in _done and in _err the close is not protected,
   the unlink after it is skipped and <name>.partial stays (ENOSPC at flush).  Outside the property's quantifier (source
   error / disconnect / crash); replayed on the code by the harness as an observation. *)
Theorem upload_fault_leftover_refuted :
  let s0 := mk_st [] [] in
  let tmp := ex_final ++ putfile_tmp_ext in
  Inv s0 /\ clean s0 /\
  nth_error (upload_ops ex_final [[97]]%N SrcError) 3 = Some (Close tmp) /\
  names (upload_fault 3 s0 ex_final [[97]]%N SrcError) tmp = Some (F 0%nat) /\
  nth_error (upload_ops ex_final [[97]]%N Done) 3 = Some (Close tmp) /\
  names (upload_fault 3 s0 ex_final [[97]]%N Done) tmp = Some (F 0%nat) /\
  names (run s0 (upload_ops ex_final [[97]]%N SrcError)) tmp = None.
Proof.
  cbv zeta. split; [split; intros p; intros; discriminate|]. split; [split; reflexivity|].
  repeat (split; [vm_compute; reflexivity|]). vm_compute. reflexivity.
Qed.
