(* C18, round 7: what of an incident is ON DISK when the triggering log.msg() returns.

   IncidentReporter.incident_declared writes the report to two files; while a trailing reporter waits for
   TRAILING_DELAY seconds / TRAILING_EVENT_LIMIT events the compressed copy is an unfinished .bz2.tmp, and the only
   readable copy is the uncompressed .flog, written through a buffered file object.  What a second reader (or the
   survivor of os._exit / SIGKILL / abort) is GUARANTEED to find is what was written before the last flush().
   The list of writes and flushes is translated from the source (gen/LogBufGen.v incident_f1_ops).

   Model only (no proofs): executable, evaluated by the correspondence.  Polymorphic in the event type so that the
   correspondence can run it on plain numbers. *)
From Coq Require Import ZArith List Bool.
Import ListNotations.
Require Import Verif.lib.PyLite Verif.gen.LogBufGen Verif.lib.LogBuf.

Inductive fline (A : Type) := LMagic | LHeader (trig : A) | LEvent (e : A).
Arguments LMagic {A}.
Arguments LHeader {A} trig.
Arguments LEvent {A} e.

Record f1_state (A : Type) := mkF1 { f1_written : list (fline A);       (* handed to the file object so far *)
                                     f1_durable : list (fline A) }.     (* ... of which: before the last flush *)
Arguments mkF1 {A} _ _.
Arguments f1_written {A} _.
Arguments f1_durable {A} _.

Definition f1_step {A : Type} (trig : A) (snap : list A) (s : f1_state A) (op : f1_op) : f1_state A :=
  match op with
  | F1Magic => mkF1 (f1_written s ++ [LMagic]) (f1_durable s)
  | F1Header => mkF1 (f1_written s ++ [LHeader trig]) (f1_durable s)
  | F1Snapshot => mkF1 (f1_written s ++ map LEvent snap) (f1_durable s)
  | F1Flush => mkF1 (f1_written s) (f1_written s)
  end.

Definition f1_run {A : Type} (ops : list f1_op) (trig : A) (snap : list A) : f1_state A :=
  fold_left (f1_step trig snap) ops (mkF1 [] []).

(* the complete report as incident_declared leaves it *)
Definition full_report {A : Type} (trig : A) (snap : list A) : list (fline A) := LMagic :: LHeader trig :: map LEvent snap.

(* the incident file on disk at the moment the triggering msg() returns: incident_declared with the translated order of
   writes and flushes, on the snapshot it takes (everything buffered, sorted by the translated key) *)
Definition on_disk_at_return (b : bufs_t) (trig : event) : list (fline event) :=
  f1_durable (f1_run incident_f1_ops trig (sort_by_num (all_buffered b))).

(* the correspondence's view: (magic on disk, header on disk, number of event lines on disk) for a snapshot of n events *)
Definition is_magic {A} (l : fline A) : bool := match l with LMagic => true | _ => false end.
Definition is_header {A} (l : fline A) : bool := match l with LHeader _ => true | _ => false end.
Definition is_event {A} (l : fline A) : bool := match l with LEvent _ => true | _ => false end.
Definition disk_counts (n : nat) : bool * bool * Z :=
  let d := f1_durable (f1_run incident_f1_ops 0%Z (repeat 1%Z n)) in
  (existsb is_magic d, existsb is_header d, Z.of_nat (List.length (filter is_event d))).
