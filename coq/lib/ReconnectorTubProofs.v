(* C16 -- proofs about the Tub and all its Reconnectors (lib/ReconnectorTub.v + the translated m_tub_* methods). *)
From Coq Require Import QArith List Bool Arith Lia.
Import ListNotations.
Require Import Verif.lib.ReconnectorBase Verif.gen.ReconnectorGen Verif.lib.Reconnector Verif.lib.ReconnectorProofs
               Verif.lib.ReconnectorTub.

(* ------------------------------------------------------------------ lists *)
Lemma upd_length : forall A (l : list A) i x, List.length (upd i x l) = List.length l.
Proof. unfold upd. induction l as [|y r IH]; intros [|i] x; cbn; auto. Qed.

Lemma nth_upd_eq : forall A (l : list A) i x d, (i < List.length l)%nat -> nth i (upd i x l) d = x.
Proof. unfold upd. induction l as [|y r IH]; intros [|i] x d H; cbn in *; try lia; auto. apply IH. lia. Qed.

Lemma nth_upd_neq : forall A (l : list A) i j x d, i <> j -> nth j (upd i x l) d = nth j l d.
Proof.
  unfold upd. induction l as [|y r IH]; intros [|i] [|j] x d H; cbn in *; try congruence; auto.
Qed.

Lemma memb_In : forall i l, memb i l = true <-> In i l.
Proof.
  unfold memb. intros i l. rewrite existsb_exists. split.
  - intros [x [H1 H2]]. apply Nat.eqb_eq in H2. subst. exact H1.
  - intros H. exists i. split; [exact H | apply Nat.eqb_refl].
Qed.

Lemma remove_first_In : forall i l j, NoDup l -> (In j (remove_first i l) <-> In j l /\ j <> i).
Proof.
  induction l as [|y r IH]; intros j ND; cbn [remove_first In]; [tauto|].
  inversion ND as [|? ? Hy ND']; subst. destruct (Nat.eqb y i) eqn:E.
  - apply Nat.eqb_eq in E. subst. split.
    + intros H. split; [right; exact H | intros ->; contradiction].
    + intros [[H|H] N]; [congruence | exact H].
  - apply Nat.eqb_neq in E. cbn [In]. rewrite IH by assumption. split.
    + intros [H|[H N]]; [subst; split; [left; reflexivity | exact E] | split; [right; exact H | exact N]].
    + intros [[H|H] N]; [left; exact H | right; split; assumption].
Qed.

Lemma remove_first_NoDup : forall i l, NoDup l -> NoDup (remove_first i l).
Proof.
  induction l as [|y r IH]; intros ND; cbn [remove_first]; [constructor|].
  inversion ND as [|? ? Hy ND']; subst. destruct (Nat.eqb y i); [exact ND'|].
  constructor; [|apply IH; exact ND']. intros H. apply remove_first_In in H; [|exact ND']. tauto.
Qed.

Lemma nth_app_default : forall A (l : list A) d i, nth i (l ++ [d]) d = nth i l d.
Proof.
  intros A l d i. destruct (Nat.lt_ge_cases i (List.length l)) as [H|H].
  - apply app_nth1. exact H.
  - rewrite app_nth2 by exact H. rewrite (nth_overflow l) by exact H.
    destruct (i - List.length l)%nat as [|[|k]]; reflexivity.
Qed.

Lemma nth_app_new : forall A (l : list A) x d i,
  nth i (l ++ [x]) d = if Nat.eqb i (List.length l) then x else nth i l d.
Proof.
  intros A l x d i. destruct (Nat.eqb i (List.length l)) eqn:E.
  - apply Nat.eqb_eq in E. subst. rewrite app_nth2 by lia. rewrite Nat.sub_diag. reflexivity.
  - apply Nat.eqb_neq in E. destruct (Nat.lt_ge_cases i (List.length l)) as [H|H].
    + apply app_nth1. exact H.
    + rewrite app_nth2 by exact H. rewrite (nth_overflow l) by exact H.
      destruct (i - List.length l)%nat as [|[|k]] eqn:F; try reflexivity. lia.
Qed.

Lemma upd_app_last : forall A (l : list A) x y, upd (List.length l) y (l ++ [x]) = l ++ [y].
Proof. unfold upd. induction l as [|z r IH]; intros x y; cbn; [reflexivity | now rewrite IH]. Qed.

(* ------------------------------------------------------------------ facts about one Reconnector *)
Definition nrem (s : st) (e : event) : nat :=
  match e with
  | Start => if stopped s then 1 else 0
  | Stop => if tub s then 1 else 0
  | AttemptOk u => if active s && tub s then count_stop u else 0
  | _ => 0
  end%nat.
Definition count_rm (o : list out) : nat := List.length (filter is_remove o).

Lemma count_rm_app : forall a b, count_rm (a ++ b) = (count_rm a + count_rm b)%nat.
Proof. intros. unfold count_rm. rewrite filter_app, app_length. reflexivity. Qed.

(* what stopConnecting / reset do to the fields the Tub cares about *)
Lemma stop_facts : forall s,
  stopped (fst (step s Stop)) = true /\ tub (fst (step s Stop)) = tub s /\
  count_rm (snd (step s Stop)) = (if tub s then 1 else 0)%nat.
Proof.
  intros [a sp t d tm i w l inf]. exec. destruct tm; exec; destruct t; exec; cbn; repeat split.
Qed.
Lemma reset_facts : forall s,
  stopped (fst (step s Reset)) = stopped s /\ tub (fst (step s Reset)) = tub s /\ active (fst (step s Reset)) = active s /\
  count_rm (snd (step s Reset)) = 0%nat.
Proof.
  intros [a sp t d tm i w l inf]. exec. destruct tm; exec; cbn; repeat split.
Qed.

Lemma uops_facts : forall u s,
  let r := run s (map uop_event u) in
  stopped (fst r) = stopped s || has_stop u /\ tub (fst r) = tub s /\
  count_rm (snd r) = (if tub s then count_stop u else 0)%nat.
Proof.
  induction u as [|o u IH]; intros s; cbn [map run has_stop count_stop fst snd].
  - rewrite orb_false_r. destruct (tub s); repeat split.
  - destruct o; cbn [uop_event].
    + destruct (stop_facts s) as (A & B & C). destruct (step s Stop) as [s1 o1]. cbn [fst snd] in *.
      specialize (IH s1). cbv zeta in IH. destruct (run s1 (map uop_event u)) as [s2 o2]. cbn [fst snd] in *.
      destruct IH as (D & E & F). rewrite count_rm_app, C, F, D, E, A, B. rewrite orb_true_r.
      destruct (tub s); repeat split.
    + destruct (reset_facts s) as (A & B & _ & C). destruct (step s Reset) as [s1 o1]. cbn [fst snd] in *.
      specialize (IH s1). cbv zeta in IH. destruct (run s1 (map uop_event u)) as [s2 o2]. cbn [fst snd] in *.
      destruct IH as (D & E & F). rewrite count_rm_app, C, F, D, E, A, B. repeat split.
Qed.

Lemma has_stop_count : forall u, has_stop u = (0 <? count_stop u)%nat.
Proof. induction u as [|[|] u IH]; cbn; auto. Qed.

(* the fields the Tub cares about, after any event of a Reconnector *)
Lemma step_facts : forall s e,
  let r := step s e in
  tub (fst r) = tub s || is_start e /\
  stopped (fst r) = stopped s || (match e with Stop => true | AttemptOk u => active s && has_stop u | _ => false end) /\
  count_rm (snd r) = nrem s e.
Proof.
  intros s e. destruct e as [|u|z| | | | |].
  - destruct s as [a sp t d tm i w l inf]. exec. destruct sp; exec; cbn; rewrite ?orb_true_r, ?orb_false_r; repeat split.
  - cbv zeta. rewrite ok_reentrant. cbn [nrem is_start]. destruct (active s) eqn:Ea; cbn [andb].
    + assert (H0 : tub (fst (step s (AttemptOk []))) = tub s /\ stopped (fst (step s (AttemptOk []))) = stopped s /\
                   count_rm (snd (step s (AttemptOk []))) = 0%nat).
      { destruct s as [a sp t d tm i w l inf]. cbn in Ea. subst a. exec. cbn. repeat split. }
      destruct H0 as (A & B & C). destruct (step s (AttemptOk [])) as [s1 o1]. cbn [fst snd] in *.
      pose proof (uops_facts u s1) as H. cbv zeta in H. destruct (run s1 (map uop_event u)) as [s2 o2]. cbn [fst snd] in *.
      destruct H as (D & E & F). rewrite count_rm_app, C, F, D, E, A, B, orb_false_r. repeat split.
    + destruct s as [a sp t d tm i w l inf]. cbn in Ea. subst a. exec. cbn. rewrite ?orb_false_r. repeat split.
  - destruct s as [a sp t d tm i w l inf]. exec. destruct a; exec; try destruct (q_truthy jitter); exec; cbn;
      rewrite ?orb_false_r; repeat split.
  - destruct s as [a sp t d tm i w l inf]. exec. destruct a; exec; cbn; rewrite ?orb_false_r; repeat split.
  - destruct s as [a sp t d tm i w l inf]. exec. cbn; rewrite ?orb_false_r; repeat split.
  - destruct s as [a sp t d tm i w l inf]. exec. cbn; rewrite ?orb_false_r; repeat split.
  - destruct (reset_facts s) as (A & B & _ & C). cbv zeta. rewrite A, B, C, !orb_false_r. repeat split.
  - destruct (stop_facts s) as (A & B & C). cbv zeta. rewrite A, B, C, orb_true_r, orb_false_r. repeat split.
Qed.

Lemma inv_stopped : forall s, Inv s -> stopped s = true -> active s = false /\ timer s = None.
Proof.
  intros s (_ & Ha & Hna & _) H. destruct (active s) eqn:E.
  - destruct (Ha eq_refl) as (X & _). congruence.
  - split; [reflexivity | apply (Hna eq_refl)].
Qed.
Lemma inv_active_tub : forall s, Inv s -> active s = true -> tub s = true /\ stopped s = false.
Proof. intros s (_ & Ha & _) H. destruct (Ha H) as (A & B & _). split; assumption. Qed.

Lemma init_facts : tub init_state = false /\ stopped init_state = false /\ forgotten init_state = false.
Proof. repeat split. Qed.

(* ------------------------------------------------------------------ the translated Tub methods, characterised *)
(* Tub._removeReconnector is list.remove *)
Lemma rm_is_remove : forall t, fst (m_tub__removeReconnector t) = fst (t_remove t).
Proof.
  intros t. unfold m_tub__removeReconnector, tseq, tret. destruct (t_remove t) as [t1 o1]. destruct (t_exc t1); reflexivity.
Qed.

Definition rm1 (t : tub_st) : tub_st := if t_exc t then t else fst (t_remove t).
Lemma iter_succ_r : forall A (f : A -> A) n x, Nat.iter (S n) f x = Nat.iter n f (f x).
Proof. induction n as [|n IH]; intros x; [reflexivity|]. change (f (Nat.iter (S n) f x) = f (Nat.iter n f (f x))). now rewrite IH. Qed.
Lemma t_removes_iter : forall outs t, t_removes m_tub__removeReconnector outs t = Nat.iter (count_rm outs) rm1 t.
Proof.
  unfold t_removes, count_rm. intros outs.
  assert (G : forall outs t, fold_left (fun t o => if is_remove o then (if t_exc t then t else fst (m_tub__removeReconnector t)) else t) outs t
              = Nat.iter (List.length (filter is_remove outs)) rm1 t).
  { clear outs. induction outs as [|o r IH]; intros t; cbn [fold_left filter]; [reflexivity|].
    destruct (is_remove o); cbn [List.length]; rewrite IH.
    - rewrite rm_is_remove. fold (rm1 t). rewrite <- iter_succ_r. reflexivity.
    - reflexivity. }
  apply G.
Qed.

(* the effect of n calls of _removeReconnector for Reconnector [t_cur t] *)
Definition set_list_exc (l : option (list nat)) (x : bool) (t : tub_st) : tub_st :=
  mkTub (t_running t) (t_shut t) l (t_queue t) (t_rcs t) (t_cur t) x.
Lemma rm1_exc : forall t, t_exc t = true -> rm1 t = t.
Proof. intros t H. unfold rm1. rewrite H. reflexivity. Qed.
Lemma iter_rm1_exc : forall n t, t_exc t = true -> Nat.iter n rm1 t = t.
Proof. induction n as [|n IH]; intros t H; [reflexivity|]. change (rm1 (Nat.iter n rm1 t) = t). rewrite IH by exact H. apply rm1_exc, H. Qed.
Lemma iter_succ_comm : forall n t, Nat.iter (S n) rm1 t = Nat.iter n rm1 (rm1 t).
Proof. intros. apply iter_succ_r. Qed.

Lemma memb_remove_first_nodup : forall i l, NoDup l -> memb i (remove_first i l) = false.
Proof.
  intros i l ND. destruct (memb i (remove_first i l)) eqn:E; [|reflexivity].
  apply memb_In in E. apply remove_first_In in E; [|exact ND]. tauto.
Qed.

Lemma removes_nonmember : forall n t, t_exc t = false ->
  (match t_list t with Some l => memb (t_cur t) l = false | None => True end) ->
  Nat.iter (S n) rm1 t = set_list_exc (t_list t) true t.
Proof.
  intros n t H M. rewrite iter_succ_comm.
  assert (E : rm1 t = set_list_exc (t_list t) true t).
  { unfold rm1. rewrite H. unfold t_remove, t_raise, set_list_exc. destruct (t_list t) as [l|] eqn:L; [rewrite M|]; cbn [fst]; rewrite ?L; reflexivity. }
  rewrite E. apply iter_rm1_exc. reflexivity.
Qed.
(* n >= 1 removals of a member of a duplicate-free list: it is removed; a second removal raises *)
Lemma removes_member : forall n t l, t_exc t = false -> t_list t = Some l -> NoDup l -> memb (t_cur t) l = true ->
  Nat.iter (S n) rm1 t = set_list_exc (Some (remove_first (t_cur t) l)) (0 <? n)%nat t.
Proof.
  intros n t l H L ND M. rewrite iter_succ_comm.
  assert (E : rm1 t = set_list_exc (Some (remove_first (t_cur t) l)) false t).
  { unfold rm1. rewrite H. unfold t_remove, set_list_exc. rewrite L, M. cbn [fst]. rewrite H. reflexivity. }
  rewrite E. destruct n as [|n]; [reflexivity|].
  rewrite removes_nonmember; [reflexivity | reflexivity |].
  cbn [set_list_exc t_list t_cur]. apply memb_remove_first_nodup, ND.
Qed.

(* rc.<method>() for the Reconnector the variable rc names *)
Lemma call_rc_spec : forall a t, (t_cur t < List.length (t_rcs t))%nat ->
  t_call_rc m_tub__removeReconnector a t =
  (Nat.iter (count_rm (snd (a (rc_at t (t_cur t))))) rm1 (t_set_rcs (upd (t_cur t) (fst (a (rc_at t (t_cur t)))) (t_rcs t)) t),
   map (pair (t_cur t)) (snd (a (rc_at t (t_cur t))))).
Proof.
  intros a t H. unfold t_call_rc, rc_at. rewrite (nth_indep (t_rcs t) blank init_state H).
  destruct (a (nth (t_cur t) (t_rcs t) init_state)) as [s' outs]. cbn [fst snd]. rewrite t_removes_iter. reflexivity.
Qed.

Ltac tfields := cbn [t_running t_shut t_list t_queue t_rcs t_cur t_exc fst snd].
Ltac tunfold := unfold tseq, tcond, tret, t_new, t_append, t_del_list, t_set_running, t_assert_running, t_forbid,
                       t_enqueue_start, t_for_copy, t_for_live, t_set_cur, t_set_rcs, t_raise.

Definition started : st := fst (m_startConnecting init_state).
Definition started_outs : list out := snd (m_startConnecting init_state).
Lemma start_init_facts : count_rm started_outs = 0%nat /\ tub started = true /\
  forgotten started = false /\ stopped started = false /\ enabled init_state Start = true.
Proof. vm_compute. repeat split. Qed.

Lemma call_fresh_gen : forall (a : act) s0 rn sh li q rcs, count_rm (snd (a s0)) = 0%nat ->
  t_call_rc m_tub__removeReconnector a (mkTub rn sh li q (rcs ++ [s0]) (List.length rcs) false) =
  (mkTub rn sh li q (rcs ++ [fst (a s0)]) (List.length rcs) false, map (pair (List.length rcs)) (snd (a s0))).
Proof.
  intros a s0 rn sh li q rcs C0. rewrite call_rc_spec by (tfields; rewrite app_length; cbn; lia). tfields.
  unfold rc_at. tfields. rewrite nth_app_new, Nat.eqb_refl.
  rewrite C0. unfold t_set_rcs. tfields. rewrite upd_app_last. reflexivity.
Qed.

(* Tub.connectTo *)
Lemma connectTo_spec : forall t l, t_exc t = false -> t_list t = Some l ->
  m_tub_connectTo t =
  (mkTub (t_running t) (t_shut t) (Some (l ++ [List.length (t_rcs t)])) (t_queue t)
         (t_rcs t ++ [if t_running t then started else init_state]) (List.length (t_rcs t)) false,
   if t_running t then map (pair (List.length (t_rcs t))) started_outs else []).
Proof.
  intros [rn sh li q rcs c x] l H L. cbn in H, L. subst x li.
  unfold m_tub_connectTo. tunfold. tfields.
  destruct rn; tfields; cbn [negb].
  - rewrite call_fresh_gen by apply start_init_facts. tfields. fold started. fold started_outs.
    rewrite ?app_nil_r. reflexivity.
  - reflexivity.
Qed.

(* Tub.startService: every Reconnector of the list gets a queued startConnecting *)
Lemma skipn_nth_error : forall A (l : list A) k x, nth_error l k = Some x -> skipn k l = x :: skipn (S k) l.
Proof.
  induction l as [|y r IH]; intros [|k] x H; cbn in *; try discriminate.
  - congruence.
  - apply IH in H. exact H.
Qed.
Lemma skipn_none : forall A (l : list A) k, nth_error l k = None -> skipn k l = [].
Proof. intros. apply skipn_all2. apply nth_error_None. assumption. Qed.

Definition enq_body (body : tact) : Prop :=
  forall t, t_exc t = false ->
    body t = (mkTub (t_running t) (t_shut t) (t_list t) (t_queue t ++ [t_cur t]) (t_rcs t) (t_cur t) false, []).

Lemma live_enqueue : forall body, enq_body body -> forall fuel k t l,
  t_list t = Some l -> t_exc t = false -> (List.length l - k < fuel)%nat ->
  exists c', t_live fuel k body t =
             (mkTub (t_running t) (t_shut t) (Some l) (t_queue t ++ skipn k l) (t_rcs t) c' false, []).
Proof.
  intros body HB. induction fuel as [|f IH]; intros k t l L X F; [lia|].
  cbn [t_live]. rewrite L. destruct (nth_error l k) as [i|] eqn:N.
  - unfold t_set_cur. rewrite HB by exact X. tfields.
    assert (k < List.length l)%nat by (apply nth_error_Some; congruence).
    edestruct (IH (S k) (mkTub (t_running t) (t_shut t) (t_list t) (t_queue t ++ [i]) (t_rcs t) i false) l) as [c' E];
      [exact L | reflexivity | lia |].
    rewrite E. tfields. exists c'. rewrite (skipn_nth_error _ _ _ _ N), <- app_assoc. reflexivity.
  - exists (t_cur t). rewrite (skipn_none _ _ _ N), app_nil_r. destruct t as [rn sh li q rcs c x]. cbn in *. subst. reflexivity.
Qed.

Lemma enq_body_gen : enq_body (tseq t_enqueue_start tret).
Proof. intros t X. tunfold. tfields. rewrite X. rewrite app_nil_r. reflexivity. Qed.

Lemma startService_spec : forall t l, t_exc t = false -> t_list t = Some l ->
  exists c', m_tub_startService t = (mkTub true (t_shut t) (Some l) (t_queue t ++ l) (t_rcs t) c' false, []).
Proof.
  intros [rn sh li q rcs c x] l H L. cbn in H, L. subst x li.
  unfold m_tub_startService. unfold tseq at 1. unfold t_set_running at 1. tfields.
  unfold tseq at 1. unfold t_for_live. tfields.
  edestruct (live_enqueue _ enq_body_gen (S (List.length l)) 0 (mkTub true sh (Some l) q rcs c false) l) as [c' E];
    [reflexivity | reflexivity | lia |].
  rewrite E. tfields. unfold tret. exists c'. cbn [skipn]. reflexivity.
Qed.

(* Tub.stopService: every Reconnector of the list is told to stop, in list order *)
Fixpoint stop_each (ids : list nat) (rcs : list st) : list st * list tout :=
  match ids with
  | [] => (rcs, [])
  | i :: r => let p := step (nth i rcs init_state) Stop in
              let (rcs2, o2) := stop_each r (upd i (fst p) rcs) in (rcs2, map (pair i) (snd p) ++ o2)
  end.

Definition stop_body (body : tact) : Prop :=
  forall t, body t = t_call_rc m_tub__removeReconnector m_stopConnecting t.

Lemma each_stop : forall body, stop_body body -> forall ids t lc,
  t_list t = Some lc -> t_exc t = false -> NoDup lc -> NoDup ids -> incl ids lc ->
  (forall i, In i ids -> (i < List.length (t_rcs t))%nat) ->
  exists c' lc', t_each ids body t =
    (mkTub (t_running t) (t_shut t) (Some lc') (t_queue t) (fst (stop_each ids (t_rcs t))) c' false,
     snd (stop_each ids (t_rcs t))).
Proof.
  intros body HB. induction ids as [|i r IH]; intros t lc L X NDl NDi INC BND.
  - exists (t_cur t), lc. destruct t as [rn sh li q rcs c x]. cbn in *. subst. reflexivity.
  - destruct t as [rn sh li q rcs c x]. cbn in L, X, BND. subst li x. tfields.
    cbn [t_each stop_each]. rewrite HB.
    assert (Bi : (i < List.length rcs)%nat) by (apply BND; left; reflexivity).
    rewrite call_rc_spec by (unfold t_set_cur; tfields; exact Bi).
    unfold t_set_cur, rc_at, t_set_rcs. tfields.
    change (m_stopConnecting (nth i rcs init_state)) with (step (nth i rcs init_state) Stop).
    destruct (stop_facts (nth i rcs init_state)) as (_ & _ & C).
    set (p := step (nth i rcs init_state) Stop) in *.
    inversion NDi as [|? ? Hi NDr]; subst.
    assert (Mi : In i lc) by (apply INC; left; reflexivity).
    set (t0 := mkTub rn sh (Some lc) q (upd i (fst p) rcs) i false).
    assert (E : exists lc1, Nat.iter (count_rm (snd p)) rm1 t0 = set_list_exc (Some lc1) false t0 /\ NoDup lc1 /\ incl r lc1).
    { rewrite C. destruct (tub (nth i rcs init_state)).
      - exists (remove_first i lc). split; [|split].
        + rewrite (removes_member 0 t0 lc); [reflexivity | reflexivity | reflexivity | exact NDl | apply memb_In; exact Mi].
        + apply remove_first_NoDup, NDl.
        + intros j Hj. apply remove_first_In; [exact NDl|]. split; [apply INC; right; exact Hj | intros ->; contradiction].
      - exists lc. split; [|split].
        + reflexivity.
        + exact NDl.
        + intros j Hj. apply INC. right. exact Hj. }
    destruct E as (lc1 & E1 & ND1 & INC1). rewrite E1. unfold set_list_exc, t0. tfields.
    edestruct (IH (mkTub rn sh (Some lc1) q (upd i (fst p) rcs) i false) lc1) as (c' & lc' & E2);
      [reflexivity | reflexivity | exact ND1 | exact NDr | exact INC1 | |].
    { intros j Hj. tfields. rewrite upd_length. apply BND. right. exact Hj. }
    rewrite E2. tfields.
    destruct (stop_each r (upd i (fst p) rcs)) as [rcs2 o2]. tfields. exists c', lc'. reflexivity.
Qed.

Lemma stop_body_gen : stop_body (tseq (t_call_rc m_tub__removeReconnector m_stopConnecting) tret).
Proof.
  intros t. unfold tseq, tret. destruct (t_call_rc m_tub__removeReconnector m_stopConnecting t) as [t1 o1].
  destruct (t_exc t1); rewrite ?app_nil_r; reflexivity.
Qed.

Lemma stopService_spec : forall t l, t_exc t = false -> t_list t = Some l -> t_running t = true -> NoDup l ->
  (forall i, In i l -> (i < List.length (t_rcs t))%nat) ->
  exists c', m_tub_stopService t =
    (mkTub true true None (t_queue t) (fst (stop_each l (t_rcs t))) c' false, snd (stop_each l (t_rcs t))).
Proof.
  intros [rn sh li q rcs c x] l H L R ND BND. cbn in H, L, R, BND. subst x li rn.
  unfold m_tub_stopService. unfold tseq at 1. unfold t_assert_running at 1. tfields.
  unfold tseq at 1. unfold t_forbid at 1. tfields.
  unfold tseq at 1. unfold t_for_copy at 1. tfields.
  edestruct (each_stop _ stop_body_gen l (mkTub true true (Some l) q rcs c false) l) as (c' & lc' & E);
    [reflexivity | reflexivity | exact ND | exact ND | apply incl_refl | exact BND |].
  rewrite E. tfields. unfold tseq at 1. unfold t_del_list at 1. tfields. unfold tret. exists c'. rewrite !app_nil_r. reflexivity.
Qed.

Lemma stop_each_length : forall ids rcs, List.length (fst (stop_each ids rcs)) = List.length rcs.
Proof.
  induction ids as [|i r IH]; intros rcs; cbn [stop_each]; [reflexivity|].
  specialize (IH (upd i (fst (step (nth i rcs init_state) Stop)) rcs)).
  destruct (stop_each r _) as [rcs2 o2]. cbn [fst] in *. rewrite IH. apply upd_length.
Qed.

Lemma stop_each_nth : forall ids rcs j, NoDup ids -> (forall i, In i ids -> (i < List.length rcs)%nat) ->
  nth j (fst (stop_each ids rcs)) init_state =
  if memb j ids then fst (step (nth j rcs init_state) Stop) else nth j rcs init_state.
Proof.
  induction ids as [|i r IH]; intros rcs j ND B; cbn [stop_each]; [reflexivity|].
  inversion ND as [|? ? Hi NDr]; subst.
  specialize (IH (upd i (fst (step (nth i rcs init_state) Stop)) rcs) j NDr).
  destruct (stop_each r _) as [rcs2 o2]. cbn [fst] in *.
  rewrite IH by (intros k Hk; rewrite upd_length; apply B; right; exact Hk).
  unfold memb. cbn [existsb]. fold (memb j r).
  destruct (Nat.eqb j i) eqn:E.
  - apply Nat.eqb_eq in E. subst j. cbn [orb].
    destruct (memb i r) eqn:M; [apply memb_In in M; contradiction|].
    apply nth_upd_eq. apply B. left. reflexivity.
  - apply Nat.eqb_neq in E. cbn [orb]. rewrite nth_upd_neq by congruence. reflexivity.
Qed.

Lemma flat_map_ext_in' : forall A B (f g : A -> list B) l, (forall x, In x l -> f x = g x) -> flat_map f l = flat_map g l.
Proof.
  induction l as [|x r IH]; intros H; cbn [flat_map]; [reflexivity|].
  rewrite H by (left; reflexivity). rewrite IH; [reflexivity | intros y Hy; apply H; right; exact Hy].
Qed.

Lemma stop_each_outs : forall ids rcs, NoDup ids ->
  snd (stop_each ids rcs) = flat_map (fun i => map (pair i) (snd (step (nth i rcs init_state) Stop))) ids.
Proof.
  induction ids as [|i r IH]; intros rcs ND; cbn [stop_each flat_map]; [reflexivity|].
  inversion ND as [|? ? Hi NDr]; subst.
  specialize (IH (upd i (fst (step (nth i rcs init_state) Stop)) rcs) NDr).
  destruct (stop_each r _) as [rcs2 o2]. cbn [snd] in *. rewrite IH. f_equal.
  apply flat_map_ext_in'. intros k Hk. rewrite nth_upd_neq; [reflexivity | intros ->; contradiction].
Qed.

Lemma iter_rm1_frame : forall n t,
  t_rcs (Nat.iter n rm1 t) = t_rcs t /\ t_queue (Nat.iter n rm1 t) = t_queue t /\
  t_running (Nat.iter n rm1 t) = t_running t /\ t_shut (Nat.iter n rm1 t) = t_shut t.
Proof.
  induction n as [|n IH]; intros t; [repeat split|]. rewrite iter_succ_comm.
  destruct (IH (rm1 t)) as (A & B & C & D). rewrite A, B, C, D.
  unfold rm1. destruct (t_exc t); [repeat split|]. unfold t_remove, t_raise.
  destruct (t_list t) as [l|]; [destruct (memb (t_cur t) l)|]; repeat split.
Qed.

Lemma iter_rm1_result : forall n t, t_exc t = false -> (forall l, t_list t = Some l -> NoDup l) ->
  t_list (Nat.iter n rm1 t) =
    match t_list t with
    | Some l => if (0 <? n)%nat && memb (t_cur t) l then Some (remove_first (t_cur t) l) else Some l
    | None => None end /\
  t_exc (Nat.iter n rm1 t) =
    match n with
    | O => false
    | S m => match t_list t with Some l => if memb (t_cur t) l then (0 <? m)%nat else true | None => true end
    end.
Proof.
  intros [|m] t X ND.
  - change (Nat.iter 0 rm1 t) with t. cbn [Nat.ltb Nat.leb andb]. split; [destruct (t_list t); reflexivity | exact X].
  - destruct (t_list t) as [l|] eqn:L.
    + destruct (memb (t_cur t) l) eqn:M.
      * rewrite (removes_member m t l X L (ND l eq_refl) M). cbn. split; reflexivity.
      * rewrite removes_nonmember; [|exact X | rewrite L; exact M]. cbn. rewrite L. split; reflexivity.
    + rewrite removes_nonmember; [|exact X | rewrite L; exact I]. cbn. rewrite L. split; reflexivity.
Qed.

(* ------------------------------------------------------------------ the invariant of a Tub with its Reconnectors *)
Definition nrc (t : tub_st) : nat := List.length (t_rcs t).

Record TInv (t : tub_st) : Prop := {
  ti_inv : forall i, Inv (rc_at t i);
  ti_list : match t_list t with
            | Some l => t_shut t = false /\ NoDup l /\
                        (forall i, In i l <-> ((i < nrc t)%nat /\ forgotten (rc_at t i) = false))
            | None => t_shut t = true /\ forall i, (i < nrc t)%nat -> stopped (rc_at t i) = true
            end;
  ti_queue : NoDup (t_queue t) /\ forall i, In i (t_queue t) -> (i < nrc t)%nat /\ tub (rc_at t i) = false;
  ti_idle : t_running t = false -> t_queue t = [] /\ forall i, tub (rc_at t i) = false;
  ti_queued : t_running t = true -> t_shut t = false ->
              forall i, (i < nrc t)%nat -> tub (rc_at t i) = false -> In i (t_queue t)
}.

Lemma tinv_init : TInv tub_init.
Proof.
  constructor; cbn.
  - intros i. unfold rc_at. cbn. destruct i; apply inv_init.
  - split; [reflexivity|]. split; [constructor|]. intros i. unfold nrc. cbn. split; [tauto | intros [H _]; lia].
  - split; [constructor | tauto].
  - intros _. split; [reflexivity|]. intros i. unfold rc_at. cbn. destruct i; reflexivity.
  - discriminate.
Qed.

(* the state of every Reconnector after a call of one of them *)
Lemma rc_at_upd : forall t i s' j, (i < nrc t)%nat ->
  nth j (upd i s' (t_rcs t)) init_state = if Nat.eqb j i then s' else rc_at t j.
Proof.
  intros t i s' j H. destruct (Nat.eqb j i) eqn:E.
  - apply Nat.eqb_eq in E. subst. apply nth_upd_eq. exact H.
  - apply Nat.eqb_neq in E. apply nth_upd_neq. congruence.
Qed.

Lemma step_forgotten : forall s e, (is_start e = true -> tub s = false) ->
  forgotten (fst (step s e)) = forgotten s || (0 <? nrem s e)%nat.
Proof.
  intros s e HS. destruct (step_facts s e) as (A & B & _). unfold forgotten. rewrite A, B.
  destruct e as [|u|z| | | | |]; cbn [is_start nrem] in *; rewrite ?orb_false_r; try reflexivity.
  - rewrite (HS eq_refl). destruct (stopped s); reflexivity.
  - rewrite has_stop_count. destruct (stopped s), (active s), (tub s), (count_stop u); reflexivity.
  - destruct (stopped s), (tub s); reflexivity.
Qed.

Lemma step_stopped_mono : forall s e, stopped s = true -> stopped (fst (step s e)) = true.
Proof. intros s e H. destruct (step_facts s e) as (_ & B & _). rewrite B, H. reflexivity. Qed.

(* one Reconnector of the Tub takes an event (a Deferred / watcher / timer of it fires, the user calls it, or the
   Tub / the eventual queue calls its startConnecting) *)
Lemma call_result : forall t e, t_exc t = false -> (t_cur t < nrc t)%nat ->
  (forall l, t_list t = Some l -> NoDup l) ->
  let i := t_cur t in
  let r := step (rc_at t i) e in
  let t' := fst (t_call_rc m_tub__removeReconnector (fun s => step s e) t) in
  (forall j, rc_at t' j = if Nat.eqb j i then fst r else rc_at t j) /\
  nrc t' = nrc t /\ t_queue t' = t_queue t /\ t_running t' = t_running t /\ t_shut t' = t_shut t /\
  t_list t' = match t_list t with
              | Some l => if (0 <? nrem (rc_at t i) e)%nat && memb i l then Some (remove_first i l) else Some l
              | None => None end /\
  t_exc t' = match nrem (rc_at t i) e with
             | O => false
             | S m => match t_list t with Some l => if memb i l then (0 <? m)%nat else true | None => true end
             end /\
  snd (t_call_rc m_tub__removeReconnector (fun s => step s e) t) = map (pair i) (snd r).
Proof.
  intros t e X B ND i r t'. unfold t'. rewrite call_rc_spec by exact B. cbn [fst snd]. fold i. fold r.
  destruct (step_facts (rc_at t i) e) as (_ & _ & C). fold r in C. rewrite C.
  set (t0 := t_set_rcs (upd i (fst r) (t_rcs t)) t).
  destruct (iter_rm1_frame (nrem (rc_at t i) e) t0) as (F1 & F2 & F3 & F4).
  destruct (iter_rm1_result (nrem (rc_at t i) e) t0 X ND) as (R1 & R2).
  repeat split.
  - intros j. unfold rc_at at 1. rewrite F1. unfold t0, t_set_rcs. cbn [t_rcs]. apply rc_at_upd. exact B.
  - unfold nrc. rewrite F1. unfold t0, t_set_rcs. cbn [t_rcs]. apply upd_length.
  - rewrite F2. reflexivity.
  - rewrite F3. reflexivity.
  - rewrite F4. reflexivity.
  - rewrite R1. reflexivity.
  - rewrite R2. reflexivity.
Qed.

(* the list part of the invariant after such a call *)
Definition ListOK (t : tub_st) : Prop :=
  match t_list t with
  | Some l => t_shut t = false /\ NoDup l /\ (forall i, In i l <-> ((i < nrc t)%nat /\ forgotten (rc_at t i) = false))
  | None => t_shut t = true /\ forall i, (i < nrc t)%nat -> stopped (rc_at t i) = true
  end.

Lemma list_after_call : forall t t' i e,
  ListOK t -> (i < nrc t)%nat -> (is_start e = true -> tub (rc_at t i) = false) ->
  (forall j, rc_at t' j = if Nat.eqb j i then fst (step (rc_at t i) e) else rc_at t j) ->
  nrc t' = nrc t -> t_shut t' = t_shut t ->
  t_list t' = match t_list t with
              | Some l => if (0 <? nrem (rc_at t i) e)%nat && memb i l then Some (remove_first i l) else Some l
              | None => None end ->
  ListOK t'.
Proof.
  intros t t' i e LO B HS RC N SH L. unfold ListOK in *. rewrite L, N, SH.
  pose proof (step_forgotten (rc_at t i) e HS) as FG.
  destruct (t_list t) as [l|].
  - destruct LO as (S0 & ND & M).
    destruct ((0 <? nrem (rc_at t i) e)%nat && memb i l) eqn:Q.
    + apply andb_true_iff in Q. destruct Q as [Q1 Q2]. split; [exact S0|]. split; [apply remove_first_NoDup, ND|].
      intros j. rewrite remove_first_In by exact ND. rewrite M, RC.
      destruct (Nat.eqb j i) eqn:E.
      * apply Nat.eqb_eq in E. subst j. rewrite FG, Q1, orb_true_r. split; [tauto | intros [_ H]; discriminate].
      * apply Nat.eqb_neq in E. tauto.
    + split; [exact S0|]. split; [exact ND|]. intros j. rewrite M, RC.
      destruct (Nat.eqb j i) eqn:E; [|tauto]. apply Nat.eqb_eq in E. subst j. rewrite FG.
      apply andb_false_iff in Q. destruct Q as [Q|Q].
      * rewrite Q, orb_false_r. tauto.
      * (* i was not in the list: it was forgotten already *)
        assert (forgotten (rc_at t i) = true).
        { destruct (forgotten (rc_at t i)) eqn:F; [reflexivity|]. exfalso.
          assert (In i l) by (apply M; split; assumption). apply memb_In in H. congruence. }
        rewrite H. cbn [orb]. tauto.
  - destruct LO as (S0 & ST). split; [exact S0|]. intros j Hj. rewrite RC.
    destruct (Nat.eqb j i) eqn:E; [|apply ST; exact Hj]. apply Nat.eqb_eq in E. subst j.
    apply step_stopped_mono. apply ST. exact Hj.
Qed.

Lemma tinv_list : forall t, TInv t -> ListOK t.
Proof. intros t H. exact (ti_list t H). Qed.
Lemma tinv_nodup : forall t, TInv t -> forall l, t_list t = Some l -> NoDup l.
Proof. intros t H l L. pose proof (ti_list t H) as X. rewrite L in X. tauto. Qed.

(* TRc i e *)
Lemma tinv_rc : forall t i e, TInv t -> tenabled t (TRc i e) = true -> TInv (fst (tstep t (TRc i e))).
Proof.
  intros t i e TI EN. cbn [tenabled] in EN. apply andb_true_iff in EN. destruct EN as [EN E3].
  apply andb_true_iff in EN. destruct EN as [E1 E2]. apply Nat.ltb_lt in E2. apply negb_true_iff in E1.
  cbn [tstep]. set (t0 := t_set_cur i (clear_exc t)).
  assert (RC0 : forall j, rc_at t0 j = rc_at t j) by reflexivity.
  destruct (call_result t0 e eq_refl E2 (tinv_nodup t TI)) as (RC & N & Q & R & SH & L & _ & _).
  cbn zeta in *. change (t_cur t0) with i in *. rewrite RC0 in *.
  set (t' := fst (t_call_rc m_tub__removeReconnector (fun s => step s e) t0)) in *.
  change (nrc t0) with (nrc t) in *. change (t_queue t0) with (t_queue t) in *.
  change (t_running t0) with (t_running t) in *. change (t_shut t0) with (t_shut t) in *.
  change (t_list t0) with (t_list t) in *.
  assert (TUB : tub (fst (step (rc_at t i) e)) = tub (rc_at t i)).
  { destruct (step_facts (rc_at t i) e) as (A & _). rewrite A, E1. apply orb_false_r. }
  assert (RCT : forall j, tub (rc_at t' j) = tub (rc_at t j)).
  { intros j. rewrite RC. destruct (Nat.eqb j i) eqn:E; [|reflexivity]. apply Nat.eqb_eq in E. subst. exact TUB. }
  constructor.
  - intros j. rewrite RC. destruct (Nat.eqb j i); [|apply (ti_inv t TI)]. apply inv_step; [apply (ti_inv t TI) | exact E3].
  - apply (list_after_call t t' i e);
      [apply tinv_list, TI | exact E2 | rewrite E1; discriminate | intros j; rewrite RC; reflexivity | exact N | exact SH | exact L].
  - rewrite Q, N. destruct (ti_queue t TI) as [A B]. split; [exact A|]. intros j Hj. rewrite RCT. apply B, Hj.
  - rewrite R, Q. intros H. destruct (ti_idle t TI H) as [A B]. split; [exact A|]. intros j. rewrite RCT. apply B.
  - rewrite R, SH, Q, N. intros H1 H2 j Hj. rewrite RCT. apply (ti_queued t TI H1 H2 j Hj).
Qed.

Lemma list_some : forall t, TInv t -> t_shut t = false -> exists l, t_list t = Some l.
Proof.
  intros t TI S. pose proof (ti_list t TI) as X. destruct (t_list t) as [l|]; [exists l; reflexivity|].
  destruct X as [X _]. congruence.
Qed.

Lemma NoDup_app_last : forall (l : list nat) x, NoDup l -> ~ In x l -> NoDup (l ++ [x]).
Proof.
  induction l as [|y r IH]; intros x ND NI; cbn [app]; [constructor; [intros [] | constructor]|].
  inversion ND; subst. constructor.
  - rewrite in_app_iff. cbn [In]. intros [H|[H|[]]]; [contradiction | subst; apply NI; left; reflexivity].
  - apply IH; [assumption | intros H; apply NI; right; exact H].
Qed.

(* TTurn: the eventual queue delivers the oldest queued startConnecting *)
Lemma turn_facts : forall t i q, TInv t -> t_queue t = i :: q ->
  let t0 := pop_queue (clear_exc t) in
  t_cur t0 = i /\ (i < nrc t)%nat /\ tub (rc_at t i) = false /\ ~ In i q /\ NoDup q.
Proof.
  intros t i q TI Q t0. destruct (ti_queue t TI) as [A B]. rewrite Q in A, B.
  inversion A; subst. destruct (B i (or_introl eq_refl)) as [B1 B2].
  unfold t0, pop_queue, clear_exc. cbn [t_cur t_queue]. rewrite Q. cbn [hd]. repeat split; assumption.
Qed.

Lemma tinv_turn : forall t, TInv t -> tenabled t TTurn = true -> TInv (fst (tstep t TTurn)).
Proof.
  intros t TI EN. cbn [tenabled] in EN. destruct (t_queue t) as [|i q] eqn:Q; [discriminate|].
  destruct (turn_facts t i q TI Q) as (C & B & TF & NI & NDq). cbn zeta in C.
  cbn [tstep]. set (t0 := pop_queue (clear_exc t)) in *.
  change (t_call_rc m_tub__removeReconnector m_startConnecting t0)
    with (t_call_rc m_tub__removeReconnector (fun s => step s Start) t0).
  assert (B0 : (t_cur t0 < nrc t0)%nat) by (rewrite C; exact B).
  destruct (call_result t0 Start eq_refl B0 (tinv_nodup t TI)) as (RC & N & Q' & R & SH & L & _ & _).
  cbn zeta in *. rewrite C in *.
  set (t' := fst (t_call_rc m_tub__removeReconnector (fun s => step s Start) t0)) in *.
  change (nrc t0) with (nrc t) in *. change (t_running t0) with (t_running t) in *.
  change (t_shut t0) with (t_shut t) in *. change (t_list t0) with (t_list t) in *.
  assert (Q0 : t_queue t0 = q) by (unfold t0, pop_queue, clear_exc; cbn [t_queue]; rewrite Q; reflexivity).
  rewrite Q0 in Q'.
  assert (RC' : forall j, rc_at t' j = if Nat.eqb j i then fst (step (rc_at t i) Start) else rc_at t j)
    by (intros j; rewrite RC; reflexivity).
  assert (EN' : enabled (rc_at t i) Start = true) by (cbn [enabled]; rewrite TF; reflexivity).
  assert (TUB : tub (fst (step (rc_at t i) Start)) = true).
  { destruct (step_facts (rc_at t i) Start) as (A & _). rewrite A. apply orb_true_r. }
  constructor.
  - intros j. rewrite RC'. destruct (Nat.eqb j i); [|apply (ti_inv t TI)]. apply inv_step; [apply (ti_inv t TI) | exact EN'].
  - apply (list_after_call t t' i Start);
      [apply tinv_list, TI | exact B | intros _; exact TF | exact RC' | exact N | exact SH | exact L].
  - rewrite Q', N. split; [exact NDq|]. intros j Hj. rewrite RC'.
    destruct (Nat.eqb j i) eqn:E; [apply Nat.eqb_eq in E; subst; contradiction|].
    destruct (ti_queue t TI) as [_ B2]. apply B2. rewrite Q. right. exact Hj.
  - rewrite R. intros H. destruct (ti_idle t TI H) as [A _]. congruence.
  - rewrite R, SH, Q', N. intros H1 H2 j Hj HT. rewrite RC' in HT.
    destruct (Nat.eqb j i) eqn:E; [congruence|]. apply Nat.eqb_neq in E.
    pose proof (ti_queued t TI H1 H2 j Hj HT) as X. rewrite Q in X. destruct X as [X|X]; [congruence | exact X].
Qed.

Lemma inv_started : Inv started.
Proof.
  change started with (fst (step init_state Start)). apply inv_step; [apply inv_init | apply start_init_facts].
Qed.

(* TConnectTo *)
Lemma tinv_connectTo : forall t, TInv t -> tenabled t TConnectTo = true -> TInv (fst (tstep t TConnectTo)).
Proof.
  intros t TI EN. cbn [tenabled] in EN. apply negb_true_iff in EN.
  destruct (list_some t TI EN) as [l L]. cbn [tstep].
  rewrite (connectTo_spec (clear_exc t) l eq_refl L). cbn [fst]. unfold clear_exc. cbn [t_running t_shut t_queue t_rcs].
  set (n := List.length (t_rcs t)). set (x := if t_running t then started else init_state).
  pose proof (ti_list t TI) as LO. rewrite L in LO. destruct LO as (S0 & ND & M).
  destruct start_init_facts as (_ & F1 & F2 & F3 & _).
  assert (RC : forall j, rc_at (mkTub (t_running t) (t_shut t) (Some (l ++ [n])) (t_queue t) (t_rcs t ++ [x]) n false) j
                         = if Nat.eqb j n then x else rc_at t j).
  { intros j. unfold rc_at. cbn [t_rcs]. apply nth_app_new. }
  assert (Fx : forgotten x = false) by (unfold x; destruct (t_running t); [exact F2 | reflexivity]).
  assert (Hn : forall j, In j l -> (j < n)%nat) by (intros j Hj; apply M in Hj; apply Hj).
  constructor; cbn [t_list t_shut t_queue t_running]; unfold nrc; cbn [t_rcs]; rewrite ?app_length; cbn [List.length]; fold n.
  - intros j. rewrite RC. destruct (Nat.eqb j n); [|apply (ti_inv t TI)].
    unfold x. destruct (t_running t); [apply inv_started | apply inv_init].
  - split; [exact S0|]. split.
    + apply NoDup_app_last; [exact ND | intros H; apply Hn in H; lia].
    + intros j. rewrite in_app_iff, RC. cbn [In]. destruct (Nat.eqb j n) eqn:E.
      * apply Nat.eqb_eq in E. subst j. split; [intros _; split; [lia | exact Fx] | intros _; right; left; reflexivity].
      * apply Nat.eqb_neq in E. rewrite M. unfold nrc. fold n. split.
        -- intros [[A B]|[A|[]]]; [split; [lia | exact B] | congruence].
        -- intros [A B]. left. split; [lia | exact B].
  - destruct (ti_queue t TI) as [A B]. split; [exact A|]. intros j Hj. destruct (B j Hj) as [B1 B2]. unfold nrc in B1. fold n in B1.
    rewrite RC. destruct (Nat.eqb j n) eqn:E; [apply Nat.eqb_eq in E; lia|]. split; [lia | exact B2].
  - intros H. destruct (ti_idle t TI H) as [A B]. split; [exact A|]. intros j. rewrite RC.
    destruct (Nat.eqb j n); [|apply B]. unfold x. rewrite H. reflexivity.
  - intros H1 H2 j Hj HT. rewrite RC in HT. destruct (Nat.eqb j n) eqn:E.
    + unfold x in HT. rewrite H1 in HT. congruence.
    + apply Nat.eqb_neq in E. apply (ti_queued t TI H1 H2 j); [unfold nrc; fold n; lia | exact HT].
Qed.

(* TStartService *)
Lemma tinv_startService : forall t, TInv t -> tenabled t TStartService = true -> TInv (fst (tstep t TStartService)).
Proof.
  intros t TI EN. cbn [tenabled] in EN. apply andb_true_iff in EN. destruct EN as [E1 E2].
  apply negb_true_iff in E1. apply negb_true_iff in E2.
  destruct (list_some t TI E2) as [l L]. cbn [tstep].
  destruct (startService_spec (clear_exc t) l eq_refl L) as [c' E]. rewrite E. cbn [fst]. unfold clear_exc.
  cbn [t_shut t_queue t_rcs]. destruct (ti_idle t TI E1) as [Q0 TF]. rewrite Q0. cbn [app].
  pose proof (ti_list t TI) as LO. rewrite L in LO. destruct LO as (S0 & ND & M).
  constructor; cbn [t_list t_shut t_queue t_running]; unfold nrc; cbn [t_rcs].
  - intros j. apply (ti_inv t TI).
  - split; [exact S0|]. split; [exact ND | exact M].
  - split; [exact ND|]. intros j Hj. split; [apply M, Hj | apply TF].
  - discriminate.
  - intros _ _ j Hj HT. apply M. split; [exact Hj|]. unfold forgotten.
    change (rc_at {| t_running := true; t_shut := t_shut t; t_list := Some l; t_queue := l; t_rcs := t_rcs t; t_cur := c'; t_exc := false |} j)
      with (rc_at t j) in HT. rewrite HT. apply andb_false_r.
Qed.

(* TStopService *)
Lemma stopService_result : forall t, TInv t -> tenabled t TStopService = true ->
  exists l c', t_list t = Some l /\
    tstep t TStopService =
      (mkTub true true None (t_queue t) (fst (stop_each l (t_rcs t))) c' false,
       flat_map (fun i => map (pair i) (snd (step (rc_at t i) Stop))) l) /\
    (forall j, nth j (fst (stop_each l (t_rcs t))) init_state = if memb j l then fst (step (rc_at t j) Stop) else rc_at t j).
Proof.
  intros t TI EN. cbn [tenabled] in EN. apply andb_true_iff in EN. destruct EN as [E1 E2]. apply negb_true_iff in E2.
  destruct (list_some t TI E2) as [l L]. pose proof (ti_list t TI) as LO. rewrite L in LO. destruct LO as (S0 & ND & M).
  assert (B : forall i, In i l -> (i < List.length (t_rcs t))%nat) by (intros i Hi; apply M in Hi; apply Hi).
  destruct (stopService_spec (clear_exc t) l eq_refl L E1 ND B) as [c' E].
  exists l, c'. split; [exact L|]. split.
  - cbn [tstep]. rewrite E. unfold clear_exc. cbn [t_queue t_rcs]. rewrite stop_each_outs by exact ND. reflexivity.
  - intros j. apply stop_each_nth; assumption.
Qed.

Lemma tinv_stopService : forall t, TInv t -> tenabled t TStopService = true -> TInv (fst (tstep t TStopService)).
Proof.
  intros t TI EN. destruct (stopService_result t TI EN) as (l & c' & L & E & RCn). rewrite E. cbn [fst].
  pose proof (ti_list t TI) as LO. rewrite L in LO. destruct LO as (S0 & ND & M).
  set (t' := mkTub true true None (t_queue t) (fst (stop_each l (t_rcs t))) c' false).
  assert (RC : forall j, rc_at t' j = if memb j l then fst (step (rc_at t j) Stop) else rc_at t j) by exact RCn.
  assert (N : nrc t' = nrc t) by (unfold nrc, t'; cbn [t_rcs]; apply stop_each_length).
  assert (RCT : forall j, tub (rc_at t' j) = tub (rc_at t j)).
  { intros j. rewrite RC. destruct (memb j l); [|reflexivity]. apply stop_facts. }
  constructor; rewrite ?N; cbn [t' t_list t_shut t_queue t_running].
  - intros j. rewrite RC. destruct (memb j l); [|apply (ti_inv t TI)]. apply inv_step; [apply (ti_inv t TI) | reflexivity].
  - split; [reflexivity|]. intros j Hj. rewrite RC. destruct (memb j l) eqn:Mj; [apply stop_facts|].
    destruct (forgotten (rc_at t j)) eqn:F.
    + unfold forgotten in F. apply andb_true_iff in F. apply F.
    + assert (In j l) by (apply M; split; assumption). apply memb_In in H. congruence.
  - destruct (ti_queue t TI) as [A B]. split; [exact A|]. intros j Hj. rewrite RCT. apply B, Hj.
  - discriminate.
  - discriminate.
Qed.

Lemma tinv_step : forall t e, TInv t -> tenabled t e = true -> TInv (fst (tstep t e)).
Proof.
  intros t [| | | |i e] TI EN;
    [apply tinv_connectTo | apply tinv_startService | apply tinv_stopService | apply tinv_turn | apply tinv_rc]; assumption.
Qed.

Lemma tinv_run : forall h t, TInv t -> tpermitted t h -> TInv (fst (trun t h)).
Proof.
  induction h as [|e r IH]; intros t TI HP; cbn [trun tpermitted] in *; [exact TI|].
  destruct HP as [He HP]. pose proof (tinv_step t e TI He) as H1.
  destruct (tstep t e) as [t1 o1]. cbn [fst] in *. specialize (IH t1 H1 HP). destruct (trun t1 r). exact IH.
Qed.

(* ------------------------------------------------------------------ refinement: what each Reconnector of a Tub sees *)
Lemma run_single : forall s e, fst (run s [e]) = fst (step s e) /\ snd (run s [e]) = snd (step s e).
Proof. intros s e. cbn [run]. destruct (step s e) as [s1 o1]. cbn [fst snd]. rewrite app_nil_r. split; reflexivity. Qed.

Lemma proj_single : forall j i e, proj j [(i, e)] = if Nat.eqb j i then [e] else [].
Proof. intros. unfold proj. cbn [filter fst]. rewrite (Nat.eqb_sym i j). destruct (Nat.eqb j i); reflexivity. Qed.

Lemma tagged_map_pair : forall j i o, tagged j (map (pair i) o) = if Nat.eqb j i then o else [].
Proof.
  intros j i o. unfold tagged. induction o as [|x r IH]; cbn [map filter fst]; [destruct (Nat.eqb j i); reflexivity|].
  rewrite (Nat.eqb_sym i j). destruct (Nat.eqb j i) eqn:E; cbn [map snd].
  - rewrite IH. reflexivity.
  - exact IH.
Qed.

Lemma proj_app : forall j a b, proj j (a ++ b) = proj j a ++ proj j b.
Proof. intros. unfold proj. rewrite filter_app, map_app. reflexivity. Qed.
Lemma tagged_app : forall j a b, tagged j (a ++ b) = tagged j a ++ tagged j b.
Proof. intros. unfold tagged. rewrite filter_app, map_app. reflexivity. Qed.

Lemma proj_stops : forall j l, NoDup l -> proj j (map (fun i => (i, Stop)) l) = if memb j l then [Stop] else [].
Proof.
  induction l as [|i r IH]; intros ND; [reflexivity|]. inversion ND; subst.
  change (map (fun i0 => (i0, Stop)) (i :: r)) with ([(i, Stop)] ++ map (fun i0 => (i0, Stop)) r).
  rewrite proj_app, proj_single, IH by assumption. unfold memb. cbn [existsb]. fold (memb j r).
  destruct (Nat.eqb j i) eqn:E; cbn [orb app]; [|reflexivity].
  apply Nat.eqb_eq in E. subst. destruct (memb i r) eqn:M; [apply memb_In in M; contradiction | reflexivity].
Qed.

Lemma tagged_stops : forall j l (f : nat -> list out), NoDup l ->
  tagged j (flat_map (fun i => map (pair i) (f i)) l) = if memb j l then f j else [].
Proof.
  induction l as [|i r IH]; intros f ND; [reflexivity|]. inversion ND; subst.
  cbn [flat_map]. rewrite tagged_app, tagged_map_pair, IH by assumption. unfold memb. cbn [existsb]. fold (memb j r).
  destruct (Nat.eqb j i) eqn:E; cbn [orb app]; [|reflexivity].
  apply Nat.eqb_eq in E. subst. destruct (memb i r) eqn:M; [apply memb_In in M; contradiction | apply app_nil_r].
Qed.

Lemma rc_at_overflow : forall t j, (nrc t <= j)%nat -> rc_at t j = init_state.
Proof. intros. unfold rc_at. apply nth_overflow. assumption. Qed.

Definition refines1 (t : tub_st) (e : tevent) (j : nat) : Prop :=
  permitted (rc_at t j) (proj j (tevents t e)) /\
  rc_at (fst (tstep t e)) j = fst (run (rc_at t j) (proj j (tevents t e))) /\
  tagged j (snd (tstep t e)) = snd (run (rc_at t j) (proj j (tevents t e))).

Lemma refines1_single : forall t e j i ev t' o,
  tevents t e = [(i, ev)] -> tstep t e = (t', o) ->
  enabled (rc_at t i) ev = true ->
  (forall k, rc_at t' k = if Nat.eqb k i then fst (step (rc_at t i) ev) else rc_at t k) ->
  o = map (pair i) (snd (step (rc_at t i) ev)) ->
  refines1 t e j.
Proof.
  intros t e j i ev t' o TE TS EN RC O. unfold refines1. rewrite TE, TS, proj_single. cbn [fst snd]. subst o.
  rewrite tagged_map_pair, RC. destruct (Nat.eqb j i) eqn:E.
  - apply Nat.eqb_eq in E. subst j. destruct (run_single (rc_at t i) ev) as [A B]. rewrite A, B.
    split; [cbn [permitted]; split; [exact EN | exact I] | split; reflexivity].
  - split; [exact I | split; reflexivity].
Qed.

Lemma tstep_refines : forall t e j, TInv t -> tenabled t e = true -> refines1 t e j.
Proof.
  intros t e j TI EN. destruct e as [| | | |i e].
  - (* connectTo *)
    pose proof EN as EN'. cbn [tenabled] in EN'. apply negb_true_iff in EN'. destruct (list_some t TI EN') as [l L].
    unfold refines1. cbn [tstep tevents]. rewrite (connectTo_spec (clear_exc t) l eq_refl L).
    unfold clear_exc. cbn [t_running t_shut t_queue t_rcs fst snd].
    assert (RC : forall x, rc_at (mkTub (t_running t) (t_shut t) (Some (l ++ [List.length (t_rcs t)])) (t_queue t)
                                        (t_rcs t ++ [x]) (List.length (t_rcs t)) false) j
                           = if Nat.eqb j (List.length (t_rcs t)) then x else rc_at t j).
    { intros x. unfold rc_at. cbn [t_rcs]. apply nth_app_new. }
    rewrite RC. destruct (t_running t).
    + rewrite proj_single, tagged_map_pair. destruct (Nat.eqb j (List.length (t_rcs t))) eqn:E.
      * apply Nat.eqb_eq in E. subst j. rewrite rc_at_overflow by (unfold nrc; lia).
        destruct (run_single init_state Start) as [A B]. rewrite A, B.
        split; [cbn [permitted]; split; [apply start_init_facts | exact I] | split; reflexivity].
      * split; [exact I | split; reflexivity].
    + cbn [proj filter map]. unfold proj, tagged. cbn [filter map run fst snd]. split; [exact I|]. split; [|reflexivity].
      destruct (Nat.eqb j (List.length (t_rcs t))) eqn:E; [|reflexivity].
      apply Nat.eqb_eq in E. subst j. symmetry. apply rc_at_overflow. unfold nrc. lia.
  - (* startService *)
    pose proof EN as EN'. cbn [tenabled] in EN'. apply andb_true_iff in EN'. destruct EN' as [_ E2]. apply negb_true_iff in E2.
    destruct (list_some t TI E2) as [l L]. unfold refines1. cbn [tstep tevents].
    destruct (startService_spec (clear_exc t) l eq_refl L) as [c' E]. rewrite E. unfold proj, tagged. cbn [filter map run fst snd].
    split; [exact I | split; reflexivity].
  - (* stopService *)
    destruct (stopService_result t TI EN) as (l & c' & L & E & RCn). unfold refines1. rewrite E. cbn [tevents fst snd]. rewrite L.
    pose proof (ti_list t TI) as LO. rewrite L in LO. destruct LO as (_ & ND & _).
    rewrite proj_stops by exact ND. rewrite (tagged_stops j l (fun i => snd (step (rc_at t i) Stop)) ND).
    unfold rc_at at 2. cbn [t_rcs]. rewrite RCn. destruct (memb j l).
    + destruct (run_single (rc_at t j) Stop) as [A B]. rewrite A, B.
      split; [cbn [permitted]; split; [reflexivity | exact I] | split; reflexivity].
    + split; [exact I | split; reflexivity].
  - (* turn *)
    pose proof EN as EN'. cbn [tenabled] in EN'. destruct (t_queue t) as [|i q] eqn:Q; [discriminate|].
    destruct (turn_facts t i q TI Q) as (C & B & TF & _). cbn zeta in C.
    set (t0 := pop_queue (clear_exc t)) in *.
    assert (B0 : (t_cur t0 < nrc t0)%nat) by (rewrite C; exact B).
    destruct (call_result t0 Start eq_refl B0 (tinv_nodup t TI)) as (RC & _ & _ & _ & _ & _ & _ & O).
    cbn zeta in *. rewrite C in *.
    apply (refines1_single t TTurn j i Start
             (fst (t_call_rc m_tub__removeReconnector (fun s => step s Start) t0))
             (snd (t_call_rc m_tub__removeReconnector (fun s => step s Start) t0))).
    + cbn [tevents]. rewrite Q. reflexivity.
    + cbn [tstep]. fold t0.
      change (t_call_rc m_tub__removeReconnector m_startConnecting t0)
        with (t_call_rc m_tub__removeReconnector (fun s => step s Start) t0).
      destruct (t_call_rc m_tub__removeReconnector (fun s => step s Start) t0); reflexivity.
    + cbn [enabled]. rewrite TF. reflexivity.
    + intros k. rewrite RC. reflexivity.
    + rewrite O. reflexivity.
  - (* an event of Reconnector i *)
    pose proof EN as EN'. cbn [tenabled] in EN'. apply andb_true_iff in EN'. destruct EN' as [EN' E3].
    apply andb_true_iff in EN'. destruct EN' as [E1 E2]. apply Nat.ltb_lt in E2.
    set (t0 := t_set_cur i (clear_exc t)).
    destruct (call_result t0 e eq_refl E2 (tinv_nodup t TI)) as (RC & _ & _ & _ & _ & _ & _ & O).
    cbn zeta in *. change (t_cur t0) with i in *.
    apply (refines1_single t (TRc i e) j i e
             (fst (t_call_rc m_tub__removeReconnector (fun s => step s e) t0))
             (snd (t_call_rc m_tub__removeReconnector (fun s => step s e) t0))).
    + reflexivity.
    + cbn [tstep]. fold t0. destruct (t_call_rc m_tub__removeReconnector (fun s => step s e) t0); reflexivity.
    + exact E3.
    + intros k. rewrite RC. reflexivity.
    + rewrite O. reflexivity.
Qed.

Lemma permitted_app_inv : forall a b s, permitted s a -> permitted (fst (run s a)) b -> permitted s (a ++ b).
Proof.
  induction a as [|e a IH]; intros b s HA HB; cbn [app permitted run] in *; [exact HB|].
  destruct HA as [He HA]. split; [exact He|]. destruct (step s e) as [s1 o1]. cbn [fst] in *.
  apply IH; [exact HA|]. destruct (run s1 a) as [s2 o2]. exact HB.
Qed.

Theorem tub_refines_gen : forall h t j, TInv t -> tpermitted t h ->
  permitted (rc_at t j) (proj j (thistory t h)) /\
  rc_at (fst (trun t h)) j = fst (run (rc_at t j) (proj j (thistory t h))) /\
  tagged j (snd (trun t h)) = snd (run (rc_at t j) (proj j (thistory t h))).
Proof.
  induction h as [|e r IH]; intros t j TI HP; cbn [thistory trun tpermitted] in *.
  - unfold proj, tagged. cbn. repeat split.
  - destruct HP as [He HP]. destruct (tstep_refines t e j TI He) as (P1 & S1 & O1).
    pose proof (tinv_step t e TI He) as TI1. specialize (IH (fst (tstep t e)) j TI1 HP).
    destruct IH as (P2 & S2 & O2). rewrite proj_app, run_app.
    destruct (tstep t e) as [t1 o1]. cbn [fst snd] in *. destruct (trun t1 r) as [t2 o2]. cbn [fst snd] in *.
    rewrite S1 in P2, S2, O2. rewrite tagged_app, O1, O2, S2.
    split; [apply permitted_app_inv; [exact P1 | exact P2]|].
    destruct (run (rc_at t j) (proj j (tevents t e))) as [s1 x1]. cbn [fst snd] in *.
    destruct (run s1 (proj j (thistory t1 r))) as [s2 x2]. cbn [fst snd]. split; reflexivity.
Qed.

Lemma trun_app : forall a b t,
  trun t (a ++ b) = let (t1, o1) := trun t a in let (t2, o2) := trun t1 b in (t2, o1 ++ o2).
Proof.
  induction a as [|e a IH]; intros b t; cbn [trun app].
  - destruct (trun t b); reflexivity.
  - destruct (tstep t e) as [t1 o1]. rewrite IH. destruct (trun t1 a) as [t2 o2]. destruct (trun t2 b) as [t3 o3].
    now rewrite app_assoc.
Qed.
Lemma tpermitted_app : forall a b t, tpermitted t (a ++ b) -> tpermitted t a /\ tpermitted (fst (trun t a)) b.
Proof.
  induction a as [|e a IH]; intros b t H; cbn [app tpermitted trun] in *; [split; [exact I | exact H]|].
  destruct H as [He H]. destruct (tstep t e) as [t1 o1]. cbn [fst] in *. destruct (IH b t1 H) as [H1 H2].
  destruct (trun t1 a) as [t2 o2]. cbn [fst] in *. repeat split; assumption.
Qed.
Lemma tpermittedb_ok : forall h t, tpermittedb t h = true -> tpermitted t h.
Proof.
  induction h as [|e r IH]; intros t H; cbn [tpermitted tpermittedb] in *; [exact I|].
  apply andb_true_iff in H. destruct H as [H1 H2]. split; [exact H1 | apply IH, H2].
Qed.

(* ---- 1. what every Reconnector of a Tub sees is a history that lib/Reconnector.v permits: in particular the Tub
   calls startConnecting at most once per Reconnector, and only on one that has no Tub yet *)
Theorem tub_refines : forall h j, tpermitted tub_init h ->
  permitted init_state (proj j (thistory tub_init h)) /\
  rc_at (fst (trun tub_init h)) j = fst (run init_state (proj j (thistory tub_init h))) /\
  tagged j (snd (trun tub_init h)) = snd (run init_state (proj j (thistory tub_init h))).
Proof.
  intros h j HP. destruct (tub_refines_gen h tub_init j tinv_init HP) as (A & B & C).
  assert (E : rc_at tub_init j = init_state) by (unfold rc_at; cbn; destruct j; reflexivity).
  rewrite E in A, B, C. repeat split; assumption.
Qed.

(* ---- 2. hence every theorem about one Reconnector holds for every Reconnector of every Tub: the invariant *)
Theorem tub_one_activity : forall h j, tpermitted tub_init h ->
  let s := rc_at (fst (trun tub_init h)) j in
  leaked s = 0%nat /\
  (active s = true -> (inflight s + watching s + timer_count s = 1)%nat /\ info_agrees s) /\
  (active s = false -> timer s = None) /\
  (active s = true <-> (tub s = true /\ stopped s = false)).
Proof.
  intros h j HP. destruct (tub_refines h j HP) as (A & B & _). cbv zeta. rewrite B.
  pose proof (one_activity _ A) as (X & Y & Z). pose proof (active_iff_started_not_stopped _ A) as W.
  split; [exact X | split; [exact Y | split; [exact Z | exact W]]].
Qed.

(* ---- 3. stopConnecting of one Reconnector inside a Tub: silent for ever after, whatever the Tub and the other
   Reconnectors do *)
Theorem tub_rc_silent_after_stop : forall h1 h2 j,
  tpermitted tub_init (h1 ++ TRc j Stop :: h2) ->
  let t1 := fst (trun tub_init (h1 ++ [TRc j Stop])) in
  Forall (fun o => silent o = true) (tagged j (snd (trun t1 h2))) /\
  active (rc_at (fst (trun t1 h2)) j) = false /\ timer (rc_at (fst (trun t1 h2)) j) = None.
Proof.
  intros h1 h2 j HP t1.
  replace (h1 ++ TRc j Stop :: h2) with ((h1 ++ [TRc j Stop]) ++ h2) in HP by (rewrite <- app_assoc; reflexivity).
  destruct (tpermitted_app _ _ _ HP) as [HP1 HP2]. fold t1 in HP2.
  pose proof (tinv_run _ _ tinv_init HP1) as TI1. fold t1 in TI1.
  assert (HS : Stopped (rc_at t1 j)).
  { destruct (tpermitted_app _ _ _ HP1) as [HPa HPb]. cbn [tpermitted] in HPb. destruct HPb as [He _].
    pose proof (tinv_run _ _ tinv_init HPa) as TI0.
    destruct (tstep_refines _ (TRc j Stop) j TI0 He) as (_ & S1 & _).
    cbn [tevents] in S1. rewrite proj_single, Nat.eqb_refl in S1.
    destruct (run_single (rc_at (fst (trun tub_init h1)) j) Stop) as [A _]. rewrite A in S1.
    unfold t1. rewrite trun_app. destruct (trun tub_init h1) as [t0 o0]. cbn [trun fst] in *.
    destruct (tstep t0 (TRc j Stop)) as [t' o']. cbn [fst] in *. rewrite S1. apply stop_stops. }
  destruct (tub_refines_gen h2 t1 j TI1 HP2) as (P & S & O). rewrite S, O.
  destruct (stopped_run _ _ HS P) as ((_ & H2 & H3) & H4 & _). repeat split; assumption.
Qed.

(* ---- 4. Tub.stopService: every Reconnector the Tub ever created is told to stop, and none of them acts again *)
Lemma stopped_of_flag : forall s, Inv s -> stopped s = true -> Stopped s.
Proof. intros s I H. destruct (inv_stopped s I H) as [A B]. split; [exact H | split; assumption]. Qed.

Lemma Forall_tagged_map : forall i o, Forall (fun x => silent x = true) o -> Forall (fun p : tout => silent (snd p) = true) (map (pair i) o).
Proof. intros i o H. induction H; cbn [map]; constructor; assumption. Qed.

Lemma shut_step : forall t e, TInv t -> t_list t = None -> tenabled t e = true ->
  Forall (fun p : tout => silent (snd p) = true) (snd (tstep t e)) /\ t_list (fst (tstep t e)) = None.
Proof.
  intros t e TI LN EN. pose proof (ti_list t TI) as LO. rewrite LN in LO. destruct LO as [SH ST].
  destruct e as [| | | |i e]; cbn [tenabled] in EN.
  - rewrite SH in EN. discriminate.
  - rewrite SH, andb_false_r in EN. discriminate.
  - rewrite SH, andb_false_r in EN. discriminate.
  - destruct (t_queue t) as [|i q] eqn:Q; [discriminate|].
    destruct (turn_facts t i q TI Q) as (C & B & TF & _). cbn zeta in C.
    cbn [tstep]. set (t0 := pop_queue (clear_exc t)) in *.
    change (t_call_rc m_tub__removeReconnector m_startConnecting t0)
      with (t_call_rc m_tub__removeReconnector (fun s => step s Start) t0).
    assert (B0 : (t_cur t0 < nrc t0)%nat) by (rewrite C; exact B).
    destruct (call_result t0 Start eq_refl B0 (tinv_nodup t TI)) as (_ & _ & _ & _ & _ & L & _ & O).
    cbn zeta in *. rewrite C in *. change (t_list t0) with (t_list t) in L. rewrite LN in L.
    change (rc_at t0 i) with (rc_at t i) in O.
    split; [|exact L]. rewrite O. apply Forall_tagged_map.
    apply stopped_step; [apply stopped_of_flag; [apply (ti_inv t TI) | apply ST, B] | cbn [enabled]; rewrite TF; reflexivity].
  - apply andb_true_iff in EN. destruct EN as [EN E3]. apply andb_true_iff in EN. destruct EN as [E1 E2]. apply Nat.ltb_lt in E2.
    cbn [tstep]. set (t0 := t_set_cur i (clear_exc t)).
    destruct (call_result t0 e eq_refl E2 (tinv_nodup t TI)) as (_ & _ & _ & _ & _ & L & _ & O).
    cbn zeta in *. change (t_cur t0) with i in *. change (t_list t0) with (t_list t) in L. rewrite LN in L.
    change (rc_at t0 i) with (rc_at t i) in O.
    split; [|exact L]. rewrite O. apply Forall_tagged_map.
    apply stopped_step; [apply stopped_of_flag; [apply (ti_inv t TI) | apply ST, E2] | exact E3].
Qed.

Lemma shut_run : forall h t, TInv t -> t_list t = None -> tpermitted t h ->
  Forall (fun p : tout => silent (snd p) = true) (snd (trun t h)) /\ t_list (fst (trun t h)) = None.
Proof.
  induction h as [|e r IH]; intros t TI LN HP; cbn [trun tpermitted] in *; [split; [constructor | exact LN]|].
  destruct HP as [He HP]. destruct (shut_step t e TI LN He) as [A B]. pose proof (tinv_step t e TI He) as TI1.
  destruct (tstep t e) as [t1 o1]. cbn [fst snd] in *. destruct (IH t1 TI1 B HP) as [C D].
  destruct (trun t1 r) as [t2 o2]. cbn [fst snd] in *. split; [apply Forall_app; split; assumption | exact D].
Qed.

Theorem tub_silent_after_stopService : forall h1 h2,
  tpermitted tub_init (h1 ++ TStopService :: h2) ->
  let r := trun (fst (trun tub_init h1)) (TStopService :: h2) in
  Forall (fun p : tout => silent (snd p) = true) (snd r) /\
  (forall j, active (rc_at (fst r) j) = false /\ timer (rc_at (fst r) j) = None) /\
  t_list (fst r) = None.
Proof.
  intros h1 h2 HP r. destruct (tpermitted_app _ _ _ HP) as [HP1 HP2]. cbn [tpermitted] in HP2. destruct HP2 as [He HP2].
  pose proof (tinv_run _ _ tinv_init HP1) as TI0. set (t0 := fst (trun tub_init h1)) in *.
  destruct (stopService_result t0 TI0 He) as (l & c' & L & E & _).
  pose proof (tinv_step t0 TStopService TI0 He) as TI1.
  assert (LN : t_list (fst (tstep t0 TStopService)) = None) by (rewrite E; reflexivity).
  assert (S1 : Forall (fun p : tout => silent (snd p) = true) (snd (tstep t0 TStopService))).
  { rewrite E. cbn [snd]. apply Forall_forall. intros p Hp. apply in_flat_map in Hp. destruct Hp as (i & _ & Hp).
    apply in_map_iff in Hp. destruct Hp as (o & <- & Ho). cbn [snd].
    destruct (stop_stops (rc_at t0 i)) as [_ F]. rewrite Forall_forall in F. apply F, Ho. }
  destruct (shut_run h2 _ TI1 LN HP2) as [S2 LN2].
  assert (TI2 : TInv (fst r)).
  { unfold r. cbn [trun]. destruct (tstep t0 TStopService) as [t1 o1]. cbn [fst] in *.
    pose proof (tinv_run h2 t1 TI1 HP2) as X. destruct (trun t1 h2). exact X. }
  assert (Er : snd r = snd (tstep t0 TStopService) ++ snd (trun (fst (tstep t0 TStopService)) h2) /\
               fst r = fst (trun (fst (tstep t0 TStopService)) h2)).
  { unfold r. cbn [trun]. destruct (tstep t0 TStopService) as [t1 o1]. cbn [fst snd]. destruct (trun t1 h2); split; reflexivity. }
  destruct Er as [Er1 Er2]. split; [rewrite Er1; apply Forall_app; split; assumption|]. split; [|rewrite Er2; exact LN2].
  intros j. rewrite Er2 in TI2. rewrite Er2. set (t2 := fst (trun (fst (tstep t0 TStopService)) h2)) in *.
  pose proof (ti_list t2 TI2) as LO. rewrite LN2 in LO. destruct LO as [_ ST].
  destruct (Nat.lt_ge_cases j (nrc t2)) as [H|H].
  - apply inv_stopped; [apply (ti_inv t2 TI2) | apply ST, H].
  - rewrite rc_at_overflow by exact H. split; reflexivity.
Qed.

(* ---- 5. the Tub's list: exactly the Reconnectors it has not been told to forget, each once; on a running Tub every
   Reconnector either has been started or has its startConnecting queued ("startService starts the queued ones") *)
Theorem tub_membership : forall h, tpermitted tub_init h ->
  let t := fst (trun tub_init h) in
  match t_list t with
  | Some l => t_shut t = false /\ NoDup l /\
              forall i, In i l <-> ((i < List.length (t_rcs t))%nat /\ (stopped (rc_at t i) && tub (rc_at t i)) = false)
  | None => t_shut t = true
  end /\
  (t_running t = true -> t_shut t = false -> forall i, (i < List.length (t_rcs t))%nat ->
     tub (rc_at t i) = true \/ In i (t_queue t)) /\
  (t_running t = false -> forall i, tub (rc_at t i) = false).
Proof.
  intros h HP t. pose proof (tinv_run _ _ tinv_init HP) as TI. fold t in TI. split; [|split].
  - pose proof (ti_list t TI) as LO. destruct (t_list t); [exact LO | apply LO].
  - intros H1 H2 i Hi. destruct (tub (rc_at t i)) eqn:E; [left; reflexivity | right; apply (ti_queued t TI H1 H2 i Hi E)].
  - intros H. apply (ti_idle t TI H).
Qed.

(* ------------------------------------------------------------------ non-vacuity, and the histories on which
   Tub._removeReconnector raises (replayed on the real Tub by the correspondence: every observation carries "raised") *)
Definition ex_h : list tevent :=
  [TConnectTo; TRc 0 Stop; TConnectTo; TStartService; TTurn; TTurn; TRc 1 (AttemptOk [UReset]); TConnectTo;
   TRc 2 (AttemptFail (1 # 2)); TRc 1 Lost; TStopService; TRc 2 Reset].
Example ex_tub_permitted : tpermitted tub_init ex_h.
Proof. apply tpermittedb_ok. vm_compute. reflexivity. Qed.
Example ex_tub_polite_no_exception : raised tub_init ex_h = map (fun _ => false) ex_h.
Proof. vm_compute. reflexivity. Qed.
(* a second stopConnecting raises ValueError (list.remove); after Tub.stopService it raises AttributeError; a
   stopService in the turn of startService makes the queued startConnecting raise -- in every case AFTER the
   Reconnector has been silenced *)
Example ex_second_stop_raises :
  tpermitted tub_init [TStartService; TConnectTo; TRc 0 Stop; TRc 0 Stop] /\
  raised tub_init [TStartService; TConnectTo; TRc 0 Stop; TRc 0 Stop] = [false; false; false; true].
Proof. split; [apply tpermittedb_ok; vm_compute; reflexivity | vm_compute; reflexivity]. Qed.
Example ex_stop_after_tub_stop_raises :
  tpermitted tub_init [TStartService; TConnectTo; TStopService; TRc 0 Stop] /\
  raised tub_init [TStartService; TConnectTo; TStopService; TRc 0 Stop] = [false; false; false; true].
Proof. split; [apply tpermittedb_ok; vm_compute; reflexivity | vm_compute; reflexivity]. Qed.
Example ex_stop_in_the_turn_of_start_raises :
  tpermitted tub_init [TConnectTo; TStartService; TStopService; TTurn] /\
  raised tub_init [TConnectTo; TStartService; TStopService; TTurn] = [false; false; false; true].
Proof. split; [apply tpermittedb_ok; vm_compute; reflexivity | vm_compute; reflexivity]. Qed.
