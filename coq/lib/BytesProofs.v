(* Round-trip theorems for the TRANSLATED integer codecs of banana.py
   (gen/BananaGen.v: int2b128, b1282int, long_to_bytes, bytes_to_long, send_int). *)
From Coq Require Import ZArith List String Bool Lia.
Import ListNotations.
Require Import Verif.lib.PyLite Verif.gen.BananaGen.
Local Open Scope Z_scope.

(* little-endian value of a digit list in base b *)
Fixpoint le_val (b : Z) (ds : list Z) : Z :=
  match ds with [] => 0 | d :: r => d + b * le_val b r end.

Lemma le_val_app b xs ys : le_val b (xs ++ ys) = le_val b xs + b ^ Z.of_nat (List.length xs) * le_val b ys.
Proof.
  induction xs as [|x xs IH]; cbn [le_val app List.length].
  - rewrite Z.pow_0_r. lia.
  - rewrite IH, Nat2Z.inj_succ, Z.pow_succ_r by lia. ring.
Qed.

Definition digits_ok (b : Z) (ds : list Z) : Prop := Forall (fun d => 0 <= d < b) ds.

Lemma land_ones_mod n k : 0 <= k -> Z.land n (2 ^ k - 1) = n mod 2 ^ k.
Proof. intros Hk. replace (2 ^ k - 1) with (Z.ones k) by (rewrite Z.ones_equiv; lia). apply Z.land_ones; exact Hk. Qed.

Lemma land127 n : Z.land n 127 = n mod 128.
Proof. change 127 with (2 ^ 7 - 1). rewrite land_ones_mod by lia. reflexivity. Qed.

Lemma land255 n : Z.land n 255 = n mod 256.
Proof. change 255 with (2 ^ 8 - 1). rewrite land_ones_mod by lia. reflexivity. Qed.

Lemma shiftr7 n : Z.shiftr n 7 = n / 128.
Proof. rewrite Z.shiftr_div_pow2 by lia. reflexivity. Qed.

Lemma shiftr8 n : Z.shiftr n 8 = n / 256.
Proof. rewrite Z.shiftr_div_pow2 by lia. reflexivity. Qed.

Lemma half_bound n f : 0 <= n < 2 ^ Z.of_nat (S f) -> forall b, 2 <= b -> 0 <= n / b < 2 ^ Z.of_nat f.
Proof.
  intros [H0 H1] b Hb. rewrite Nat2Z.inj_succ, Z.pow_succ_r in H1 by lia.
  split; [apply Z.div_pos; lia|].
  apply Z.div_lt_upper_bound; [lia|]. nia.
Qed.

(* ---------------- int2b128 ---------------- *)

Lemma int2b128_loop_unfold k n acc :
  int2b128_loop1 (S k) n acc =
  if negb (n =? 0) then int2b128_loop1 k (Z.shiftr n 7) (acc ++ [Z.land n 127]) else Ok acc.
Proof. reflexivity. Qed.

Lemma long_to_bytes_loop_unfold k n out :
  long_to_bytes_loop1 (S k) n out =
  if negb (n =? 0) then long_to_bytes_loop1 k (Z.shiftr n 8) (out ++ [Z.land n 255]) else Ok (rev out).
Proof. reflexivity. Qed.

Lemma int2b128_loop_spec f : forall n acc, 0 <= n < 2 ^ Z.of_nat f ->
  exists ds, int2b128_loop1 (S f) n acc = Ok (acc ++ ds) /\ le_val 128 ds = n /\ digits_ok 128 ds /\
             (n = 0 -> ds = []) /\ (0 < n -> exists ds' m, ds = ds' ++ [m] /\ 0 < m).
Proof.
  induction f as [|f IH]; intros n acc Hn.
  - assert (n = 0) by (cbn in Hn; lia). subst n. exists []. cbn. rewrite app_nil_r.
    split; [reflexivity|split; [reflexivity|split; [constructor|split; [reflexivity|lia]]]].
  - rewrite int2b128_loop_unfold. destruct (Z.eqb_spec n 0) as [->|Hnz]; cbn [negb].
    + exists []. rewrite app_nil_r.
      split; [reflexivity|split; [reflexivity|split; [constructor|split; [reflexivity|lia]]]].
    + rewrite land127, shiftr7.
      destruct (IH (n / 128) (acc ++ [n mod 128]) (half_bound n f Hn 128 ltac:(lia))) as (ds & E & V & D & Z0 & T).
      exists ((n mod 128) :: ds). rewrite E, <- app_assoc. cbn [app le_val].
      pose proof (Z.div_mod n 128 ltac:(lia)) as DM. pose proof (Z.mod_pos_bound n 128 ltac:(lia)) as MB.
      split; [reflexivity|split; [rewrite V; lia|split; [constructor; [exact MB | exact D]|split; [lia|]]]].
      intros _. destruct (Z.eq_dec (n / 128) 0) as [Hz|Hz].
      * rewrite (Z0 Hz). exists [], (n mod 128). split; [reflexivity|lia].
      * assert (H : 0 < n / 128) by (pose proof (Z.div_pos n 128 ltac:(lia) ltac:(lia)); lia).
        destruct (T H) as (ds'' & m & Eq & Hm). exists ((n mod 128) :: ds''), m.
        rewrite Eq. split; [reflexivity|exact Hm].
Qed.

Lemma log2_fuel n : 0 < n -> 0 <= n < 2 ^ Z.of_nat (S (Z.to_nat (Z.log2 n))).
Proof.
  intros Hn. pose proof (Z.log2_nonneg n) as Hl. pose proof (Z.log2_spec n Hn) as [_ Hs].
  rewrite Nat2Z.inj_succ, Z2Nat.id by lia. lia.
Qed.

Theorem int2b128_spec n acc : 0 <= n ->
  exists ds, int2b128 n acc = Ok (acc ++ ds) /\ le_val 128 ds = n /\ digits_ok 128 ds /\ ds <> [].
Proof.
  intros Hn. unfold int2b128. destruct (Z.eqb_spec n 0) as [->|Hnz].
  - exists [0]. repeat split; [constructor; [lia|constructor] | discriminate].
  - destruct (Z.gtb_spec n 0) as [Hp|]; [|lia].
    destruct (int2b128_loop_spec _ n acc (log2_fuel n Hp)) as (ds & E & V & D & _ & T).
    exists ds. split; [exact E|split; [exact V|split; [exact D|]]].
    destruct (T Hp) as (ds' & m & -> & _). destruct ds'; discriminate.
Qed.

Lemma int2b128_negative n acc : n < 0 -> int2b128 n acc = Exc "AssertionError"%string.
Proof.
  intros Hn. unfold int2b128. destruct (Z.eqb_spec n 0); [lia|]. destruct (Z.gtb_spec n 0); [lia|reflexivity].
Qed.

Lemma b1282int_fold ds : forall i p, 0 <= p ->
  fold_left (fun '(i, place) num => (i + num * 128 ^ place, place + 1)) ds (i, p)
  = (i + 128 ^ p * le_val 128 ds, p + Z.of_nat (List.length ds)).
Proof.
  induction ds as [|d ds IH]; intros i p Hp; cbn [fold_left le_val List.length].
  - f_equal; lia.
  - rewrite IH by lia. rewrite Nat2Z.inj_succ, Z.pow_add_r, Z.pow_1_r by lia. f_equal; ring.
Qed.

Theorem b1282int_spec ds : b1282int ds = Ok (le_val 128 ds).
Proof.
  unfold b1282int. cbv zeta.
  change (fold_left _ ds (0, 0)) with
    (fold_left (fun '(i, place) num => (i + num * 128 ^ place, place + 1)) ds (0, 0)).
  rewrite b1282int_fold by lia. rewrite Z.pow_0_r. f_equal. lia.
Qed.

(* the header codec round-trips for every non-negative integer *)
Theorem b128_roundtrip n : 0 <= n ->
  exists ds, int2b128 n [] = Ok ds /\ b1282int ds = Ok n /\ digits_ok 128 ds /\ ds <> [].
Proof.
  intros Hn. destruct (int2b128_spec n [] Hn) as (ds & E & V & D & NE).
  exists ds. cbn [app] in E. repeat split; auto. rewrite b1282int_spec, V. reflexivity.
Qed.

(* the encoder emits the minimal number of digits: at most k digits for n < 128^k *)
Lemma le_val_bound b ds : 2 <= b -> digits_ok b ds -> 0 <= le_val b ds < b ^ Z.of_nat (List.length ds).
Proof.
  intros Hb D. induction D as [|d ds Hd D IH]; cbn [le_val List.length].
  - rewrite Z.pow_0_r. lia.
  - rewrite Nat2Z.inj_succ, Z.pow_succ_r by lia. nia.
Qed.

Theorem int2b128_length n acc ds k : 0 <= n < 128 ^ Z.of_nat k -> (1 <= k)%nat ->
  int2b128 n acc = Ok (acc ++ ds) -> (List.length ds <= k)%nat.
Proof.
  intros Hn Hk E. unfold int2b128 in E. destruct (Z.eqb_spec n 0) as [->|Hnz].
  - inversion E as [E']. apply app_inv_head in E'. subst ds. cbn. lia.
  - destruct (Z.gtb_spec n 0) as [Hp|]; [|lia].
    destruct (int2b128_loop_spec _ n acc (log2_fuel n Hp)) as (ds0 & E0 & V & D & _ & T).
    rewrite E0 in E. inversion E as [E']. apply app_inv_head in E'. subst ds0.
    destruct (T Hp) as (ds' & m & -> & Hm).
    rewrite le_val_app in V. cbn [le_val] in V. apply Forall_app in D as [D1 D2].
    pose proof (le_val_bound 128 ds' ltac:(lia) D1) as B1.
    rewrite app_length. cbn [List.length].
    destruct (Nat.le_gt_cases (List.length ds' + 1) k) as [|Hgt]; [assumption|exfalso].
    assert (Hle : Z.of_nat k <= Z.of_nat (List.length ds')) by lia.
    assert (128 ^ Z.of_nat k <= 128 ^ Z.of_nat (List.length ds')) by (apply Z.pow_le_mono_r; lia).
    assert (0 < 128 ^ Z.of_nat (List.length ds')) by (apply Z.pow_pos_nonneg; lia). nia.
Qed.

(* ---------------- long_to_bytes / bytes_to_long ---------------- *)

Lemma long_to_bytes_loop_spec f : forall n out, 0 <= n < 2 ^ Z.of_nat f ->
  exists ds, long_to_bytes_loop1 (S f) n out = Ok (rev (out ++ ds)) /\ le_val 256 ds = n /\ digits_ok 256 ds /\
             (n = 0 -> ds = []) /\ (0 < n -> exists ds' m, ds = ds' ++ [m] /\ 0 < m).
Proof.
  induction f as [|f IH]; intros n out Hn.
  - assert (n = 0) by (cbn in Hn; lia). subst n. exists []. cbn. rewrite app_nil_r.
    split; [reflexivity|split; [reflexivity|split; [constructor|split; [reflexivity|lia]]]].
  - rewrite long_to_bytes_loop_unfold. destruct (Z.eqb_spec n 0) as [->|Hnz]; cbn [negb].
    + exists []. rewrite app_nil_r.
      split; [reflexivity|split; [reflexivity|split; [constructor|split; [reflexivity|lia]]]].
    + rewrite land255, shiftr8.
      destruct (IH (n / 256) (out ++ [n mod 256]) (half_bound n f Hn 256 ltac:(lia))) as (ds & E & V & D & Z0 & T).
      exists ((n mod 256) :: ds). rewrite E, <- app_assoc. cbn [app le_val].
      pose proof (Z.div_mod n 256 ltac:(lia)) as DM. pose proof (Z.mod_pos_bound n 256 ltac:(lia)) as MB.
      split; [reflexivity|split; [rewrite V; lia|split; [constructor; [exact MB | exact D]|split; [lia|]]]].
      intros _. destruct (Z.eq_dec (n / 256) 0) as [Hz|Hz].
      * rewrite (Z0 Hz). exists [], (n mod 256). split; [reflexivity|lia].
      * assert (H : 0 < n / 256) by (pose proof (Z.div_pos n 256 ltac:(lia) ltac:(lia)); lia).
        destruct (T H) as (ds'' & m & Eq & Hm). exists ((n mod 256) :: ds''), m.
        rewrite Eq. split; [reflexivity|exact Hm].
Qed.

Theorem long_to_bytes_spec n : 0 <= n ->
  exists ds, long_to_bytes n = Ok (rev ds) /\ le_val 256 ds = n /\ digits_ok 256 ds /\
             (0 < n -> exists ds' m, ds = ds' ++ [m] /\ 0 < m).
Proof.
  intros Hn. unfold long_to_bytes. destruct (Z.geb_spec n 0) as [_|]; [|lia]. cbv zeta.
  destruct (Z.eq_dec n 0) as [->|Hnz].
  - exists []. cbn. repeat split; [constructor|lia].
  - assert (Hp : 0 < n) by lia.
    destruct (long_to_bytes_loop_spec _ n [] (log2_fuel n Hp)) as (ds & E & V & D & _ & T).
    exists ds. cbn [app] in E. repeat split; auto.
Qed.

Lemma long_to_bytes_negative n : n < 0 -> long_to_bytes n = Exc "AssertionError"%string.
Proof. intros Hn. unfold long_to_bytes. destruct (Z.geb_spec n 0); [lia|reflexivity]. Qed.

Lemma shiftl8 a : Z.shiftl a 8 = a * 256.
Proof. rewrite Z.shiftl_mul_pow2 by lia. reflexivity. Qed.

Lemma bytes_to_long_fold bs : forall acc,
  fold_left (fun acc i => Z.shiftl acc 8 + i) bs acc = acc * 256 ^ Z.of_nat (List.length bs) + le_val 256 (rev bs).
Proof.
  induction bs as [|b bs IH]; intros acc; cbn [fold_left List.length rev le_val].
  - rewrite Z.pow_0_r. lia.
  - rewrite IH, shiftl8, le_val_app, rev_length. cbn [le_val].
    rewrite Nat2Z.inj_succ, Z.pow_succ_r by lia. ring.
Qed.

Theorem bytes_to_long_spec bs : bytes_to_long bs = Ok (le_val 256 (rev bs)).
Proof.
  unfold bytes_to_long. cbv zeta.
  change (fold_left _ bs 0) with (fold_left (fun acc i => Z.shiftl acc 8 + i) bs 0).
  rewrite bytes_to_long_fold. f_equal; lia.
Qed.

Theorem longbytes_roundtrip n : 0 <= n ->
  exists bs, long_to_bytes n = Ok bs /\ bytes_to_long bs = Ok n /\ digits_ok 256 bs.
Proof.
  intros Hn. destruct (long_to_bytes_spec n Hn) as (ds & E & V & D & _).
  exists (rev ds). repeat split; auto.
  - rewrite bytes_to_long_spec, rev_involutive, V. reflexivity.
  - unfold digits_ok in *. apply Forall_rev. exact D.
Qed.

(* byte length of long_to_bytes n : the k with 256^(k-1) <= n < 256^k  (k = 0 for n = 0) *)
Theorem long_to_bytes_length n bs : 0 < n -> long_to_bytes n = Ok bs ->
  256 ^ (Z.of_nat (List.length bs) - 1) <= n < 256 ^ Z.of_nat (List.length bs).
Proof.
  intros Hn E. destruct (long_to_bytes_spec n ltac:(lia)) as (ds & E' & V & D & T).
  rewrite E in E'. inversion E'; subst bs. rewrite rev_length.
  pose proof (le_val_bound 256 ds ltac:(lia) D) as B. rewrite V in B. split; [|lia].
  destruct (T Hn) as (ds' & m & -> & Hm). rewrite app_length, le_val_app in *. cbn [List.length le_val] in *.
  replace (Z.of_nat (List.length ds' + 1) - 1) with (Z.of_nat (List.length ds')) by lia.
  apply Forall_app in D as [D1 D2]. pose proof (le_val_bound 256 ds' ltac:(lia) D1).
  assert (0 < 256 ^ Z.of_nat (List.length ds')) by (apply Z.pow_pos_nonneg; lia). nia.
Qed.
