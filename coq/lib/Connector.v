(* Connector.v -- model of the part of Tub.getBrokerForTubRef / Tub.connectionFailed / TubConnector.connect that decides
   whether a getReference() for a FURL starts a connection attempt and when its Deferred fires, in a world where no
   peer ever answers (the situation an untrusted FURL can create).  Definitions only; proofs in ConnectorProofs.v.
   `store_first` is the translated shape fact FurlGen.connector_stored_before_connect. *)
From Coq Require Import ZArith List Bool.
Import ListNotations.
Local Open Scope Z_scope.

Inductive cev :=
| GetRef (t : Z) (usable : bool)   (* getReference(FURL for tub t); usable = ConnectAll.usable: when connect() returns some hint of it
                                      is being dialled or its handler is still waiting (ConnectAllProofs.connect_all_outcome); that the
                                      timer then ends in exactly one Tub.connectionFailed is ConnectLateProofs.timeout_reports *)
| Advance (dt : Z).                (* virtual time passes *)

Record cst := {
  now : Z;
  table : list Z;                  (* Tub.tubConnectors: tub ids that have a stored connector *)
  live : list (Z * Z);             (* running connectors: (tub id, deadline of its connect timer) *)
  waiters : list (nat * Z);        (* Tub.waitingForBrokers: (getReference number, tub id), not yet answered *)
  fired : list nat;                (* answered getReferences *)
  started : list nat;              (* getReferences that started a connection attempt *)
  next : nat
}.

Definition cinit : cst := {| now := 0; table := []; live := []; waiters := []; fired := []; started := []; next := 0 |}.

Definition zin (x : Z) (l : list Z) : bool := existsb (Z.eqb x) l.

(* Tub.connectionFailed for each tub id of ts: forget its connector, answer (errback) everybody waiting for it *)
Definition conn_failed (ts : list Z) (s : cst) : cst :=
  {| now := now s;
     table := filter (fun t => negb (zin t ts)) (table s);
     live := live s;
     waiters := filter (fun w => negb (zin (snd w) ts)) (waiters s);
     fired := fired s ++ map fst (filter (fun w => zin (snd w) ts) (waiters s));
     started := started s;
     next := next s |}.

Definition store (t : Z) (s : cst) : cst :=
  {| now := now s; table := t :: table s; live := live s; waiters := waiters s; fired := fired s; started := started s; next := next s |}.

(* TubConnector.connect(): start the timer and try every hint; with no usable hint the failure path
   (NoLocationHintsError -> Tub.connectionFailed) runs before connect() returns *)
Definition connect (timeout : Z) (w : nat) (t : Z) (usable : bool) (s : cst) : cst :=
  if usable
  then {| now := now s; table := table s; live := (t, now s + timeout) :: live s; waiters := waiters s; fired := fired s;
          started := w :: started s; next := next s |}
  else conn_failed [t] s.

Definition expired (n : Z) (e : Z * Z) : bool := snd e <=? n.

Definition cstep (store_first : bool) (timeout : Z) (s : cst) (e : cev) : cst :=
  match e with
  | GetRef t usable =>
      let w := next s in
      let s1 := {| now := now s; table := table s; live := live s; waiters := (w, t) :: waiters s; fired := fired s;
                   started := started s; next := S w |} in
      if zin t (table s1) then s1
      else if store_first then connect timeout w t usable (store t s1)
           else store t (connect timeout w t usable s1)
  | Advance dt =>
      let n := now s + Z.max dt 0 in
      let ex := filter (expired n) (live s) in
      conn_failed (map fst ex)
        {| now := n; table := table s; live := filter (fun e => negb (expired n e)) (live s); waiters := waiters s;
           fired := fired s; started := started s; next := next s |}
  end.

Definition crun (store_first : bool) (timeout : Z) (evs : list cev) : cst := fold_left (cstep store_first timeout) evs cinit.

(* observation after each event, for the correspondence with a real Tub: (answered getReferences, those that started an attempt) *)
Fixpoint ctrace (store_first : bool) (timeout : Z) (s : cst) (evs : list cev) : list (list nat * list nat) :=
  match evs with
  | [] => []
  | e :: evs' => let s' := cstep store_first timeout s e in (fired s', started s') :: ctrace store_first timeout s' evs'
  end.
