(* FurlPrim.v -- the string primitives that the generated terms of gen/FurlGen.v are written in (C20).
   Definitions only. *)
From Coq Require Import ZArith List Bool.
Import ListNotations.
Local Open Scope Z_scope.

(* `sep in s` *)
Definition zmem (x : Z) (l : list Z) : bool := existsb (Z.eqb x) l.

(* s.split(sep, 1)[0] / s.partition(sep)[0]: the text before the first separator (all of s without one) *)
Fixpoint take_until (x : Z) (s : list Z) : list Z :=
  match s with [] => [] | y :: s' => if y =? x then [] else y :: take_until x s' end.
