(* C03 -- caller-side pending-request table of foolscap (broker.py / call.py / referenceable.py).
   Executable model only; proofs are in RequestsProofs.v.

   The bodies of PendingRequest.complete, PendingRequest.fail and Broker.finish are NOT written
   here: they are the programs `PendingRequest_complete`, `PendingRequest_fail`, `Broker_finish`
   translated from the source into gen/RequestsGen.v, and this file only gives the interpreter
   of their statement language. *)
From Coq Require Import ZArith List Bool.
Import ListNotations.
Require Import Verif.gen.RequestsGen.
Local Open Scope Z_scope.

(* how the Deferred of a call was fired *)
Inductive outcome :=
| OResult        (* callback with the method's result *)
| ORemoteError   (* errback: remote failure (error sequence) *)
| OViolation     (* errback: local Violation while receiving the answer *)
| ODeadRef       (* errback: DeadReferenceError *)
| OSendFail      (* errback: serialization of the arguments failed *)
| OLocal         (* errback before commitment: bad method name / argument schema *)
| OOther.        (* errback with some other reason (shutdown with a non-connection-lost reason, gift failure) *)

(* one callRemote / callRemoteOnly; its index in `calls` is its handle (ghost identity of the
   PendingRequest object) *)
Record call := mkCall {
  c_rid : Z;                  (* reqID (oneway_reqid for callRemoteOnly) *)
  c_twoway : bool;            (* callRemote (the caller holds the Deferred) *)
  c_tracked : bool;           (* req.broker is set, i.e. addRequest was called *)
  c_active : bool;            (* PendingRequest.active *)
  c_fires : list outcome      (* every callback/errback invocation on the Deferred, in order *)
}.

(* an entry of the process-wide eventual-send queue (eventual.py _SimpleCallQueue._events) *)
Inductive qentry :=
| EFail (h : nat) (o : outcome)   (* eventually(req.fail, why) queued by abandonAllRequests *)
| EForeign (raises : bool).       (* any other callable: a notifyOnDisconnect handler, an application's eventually(), another
                                     connection's work; `raises` = it raises an exception when it is run *)

Record st := mkSt {
  calls : list call;
  table : list (Z * nat);     (* Broker.waitingForAnswers: reqID -> handle, insertion order *)
  disconnected : bool;        (* Broker.disconnected *)
  nextid : Z;                 (* next value of Broker.nextReqID *)
  evq : list qentry;          (* the eventual-send queue, oldest first *)
  raised : nat;               (* number of KeyErrors raised by removeRequest *)
  batch : nat                 (* how many entries at the head of evq belong to the _turn() that is running (0: none) *)
}.

Definition init : st := mkSt [] [] false first_reqid [] 0 0.

Definition set_calls (s : st) (l : list call) : st :=
  mkSt l (table s) (disconnected s) (nextid s) (evq s) (raised s) (batch s).
Definition set_table (s : st) (t : list (Z * nat)) : st :=
  mkSt (calls s) t (disconnected s) (nextid s) (evq s) (raised s) (batch s).
Definition set_evq (s : st) (q : list qentry) : st :=
  mkSt (calls s) (table s) (disconnected s) (nextid s) q (raised s) (batch s).
Definition set_disconnected (s : st) : st :=
  mkSt (calls s) (table s) true (nextid s) (evq s) (raised s) (batch s).
Definition set_batch (s : st) (b : nat) : st :=
  mkSt (calls s) (table s) (disconnected s) (nextid s) (evq s) (raised s) b.
Definition bump_raised (s : st) : st :=
  mkSt (calls s) (table s) (disconnected s) (nextid s) (evq s) (S (raised s)) (batch s).

Fixpoint upd (h : nat) (f : call -> call) (l : list call) {struct l} : list call :=
  match l, h with
  | [], _ => []
  | c :: l', O => f c :: l'
  | c :: l', S h' => c :: upd h' f l'
  end.

Definition get (s : st) (h : nat) : option call := nth_error (calls s) h.

(* dictionary operations on the association list *)
Definition tbl_has (rid : Z) (t : list (Z * nat)) : bool := existsb (fun e => fst e =? rid) t.
Definition tbl_del (rid : Z) (t : list (Z * nat)) : list (Z * nat) := filter (fun e => negb (fst e =? rid)) t.
Fixpoint tbl_find (rid : Z) (t : list (Z * nat)) : option nat :=
  match t with
  | [] => None
  | (r, h) :: t' => if r =? rid then Some h else tbl_find rid t'
  end.

(* ---- interpreter of the translated PendingRequest methods.
   A configuration is (state, raised?); after an exception the remaining statements are skipped. *)
Definition set_active (b : bool) (c : call) : call :=
  mkCall (c_rid c) (c_twoway c) (c_tracked c) b (c_fires c).
Definition add_fire (o : outcome) (c : call) : call :=
  mkCall (c_rid c) (c_twoway c) (c_tracked c) (c_active c) (c_fires c ++ [o]).

Definition do_remove (s : st) (rid : Z) : st * bool :=
  match removeRequest_kind with
  | RemoveDel => if tbl_has rid (table s) then (set_table s (tbl_del rid (table s)), false)
                 else (bump_raised s, true)
  | RemoveQuiet => (set_table s (tbl_del rid (table s)), false)
  end.

Fixpoint exec_p (p : pstmt) (h : nat) (o : outcome) (x : st * bool) {struct p} : st * bool :=
  let run := fix run (ps : list pstmt) (x : st * bool) {struct ps} : st * bool :=
               match ps with [] => x | p' :: ps' => run ps' (exec_p p' h o x) end in
  if snd x then x else
  let s := fst x in
  match get s h with
  | None => x
  | Some c =>
    match p with
    | PIfBroker body => if c_tracked c then run body x else x
    | PIfActive th el => if c_active c then run th x else run el x
    | PRemove => do_remove s (c_rid c)
    | PSetActive b => (set_calls s (upd h (set_active b) (calls s)), false)
    | PSetFailure => x
    | PCallback => (set_calls s (upd h (add_fire OResult) (calls s)), false)
    | PErrback => (set_calls s (upd h (add_fire o) (calls s)), false)
    | PLog => x
    end
  end.

Fixpoint exec_ps (ps : list pstmt) (h : nat) (o : outcome) (x : st * bool) {struct ps} : st * bool :=
  match ps with [] => x | p :: ps' => exec_ps ps' h o (exec_p p h o x) end.

(* req.complete(res) / req.fail(why) on the PendingRequest with handle h *)
Definition complete_step (s : st) (h : nat) : st := fst (exec_ps PendingRequest_complete h OResult (s, false)).
Definition fail_step (s : st) (h : nat) (o : outcome) : st := fst (exec_ps PendingRequest_fail h o (s, false)).

(* ---- Broker.finish(why); `o` is what `why` becomes for the requests (see reason_outcome below) *)
Definition abandon (s : st) (o : outcome) : st :=
  match abandon_mode_of_source with
  | AbandonEventually => set_evq s (evq s ++ map (fun e => EFail (snd e) o) (table s))
  | AbandonDirect => fold_left (fun s' e => fail_step s' (snd e) o) (table s) s
  end.

Fixpoint exec_f (ps : list fstmt) (o : outcome) (s : st) {struct ps} : st :=
  match ps with
  | [] => s
  | FReturnIfDisconnected :: ps' => if disconnected s then s else exec_f ps' o s
  | FSetDisconnected :: ps' => exec_f ps' o (set_disconnected s)
  | FAbandon :: ps' => exec_f ps' o (abandon s o)
  end.

Definition finish_step (s : st) (o : outcome) : st := exec_f Broker_finish o s.

(* ---- the reason given to connectionLost / shutdown, relative to broker.LOST_CONNECTION_ERRORS *)
Inductive reason :=
| RListed (c : lost_class)      (* exactly one of the classes the list names *)
| RSubclass (c : lost_class)    (* a proper subclass of such a class (ConnectionAborted, SSL.SysCallError, ...) *)
| RUnrelated.                   (* any other exception *)

(* specification ("map all connection-lost errors to DeadReferenceError"): which reasons are lost connections *)
Definition is_lost (r : reason) : bool := match r with RUnrelated => false | _ => true end.

Definition lost_class_eqb (a b : lost_class) : bool :=
  match a, b with
  | ConnectionLostC, ConnectionLostC | ConnectionDoneC, ConnectionDoneC | SSLErrorC, SSLErrorC => true
  | _, _ => false
  end.
Definition listed (c : lost_class) : bool := existsb (lost_class_eqb c) lost_connection_errors_listed.

(* what the code does: the translated test of abandonAllRequests decides *)
Definition reason_outcome (r : reason) : outcome :=
  match r with
  | RListed c => if listed c then ODeadRef else OOther
  | RSubclass c => match lost_test_of_source with
                   | LostCheckSubclasses => if listed c then ODeadRef else OOther
                   | LostExactTypeOnly => OOther
                   end
  | RUnrelated => OOther
  end.

(* ---- RemoteReference._callRemote *)
Inductive callkind :=
| KTwoWay        (* callRemote that reaches commitment point 1 *)
| KOneWay        (* callRemoteOnly *)
| KLocalReject.  (* callRemote that raises after newRequestID and before addRequest (unknown method, argument schema) *)

Definition push (s : st) (c : call) : st := set_calls s (calls s ++ [c]).
Definition take_id (s : st) : st :=
  mkSt (calls s) (table s) (disconnected s) (nextid s + 1) (evq s) (raised s) (batch s).

Definition call_step (s : st) (k : callkind) : st :=
  let h := List.length (calls s) in
  match k with
  | KOneWay =>
      if disconnected s && oneway_silent_when_disconnected
      then push s (mkCall oneway_reqid false false false [])     (* silently consumed: no PendingRequest *)
      else push s (mkCall oneway_reqid false false PendingRequest_active_default [])
  | KTwoWay =>
      if disconnected s && newRequestID_refuses_when_disconnected
      then push s (mkCall 0 true false false [ODeadRef])        (* maybeDeferred turns the raise into an errback *)
      else let rid := nextid s in
           let s1 := push (take_id s) (mkCall rid true true PendingRequest_active_default []) in
           set_table s1 (table s1 ++ [(rid, h)])
  | KLocalReject =>
      if disconnected s && newRequestID_refuses_when_disconnected
      then push s (mkCall 0 true false false [ODeadRef])
      else push (take_id s) (mkCall (nextid s) true false false [OLocal])
  end.

(* ---- _SimpleCallQueue._turn: the events present when the turn starts form its batch (turn_takes_snapshot); they run in
   order; what an exception raised by one of them does to the rest of the batch is the translated turn_mode_of_source *)
Definition turn_step (s : st) : st :=
  match evq s with
  | [] => set_batch s 0
  | e :: q =>
    let b := Nat.pred (if Nat.eqb (batch s) 0 then List.length (evq s) else batch s) in   (* left in this batch after e *)
    let s1 := set_batch (set_evq s q) b in
    match e with
    | EFail h o => fail_step s1 h o
    | EForeign false => s1
    | EForeign true =>
        match turn_mode_of_source with
        | TurnIsolatesEvents => s1                                        (* try/except around each event *)
        | TurnStopsAtFirstException => set_batch (set_evq s (skipn b q)) 0  (* the loop ends: the rest of the batch is dropped *)
        end
    end
  end.

(* ---- operations *)
Inductive op :=
| Call (k : callkind)
| Answer (rid : Z)            (* complete answer sequence for reqID rid: getRequest then complete *)
| Error (rid : Z)             (* complete error sequence: getRequest then fail *)
| AnswerViolation (rid : Z)   (* Violation while receiving the body of an answer OR error sequence whose reqID was read *)
| Complete (h : nat)          (* complete() on an already bound request object (answer finished late) *)
| Fail (h : nat) (o : outcome)(* fail() on a request object: send failure (OSendFail), late failure *)
| Finish (r : reason)         (* connectionLost(why) / shutdown(why); r classifies why *)
| Enqueue (raises : bool)     (* somebody else calls eventually(f): disconnect watcher, application code, another broker *)
| Turn.                       (* the eventual-send queue runs its oldest entry (one iteration of the loop of _turn) *)

Definition step (s : st) (x : op) : st :=
  match x with
  | Call k => call_step s k
  | Answer rid => match tbl_find rid (table s) with Some h => complete_step s h | None => s end
  | Error rid => match tbl_find rid (table s) with Some h => fail_step s h ORemoteError | None => s end
  | AnswerViolation rid => match tbl_find rid (table s) with Some h => fail_step s h OViolation | None => s end
  | Complete h => complete_step s h
  | Fail h o => fail_step s h o
  | Finish r => finish_step s (reason_outcome r)
  | Enqueue r => set_evq s (evq s ++ [EForeign r])
  | Turn => turn_step s
  end.

Definition run (ops : list op) : st := fold_left step ops init.
Definition run_from (s : st) (ops : list op) : st := fold_left step ops s.

(* ---- observation used by the correspondence: compact code of a state *)
Definition ocode (o : outcome) : Z :=
  match o with OResult => 1 | ORemoteError => 2 | OViolation => 3 | ODeadRef => 4 | OSendFail => 5 | OLocal => 6 | OOther => 7 end.

Definition qcode (e : qentry) : Z :=
  match e with EFail h _ => Z.of_nat h | EForeign false => -3 | EForeign true => -4 end.

Definition snapshot (s : st) : list Z * list (list Z) * (bool * list Z * Z) :=
  (map fst (table s),
   map (fun c => map ocode (c_fires c)) (calls s),
   (disconnected s, map qcode (evq s), Z.of_nat (raised s))).

Fixpoint snapshots (s : st) (ops : list op) {struct ops} : list (list Z * list (list Z) * (bool * list Z * Z)) :=
  match ops with
  | [] => []
  | x :: ops' => let s' := step s x in snapshot s' :: snapshots s' ops'
  end.
