(* TorStateProofs.v -- the Tor handler classifies a hint by the string alone, whatever its Tor is doing
   (model: TorState.v, step order translated from connections/tor.py). *)
From Coq Require Import ZArith List String Bool.
Import ListNotations.
Require Import Verif.lib.PyLite Verif.lib.Regex Verif.lib.FurlPrim Verif.gen.FurlGen Verif.lib.Furl Verif.lib.FurlProofs Verif.lib.TorState.
Local Open Scope Z_scope.

Ltac tor_unfold :=
  unfold tor_handler, tor_handler_gen, TOR_STEPS, tor_hint_to_endpoint, unbound;
  cbn [tor_run tor_env0 e_mo e_hp e_socks].

(* with a Tor that is there, the handler IS the classification of Furl.v (so everything proved about
   tor_hint_to_endpoint / get_endpoint with a KTor handler is about this function) *)
Lemma tor_ready_is_classification : forall nonpublic hint,
  tor_handler nonpublic TorReady hint = Done (tor_hint_to_endpoint nonpublic hint).
Proof.
  intros np h. tor_unfold.
  destruct (re_apply TOR_HINT_RE TOR_HINT_RE_method h) as [c|]; [|reflexivity].
  destruct (py_int (group_or_nil 2 c)) as [port|e]; [|reflexivity].
  cbn [tor_run e_mo e_hp e_socks].
  destruct (np (group_or_nil 1 c)); reflexivity.
Qed.

(* a hint the classification rejects is rejected at once, whatever the Tor does: no waiting, no other exception *)
Lemma tor_invalid_whatever_tor : forall nonpublic st hint,
  tor_hint_to_endpoint nonpublic hint = invalid -> tor_handler nonpublic st hint = Done invalid.
Proof.
  intros np st h. tor_unfold.
  destruct (re_apply TOR_HINT_RE TOR_HINT_RE_method h) as [c|]; [|reflexivity].
  destruct (py_int (group_or_nil 2 c)) as [port|e]; [|intros ->; reflexivity].
  cbn [tor_run e_mo e_hp e_socks].
  destruct (np (group_or_nil 1 c)); [reflexivity|discriminate].
Qed.

(* a hint the classification accepts: the endpoint once the Tor is there; until then / instead the Tor's own fate *)
Lemma tor_valid_follows_tor : forall nonpublic st hint ep,
  tor_hint_to_endpoint nonpublic hint = Ok ep ->
  tor_handler nonpublic st hint = match st with TorReady => Done (Ok ep) | TorStarting => Waiting | TorFails e => Done (Exc e) end.
Proof.
  intros np st h ep. tor_unfold.
  destruct (re_apply TOR_HINT_RE TOR_HINT_RE_method h) as [c|]; [|discriminate].
  destruct (py_int (group_or_nil 2 c)) as [port|e]; [|discriminate].
  cbn [tor_run e_mo e_hp e_socks].
  destruct (np (group_or_nil 1 c)); [discriminate|].
  intros E. injection E as <-. destruct st; reflexivity.
Qed.

(* so the handler never waits on a hint it is going to reject ... *)
Lemma tor_waits_only_for_valid : forall nonpublic st hint,
  tor_handler nonpublic st hint = Waiting -> st = TorStarting /\ exists ep, tor_hint_to_endpoint nonpublic hint = Ok ep.
Proof.
  intros np st h. tor_unfold.
  destruct (re_apply TOR_HINT_RE TOR_HINT_RE_method h) as [c|]; [|discriminate].
  destruct (py_int (group_or_nil 2 c)) as [port|e]; [|discriminate].
  cbn [tor_run e_mo e_hp e_socks].
  destruct (np (group_or_nil 1 c)); [discriminate|].
  destruct st; try discriminate. intros _. split; [reflexivity|eexists; reflexivity].
Qed.

(* ... and an exception is InvalidHintError or the very exception the handler's Tor failed with *)
Lemma tor_exception_origin : forall nonpublic st hint e,
  tor_handler nonpublic st hint = Done (Exc e) -> e = "InvalidHintError"%string \/ st = TorFails e.
Proof.
  intros np st h e. tor_unfold.
  destruct (re_apply TOR_HINT_RE TOR_HINT_RE_method h) as [c|] eqn:E; [|intros H; injection H as <-; left; reflexivity].
  destruct (tor_port h c E) as [v Hv]. rewrite Hv.
  cbn [tor_run e_mo e_hp e_socks].
  destruct (np (group_or_nil 1 c)); [intros H; injection H as <-; left; reflexivity|].
  destruct st; try discriminate. intros H. injection H as <-. right; reflexivity.
Qed.

(* the classification itself always ends in an endpoint or InvalidHintError (FurlProofs.handler_total for KTor) *)
Lemma tor_classification_total : forall nonpublic hint,
  (exists ep, tor_hint_to_endpoint nonpublic hint = Ok ep) \/ tor_hint_to_endpoint nonpublic hint = invalid.
Proof. intros np h. exact (handler_total true np KTor h I). Qed.

(* the outcome is a function of (classification of the string, state of the Tor): every outcome is one of the three
   of the table below, and two hints that are classified alike fare alike under every Tor *)
Lemma tor_outcome_table : forall nonpublic st hint,
  tor_handler nonpublic st hint =
  match tor_hint_to_endpoint nonpublic hint with
  | Ok ep => match st with TorReady => Done (Ok ep) | TorStarting => Waiting | TorFails e => Done (Exc e) end
  | Exc _ => Done invalid
  end.
Proof.
  intros np st h. destruct (tor_classification_total np h) as [[ep E]|E]; rewrite E.
  - exact (tor_valid_follows_tor np st h ep E).
  - exact (tor_invalid_whatever_tor np st h E).
Qed.

Lemma tor_outcome_by_classification : forall nonpublic st h1 h2,
  tor_hint_to_endpoint nonpublic h1 = tor_hint_to_endpoint nonpublic h2 ->
  tor_handler nonpublic st h1 = tor_handler nonpublic st h2.
Proof. intros np st h1 h2 E. rewrite !tor_outcome_table, E. reflexivity. Qed.

(* regression (seeded change C20-r6s1): with the order "get the Tor going first" an invalid hint waits for as long as
   the Tor takes and ends in the Tor's exception, not in InvalidHintError *)
Definition bad_tor_hint : str := [116; 111; 114; 58; 110; 111; 116; 64; 97; 64; 104; 105; 110; 116; 58; 49; 50; 51].  (* "tor:not@a@hint:123" *)
Definition good_tor_hint : str := [116; 111; 114; 58; 97; 46; 98; 58; 56; 48].                                      (* "tor:a.b:80" *)

Lemma tor_wait_first_refuted : exists nonpublic hint,
  tor_hint_to_endpoint nonpublic hint = invalid /\
  tor_handler_gen TOR_STEPS_WAIT_FIRST nonpublic TorStarting hint = Waiting /\
  tor_handler_gen TOR_STEPS_WAIT_FIRST nonpublic (TorFails "RuntimeError") hint = Done (Exc "RuntimeError").
Proof.
  exists (fun _ => false), bad_tor_hint. split; [vm_compute; reflexivity|]. split; reflexivity.
Qed.

(* non-vacuity *)
Example tor_invalid_ex : tor_hint_to_endpoint (fun _ => false) bad_tor_hint = invalid
  /\ tor_handler (fun _ => false) TorStarting bad_tor_hint = Done invalid
  /\ tor_handler (fun _ => false) (TorFails "RuntimeError") bad_tor_hint = Done invalid.
Proof. vm_compute. auto. Qed.

Example tor_nonpublic_ex : tor_hint_to_endpoint (fun _ => true) good_tor_hint = invalid
  /\ tor_handler (fun _ => true) TorStarting good_tor_hint = Done invalid.
Proof. vm_compute. auto. Qed.

Example tor_valid_ex : tor_hint_to_endpoint (fun _ => false) good_tor_hint = Ok (EpTor [97; 46; 98] 80)
  /\ tor_handler (fun _ => false) TorReady good_tor_hint = Done (Ok (EpTor [97; 46; 98] 80))
  /\ tor_handler (fun _ => false) TorStarting good_tor_hint = Waiting
  /\ tor_handler (fun _ => false) (TorFails "RuntimeError") good_tor_hint = Done (Exc "RuntimeError").
Proof. vm_compute. auto. Qed.

(* "never another exception", read strictly (endpoint or InvalidHintError, nothing else), does NOT hold for a Tor handler whose
   Tor cannot be had: an accepted hint ends in the Tor's own exception e, whatever e is (tor_valid_follows_tor) ... *)
Lemma tor_fails_own_exception : forall nonpublic e hint,
  tor_handler nonpublic (TorFails e) hint =
  match tor_hint_to_endpoint nonpublic hint with Ok _ => Done (Exc e) | Exc _ => Done invalid end.
Proof. intros np e h. rewrite tor_outcome_table. destruct (tor_hint_to_endpoint np h); reflexivity. Qed.

(* ... witness: "tor:a.b:80" with a Tor whose launch fails with RuntimeError *)
Lemma tor_strict_total_refuted : exists nonpublic st hint e,
  tor_handler nonpublic st hint = Done (Exc e) /\ e <> "InvalidHintError"%string.
Proof.
  exists (fun _ => false), (TorFails "RuntimeError"), good_tor_hint, "RuntimeError"%string.
  split; [vm_compute; reflexivity | discriminate].
Qed.
