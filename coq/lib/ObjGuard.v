(* C01, object layer: the guard of the delivery theorems (model only; proofs in ObjGuardProofs.v).

   Obj.wf_gen's hazard clause sees only a DIRECT reference (ORef k) to an immutable ancestor in a Copyable attribute
   value / dict key position.  The implementation refuses more: every value that is a Deferred when it reaches
   RemoteCopyUnslicer.receiveChild (assert) / DictUnslicer.receiveKey (BananaError) / the root / a call scope, and a
   value is a Deferred when it is
     - a reference to a tuple / frozenset / Copyable that has not completed (still open, OR closed and still pending), or
     - an INLINE tuple / frozenset that closes with a placeholder left (TupleUnslicer.receiveClose returns self.deferred),
   transitively (c = C(); T = (c,); c.x = (T,) : the inner tuple is a Deferred because it holds a reference to T).
   `dsim` walks a canonical term the way the unslicers do and keeps exactly that information: which closed immutables
   are pending and what each waits for (`wtab`), with the completion cascade of TupleUnslicer.complete (`cascade`).
   It is an abstract interpretation of ObjDefer.dstep (no heap, no values, no callbacks: only who waits for whom).
   The guard `wf_obj_t` = Obj.wf_obj_wide (references resolve in their scope, dict / Copyable shapes, direct hazards)
   AND the walk meets no refusal AND nothing is left pending at the end. *)
From Coq Require Import ZArith List String Bool Lia.
Import ListNotations.
Require Import Verif.lib.PyLite Verif.gen.BananaGen Verif.gen.SlicersGen Verif.lib.Token Verif.lib.Obj Verif.lib.ObjDefer.
Local Open Scope Z_scope.

(* closed tuples / frozensets whose Deferred has not fired: number -> the numbers its placeholders wait for *)
Definition wtab := list (Z * list Z).
Fixpoint wdom (k : Z) (w : wtab) : bool := match w with [] => false | (j, _) :: r => (j =? k) || wdom k r end.

Definition no_waits (p : Z * list Z) : bool := match snd p with [] => true | _ => false end.
Definition drop_wait (k : Z) (w : wtab) : wtab := map (fun p => (fst p, remove_z k (snd p))) w.

(* the objects in `ks` have completed (setObject + deferred.callback): every placeholder waiting for them is filled,
   a closed tuple whose last placeholder was filled completes in turn (TupleUnslicer.update -> checkComplete -> complete) *)
Fixpoint cascade (fuel : nat) (ks : list Z) (w : wtab) : wtab :=
  match fuel with
  | O => w
  | S fu =>
    match ks with
    | [] => w
    | k :: r =>
      let w1 := drop_wait k w in
      cascade fu (r ++ map fst (filter no_waits w1)) (filter (fun p => negb (no_waits p)) w1)
    end
  end.

(* dsim imm w n t: the term t goes by at OPEN number n while the immutables `imm` are open (their Deferreds pending)
   and the closed immutables of `w` are pending.  None = some unslicer refuses a Deferred child;
   Some (w', d): the pending table afterwards and, if the value handed to the parent is a Deferred, whose (Some k). *)
Fixpoint dsim (imm : list Z) (w : wtab) (n : Z) (t : obj) : option (wtab * option Z) :=
  match t with
  | ORef k => Some (w, if mem k imm || wdom k w then Some k else None)
  | OCont c xs =>
    let imm' := if defers_c c then n :: imm else imm in
    match (fix go (w : wtab) (m : Z) (i : nat) (mine : list Z) (l : list obj) {struct l} : option (wtab * list Z) :=
             match l with
             | [] => Some (w, mine)
             | x :: r =>
               match dsim imm' w m x with
               | Some (w1, None) => go w1 (m + opens x) (S i) mine r
               | Some (w1, Some k) =>
                 match takes_deferred c i with
                 | Some counts => go w1 (m + opens x) (S i) (if counts then k :: mine else mine) r
                 | None => None
                 end
               | None => None
               end
             end) w (n + 1) O [] xs with
    | Some (w1, mine) =>
      if defers_c c then
        match filter (fun k => mem k imm' || wdom k w1) mine with
        | [] => Some (cascade (S (List.length w1)) [n] w1, None)      (* receiveClose: complete() *)
        | waits => Some ((n, waits) :: w1, Some n)                    (* receiveClose returns self.deferred *)
        end
      else Some (w1, None)
    | None => None
    end
  | _ => Some (w, None)
  end.

(* top-level objects one after the other: the root takes no Deferred *)
Definition dsim_list (imm : list Z) := fix go (w : wtab) (m : Z) (l : list obj) {struct l} : option wtab :=
  match l with
  | [] => Some w
  | x :: r => match dsim imm w m x with Some (w1, None) => go w1 (m + opens x) r | _ => None end
  end.

(* THE GUARD: a complete message for a receiver whose counter is n *)
Definition dsafe (n : Z) (t : obj) : bool := match dsim [] [] n t with Some ([], None) => true | _ => false end.
Definition dsafe_list (n : Z) (ts : list obj) : bool := match dsim_list [] [] n ts with Some [] => true | _ => false end.
Definition wf_obj_t (scoped_root : bool) (n : Z) (t : obj) : bool := wf_obj_wide scoped_root n t && dsafe n t.
Definition wf_list_t (scoped_root : bool) (n : Z) (ts : list obj) : bool :=
  match wf_list_wide scoped_root [] [] n ts with Some _ => dsafe_list n ts | None => false end.
