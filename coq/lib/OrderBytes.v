(* C04 x C07: the byte level under the call-ordering model.  The receiver's tokenizer is C07's generic Recv.feed
   instantiated with the token-collecting handlers of lib/ObjChunks.v; above it the receive stack is abstracted to what
   C04 needs from it, the FRAMING: a top-level object (a call, an answer, ...) is complete when the CLOSE that brings the
   nesting depth back to zero has been tokenized -- that moment is CallUnslicer.receiveClose -> Broker.scheduleCall (or the
   end of a discarded, rejected call), i.e. one model Deliver.  Definitions only (proofs: lib/OrderBytesProofs.v). *)
From Coq Require Import ZArith List Bool Arith.
Import ListNotations.
Require Import Verif.lib.PyLite Verif.gen.BananaGen Verif.lib.Token Verif.lib.Recv Verif.lib.ObjChunks
        Verif.gen.OrderGen Verif.lib.Order.

(* nesting depth, number of completed top-level objects, number of OPEN tokens seen (Banana.objectCounter) *)
Record fstate := fmk { f_depth : nat; f_done : nat; f_opens : nat }.

Definition fstep (st : fstate) (t : token) : fstate :=
  match t with
  | TOpen _ => fmk (S (f_depth st)) (f_done st) (S (f_opens st))
  | TClose _ =>
    match f_depth st with
    | 0 => st                                         (* a CLOSE at top level: the real receiver drops the connection *)
    | 1 => fmk 0 (S (f_done st)) (f_opens st)
    | S d => fmk d (f_done st) (f_opens st)
    end
  | _ => st
  end.

Definition fscan (st : fstate) (ts : list token) : fstate := fold_left fstep ts st.
Definition finit : fstate := fmk 0 0 0.

(* number of top-level objects the receiver has completed once the bytes arrived as the packets cs *)
Definition completed (cs : list (list Z)) : nat := f_done (fscan finit (tokens_of_chunks cs)).

Definition cfeed := feed unit token col_begin col_finish col_nobody [] [] (fun _ => []).

(* the same, after every packet (for the correspondence): (completed, depth = 0, OPENs seen) *)
Fixpoint after_each (r : rstate unit) (f : fstate) (cs : list (list Z)) : list (nat * bool * nat) :=
  match cs with
  | [] => []
  | c :: rest =>
    match cfeed r c with
    | (r', toks) => let f' := fscan f toks in (f_done f', Nat.eqb (f_depth f') 0, f_opens f') :: after_each r' f' rest
    end
  end.

(* ---- the ordering model driven by packets instead of Deliver ops *)
Record bstate := bmk { b_model : state; b_recv : rstate unit; b_frame : fstate }.
Inductive bop := BModel (o : op) | BChunk (c : list Z).

Definition delivers (k : nat) (s : state) : state := fold_left step (repeat Deliver k) s.

Definition bstep (b : bstate) (o : bop) : bstate :=
  match o with
  | BModel o => bmk (step (b_model b) o) (b_recv b) (b_frame b)
  | BChunk c =>
    match cfeed (b_recv b) c with
    | (r', toks) =>
      let f' := fscan (b_frame b) toks in
      bmk (delivers (f_done f' - f_done (b_frame b)) (b_model b)) r' f'
    end
  end.

Definition binit : bstate := bmk init (Recv.init tt) finit.
Definition brun (bops : list bop) : bstate := fold_left bstep bops binit.

(* a reference serialization of call number k, for the examples: (call reqID clid "m" (arguments 0 "cid" k)) *)
Definition str (l : list nat) : token := TString (map Z.of_nat l).
Definition ser_call (k : nat) : list token :=
  [TOpen 0; str [99; 97; 108; 108]; TInt (Z.of_nat (S k)); TInt 1; str [109];
   TOpen 1; str [97; 114; 103; 117; 109; 101; 110; 116; 115]; TInt 0; str [99; 105; 100]; TInt (Z.of_nat k); TClose 1; TClose 0].
