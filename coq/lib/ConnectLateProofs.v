(* ConnectLateProofs.v -- waiting hints (get_endpoint's Deferred has not fired: a Tor handler whose Tor is starting) and the
   late phase of ConnectAll.v: whatever happens after connect() has returned -- waiting hints resolve, pending connects fail,
   the connect timer fires, in any order and number -- the connector reports (failed() = Tub.connectionFailed) at most once,
   exactly once when the timer has fired, and is otherwise still waiting for something with the timer armed.
   For ALL hint lists, ALL per-hint behaviours, ALL late schedules, ALL cancellation errors. *)
From Coq Require Import ZArith List String Bool Lia.
Import ListNotations.
Require Import Verif.lib.PyLite Verif.lib.ConnectAll Verif.lib.ConnectAllProofs.
Local Open Scope Z_scope.

Lemma list_eqb_neq h h' : h <> h' -> list_eqb h h' = false.
Proof. intros H. destruct (list_eqb h h') eqn:E; [apply list_eqb_eq in E; contradiction | reflexivity]. Qed.

Lemma hmem_false h l : hmem h l = false <-> ~ In h l.
Proof. rewrite <- hmem_In. destruct (hmem h l); split; intros; congruence. Qed.

(* ================================================================== validHints: exactly the hints that gave an endpoint *)
Definition gives_endpoint (o : houtcome) : bool := match o with HPending | HConnectFails _ => true | _ => false end.

Lemma consider_valid beh h s :
  valid (consider beh h s) = if gives_endpoint (beh h) then h :: valid s else valid s.
Proof.
  unfold consider. destruct (beh h) as [| |e|e]; cbn [gives_endpoint]; try reflexivity.
  - unfold connection_failed.
    match goal with |- context [check_for_failure ?x] => destruct (cff_fields x) as (_ & V & _) end. rewrite V. reflexivity.
  - unfold connection_failed.
    match goal with |- context [check_for_failure ?x] => destruct (cff_fields x) as (_ & V & _) end. rewrite V. reflexivity.
Qed.

Definition V1 (beh : hstr -> houtcome) (s : cas) : Prop := forall h, In h (valid s) -> gives_endpoint (beh h) = true.
Definition V2 (beh : hstr -> houtcome) (s : cas) : Prop :=
  forall h, In h (attempted s) -> gives_endpoint (beh h) = true -> In h (valid s).

Lemma loop_valid beh : forall l s, V1 beh s -> V2 beh s ->
  V1 beh (connect_loop beh l s) /\ V2 beh (connect_loop beh l s).
Proof.
  induction l as [|x rest IH]; intros s H1 H2; cbn [connect_loop].
  - destruct (cff_fields s) as (A & V & _). unfold V1, V2. rewrite A, V. split; assumption.
  - cbn [attempted valid].
    destruct (hmem x (attempted s)) eqn:M.
    + apply IH; [exact H1 | exact H2].
    + match goal with |- context [consider beh x ?y] => set (s1 := y) end.
      destruct (consider_fields beh x s1) as (CA & _).
      pose proof (consider_valid beh x s1) as CV.
      apply IH.
      * intros h. rewrite CV. cbn [valid s1]. destruct (gives_endpoint (beh x)) eqn:G.
        -- intros [<-|H]; [exact G | apply H1; exact H].
        -- apply H1.
      * intros h. rewrite CA, CV. cbn [attempted valid s1]. intros [<-|H] G.
        -- rewrite G. left. reflexivity.
        -- destruct (gives_endpoint (beh x)); [right|]; apply H2; assumption.
Qed.

Lemma loop_remaining beh : forall l s, remaining s = l -> remaining (connect_loop beh l s) = [].
Proof.
  induction l as [|x rest IH]; intros s R; cbn [connect_loop].
  - destruct (cff_fields s) as (_ & _ & _ & _ & R'). rewrite R'. exact R.
  - cbn [attempted]. destruct (hmem x (attempted s)); [apply IH; reflexivity|].
    apply IH. match goal with |- context [consider beh x ?y] => destruct (consider_fields beh x y) as (_ & CR & _) end.
    rewrite CR. reflexivity.
Qed.

(* a hint is in validHints only when get_endpoint gave an endpoint for it, and every hint that did is *)
Theorem valid_only_endpoints : forall beh hints h, In h (valid (connect_all beh hints)) -> gives_endpoint (beh h) = true.
Proof.
  intros beh hints h. unfold connect_all.
  destruct (loop_valid beh hints (init hints)) as [W1 _]; [intros x [] | intros x [] |]. apply W1.
Qed.

Theorem endpoints_are_valid : forall beh hints h, In h hints -> gives_endpoint (beh h) = true -> In h (valid (connect_all beh hints)).
Proof.
  intros beh hints h H G.
  destruct (loop_valid beh hints (init hints)) as [_ W2]; [intros x [] | intros x [] |].
  apply W2; [apply every_hint_tried; exact H | exact G].
Qed.

Theorem connect_all_remaining : forall beh hints, remaining (connect_all beh hints) = [].
Proof. intros. apply loop_remaining. reflexivity. Qed.

(* a hint whose Deferred has not fired: held in pendingConnections, not in validHints, status "resolving",
   and (connect_all_outcome, usable) the connector is active and has reported nothing *)
Theorem waiting_hint_held : forall beh hints h, In h hints -> beh h = HWaiting ->
  let r := connect_all beh hints in
  In h (pending r) /\ ~ In h (valid r) /\ status_of h (statuses r) = Some SResolving /\
  active r = true /\ failed_calls r = 0%nat.
Proof.
  intros beh hints h H B r.
  assert (P : In h (pending r)) by (apply usable_hint_dialled; [exact H | rewrite B; reflexivity]).
  split; [exact P|]. split.
  - intros V. apply valid_only_endpoints in V. rewrite B in V. discriminate.
  - split; [unfold r; rewrite status_is_own by exact H; rewrite B; reflexivity|].
    destruct (connect_all_outcome beh hints) as [(_ & _ & A & F)|(_ & E & _)]; [auto|].
    fold r in E. rewrite E in P. destruct P.
Qed.

(* ================================================================== the late phase *)
Definition Linv (s : cas) : Prop :=
  remaining s = [] /\
  ((active s = true /\ failed_calls s = 0%nat /\ pending s <> []) \/
   (active s = false /\ failed_calls s = 1%nat /\ pending s = [])).

Lemma cff_pending_nonempty s : pending s <> [] -> check_for_failure s = s.
Proof.
  intros H. unfold check_for_failure. destruct (negb (active s)); [reflexivity|].
  destruct (pending s); [congruence|]. rewrite orb_true_r. reflexivity.
Qed.

Lemma connfail_Linv e h s : remaining s = [] -> active s = true -> failed_calls s = 0%nat -> Linv (connection_failed e h s).
Proof.
  intros R A F. unfold connection_failed.
  match goal with |- context [check_for_failure ?x] => set (y := x) end.
  assert (Iy : Iinv y) by (split; assumption).
  destruct (cff_fields y) as (_ & _ & Pp & _ & Rr).
  split; [rewrite Rr; exact R|].
  destruct (cff_last y Iy R) as [[P E]|[P [Fa Ff]]].
  - left. rewrite E. cbn [active failed_calls y]. auto.
  - right. rewrite Pp. auto.
Qed.

(* _connectionFailed on a connector that is no longer active: status and (first) reason only *)
Lemma connfail_inactive e h s : active s = false ->
  connection_failed e h s =
    {| remaining := remaining s; attempted := attempted s; valid := valid s; pending := pending s;
       statuses := (h, classify e) :: statuses s;
       reason := match reason s with Some r => Some r | None => Some e end;
       active := active s; failed_calls := failed_calls s |}.
Proof. intros A. unfold connection_failed. apply cff_inactive. exact A. Qed.

Lemma cancel_all_spec cx : forall l s, active s = false ->
  let r := cancel_all cx l s in
  active r = false /\ failed_calls r = failed_calls s /\ remaining r = remaining s /\ valid r = valid s /\
  attempted r = attempted s /\
  (forall x, In x (pending r) <-> (In x (pending s) /\ ~ In x l)) /\
  (forall x, reason s = Some x -> reason r = Some x) /\
  (forall h, status_of h (statuses r) = if hmem h l then Some (classify (cx h)) else status_of h (statuses s)).
Proof.
  induction l as [|a l IH]; intros s A; cbn [cancel_all]; cbv zeta.
  - split; [exact A|]. do 4 (split; [reflexivity|]). split; [intros x; cbn [In]; tauto|]. split; [auto|]. intros h. reflexivity.
  - rewrite connfail_inactive by exact A.
    match goal with |- context [cancel_all cx l ?y] => set (s1 := y) end.
    destruct (IH s1 A) as (I1 & I2 & I3 & I4 & I5 & I6 & I7 & I8). cbv zeta in *.
    split; [exact I1|]. split; [exact I2|]. split; [exact I3|]. split; [exact I4|]. split; [exact I5|].
    split; [|split].
    + intros x. rewrite I6. cbn [pending s1 remove_pending In]. rewrite filter_In. split.
      * intros [[P N] Nl]. split; [exact P|]. intros [<-|H]; [|tauto].
        rewrite (proj2 (list_eqb_eq a a) eq_refl) in N. discriminate.
      * intros [P N]. split; [split; [exact P|] | tauto].
        rewrite list_eqb_neq; [reflexivity|]. intros <-. apply N. left. reflexivity.
    + intros x Hx. apply I7. cbn [reason s1 remove_pending]. rewrite Hx. reflexivity.
    + intros h. rewrite I8. cbn [hmem statuses s1 remove_pending status_of].
      destruct (list_eqb h a) eqn:E.
      * apply list_eqb_eq in E. subst a. cbn [orb]. destruct (hmem h l); reflexivity.
      * cbn [orb]. reflexivity.
Qed.

Lemma nil_of_no_In {A} (l : list A) : (forall x, ~ In x l) -> l = [].
Proof. destruct l as [|a l]; [reflexivity|]. intros H. exfalso. apply (H a). left. reflexivity. Qed.

Lemma timed_out_spec cx s :
  let r := timed_out cx s in
  active r = false /\ failed_calls r = S (failed_calls s) /\ remaining r = [] /\ pending r = [] /\ valid r = valid s /\
  reason r = Some "NegotiationError"%string /\
  (forall h, status_of h (statuses r) = if hmem h (pending s) then Some (classify (cx h)) else status_of h (statuses s)).
Proof.
  unfold timed_out. cbv zeta. cbn [pending].
  match goal with |- context [cancel_all cx _ ?y] => set (s1 := y) end.
  destruct (cancel_all_spec cx (pending s) s1 eq_refl) as (I1 & I2 & I3 & I4 & I5 & I6 & I7 & I8). cbv zeta in *.
  unfold failed. cbn [active failed_calls remaining pending valid reason statuses].
  split; [reflexivity|]. split; [rewrite I2; reflexivity|]. split; [exact I3|]. split.
  - apply nil_of_no_In. intros p Hp. destruct (proj1 (I6 p) Hp) as [P N]. apply N. exact P.
  - split; [exact I4|]. split; [apply I7; reflexivity | exact I8].
Qed.

Lemma waiting_in_pending h s : is_waiting h s = true -> In h (pending s) /\ ~ In h (valid s).
Proof.
  unfold is_waiting. intros H. apply andb_true_iff in H as [P V]. split; [apply hmem_In; exact P|].
  apply hmem_false. destruct (hmem h (valid s)); [discriminate|reflexivity].
Qed.

Lemma dialled_in_pending h s : is_dialled h s = true -> In h (pending s) /\ In h (valid s).
Proof. unfold is_dialled. intros H. apply andb_true_iff in H as [P V]. split; apply hmem_In; assumption. Qed.

Lemma Linv_active_of_pending s h : Linv s -> In h (pending s) -> remaining s = [] /\ active s = true /\ failed_calls s = 0%nat.
Proof. intros [R [(A & F & _)|(_ & _ & P)]] H; [auto|]. rewrite P in H. destruct H. Qed.

Lemma late_step_Linv cx s ev : Linv s -> Linv (late_step cx s ev).
Proof.
  intros L. destruct ev as [h o|h e|]; cbn [late_step].
  - destruct (is_waiting h s) eqn:W; [|exact L]. apply waiting_in_pending in W as [P _].
    destruct (Linv_active_of_pending s h L P) as (R & A & F).
    destruct o as [| |e|e]; [exact L | exact L | apply connfail_Linv; assumption | apply connfail_Linv; assumption].
  - destruct (is_dialled h s) eqn:W; [|exact L]. apply dialled_in_pending in W as [P _].
    destruct (Linv_active_of_pending s h L P) as (R & A & F). apply connfail_Linv; assumption.
  - destruct (active s) eqn:A; [|exact L].
    destruct (timed_out_spec cx s) as (T1 & T2 & T3 & T4 & _). cbv zeta in *.
    destruct L as [R [(_ & F & _)|(A' & _)]]; [|congruence].
    split; [exact T3|]. right. rewrite T2, F. auto.
Qed.

Lemma run_late_Linv cx : forall evs s, Linv s -> Linv (run_late cx evs s).
Proof.
  unfold run_late. induction evs as [|ev evs IH]; intros s L; cbn [fold_left]; [exact L|].
  apply IH. apply late_step_Linv. exact L.
Qed.

Lemma connect_all_Linv beh hints : Linv (connect_all beh hints).
Proof.
  split; [apply connect_all_remaining|].
  destruct (connect_all_outcome beh hints) as [(_ & P & A & F)|(_ & P & A & F)]; [left|right]; auto.
Qed.

(* L1. whatever happens after connect() has returned, in any order and number: either nothing has been reported, the connector
       is active (its timer armed) and something is still pending, or failed() ran EXACTLY once and nothing is pending *)
Theorem late_outcome : forall cx beh hints evs,
  let r := run_late cx evs (connect_all beh hints) in
  (active r = true /\ failed_calls r = 0%nat /\ pending r <> []) \/
  (active r = false /\ failed_calls r = 1%nat /\ pending r = []).
Proof. intros cx beh hints evs. cbv zeta. apply run_late_Linv. apply connect_all_Linv. Qed.

Lemma run_late_app cx evs1 evs2 s : run_late cx (evs1 ++ evs2) s = run_late cx evs2 (run_late cx evs1 s).
Proof. unfold run_late. apply fold_left_app. Qed.

(* L2. once the connect timer has had its time, the failure HAS been reported exactly once, whatever the hints did and do *)
Theorem timeout_reports : forall cx beh hints evs,
  let r := run_late cx (evs ++ [LTimeout]) (connect_all beh hints) in
  active r = false /\ failed_calls r = 1%nat /\ pending r = [].
Proof.
  intros cx beh hints evs. cbv zeta. rewrite run_late_app.
  pose proof (run_late_Linv cx evs _ (connect_all_Linv beh hints)) as L.
  set (s := run_late cx evs (connect_all beh hints)) in *.
  pose proof (late_step_Linv cx s LTimeout L) as [_ L'].
  unfold run_late. cbn [fold_left]. destruct L' as [(A & _ & _)|L']; [|exact L'].
  exfalso. cbn [late_step] in A. destruct (active s) eqn:As; [|congruence].
  destruct (timed_out_spec cx s) as (T1 & _). cbv zeta in T1. congruence.
Qed.

(* ================================================================== a waiting hint that never resolves *)
Definition WA (h : hstr) (s : cas) : Prop :=
  active s = true /\ failed_calls s = 0%nat /\ remaining s = [] /\ In h (pending s) /\ ~ In h (valid s) /\
  status_of h (statuses s) = Some SResolving.
Definition WB (cx : hstr -> string) (h : hstr) (s : cas) : Prop :=
  active s = false /\ failed_calls s = 1%nat /\ pending s = [] /\
  status_of h (statuses s) = Some (classify (cx h)) /\ reason s = Some "NegotiationError"%string.

Lemma late_dead cx s ev : active s = false -> pending s = [] -> late_step cx s ev = s.
Proof.
  intros A P. destruct ev as [h o|h e|]; cbn [late_step]; unfold is_waiting, is_dialled; rewrite ?P, ?A; reflexivity.
Qed.

Lemma run_late_dead cx : forall evs s, active s = false -> pending s = [] -> run_late cx evs s = s.
Proof.
  unfold run_late. induction evs as [|ev evs IH]; intros s A P; cbn [fold_left]; [reflexivity|].
  rewrite late_dead by assumption. apply IH; assumption.
Qed.

(* _connectionFailed for ANOTHER hint h' while h is held: h stays held, nothing is reported *)
Lemma connfail_other e h h' s : h' <> h -> WA h s ->
  forall s', remaining s' = remaining s -> attempted s' = attempted s -> valid s' = valid s \/ valid s' = h' :: valid s ->
    pending s' = pending s -> active s' = active s -> failed_calls s' = failed_calls s ->
    status_of h (statuses s') = status_of h (statuses s) ->
  WA h (connection_failed e h' (remove_pending h' s')).
Proof.
  intros N (A & F & R & P & V & S) s' R' _ V' P' A' F' S'.
  unfold connection_failed.
  match goal with |- context [check_for_failure ?x] => set (y := x) end.
  assert (Py : In h (pending y)).
  { cbn [pending y remove_pending]. apply filter_In. rewrite P'. split; [exact P|]. rewrite list_eqb_neq by exact N. reflexivity. }
  rewrite cff_pending_nonempty by (intros E; rewrite E in Py; destruct Py).
  unfold WA. cbn [active failed_calls remaining pending valid statuses y remove_pending status_of].
  rewrite A', F', R'. split; [exact A|]. split; [exact F|]. split; [exact R|]. split; [exact Py|]. split.
  - destruct V' as [->| ->]; [exact V|]. intros [E|H]; [apply N; exact E | apply V; exact H].
  - rewrite list_eqb_neq by (intros E; apply N; symmetry; exact E). rewrite S'. exact S.
Qed.

Lemma late_WA_step cx h s ev : WA h s -> (forall o, ev <> LResolve h o) ->
  WA h (late_step cx s ev) \/ (WB cx h (late_step cx s ev) /\ ev = LTimeout).
Proof.
  intros W NR. pose proof W as (A & F & R & P & V & S).
  destruct ev as [h' o|h' e|]; cbn [late_step].
  - left. destruct (is_waiting h' s) eqn:Wh; [|exact W].
    assert (N : h' <> h) by (intros ->; apply (NR o); reflexivity).
    destruct o as [| |e|e]; [|exact W| |].
    + unfold WA. cbn [good_hint active failed_calls remaining pending valid statuses status_of].
      rewrite list_eqb_neq by (intros E; apply N; symmetry; exact E).
      repeat (split; [assumption|]). split; [|exact S]. intros [E|H]; [apply N; exact E | apply V; exact H].
    + apply (connfail_other e h h' s N W (good_hint h' s)); try reflexivity; [right; reflexivity|].
      cbn [good_hint statuses status_of]. rewrite list_eqb_neq by (intros E; apply N; symmetry; exact E). reflexivity.
    + apply (connfail_other e h h' s N W s); try reflexivity. left; reflexivity.
  - left. destruct (is_dialled h' s) eqn:Wh; [|exact W]. apply dialled_in_pending in Wh as [_ Vh].
    assert (N : h' <> h) by (intros ->; apply V; exact Vh).
    apply (connfail_other e h h' s N W s); try reflexivity. left; reflexivity.
  - right. split; [|reflexivity]. rewrite A.
    destruct (timed_out_spec cx s) as (T1 & T2 & T3 & T4 & T5 & T6 & T7). cbv zeta in *.
    unfold WB. rewrite T1, T2, T4, T6, T7, F. rewrite (proj2 (hmem_In h (pending s)) P). auto.
Qed.

Lemma run_late_WA cx h : forall evs s, WA h s -> (forall o, ~ In (LResolve h o) evs) ->
  WA h (run_late cx evs s) \/ (WB cx h (run_late cx evs s) /\ In LTimeout evs).
Proof.
  induction evs as [|ev evs IH]; intros s W NR; [left; exact W|].
  unfold run_late. cbn [fold_left]. fold (run_late cx evs (late_step cx s ev)).
  destruct (late_WA_step cx h s ev W) as [W'|[B E]].
  - intros o E. apply (NR o). left. exact E.
  - destruct (IH _ W') as [W''|[B I]]; [intros o H; apply (NR o); right; exact H | left; exact W'' | right; split; [exact B | right; exact I]].
  - right. destruct B as (B1 & B2 & B3 & B4 & B5). rewrite run_late_dead by assumption.
    split; [repeat split; assumption | left; exact E].
Qed.

(* L3. a hint whose handler is waiting and never answers (a Tor that never comes up): until the timer fires it is held and
       nothing is reported -- whatever the other hints do meanwhile; when the timer has fired the hint is cancelled (status of
       its cancellation error: "abandoned" for CancelledError), the failure is NegotiationError and was reported exactly once *)
Theorem waiting_forever : forall cx beh hints h evs,
  In h hints -> beh h = HWaiting -> (forall o, ~ In (LResolve h o) evs) ->
  let r := run_late cx evs (connect_all beh hints) in
  (active r = true /\ failed_calls r = 0%nat /\ In h (pending r) /\ ~ In h (valid r) /\
   status_of h (statuses r) = Some SResolving) \/
  (In LTimeout evs /\ active r = false /\ failed_calls r = 1%nat /\ pending r = [] /\
   status_of h (statuses r) = Some (classify (cx h)) /\ reason r = Some "NegotiationError"%string).
Proof.
  intros cx beh hints h evs H B NR. cbv zeta.
  destruct (waiting_hint_held beh hints h H B) as (P & V & S & A & F). cbv zeta in *.
  assert (W : WA h (connect_all beh hints)) by (unfold WA; pose proof (connect_all_remaining beh hints); auto 10).
  destruct (run_late_WA cx h evs _ W NR) as [(A' & F' & _ & P' & V' & S')|[(B1 & B2 & B3 & B4 & B5) I]].
  - left. auto 10.
  - right. auto 10.
Qed.

(* ================================================================== hints that are settled stay settled *)
Lemma connfail_status e h' s h : h <> h' ->
  status_of h (statuses (connection_failed e h' s)) = status_of h (statuses s) /\
  pending (connection_failed e h' s) = pending s.
Proof.
  intros N. unfold connection_failed.
  match goal with |- context [check_for_failure ?x] => destruct (cff_fields x) as (_ & _ & P & S & _) end.
  rewrite P, S. cbn [statuses pending status_of]. rewrite list_eqb_neq by exact N. auto.
Qed.

Lemma late_settled cx h s ev : ~ In h (pending s) ->
  status_of h (statuses (late_step cx s ev)) = status_of h (statuses s) /\ ~ In h (pending (late_step cx s ev)).
Proof.
  intros NP.
  assert (F : forall h' s', pending s' = pending s -> ~ In h (pending (remove_pending h' s'))).
  { intros h' s' E H. cbn [pending remove_pending] in H. apply filter_In in H as [H _]. rewrite E in H. exact (NP H). }
  destruct ev as [h' o|h' e|]; cbn [late_step].
  - destruct (is_waiting h' s) eqn:W; [|auto]. apply waiting_in_pending in W as [P _].
    assert (N : h <> h') by (intros ->; exact (NP P)).
    destruct o as [| |e|e]; [|auto| |].
    + cbn [good_hint statuses pending status_of]. rewrite list_eqb_neq by exact N. auto.
    + destruct (connfail_status e h' (remove_pending h' (good_hint h' s)) h N) as [S Pp]. rewrite S, Pp.
      split; [cbn [remove_pending good_hint statuses status_of]; rewrite list_eqb_neq by exact N; reflexivity|].
      apply F. reflexivity.
    + destruct (connfail_status e h' (remove_pending h' s) h N) as [S Pp]. rewrite S, Pp.
      split; [reflexivity | apply F; reflexivity].
  - destruct (is_dialled h' s) eqn:W; [|auto]. apply dialled_in_pending in W as [P _].
    assert (N : h <> h') by (intros ->; exact (NP P)).
    destruct (connfail_status e h' (remove_pending h' s) h N) as [S Pp]. rewrite S, Pp.
    split; [reflexivity | apply F; reflexivity].
  - destruct (active s); [|auto].
    destruct (timed_out_spec cx s) as (_ & _ & _ & T4 & _ & _ & T7). cbv zeta in *.
    rewrite T4, T7. rewrite (proj2 (hmem_false h (pending s)) NP). split; [reflexivity | intros []].
Qed.

(* L4. a hint that was settled when connect() returned (bad hint, handler's exception, connect() failed at once) keeps the
       status of its OWN outcome whatever happens later to the other hints, timer included *)
Theorem settled_status_is_final : forall cx beh hints h evs, In h hints -> is_pending (beh h) = false ->
  status_of h (statuses (run_late cx evs (connect_all beh hints))) = Some (expected_status (beh h)).
Proof.
  intros cx beh hints h evs H B.
  assert (NP : ~ In h (pending (connect_all beh hints))).
  { intros P. destruct (loop_books beh hints (init hints) (init_J beh hints) (init_K beh hints)) as (_ & _ & P3 & _).
    destruct (P3 h P) as [[]|[_ Hb]]. congruence. }
  rewrite <- (status_is_own beh hints h H).
  generalize dependent (connect_all beh hints). unfold run_late.
  induction evs as [|ev evs IH]; intros s NP; cbn [fold_left]; [reflexivity|].
  destruct (late_settled cx h s ev NP) as [S NP']. rewrite IH by exact NP'. exact S.
Qed.

(* ================================================================== non-vacuity and regressions *)
(* [1] endpoint never answers, [2] KeyError, [5] waits (Tor starting), [6] waits and is resolved later, [7] refuses later *)
Definition ex_beh : hstr -> houtcome :=
  fun h => match h with [1] => HPending | [2] => HRaises "KeyError" | [5] => HWaiting | [6] => HWaiting | [7] => HPending
                   | _ => HRaises "InvalidHintError" end.

Example waiting_examples :
  (* only a waiting hint: held, not valid, nothing reported; at the timeout: abandoned, NegotiationError, failed() once *)
  obs (connect_all ex_beh [[5]]) = ([[5]], [], 1, [([5], 5)], None, true, 0) /\
  obs (run_late cx_default [LTimeout] (connect_all ex_beh [[5]])) =
    ([[5]], [], 0, [([5], 4)], Some "NegotiationError"%string, false, 1) /\
  (* a second timeout / late events after the report change nothing *)
  run_late cx_default [LTimeout; LTimeout; LResolve [5] HPending; LConnFail [5] "X"] (connect_all ex_beh [[5]]) =
    run_late cx_default [LTimeout] (connect_all ex_beh [[5]]) /\
  (* the Tor gives up later: the only hint fails, NoLocationHintsError (no hint ever gave an endpoint), failed() once, and
     the timer (cancelled by failed()) adds nothing *)
  obs (run_late cx_default [LResolve [5] (HRaises "TorDown"); LTimeout] (connect_all ex_beh [[5]])) =
    ([[5]], [], 0, [([5], 2)], Some "NoLocationHintsError"%string, false, 1) /\
  (* mixed: [2] raises, [6] resolves late to an endpoint whose connect is refused, [7] is refused later, [5] waits for ever *)
  obs (run_late cx_default [LResolve [6] (HConnectFails "ConnectionRefusedError"); LConnFail [7] "ConnectionRefusedError"]
         (connect_all ex_beh [[2]; [5]; [6]; [7]])) =
    ([[2]; [5]; [6]; [7]], [[7]; [6]], 1, [([2], 2); ([5], 5); ([6], 3); ([7], 3)], Some "KeyError"%string, true, 0) /\
  obs (run_late cx_default [LResolve [6] (HConnectFails "ConnectionRefusedError"); LConnFail [7] "ConnectionRefusedError"; LTimeout]
         (connect_all ex_beh [[2]; [5]; [6]; [7]])) =
    ([[2]; [5]; [6]; [7]], [[7]; [6]], 0, [([2], 2); ([5], 4); ([6], 3); ([7], 3)], Some "NegotiationError"%string, false, 1).
Proof. vm_compute. repeat split; reflexivity. Qed.

(* regression witnesses: what the theorems exclude.
   (a) a connector that did not count a waiting hint among its pending Deferreds (checkForFailure looking at validHints /
       at dialled endpoints only) would report NoLocationHintsError at once while the Tor is still starting: in the model
       that is `usable` without HWaiting -- refuted by connect_all_outcome on [[5]]:  *)
Example waiting_counts_as_usable : usable ex_beh [[5]] = true /\ failed_calls (connect_all ex_beh [[5]]) = 0%nat.
Proof. vm_compute. auto. Qed.

(* (b) without the timer path nothing ever reports a hint that waits for ever: the state is unchanged by every other event *)
Example no_timer_no_report :
  let s := connect_all ex_beh [[5]] in
  run_late cx_default [LResolve [1] HPending; LConnFail [5] "X"; LResolve [5] HWaiting; LConnFail [7] "X"] s = s /\ failed_calls s = 0%nat.
Proof. vm_compute. auto. Qed.

(* ================================================================== a waiting hint that is answered late *)
Lemma run_late_settled cx h : forall evs s, ~ In h (pending s) ->
  status_of h (statuses (run_late cx evs s)) = status_of h (statuses s).
Proof.
  unfold run_late. induction evs as [|ev evs IH]; intros s NP; cbn [fold_left]; [reflexivity|].
  destruct (late_settled cx h s ev NP) as [S NP']. rewrite IH by exact NP'. exact S.
Qed.

Lemma resolve_step cx h s o : WA h s -> is_pending o = false ->
  status_of h (statuses (late_step cx s (LResolve h o))) = Some (expected_status o) /\
  ~ In h (pending (late_step cx s (LResolve h o))).
Proof.
  intros (A & F & R & P & V & S) O. cbn [late_step].
  assert (W : is_waiting h s = true).
  { unfold is_waiting. rewrite (proj2 (hmem_In h (pending s)) P), (proj2 (hmem_false h (valid s)) V). reflexivity. }
  rewrite W.
  assert (NF : forall s', pending s' = pending s -> ~ In h (pending (remove_pending h s'))).
  { intros s' E H. cbn [pending remove_pending] in H. apply filter_In in H as [_ H].
    rewrite (proj2 (list_eqb_eq h h) eq_refl) in H. discriminate. }
  destruct o as [| |e|e]; try discriminate; cbn [expected_status]; unfold connection_failed;
    match goal with |- context [check_for_failure ?x] => destruct (cff_fields x) as (_ & _ & Pp & Ss & _) end;
    rewrite Pp, Ss; cbn [statuses pending status_of]; rewrite (proj2 (list_eqb_eq h h) eq_refl);
    (split; [reflexivity|]).
  - apply (NF (good_hint h s)). reflexivity.
  - apply (NF s). reflexivity.
Qed.

(* L5. a hint whose handler answers LATE with a failure (the Tor gives up after connect() has returned; or an endpoint whose
       connect() fails at once): whatever happened before (anything but the timer and an answer for h) and whatever happens
       after, the hint ends with the status of that answer *)
Theorem late_resolution : forall cx beh hints h evs1 o evs2,
  In h hints -> beh h = HWaiting -> (forall o', ~ In (LResolve h o') evs1) -> ~ In LTimeout evs1 -> is_pending o = false ->
  status_of h (statuses (run_late cx (evs1 ++ LResolve h o :: evs2) (connect_all beh hints))) = Some (expected_status o).
Proof.
  intros cx beh hints h evs1 o evs2 H B NR NT O.
  destruct (waiting_hint_held beh hints h H B) as (P & V & S & A & F). cbv zeta in *.
  assert (W : WA h (connect_all beh hints)) by (unfold WA; pose proof (connect_all_remaining beh hints); auto 10).
  rewrite run_late_app.
  set (s1 := run_late cx evs1 (connect_all beh hints)).
  assert (W' : WA h s1) by (destruct (run_late_WA cx h evs1 _ W NR) as [W'|[_ I]]; [exact W' | contradiction]).
  destruct (resolve_step cx h s1 o W' O) as [St NP].
  change (run_late cx (LResolve h o :: evs2) s1) with (run_late cx evs2 (late_step cx s1 (LResolve h o))).
  rewrite run_late_settled by exact NP. exact St.
Qed.
