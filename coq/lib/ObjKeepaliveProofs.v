(* C01: keepalive tokens (PING / PONG) are invisible to the object layer, wherever they sit in the stream and however the
   bytes that carry them are split into packets. *)
From Coq Require Import ZArith List String Bool Lia.
Import ListNotations.
Require Import Verif.lib.PyLite Verif.gen.BananaGen Verif.gen.SlicersGen Verif.lib.Token Verif.lib.TokenProofs
        Verif.lib.Recv Verif.lib.RecvProofs Verif.lib.Obj Verif.lib.ObjProofs Verif.lib.ObjDefer Verif.lib.ObjDeferProofs
        Verif.lib.ObjChunks Verif.lib.ObjKeepalive.
Local Open Scope Z_scope.

(* one keepalive token, ANY receiver state (any stack of open unslicers, index phase or not): nothing changes *)
Lemma step_ka st t : is_ka t = true -> step st t = Some st.
Proof. destruct t; try discriminate; intros _; unfold step; destruct (s_inopen st) as [[[h c] i]|]; reflexivity. Qed.
Lemma dstep_ka st t : is_ka t = true -> dstep st t = Some st.
Proof. destruct t; try discriminate; intros _; unfold dstep; destruct (d_inopen st) as [[[h c] i]|]; reflexivity. Qed.

Lemma strip_ka_cons t r : strip_ka (t :: r) = if is_ka t then strip_ka r else t :: strip_ka r.
Proof. unfold strip_ka. cbn [filter]. destruct (is_ka t); reflexivity. Qed.
Lemma strip_ka_app a b : strip_ka (a ++ b) = strip_ka a ++ strip_ka b.
Proof. unfold strip_ka. apply filter_app. Qed.

(* a whole stream: the pointer machine ... *)
Theorem run_strip_ka ts : forall st, run ts st = run (strip_ka ts) st.
Proof.
  induction ts as [|t r IH]; intros st; [reflexivity|]. rewrite strip_ka_cons. destruct (is_ka t) eqn:K.
  - cbn [run]. rewrite (step_ka st t K). apply IH.
  - cbn [run]. destruct (step st t); [apply IH|reflexivity].
Qed.
(* ... and the Deferred-level machine *)
Theorem drun_strip_ka ts : forall st, drun ts st = drun (strip_ka ts) st.
Proof.
  induction ts as [|t r IH]; intros st; [reflexivity|]. rewrite strip_ka_cons. destruct (is_ka t) eqn:K.
  - cbn [drun]. rewrite (dstep_ka st t K). apply IH.
  - cbn [drun]. destruct (dstep st t); [apply IH|reflexivity].
Qed.

Theorem unslice_strip_ka scoped n ts : unslice scoped n ts = unslice scoped n (strip_ka ts).
Proof. unfold unslice. rewrite run_strip_ka. reflexivity. Qed.
Theorem dunslice_strip_ka scoped n ts : dunslice scoped n ts = dunslice scoped n (strip_ka ts).
Proof. unfold dunslice. rewrite drun_strip_ka. reflexivity. Qed.

(* while a rejected sequence is being discarded keepalive tokens change neither the discard depth nor the object counter *)
Theorem discard_strip_ka ts : forall d cnt,
  discard (strip_ka ts) d cnt = let '(d', cnt', rest) := discard ts d cnt in (d', cnt', strip_ka rest).
Proof.
  induction ts as [|t r IH]; intros d cnt; [reflexivity|].
  cbn [discard]. destruct (d <=? 0) eqn:D.
  - destruct (strip_ka (t :: r)) eqn:S; [reflexivity|]. cbn [discard]. rewrite D. reflexivity.
  - rewrite strip_ka_cons. destruct t; cbn [is_ka]; try (cbn [discard]; rewrite D; apply IH); apply IH.
Qed.

(* weaving keepalive tokens into a stream and stripping them again *)
Lemma strip_all_ka g : forallb is_ka g = true -> strip_ka g = [].
Proof. induction g as [|t g IH]; [reflexivity|]. cbn [forallb]. intros H. apply andb_true_iff in H as [A B]. rewrite strip_ka_cons, A. apply IH. exact B. Qed.
Lemma strip_no_ka ts : forallb (fun t => negb (is_ka t)) ts = true -> strip_ka ts = ts.
Proof. induction ts as [|t r IH]; [reflexivity|]. cbn [forallb]. intros H. apply andb_true_iff in H as [A B]. rewrite strip_ka_cons. destruct (is_ka t); [discriminate|]. rewrite IH by exact B. reflexivity. Qed.
Theorem strip_weave : forall ts kas, all_ka kas = true -> forallb (fun t => negb (is_ka t)) ts = true -> strip_ka (weave kas ts) = ts.
Proof.
  induction ts as [|t r IH]; intros kas A N.
  - cbn [weave]. unfold all_ka in A. induction kas as [|g kr IHk]; [reflexivity|]. cbn [forallb] in A. apply andb_true_iff in A as [A1 A2].
    cbn [List.concat]. rewrite strip_ka_app, (strip_all_ka g A1). apply IHk. exact A2.
  - destruct kas as [|g kr]; [cbn [weave]; apply strip_no_ka; exact N|]. cbn [weave].
    unfold all_ka in A. cbn [forallb] in A, N. apply andb_true_iff in A as [A1 A2]. apply andb_true_iff in N as [N1 N2].
    rewrite strip_ka_app, (strip_all_ka g A1). cbn [app]. rewrite strip_ka_cons. destruct (is_ka t); [discriminate|].
    rewrite (IH kr A2 N2). reflexivity.
Qed.

Lemma slice_no_ka : forall t n, forallb (fun t => negb (is_ka t)) (slice n t) = true.
Proof.
  apply (obj_ind' (fun t => forall n, forallb (fun t => negb (is_ka t)) (slice n t) = true)).
  - intros t L n. destruct t; try discriminate; reflexivity.
  - intros c xs F n. rewrite slice_cont. cbn [forallb is_ka negb andb]. rewrite forallb_app. apply andb_true_iff. split.
    + unfold strs. induction (opentype_of c); [reflexivity|cbn; assumption].
    + rewrite forallb_app. apply andb_true_iff. split; [|reflexivity].
      generalize (n + 1). induction F as [|x r Hx _ IH]; intros m; [reflexivity|].
      rewrite slice_list_cons, forallb_app, Hx, IH. reflexivity.
Qed.

Lemma no_err_of_strip w : forallb no_err (strip_ka w) = true -> forallb no_err w = true.
Proof.
  induction w as [|t r IH]; [reflexivity|]. rewrite strip_ka_cons. destruct (is_ka t) eqn:K.
  - intros H. cbn [forallb]. rewrite (IH H). destruct t; try discriminate; reflexivity.
  - cbn [forallb]. intros H. apply andb_true_iff in H as [A B]. rewrite A, (IH B). reflexivity.
Qed.

(* END TO END with keepalives: w is ANY wire stream whose non-keepalive tokens are the sender's tokens for t (keepalive tokens
   of either kind, any numbers, any positions, any multiplicity); its bytes arrive as ANY packets cs: the delivered graph is
   the graph of t. *)
Theorem keepalive_end_to_end scoped n t w bs cs :
  wf_obj_wide scoped n t = true -> strip_ka w = slice n t -> forallb wf_token w = true -> encode_stream w = Ok bs ->
  List.concat cs = bs ->
  unslice scoped n (tokens_of_chunks cs) = Some (heap_of n t, [val_of n t]).
Proof.
  intros W S T E C. subst bs. rewrite (chunks_decode cs w).
  - rewrite unslice_strip_ka, S. apply slice_unslice_wide. exact W.
  - apply stream_roundtrip; assumption.
  - apply no_err_of_strip. rewrite S. apply slice_no_err.
Qed.
Theorem keepalive_end_to_end_deferred scoped n t w bs cs r :
  wf_obj_wide scoped n t = true -> strip_ka w = slice n t -> forallb wf_token w = true -> encode_stream w = Ok bs ->
  List.concat cs = bs ->
  dunslice scoped n (tokens_of_chunks cs) = Some r -> r = (heap_of n t, [val_of n t]).
Proof.
  intros W S T E C. subst bs. rewrite (chunks_decode cs w).
  - rewrite dunslice_strip_ka, S. apply deferred_sound. exact W.
  - apply stream_roundtrip; assumption.
  - apply no_err_of_strip. rewrite S. apply slice_no_err.
Qed.
(* the same with the keepalive tokens given explicitly: groups kas woven into the sender's tokens *)
Corollary keepalive_weave_end_to_end scoped n t kas bs cs :
  wf_obj_wide scoped n t = true -> all_ka kas = true -> forallb wf_token (weave kas (slice n t)) = true ->
  encode_stream (weave kas (slice n t)) = Ok bs -> List.concat cs = bs ->
  unslice scoped n (tokens_of_chunks cs) = Some (heap_of n t, [val_of n t]).
Proof.
  intros W A T E C. apply (keepalive_end_to_end scoped n t (weave kas (slice n t)) bs cs W); try assumption.
  apply strip_weave; [exact A|apply slice_no_ka].
Qed.

(* several top-level objects / calls on one connection *)
Theorem keepalive_list scoped n ts v w : wf_list_wide scoped [] [] n ts = Some v -> strip_ka w = slice_list n ts ->
  unslice scoped n w = Some (heap_list n ts, vals_list n ts).
Proof. intros W S. rewrite unslice_strip_ka, S. apply (slice_unslice_list_wide scoped n ts v W). Qed.

(* non-vacuity: l = [1, "é", (2,), l] with PING in front, PONG(7) between OPEN and "list", PING(300) PONG in front of the
   tuple's CLOSE, PING behind the last CLOSE; three packetisations, one of them with every keepalive token glued to what follows *)
Example ex_keepalive :
  let t := OList [OInt 1; OText [195; 169]; OTuple [OInt 2]; ORef 0] in
  let kas := [[TPing 0]; [TPong 7]; []; []; []; []; []; []; []; []; [TPing 300; TPong 0]; []; []; []; []; []; [TPing 0]] in
  let w := weave kas (slice 0 t) in
  match encode_stream w with
  | Ok bs => wf_obj_wide true 0 t = true /\ all_ka kas = true /\ forallb wf_token w = true /\ strip_ka w = slice 0 t /\
             (List.length w = List.length (slice 0 t) + 5)%nat /\
             unslice true 0 (tokens_of_chunks [bs]) = Some (heap_of 0 t, [val_of 0 t]) /\
             unslice true 0 (tokens_of_chunks (map (fun b => [b]) bs)) = Some (heap_of 0 t, [val_of 0 t]) /\
             dunslice true 0 (tokens_of_chunks [firstn 1 bs; firstn 9 (skipn 1 bs); skipn 10 bs]) = Some (heap_of 0 t, [val_of 0 t])
  | Exc _ => False
  end.
Proof. vm_compute. repeat split; reflexivity. Qed.
