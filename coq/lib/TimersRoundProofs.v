(* C15: the timing sentences are ROBUST TO ROUNDING of the time arithmetic.  For every add / sub that are within
   delta of the exact sum / difference (the code uses IEEE doubles: time.time() - last, timeout + EPSILON, now + delay):
     - an idle connection is torn down by  last-activity + 2T + EPSILON + 3*delta + reactor lateness,
     - a connection on which a byte arrives at least every T - delta is never torn down by the timer,
     - teardown / PING only when the latest arrival is more than T - delta / K - delta old,
     - an idle connection emits a PING by  + 2K + EPSILON + 3*delta + lateness.
   delta = 0, add = Z.add, sub = Z.sub is the exact model of lib/Timers.v (exact_instance). *)
From Coq Require Import ZArith List Bool Lia.
Import ListNotations.
Require Import Verif.lib.PyLite Verif.gen.BananaGen Verif.gen.TimersGen Verif.lib.Timers Verif.lib.TimersProofs Verif.lib.TimersRound.
Local Open Scope Z_scope.

(* the exact model is the instance with exact arithmetic *)
Theorem exact_instance c evs : forall s, runR Z.add Z.sub eps_ms c s evs = run c s evs.
Proof.
  induction evs as [|e r IH]; intros s; [reflexivity|]. unfold TimersRound.runR, run in *. cbn [fold_left].
  rewrite IH. reflexivity.
Qed.

Theorem exact_instance_init c t0 : initR Z.add Z.sub eps_ms c t0 = init c t0.
Proof. reflexivity. Qed.

Section RoundProofs.
Variables (add sub : Z -> Z -> Z) (eps delta : Z).
Hypothesis Hdelta : 0 <= delta.
Hypothesis Heps : 0 <= eps.
Hypothesis add_ok : forall a b, Z.abs (add a b - (a + b)) <= delta.
Hypothesis sub_ok : forall a b, Z.abs (sub a b - (a - b)) <= delta.

Notation initR := (initR add sub eps).
Notation stepR := (stepR add sub eps).
Notation runR := (runR add sub eps).
Notation punctualR := (punctualR add sub eps).

(* collect the error bound of every rounded operation in sight *)
Ltac ops := repeat match goal with
  | |- context [add ?a ?b] =>
      lazymatch goal with H : Z.abs (add a b - (a + b)) <= delta |- _ => fail | _ => pose proof (add_ok a b) end
  | |- context [sub ?a ?b] =>
      lazymatch goal with H : Z.abs (sub a b - (a - b)) <= delta |- _ => fail | _ => pose proof (sub_ok a b) end
  end.

(* ---- 1. the translated fragments, up to rounding (these lemmas alone look inside gen/TimersGen.v) *)

Lemma made_ka_R t lr k u a tm : exists e,
  connectionMade_ka_g add sub eps t lr k u a tm = (Some e, t, true, 0, 0) /\ Z.abs (e - (t + k + eps)) <= 2 * delta.
Proof. unfold connectionMade_ka_g. eexists. split; [reflexivity|]. ops. lia. Qed.

Lemma made_dc_R t lr k u a tm : exists e,
  connectionMade_dc_g add sub eps t lr k u a tm = (Some e, t, true, 0, 0) /\ Z.abs (e - (t + k + eps)) <= 2 * delta.
Proof. unfold connectionMade_dc_g. eexists. split; [reflexivity|]. ops. lia. Qed.

Lemma stamp_R t lr k u a tm :
  dataReceived_stamp_g add sub eps t lr k u a tm = (tm, (if a then lr else if u then t else lr), u, 0, 0).
Proof. unfold dataReceived_stamp_g. destruct a, u; reflexivity. Qed.

Lemma ka_fired_R t lr k u a tm : exists e age,
  keepaliveTimerFired_g add sub eps t lr k u a tm = (Some e, lr, u, (if k <? age then 1 else 0), 0) /\
  Z.abs (e - (t + k + eps)) <= 2 * delta /\ Z.abs (age - (t - lr)) <= delta.
Proof.
  unfold keepaliveTimerFired_g. rewrite ?Z.gtb_ltb.
  match goal with |- context [k <? ?x] =>
    destruct (k <? x) eqn:E; eexists; exists x; rewrite E; (split; [reflexivity|split; ops; lia]) end.
Qed.

Lemma dc_fired_R t lr d u a tm : exists age, Z.abs (age - (t - lr)) <= delta /\
  ((d < age /\ disconnectTimerFired_g add sub eps t lr d u a tm = (None, lr, u, 0, 1)) \/
   (age <= d /\ exists e, disconnectTimerFired_g add sub eps t lr d u a tm = (Some e, lr, u, 0, 0) /\
                          Z.abs (e - (t + d + eps)) <= 2 * delta)).
Proof.
  unfold disconnectTimerFired_g. rewrite ?Z.gtb_ltb.
  match goal with |- context [d <? ?x] => exists x; split; [ops; lia|]; destruct (Z.ltb_spec d x) end.
  - left. split; [assumption|reflexivity].
  - right. split; [assumption|]. eexists. split; [reflexivity|]. ops. lia.
Qed.

Lemma lost_ka_R t lr k u a tm : connectionLost_ka_g add sub eps t lr k u a tm = (None, lr, u, 0, 0).
Proof. unfold connectionLost_ka_g. destruct tm; reflexivity. Qed.

Lemma lost_dc_R t lr k u a tm : connectionLost_dc_g add sub eps t lr k u a tm = (None, lr, u, 0, 0).
Proof. unfold connectionLost_dc_g. destruct tm; reflexivity. Qed.

(* ---- 2. one step, field by field *)

Definition KA (c : cfg) (ka0 : option Z) (lr : Z) (p0 : list Z) (t : Z) (s' : st) : Prop :=
  match ka0, cK c with
  | Some e, Some k =>
      if e <=? t
      then exists e' age, ka s' = Some e' /\ Z.abs (e' - (t + k + eps)) <= 2 * delta /\
                          Z.abs (age - (t - lr)) <= delta /\ pings s' = (if k <? age then [t] else []) ++ p0
      else ka s' = Some e /\ pings s' = p0
  | _, _ => ka s' = ka0 /\ pings s' = p0
  end.

Definition DC (c : cfg) (dc0 : option Z) (lr : Z) (t0 : list Z) (t : Z) (s' : st) : Prop :=
  match dc0, cT c with
  | Some e, Some d =>
      if e <=? t
      then exists age, Z.abs (age - (t - lr)) <= delta /\
             ((d < age /\ dc s' = None /\ torn s' = t :: t0) \/
              (age <= d /\ torn s' = t0 /\ exists e', dc s' = Some e' /\ Z.abs (e' - (t + d + eps)) <= 2 * delta))
      else dc s' = Some e /\ torn s' = t0
  | _, _ => dc s' = dc0 /\ torn s' = t0
  end.

Lemma tickR_fields c s t :
  let s' := stepR c s (Tick t) in
  now s' = t /\ last_rx s' = last_rx s /\ use_ka s' = use_ka s /\ abandoned s' = abandoned s /\ closed s' = closed s /\
  KA c (ka s) (last_rx s) (pings s) t s' /\ DC c (dc s) (last_rx s) (torn s) t s'.
Proof.
  unfold TimersRound.stepR, fire_dcR, fire_kaR, KA, DC.
  destruct s as [n lr u a k d cl tn pg]; cbn [Timers.ka Timers.dc Timers.last_rx Timers.use_ka Timers.abandoned Timers.pings Timers.torn].
  destruct k as [ek|], (cK c) as [kk|]; try destruct (ek <=? t);
    try (destruct (ka_fired_R t lr kk u a (Some ek)) as (e1 & age1 & -> & B1 & B2));
    cbn [apply_ka Timers.ka Timers.dc Timers.last_rx Timers.use_ka Timers.abandoned Timers.pings Timers.torn];
    destruct d as [ed|], (cT c) as [dd|]; try destruct (ed <=? t);
    try (destruct (dc_fired_R t lr dd u a (Some ed)) as (age2 & B3 & [[B4 ->]|[B4 (e2 & -> & B5)]]));
    cbn; repeat split; try reflexivity;
    try (exists e1, age1; repeat split; try assumption; destruct (kk <? age1); reflexivity);
    try (exists age2; split; [assumption|]; left; repeat split; assumption);
    try (exists age2; split; [assumption|]; right; repeat split; try assumption; exists e2; split; [reflexivity|assumption]).
Qed.

Definition stamped (s : st) (t : Z) : Z := if abandoned s then last_rx s else if use_ka s then t else last_rx s.

Lemma rxR_fields c s t :
  let s' := stepR c s (Rx t) in
  now s' = t /\ last_rx s' = stamped s t /\ use_ka s' = use_ka s /\ abandoned s' = abandoned s /\
  closed s' = closed s /\ ka s' = ka s /\ dc s' = dc s /\ torn s' = torn s /\ pings s' = pings s.
Proof. unfold TimersRound.stepR, stampR, stamped. rewrite stamp_R. destruct s; cbn. repeat split; reflexivity. Qed.

Lemma rxbadR_fields c s t :
  let s' := stepR c s (RxBad t) in
  now s' = t /\ last_rx s' = stamped s t /\ use_ka s' = use_ka s /\ abandoned s' = true /\
  closed s' = closed s /\ ka s' = ka s /\ dc s' = dc s /\ torn s' = torn s /\ pings s' = pings s.
Proof. unfold TimersRound.stepR, stampR, stamped. rewrite stamp_R. destruct s; cbn. repeat split; reflexivity. Qed.

Lemma closeR_fields c s t :
  let s' := stepR c s (Close t) in
  now s' = t /\ last_rx s' = last_rx s /\ use_ka s' = use_ka s /\ abandoned s' = abandoned s /\
  closed s' = true /\ ka s' = None /\ dc s' = None /\ torn s' = torn s /\ pings s' = pings s.
Proof.
  unfold TimersRound.stepR. destruct s as [n lr u a k d cl tn pg]. cbn [Timers.ka Timers.dc Timers.last_rx Timers.use_ka Timers.abandoned].
  rewrite lost_ka_R. cbn. rewrite lost_dc_R. cbn. repeat split; reflexivity.
Qed.

Lemma initR_fields c t0 :
  let s := initR c t0 in
  now s = t0 /\ last_rx s = t0 /\ use_ka s = (match cK c, cT c with None, None => false | _, _ => true end) /\
  abandoned s = false /\ closed s = false /\ torn s = [] /\ pings s = [] /\
  (forall k, cK c = Some k -> exists e, ka s = Some e /\ Z.abs (e - (t0 + k + eps)) <= 2 * delta) /\
  (forall d, cT c = Some d -> exists e, dc s = Some e /\ Z.abs (e - (t0 + d + eps)) <= 2 * delta).
Proof.
  unfold TimersRound.initR. destruct (cK c) as [k|], (cT c) as [d|]; cbn [blank Timers.ka Timers.dc Timers.last_rx Timers.use_ka Timers.abandoned].
  - destruct (made_ka_R t0 t0 k false false None) as (e1 & E1 & B1). rewrite E1.
    cbn [blank apply_ka Timers.ka Timers.dc Timers.last_rx Timers.use_ka Timers.abandoned].
    destruct (made_dc_R t0 t0 d true false None) as (e2 & E2 & B2). rewrite E2. cbn.
    repeat split; try reflexivity; intros x E; inversion E; subst; eexists; (split; [reflexivity|assumption]).
  - destruct (made_ka_R t0 t0 k false false None) as (e1 & E1 & B1). rewrite E1. cbn.
    repeat split; try reflexivity; intros x E; inversion E; subst; eexists; (split; [reflexivity|assumption]).
  - destruct (made_dc_R t0 t0 d false false None) as (e2 & E2 & B2). rewrite E2. cbn.
    repeat split; try reflexivity; intros x E; inversion E; subst; eexists; (split; [reflexivity|assumption]).
  - cbn. repeat split; try reflexivity; intros x E; inversion E.
Qed.

Lemma runR_cons c s e r : runR c s (e :: r) = runR c (stepR c s e) r.
Proof. reflexivity. Qed.

Lemma stepR_now c s e : now (stepR c s e) = ev_time e.
Proof.
  destruct e as [t|t|t|t]; cbn [ev_time];
    [apply (rxR_fields c s t) | apply (rxbadR_fields c s t) | apply (tickR_fields c s t) | apply (closeR_fields c s t)].
Qed.

(* ---- 3. invariant of the reachable states *)

Definition invR (c : cfg) (s : st) : Prop :=
  last_rx s <= now s /\
  (forall x, In x (torn s) -> x <= now s) /\
  (closed s = false -> forall k, cK c = Some k -> exists e, ka s = Some e /\ e <= now s + k + eps + 2 * delta) /\
  (closed s = false -> forall d, cT c = Some d -> torn s = [] -> exists e, dc s = Some e /\ e <= now s + d + eps + 2 * delta).

Lemma invR_init c t0 : invR c (initR c t0).
Proof.
  destruct (initR_fields c t0) as (Hn & Hl & _ & _ & _ & Ht & _ & Hk & Hd). unfold invR. rewrite Hn, Hl, Ht.
  split; [lia|]. split; [intros x []|].
  split; [intros _ k E; destruct (Hk k E) as (e & -> & B); exists e; split; [reflexivity|lia]|].
  intros _ d E _. destruct (Hd d E) as (e & -> & B). exists e. split; [reflexivity|lia].
Qed.

Lemma invR_step c s e : invR c s -> now s <= ev_time e -> invR c (stepR c s e).
Proof.
  intros (Hl & Ht & Hk & Hd) Hm. unfold invR. destruct e as [t|t|t|t]; cbn [ev_time] in Hm.
  - destruct (rxR_fields c s t) as (Fn & Fl & Fu & Fa & Fc & Fk & Fd & Ft & Fp).
    rewrite Fn, Fl, Fc, Fk, Fd, Ft. unfold stamped.
    split; [destruct (abandoned s), (use_ka s); lia|].
    split; [intros x Hx; specialize (Ht x Hx); lia|].
    split; [intros C k E; destruct (Hk C k E) as (e & -> & ?); exists e; split; [reflexivity|lia]|].
    intros C d E N; destruct (Hd C d E N) as (e & -> & ?); exists e; split; [reflexivity|lia].
  - destruct (rxbadR_fields c s t) as (Fn & Fl & Fu & Fa & Fc & Fk & Fd & Ft & Fp).
    rewrite Fn, Fl, Fc, Fk, Fd, Ft. unfold stamped.
    split; [destruct (abandoned s), (use_ka s); lia|].
    split; [intros x Hx; specialize (Ht x Hx); lia|].
    split; [intros C k E; destruct (Hk C k E) as (e & -> & ?); exists e; split; [reflexivity|lia]|].
    intros C d E N; destruct (Hd C d E N) as (e & -> & ?); exists e; split; [reflexivity|lia].
  - destruct (tickR_fields c s t) as (Fn & Fl & Fu & Fa & Fc & FK & FD).
    rewrite Fn, Fl, Fc.
    split; [lia|].
    split.
    { intros x Hx. unfold DC in FD. destruct (dc s) as [e|], (cT c) as [d|];
        try (destruct FD as (_ & X); rewrite X in Hx; specialize (Ht x Hx); lia).
      destruct (e <=? t); [|destruct FD as (_ & X); rewrite X in Hx; specialize (Ht x Hx); lia].
      destruct FD as (age & _ & [(_ & _ & X)|(_ & X & _)]); rewrite X in Hx; [|specialize (Ht x Hx); lia].
      destruct Hx as [<-|Hx]; [lia|specialize (Ht x Hx); lia]. }
    split.
    { intros C k E. destruct (Hk C k E) as (e & Ee & ?). unfold KA in FK. rewrite Ee, E in FK.
      destruct (e <=? t).
      - destruct FK as (e' & age & -> & B & _). exists e'. split; [reflexivity|lia].
      - destruct FK as (-> & _). exists e. split; [reflexivity|lia]. }
    { intros C d E N. unfold DC in FD. rewrite E in FD. destruct (dc s) as [e|] eqn:Ed.
      - destruct (e <=? t).
        + destruct FD as (age & _ & [(_ & _ & X)|(_ & X & e' & -> & B)]); [rewrite X in N; discriminate|].
          exists e'. split; [reflexivity|lia].
        + destruct FD as (-> & X). rewrite X in N. destruct (Hd C d E N) as (e0 & Ee0 & ?). inversion Ee0; subst e0.
          exists e. split; [reflexivity|lia].
      - destruct FD as (_ & X). rewrite X in N. destruct (Hd C d E N) as (e0 & Ee0 & _). discriminate. }
  - destruct (closeR_fields c s t) as (Fn & Fl & Fu & Fa & Fc & Fk & Fd & Ft & Fp).
    rewrite Fn, Fl, Fc, Ft.
    split; [lia|]. split; [intros x Hx; specialize (Ht x Hx); lia|].
    split; discriminate.
Qed.

Lemma invR_run c evs : forall s, invR c s -> sorted_from (now s) evs -> invR c (runR c s evs).
Proof.
  induction evs as [|e r IH]; intros s I S; [exact I|].
  destruct S as [S1 S2]. rewrite runR_cons. apply IH; [apply invR_step; assumption|]. rewrite stepR_now. exact S2.
Qed.

Lemma closedR_run c evs : forall s, closed s = false -> no_close evs -> closed (runR c s evs) = false.
Proof.
  induction evs as [|e r IH]; intros s C N; [exact C|]. inversion N as [|? ? N1 N2]; subst.
  rewrite runR_cons. apply IH; [|exact N2].
  destruct e as [t|t|t|t].
  - destruct (rxR_fields c s t) as (_ & _ & _ & _ & -> & _). exact C.
  - destruct (rxbadR_fields c s t) as (_ & _ & _ & _ & -> & _). exact C.
  - destruct (tickR_fields c s t) as (_ & _ & _ & _ & -> & _). exact C.
  - exfalso. apply N1. exists t. reflexivity.
Qed.

(* ---- 4. idle phases *)

Section Idle.
Variable c : cfg.
Variable d : Z.

Definition dc_goalR (B : Z) (s : st) : Prop :=
  (exists x, In x (torn s) /\ x <= B + d) \/ (exists e, dc s = Some e /\ e <= B).

Lemma idle_dc_phaseR T t0 post : cT c = Some T -> 0 <= T ->
  forall s, only_ticks post -> punctualR c d s post -> last_rx s <= t0 ->
  dc_goalR (t0 + 2 * T + eps + 3 * delta) s ->
  let s' := runR c s post in dc_goalR (t0 + 2 * T + eps + 3 * delta) s' /\ overdue_ok d s' (now s').
Proof.
  intros ET HT. induction post as [|e r IH]; intros s O P L G.
  - cbn. split; [exact G | exact P].
  - inversion O as [|? ? [t ->] O2]; subst. destruct P as [P1 P2]. cbn [ev_time] in P1.
    rewrite runR_cons. destruct (tickR_fields c s t) as (_ & Fl & _ & _ & _ & _ & FD).
    apply IH; [exact O2 | exact P2 | rewrite Fl; exact L | ].
    unfold dc_goalR. unfold DC in FD. rewrite ET in FD. destruct G as [(x & Hx & Hb)|(e & Ee & Hb)].
    + left. exists x. split; [|exact Hb].
      destruct (dc s) as [e|]; [destruct (e <=? t); [destruct FD as (age & _ & [(_ & _ & ->)|(_ & -> & _)])|destruct FD as (_ & ->)]
                              |destruct FD as (_ & ->)]; try exact Hx. right. exact Hx.
    + destruct P1 as [_ P1]. specialize (P1 e Ee). rewrite Ee in FD. destruct (e <=? t) eqn:Due.
      * destruct FD as (age & Ba & [(_ & _ & X)|(Age & _ & e' & X & Be)]).
        -- left. exists t. split; [rewrite X; left; reflexivity|lia].
        -- right. exists e'. split; [exact X|]. lia.
      * destruct FD as (X & _). right. exists e. split; [exact X|exact Hb].
Qed.

Definition ka_goalR (B : Z) (t0 : Z) (old : list Z) (s : st) : Prop :=
  exists new, pings s = new ++ old /\
    ((exists p, In p new /\ t0 <= p <= B + d) \/ (exists e, ka s = Some e /\ e <= B)).

Lemma idle_ka_phaseR K t0 old post : cK c = Some K -> 0 <= K ->
  forall s, only_ticks post -> punctualR c d s post -> sorted_from (now s) post -> t0 <= now s -> last_rx s <= t0 ->
  ka_goalR (t0 + 2 * K + eps + 3 * delta) t0 old s ->
  let s' := runR c s post in ka_goalR (t0 + 2 * K + eps + 3 * delta) t0 old s' /\ overdue_ok d s' (now s').
Proof.
  intros EK HK. induction post as [|e r IH]; intros s O P S N L G.
  - cbn. split; [exact G | exact P].
  - inversion O as [|? ? [t ->] O2]; subst. destruct P as [P1 P2]. destruct S as [S1 S2]. cbn [ev_time] in *.
    rewrite runR_cons. destruct (tickR_fields c s t) as (_ & Fl & _ & _ & _ & FK & _).
    apply IH; [exact O2 | exact P2 | rewrite stepR_now; exact S2 | rewrite stepR_now; cbn [ev_time]; lia | rewrite Fl; exact L | ].
    unfold ka_goalR. unfold KA in FK. rewrite EK in FK. destruct G as (new & En & G).
    destruct (ka s) as [e|] eqn:Ee.
    + destruct (e <=? t) eqn:Due.
      * destruct FK as (e' & age & X & Be & Ba & Xp). exists ((if K <? age then [t] else []) ++ new).
        split; [rewrite Xp, En, app_assoc; reflexivity|].
        destruct G as [(p & Hp & Hb)|(e0 & Ee0 & Hb)].
        -- left. exists p. split; [apply in_or_app; right; exact Hp|exact Hb].
        -- inversion Ee0; subst e0. destruct P1 as [P1 _]. specialize (P1 e Ee).
           destruct (Z.ltb_spec K age) as [Age|Age].
           ++ left. exists t. split; [left; reflexivity|lia].
           ++ right. exists e'. split; [exact X|lia].
      * destruct FK as (X & Xp). exists new. split; [rewrite Xp; exact En|].
        destruct G as [G|(e0 & Ee0 & Hb)]; [left; exact G|]. right. exists e. inversion Ee0; subst. split; [exact X|exact Hb].
    + destruct FK as (X & Xp). exists new. split; [rewrite Xp; exact En|].
      destruct G as [G|(e0 & Ee0 & _)]; [left; exact G|discriminate].
Qed.

End Idle.

(* C15 sentence 1 (timing), robust: bound  now(pre) + 2T + EPSILON + 3*delta + d *)
Theorem idle_torn_down_R c tc T d pre post :
  cT c = Some T -> 0 <= T -> 0 <= d ->
  sorted_from tc pre -> no_close pre ->
  let s := runR c (initR c tc) pre in
  only_ticks post -> sorted_from (now s) post -> punctualR c d s post ->
  let s' := runR c s post in
  now s + 2 * T + eps + 3 * delta + d < now s' ->
  exists x, In x (torn s') /\ x <= now s + 2 * T + eps + 3 * delta + d.
Proof.
  intros ET HT Hd S N s O S2 P s' Late.
  assert (I : invR c s).
  { apply invR_run; [apply invR_init|]. destruct (initR_fields c tc) as (-> & _). exact S. }
  assert (C : closed s = false).
  { apply closedR_run; [apply (initR_fields c tc)|exact N]. }
  destruct I as (Il & It & _ & Id).
  assert (G : dc_goalR d (now s + 2 * T + eps + 3 * delta) s).
  { destruct (torn s) as [|x l] eqn:Et.
    - right. destruct (Id C T ET eq_refl) as (e & Ee & He). exists e. split; [exact Ee|lia].
    - left. exists x. split; [rewrite Et; left; reflexivity|]. specialize (It x (or_introl eq_refl)). lia. }
  destruct (idle_dc_phaseR c d T (now s) post ET HT s O P Il G) as [G' F]. fold s' in G', F.
  destruct G' as [(x & Hx & Hb)|(e & Ee & Hb)].
  - exists x. split; [exact Hx|lia].
  - exfalso. destruct F as [_ F]. specialize (F e Ee). lia.
Qed.

Theorem ping_within_R c tc K d pre post :
  cK c = Some K -> 0 <= K -> 0 <= d ->
  sorted_from tc pre -> no_close pre ->
  let s := runR c (initR c tc) pre in
  only_ticks post -> sorted_from (now s) post -> punctualR c d s post ->
  let s' := runR c s post in
  now s + 2 * K + eps + 3 * delta + d < now s' ->
  exists new p, pings s' = new ++ pings s /\ In p new /\ now s <= p <= now s + 2 * K + eps + 3 * delta + d.
Proof.
  intros EK HK Hd S N s O S2 P s' Late.
  assert (I : invR c s).
  { apply invR_run; [apply invR_init|]. destruct (initR_fields c tc) as (-> & _). exact S. }
  assert (C : closed s = false).
  { apply closedR_run; [apply (initR_fields c tc)|exact N]. }
  destruct I as (Il & _ & Ik & _).
  assert (G : ka_goalR d (now s + 2 * K + eps + 3 * delta) (now s) (pings s) s).
  { exists []. split; [reflexivity|]. right. destruct (Ik C K EK) as (e & Ee & He). exists e. split; [exact Ee|lia]. }
  destruct (idle_ka_phaseR c d K (now s) (pings s) post EK HK s O P S2 (Z.le_refl _) Il G) as [G' F].
  fold s' in G', F. destruct G' as (new & En & [(p & Hp & Hb)|(e & Ee & Hb)]).
  - exists new, p. split; [exact En|]. split; [exact Hp|lia].
  - exfalso. destruct F as [F _]. specialize (F e Ee). lia.
Qed.

(* ---- 5. only when idle (up to delta) *)

Lemma use_kaR_step c s e : use_ka (stepR c s e) = use_ka s.
Proof.
  destruct e as [t|t|t|t];
    [apply (rxR_fields c s t) | apply (rxbadR_fields c s t) | apply (tickR_fields c s t) | apply (closeR_fields c s t)].
Qed.

Lemma last_arrivalR_step c s e r : use_ka s = true ->
  last_arrival (last_rx s) (abandoned s) (e :: r) = last_arrival (last_rx (stepR c s e)) (abandoned (stepR c s e)) r.
Proof.
  intros U. destruct e as [t|t|t|t]; cbn [last_arrival].
  - destruct (rxR_fields c s t) as (_ & -> & _ & -> & _). unfold stamped. rewrite U. reflexivity.
  - destruct (rxbadR_fields c s t) as (_ & -> & _ & -> & _). unfold stamped. rewrite U. reflexivity.
  - destruct (tickR_fields c s t) as (_ & -> & _ & -> & _). reflexivity.
  - destruct (closeR_fields c s t) as (_ & -> & _ & -> & _). reflexivity.
Qed.

Lemma torn_originR c T evs : cT c = Some T -> forall s, use_ka s = true ->
  forall x, In x (torn (runR c s evs)) ->
  In x (torn s) \/ exists pre post, evs = pre ++ Tick x :: post /\ T - delta < x - last_arrival (last_rx s) (abandoned s) pre.
Proof.
  intros ET. induction evs as [|e r IH]; intros s U x Hx; [left; exact Hx|].
  rewrite runR_cons in Hx. apply IH in Hx; [|rewrite use_kaR_step; exact U].
  destruct Hx as [Hx|(pre & post & -> & Hgt)].
  - destruct e as [t|t|t|t].
    + destruct (rxR_fields c s t) as (_ & _ & _ & _ & _ & _ & _ & Ft & _). rewrite Ft in Hx. left; exact Hx.
    + destruct (rxbadR_fields c s t) as (_ & _ & _ & _ & _ & _ & _ & Ft & _). rewrite Ft in Hx. left; exact Hx.
    + destruct (tickR_fields c s t) as (_ & _ & _ & _ & _ & _ & FD). unfold DC in FD. rewrite ET in FD.
      destruct (dc s) as [e|]; [|destruct FD as (_ & X); rewrite X in Hx; left; exact Hx].
      destruct (e <=? t); [|destruct FD as (_ & X); rewrite X in Hx; left; exact Hx].
      destruct FD as (age & Ba & [(Age & _ & X)|(_ & X & _)]); rewrite X in Hx; [|left; exact Hx].
      destruct Hx as [<-|Hx]; [|left; exact Hx]. right. exists [], r. split; [reflexivity|]. cbn [last_arrival]. lia.
    + destruct (closeR_fields c s t) as (_ & _ & _ & _ & _ & _ & _ & Ft & _). rewrite Ft in Hx. left; exact Hx.
  - right. exists (e :: pre), post. split; [reflexivity|]. rewrite (last_arrivalR_step c s e pre U). exact Hgt.
Qed.

Lemma pings_originR c K evs : cK c = Some K -> forall s, use_ka s = true ->
  forall x, In x (pings (runR c s evs)) ->
  In x (pings s) \/ exists pre post, evs = pre ++ Tick x :: post /\ K - delta < x - last_arrival (last_rx s) (abandoned s) pre.
Proof.
  intros EK. induction evs as [|e r IH]; intros s U x Hx; [left; exact Hx|].
  rewrite runR_cons in Hx. apply IH in Hx; [|rewrite use_kaR_step; exact U].
  destruct Hx as [Hx|(pre & post & -> & Hgt)].
  - destruct e as [t|t|t|t].
    + destruct (rxR_fields c s t) as (_ & _ & _ & _ & _ & _ & _ & _ & Fp). rewrite Fp in Hx. left; exact Hx.
    + destruct (rxbadR_fields c s t) as (_ & _ & _ & _ & _ & _ & _ & _ & Fp). rewrite Fp in Hx. left; exact Hx.
    + destruct (tickR_fields c s t) as (_ & _ & _ & _ & _ & FK & _). unfold KA in FK. rewrite EK in FK.
      destruct (ka s) as [e|]; [|destruct FK as (_ & X); rewrite X in Hx; left; exact Hx].
      destruct (e <=? t); [|destruct FK as (_ & X); rewrite X in Hx; left; exact Hx].
      destruct FK as (e' & age & _ & _ & Ba & X). rewrite X in Hx.
      destruct (Z.ltb_spec K age) as [Age|Age]; [|left; exact Hx].
      destruct Hx as [<-|Hx]; [|left; exact Hx]. right. exists [], r. split; [reflexivity|]. cbn [last_arrival]. lia.
    + destruct (closeR_fields c s t) as (_ & _ & _ & _ & _ & _ & _ & _ & Fp). rewrite Fp in Hx. left; exact Hx.
  - right. exists (e :: pre), post. split; [reflexivity|]. rewrite (last_arrivalR_step c s e pre U). exact Hgt.
Qed.

Theorem torn_only_when_idle_R c tc T evs x : cT c = Some T ->
  In x (torn (runR c (initR c tc) evs)) ->
  exists pre post, evs = pre ++ Tick x :: post /\ T - delta < x - last_arrival tc false pre.
Proof.
  intros ET Hx. destruct (initR_fields c tc) as (_ & Fl & Fu & Fa & _ & Ft & _).
  assert (U : use_ka (initR c tc) = true) by (rewrite Fu, ET; destruct (cK c); reflexivity).
  destruct (torn_originR c T evs ET (initR c tc) U x Hx) as [H|H].
  - rewrite Ft in H. destruct H.
  - rewrite Fl, Fa in H. exact H.
Qed.

Theorem ping_only_when_idle_R c tc K evs x : cK c = Some K ->
  In x (pings (runR c (initR c tc) evs)) ->
  exists pre post, evs = pre ++ Tick x :: post /\ K - delta < x - last_arrival tc false pre.
Proof.
  intros EK Hx. destruct (initR_fields c tc) as (_ & Fl & Fu & Fa & _ & _ & Fp & _).
  assert (U : use_ka (initR c tc) = true) by (rewrite Fu, EK; reflexivity).
  destruct (pings_originR c K evs EK (initR c tc) U x Hx) as [H|H].
  - rewrite Fp in H. destruct H.
  - rewrite Fl, Fa in H. exact H.
Qed.

(* C15 sentence 2, robust: a byte at least every T - delta => never torn down by the timer *)
Theorem active_kept_R c tc T evs : cT c = Some T ->
  (forall pre t post, evs = pre ++ Tick t :: post -> t - last_arrival tc false pre <= T - delta) ->
  torn (runR c (initR c tc) evs) = [].
Proof.
  intros ET H. destruct (torn (runR c (initR c tc) evs)) as [|x l] eqn:E; [reflexivity|].
  destruct (torn_only_when_idle_R c tc T evs x ET) as (pre & post & Ee & Hgt); [rewrite E; left; reflexivity|].
  specialize (H pre x post Ee). lia.
Qed.

End RoundProofs.

(* ---- the same theorems with uniform hypotheses (for props/C15.v) *)

Theorem idle_torn_down_rounded add sub eps delta :
  0 <= delta -> 0 <= eps -> within delta add Z.add -> within delta sub Z.sub ->
  forall c tc T d pre post,
  cT c = Some T -> 0 <= T -> 0 <= d ->
  sorted_from tc pre -> no_close pre ->
  let s := runR add sub eps c (initR add sub eps c tc) pre in
  only_ticks post -> sorted_from (now s) post -> punctualR add sub eps c d s post ->
  let s' := runR add sub eps c s post in
  now s + 2 * T + eps + 3 * delta + d < now s' ->
  exists x, In x (torn s') /\ x <= now s + 2 * T + eps + 3 * delta + d.
Proof. intros Hd He Ha Hs. intros. eapply idle_torn_down_R; eassumption. Qed.

Theorem ping_within_rounded add sub eps delta :
  0 <= delta -> 0 <= eps -> within delta add Z.add -> within delta sub Z.sub ->
  forall c tc K d pre post,
  cK c = Some K -> 0 <= K -> 0 <= d ->
  sorted_from tc pre -> no_close pre ->
  let s := runR add sub eps c (initR add sub eps c tc) pre in
  only_ticks post -> sorted_from (now s) post -> punctualR add sub eps c d s post ->
  let s' := runR add sub eps c s post in
  now s + 2 * K + eps + 3 * delta + d < now s' ->
  exists new p, pings s' = new ++ pings s /\ In p new /\ now s <= p <= now s + 2 * K + eps + 3 * delta + d.
Proof. intros Hd He Ha Hs. intros. eapply ping_within_R; eassumption. Qed.

Theorem active_kept_rounded add sub eps delta :
  0 <= delta -> 0 <= eps -> within delta add Z.add -> within delta sub Z.sub ->
  forall c tc T evs, cT c = Some T ->
  (forall pre t post, evs = pre ++ Tick t :: post -> t - last_arrival tc false pre <= T - delta) ->
  torn (runR add sub eps c (initR add sub eps c tc) evs) = [].
Proof. intros Hd He Ha Hs. intros. eapply active_kept_R; eassumption. Qed.

Theorem torn_only_when_idle_rounded add sub eps delta :
  0 <= delta -> 0 <= eps -> within delta add Z.add -> within delta sub Z.sub ->
  forall c tc T evs x, cT c = Some T ->
  In x (torn (runR add sub eps c (initR add sub eps c tc) evs)) ->
  exists pre post, evs = pre ++ Tick x :: post /\ T - delta < x - last_arrival tc false pre.
Proof. intros Hd He Ha Hs. intros. eapply torn_only_when_idle_R; eassumption. Qed.

Theorem ping_only_when_idle_rounded add sub eps delta :
  0 <= delta -> 0 <= eps -> within delta add Z.add -> within delta sub Z.sub ->
  forall c tc K evs x, cK c = Some K ->
  In x (pings (runR add sub eps c (initR add sub eps c tc) evs)) ->
  exists pre post, evs = pre ++ Tick x :: post /\ K - delta < x - last_arrival tc false pre.
Proof. intros Hd He Ha Hs. intros. eapply ping_only_when_idle_R; eassumption. Qed.


(* ---- 6. non-vacuity: arithmetic that rounds to a grid of 7 ms (error <= 3 ms) satisfies the hypotheses, gives a
        DIFFERENT run from the exact one, and obeys the robust bound *)

Lemma snap_ok h x : 0 <= h -> Z.abs (snap h x - x) <= h.
Proof.
  intros H. unfold snap. pose proof (Z.div_mod (x + h) (2 * h + 1) ltac:(lia)) as D.
  pose proof (Z.mod_pos_bound (x + h) (2 * h + 1) ltac:(lia)) as M. lia.
Qed.

Lemma add_snap_ok h : 0 <= h -> within h (add_snap h) Z.add.
Proof. intros H a b. apply snap_ok. assumption. Qed.
Lemma sub_snap_ok h : 0 <= h -> within h (sub_snap h) Z.sub.
Proof. intros H a b. apply snap_ok. assumption. Qed.

Example ex_rounded :
  let c := {| cK := None; cT := Some 2998 |} in
  let evs := [Rx 102; Tick 3101; Tick 6202; Tick 6300] in
  let R := runR (add_snap 3) (sub_snap 3) 100 c (initR (add_snap 3) (sub_snap 3) 100 c 0) evs in
  torn (run c (init c 0) evs) = [3101] /\     (* exact: age 2999 > 2998 at the first firing *)
  torn R = [6202] /\                            (* rounded: the age 2999 is computed as 2996, the teardown waits for the next firing *)
  6202 <= 102 + 2 * 2998 + 100 + 3 * 3 + 0.    (* ... which the robust bound allows *)
Proof. vm_compute. split; [reflexivity|]. split; [reflexivity|]. discriminate. Qed.
