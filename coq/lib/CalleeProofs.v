(* C10: proofs about lib/Callee.v (the interpreted programs are the ones translated from the current source) *)
From Coq Require Import ZArith List String Bool Lia.
Import ListNotations.
Require Import Verif.lib.PyLite Verif.lib.Utf8 Verif.gen.FailureGen Verif.lib.Failure Verif.lib.FailureProofs.
Require Import Verif.gen.CalleeGen Verif.lib.Callee.
Local Open Scope Z_scope.

(* FailureSlicer returns exactly for the classes it can name (get_state_returns_iff): then the `error` handed to send() is written
   in full, and its payload is the state FailureSlicer computed (every property of C10_failure_fits holds of it) ... *)
Lemma send_error_total e r s : nameable (d_exc e) = true -> send_error e r s = with_sent s (MError r (the_state e)).
Proof.
  intros N. unfold send_error, the_state. destruct (proj2 (get_state_returns_iff (d_unsafe e) (d_exc e)) N) as (fs & G). rewrite G. reflexivity.
Qed.

Lemma the_state_spec e : nameable (d_exc e) = true -> get_state (d_unsafe e) (d_exc e) = Ok (the_state e).
Proof.
  intros N. unfold the_state. destruct (proj2 (get_state_returns_iff (d_unsafe e) (d_exc e)) N) as (fs & G). rewrite G. reflexivity.
Qed.

(* ... otherwise getStateToCopy raises inside produce: the connection is dropped *)
Lemma send_error_unnameable e r s : nameable (d_exc e) = false -> send_error e r s = dropped s.
Proof.
  intros N. unfold send_error. destruct (failure_unnameable_raises (d_unsafe e) (d_exc e) N) as (t & G). rewrite G. reflexivity.
Qed.

Arguments send_error : simpl never.

(* what one inbound call must leave behind *)
Definition outcome_ok (r : Z) (expected : nat) (a : list Z) (s s' : cst) : Prop :=
  cup s' = true /\ swallowed s' = swallowed s /\ active s' = a /\
  ((sent s' = sent s /\ expected = 0%nat) \/ (exists m, sent s' = sent s ++ [m] /\ msg_req m = r /\ expected = 1%nat)).

Ltac finish :=
  unfold outcome_ok; cbn [cup swallowed active sent msg_req];
  split; [reflexivity|split; [reflexivity|split; [reflexivity|
    first [left; split; reflexivity | right; eexists; split; [reflexivity|split; reflexivity]]]]].

Ltac crunch R0 :=
  repeat (cbn; rewrite ?Z.eqb_refl, ?R0; try (rewrite send_error_total by assumption); try (rewrite send_error_unnameable by assumption);
          cbn [with_sent with_active dropped swallow active sent cup swallowed]).

Ltac open_env e :=
  destruct e as [r sch rdy rs rok ans ll rr rn us ex];
  unfold delivery_ok, rejected_ok, must_fail in *;
  cbn [d_reqid d_answer d_ready d_raises d_schema d_result_ok d_log_local d_repr_raises d_exc] in *.

Ltac open_progs :=
  unfold handle, register, registers_reqid, delivery_chain, report_violation_prog, call_failed, callfailed_prog, call_finished,
         callfinished_prog.

(* a call that the CallUnslicer rejects after it knows the request id: exactly one `error`, unless it was the caller who
   aborted (then none: the caller knows).  No condition on logging, rendering, schema ...: callFailed gets no delivery *)
Theorem rejected_answered_once abort e s : cup s = true -> d_reqid e <> 0 -> rejected_ok abort e ->
  outcome_ok (d_reqid e) (expected_replies (InRejected abort e)) (if abort then d_reqid e :: active s else active s)
             s (handle (InRejected abort e) s).
Proof.
  intros U R N. apply Z.eqb_neq in R. destruct s as [a sn u sw]. cbn in U. subst u. open_env e.
  unfold expected_replies. open_progs.
  destruct abort; [|specialize (N eq_refl)]; crunch R; finish.
Qed.

(* WHICH reply, and with what in it: one `error` carrying FailureSlicer's state of the Violation; nothing for the caller's ABORT *)
Theorem rejected_reply abort e s : cup s = true -> d_reqid e <> 0 -> rejected_ok abort e ->
  sent (handle (InRejected abort e) s) = sent s ++ reply_of (InRejected abort e).
Proof.
  intros U R N. apply Z.eqb_neq in R. destruct s as [a sn u sw]. cbn in U. subst u. open_env e.
  unfold reply_of. cbn [d_reqid]. open_progs.
  destruct abort; [|specialize (N eq_refl)]; crunch R; rewrite ?app_nil_r; reflexivity.
Qed.

(* the guard is exact: the connection survives a rejected call if and only if rejected_ok *)
Theorem rejected_guard_exact abort e s : cup s = true -> d_reqid e <> 0 ->
  (cup (handle (InRejected abort e) s) = true <-> rejected_ok abort e).
Proof.
  intros U R. apply Z.eqb_neq in R. destruct s as [a sn u sw]. cbn in U. subst u. open_env e. open_progs.
  destruct (nameable ex) eqn:N; destruct abort; crunch R; split; intros H; try reflexivity; try (intros _; reflexivity);
    try (intros X; discriminate X); try discriminate H; try (specialize (H eq_refl); discriminate H).
Qed.

(* a delivery that doNextCall starts (arguments ready or not, method returning or raising, result accepted or not by the
   callee's schema, answer serializable or not, local-failure log on or off, target / arguments formattable or not): exactly
   one `answer` or `error`, the table entry is gone, nothing is swallowed, the connection is up -- provided only that the
   AnswerSlicer does not hit a non-Violation exception (the known finding) *)
Theorem delivery_answered_once e s : cup s = true -> d_reqid e <> 0 -> delivery_ok e ->
  outcome_ok (d_reqid e) 1 (active s) s (handle (InDelivered e) s).
Proof.
  intros U R A. apply Z.eqb_neq in R. destruct s as [a sn u sw]. cbn in U. subst u. open_env e. open_progs.
  destruct ans, rdy, rs, sch, rok, ll, rr; cbn [negb orb andb] in A; try congruence; crunch R; finish.
Qed.

(* WHICH reply (the statement outcome_ok leaves open): an `error` exactly when the arguments did not become ready, the method raised or
   the callee's schema rejects the result -- carrying FailureSlicer's state of that exception -- and otherwise the `answer` (which
   the caller sees aborted when an AnswerSlicer raised Violation).  Kills the model mutants `a raising method is answered with an
   answer`, `checkResults always accepts`, `_doCall fails only when the log cannot render`. *)
Theorem reply_kind e s : cup s = true -> d_reqid e <> 0 -> delivery_ok e ->
  sent (handle (InDelivered e) s) = sent s ++
    [if must_fail e then MError (d_reqid e) (the_state e)
     else match d_answer e with SViolation => MAnswerAborted (d_reqid e) | _ => MAnswer (d_reqid e) end].
Proof.
  intros U R A. apply Z.eqb_neq in R. destruct s as [a sn u sw]. cbn in U. subst u.
  destruct e as [r sch rdy rs rok ans ll rr rn us ex]. unfold delivery_ok in A. unfold must_fail in *.
  cbn [d_reqid d_answer d_ready d_raises d_schema d_result_ok d_exc] in *. open_progs.
  destruct ans, rdy, rs, sch, rok, ll, rr; cbn [negb orb andb] in A |- *; try congruence; crunch R; reflexivity.
Qed.

(* the guard is exact: the connection survives a delivery if and only if delivery_ok -- outside it (an exception whose class
   cannot be named when an `error` is due, a crashing AnswerSlicer when an `answer` is due) the model drops the connection *)
Theorem delivery_guard_exact e s : cup s = true -> d_reqid e <> 0 ->
  (cup (handle (InDelivered e) s) = true <-> delivery_ok e).
Proof.
  intros U R. apply Z.eqb_neq in R. destruct s as [a sn u sw]. cbn in U. subst u. open_env e. open_progs.
  destruct (nameable ex) eqn:N; destruct ans, rdy, rs, sch, rok, ll, rr; cbn [negb orb andb]; crunch R;
    split; intros H; try reflexivity; try discriminate H; try congruence.
Qed.

(* the region delivery_ok excludes when an `error` is due, as a statement of its own (finding
   oracle/sibling-affected/exception-class-without-module): a method raising an exception whose class (or an ancestor) has no module
   name takes the connection down instead of failing its call *)
Theorem unnameable_error_drops_connection e s : cup s = true -> d_reqid e <> 0 -> must_fail e = true ->
  nameable (d_exc e) = false -> cup (handle (InDelivered e) s) = false.
Proof.
  intros U R M N. destruct (cup (handle (InDelivered e) s)) eqn:C; [|reflexivity].
  apply (delivery_guard_exact e s U R) in C. unfold delivery_ok in C. rewrite M in C. congruence.
Qed.

Example ex_unnameable_drops :
  let e := {| d_reqid := 7; d_schema := false; d_ready := true; d_raises := true; d_result_ok := true; d_answer := SOk;
              d_log_local := false; d_repr_raises := false; d_render_raises := false; d_unsafe := false;
              d_exc := {| e_type := Exc "TypeError"%string; e_str := Ok [109]; e_fallback := []; e_stack := [];
                          e_parents := Exc "TypeError"%string |} |} in
  must_fail e = true /\ nameable (d_exc e) = false /\ handle (InDelivered e) cinit0 = {| active := []; sent := []; cup := false; swallowed := 0 |} /\
  (* a one-way call raising the same exception is contained: no error is ever built *)
  handle (InDelivered {| d_reqid := 0; d_schema := false; d_ready := true; d_raises := true; d_result_ok := true; d_answer := SOk;
              d_log_local := false; d_repr_raises := false; d_render_raises := false; d_unsafe := false; d_exc := d_exc e |}) cinit0 = cinit0.
Proof. vm_compute. auto. Qed.

(* one-way calls (reqID 0) are never answered, whatever happens *)
Theorem one_way_never_answered i s : d_reqid (in_env i) = 0 -> sent (handle i s) = sent s.
Proof.
  intros R. destruct s as [a sn u sw]. destruct u; [|reflexivity].
  destruct i as [abort e|e]; destruct e as [r sch rdy rs rok ans ll rr rn us ex]; cbn [in_env d_reqid] in R; subst r;
    unfold handle, register, registers_reqid, delivery_chain, report_violation_prog, call_failed, callfailed_prog, call_finished, callfinished_prog.
  - destruct abort; cbn; reflexivity.
  - destruct rdy, rs, ll, rr; cbn; reflexivity.
Qed.

(* one-way calls leave NOTHING behind, whatever goes wrong with them and however often request id 0 occurs: rejected while being
   received (the caller's ABORT included: the id was never registered, so there is no table entry to retire), arguments not ready,
   the method raising, a result that could not be serialized (it is never sent): no message, the table untouched, nothing swallowed,
   the connection up.  No condition on d_answer: _callFinished returns before it looks at the result *)
Theorem one_way_contained i s : cup s = true -> d_reqid (in_env i) = 0 ->
  let s' := handle i s in
  cup s' = true /\ sent s' = sent s /\ active s' = active s /\ swallowed s' = swallowed s.
Proof.
  intros U R. destruct s as [a sn u sw]. cbn in U. subst u.
  destruct i as [abort e|e]; destruct e as [r sch rdy rs rok ans ll rr rn us ex]; cbn [in_env d_reqid] in R; subst r;
    unfold handle, register, registers_reqid, delivery_chain, report_violation_prog, call_failed, callfailed_prog, call_finished, callfinished_prog.
  - destruct abort; cbn; auto.
  - destruct rdy, rs, ll, rr; cbn; auto.
Qed.

Example ex_one_way :
  let x := {| e_type := Ok [86]; e_str := Ok [109]; e_fallback := []; e_stack := []; e_parents := Ok [] |} in
  let mk rdy rs ans := {| d_reqid := 0; d_schema := true; d_ready := rdy; d_raises := rs; d_result_ok := false; d_answer := ans;
                          d_log_local := true; d_repr_raises := true; d_render_raises := true; d_unsafe := true; d_exc := x |} in
  let s0 := {| active := [4]; sent := [MAnswer 3]; cup := true; swallowed := 0 |} in
  handle_all [InRejected true (mk true false SOk); InRejected false (mk true false SOk); InDelivered (mk false false SOk);
              InDelivered (mk true true SOk); InDelivered (mk true false SCrash)] s0 = s0.
Proof. vm_compute. reflexivity. Qed.

(* ---- the case that used to break the statement (repaired in foolscap: the log entry is guarded): the local-failure log is on
   and the target (or an argument) cannot be formatted -- the error is sent all the same *)
Theorem unrenderable_delivery_answered e s : cup s = true -> d_reqid e <> 0 -> nameable (d_exc e) = true ->
  d_log_local e = true -> d_repr_raises e = true -> d_raises e = true ->
  let s' := handle (InDelivered e) s in
  sent s' = sent s ++ [MError (d_reqid e) (the_state e)] /\ active s' = active s /\ swallowed s' = swallowed s /\ cup s' = true.
Proof.
  intros U R A L RR RS. apply Z.eqb_neq in R. destruct s as [a sn u sw]. cbn in U. subst u.
  destruct e as [r sch rdy rs rok ans ll rr rn us ex]. cbn [d_reqid d_answer d_log_local d_repr_raises d_raises d_exc] in *. subst.
  open_progs.
  destruct rdy; crunch R; (split; [reflexivity|auto]).
Qed.

Example ex_unrenderable :
  let e := {| d_reqid := 7; d_schema := false; d_ready := true; d_raises := true; d_result_ok := true; d_answer := SOk;
              d_log_local := true; d_repr_raises := true; d_render_raises := false; d_unsafe := false;
              d_exc := {| e_type := Ok [86]; e_str := Ok [109]; e_fallback := []; e_stack := []; e_parents := Ok [] |} |} in
  List.length (sent (handle (InDelivered e) cinit0)) = 1%nat /\ active (handle (InDelivered e) cinit0) = [] /\
  swallowed (handle (InDelivered e) cinit0) = 0%nat.
Proof. vm_compute. auto. Qed.

(* (b) a non-Violation exception while the answer is serialized drops the connection *)
Theorem answer_crash_drops_connection e s : cup s = true -> d_ready e = true -> d_raises e = false ->
  (d_schema e = false \/ d_result_ok e = true) -> d_reqid e <> 0 -> d_answer e = SCrash ->
  cup (handle (InDelivered e) s) = false.
Proof.
  intros U RD RS SC R A. apply Z.eqb_neq in R. destruct s as [a sn u sw]. cbn in U. subst u.
  destruct e as [r sch rdy rs rok ans ll rr rn us ex]. cbn [d_reqid d_answer d_ready d_raises d_schema d_result_ok] in *. subst.
  unfold handle, register, registers_reqid, delivery_chain, call_finished, callfinished_prog.
  destruct SC as [-> | ->]; [|destruct sch]; crunch R; reflexivity.
Qed.

(* ---- a whole history of inbound calls *)
Definition reqid_of (i : inbound) : Z := d_reqid (in_env i).

Definition inbound_ok (i : inbound) : Prop :=
  reqid_of i <> 0 /\
  match i with
  | InRejected abort e => rejected_ok abort e
  | InDelivered e => delivery_ok e
  end.

Lemma replies_app r a b : replies r (a ++ b) = (replies r a + replies r b)%nat.
Proof. unfold replies. rewrite filter_app, app_length. reflexivity. Qed.

Lemma handle_one i s : cup s = true -> inbound_ok i ->
  let s' := handle i s in
  cup s' = true /\ swallowed s' = swallowed s /\
  (forall x, In x (active s') -> x = reqid_of i \/ In x (active s)) /\
  replies (reqid_of i) (sent s') = (replies (reqid_of i) (sent s) + expected_replies i)%nat /\
  (forall r, r <> reqid_of i -> replies r (sent s') = replies r (sent s)).
Proof.
  intros U [R K]. cbn zeta.
  assert (O : exists a, outcome_ok (reqid_of i) (expected_replies i) a s (handle i s) /\
                        (forall x, In x a -> x = reqid_of i \/ In x (active s))).
  { destruct i as [abort e|e]; unfold reqid_of in *; cbn [in_env] in *.
    - eexists. split; [apply (rejected_answered_once abort e s U R K)|]. destruct abort; cbn; intuition.
    - exists (active s). split; [|auto].
      assert (E : expected_replies (InDelivered e) = 1%nat).
      { unfold expected_replies. apply Z.eqb_neq in R. rewrite R. reflexivity. }
      rewrite E. apply (delivery_answered_once e s U R K). }
  destruct O as (a & (C & W & A & M) & Sub). split; [exact C|]. split; [exact W|]. split; [rewrite A; exact Sub|].
  destruct M as [[M E]|(m & M & Q & E)]; rewrite M, E.
  - split; [lia|auto].
  - split.
    + rewrite replies_app. unfold replies at 2. cbn [filter]. rewrite Q, Z.eqb_refl. reflexivity.
    + intros r N. rewrite replies_app. unfold replies at 2. cbn [filter]. rewrite Q.
      destruct (Z.eqb_spec (reqid_of i) r) as [X|X]; [congruence|]. cbn. lia.
Qed.

(* C10_every_call_answered_once: for EVERY history of inbound calls with distinct request ids -- rejected by the CallUnslicer or
   delivered; arguments ready or not; method returning or raising anything; result accepted or not; answer serializable or
   not; any logging setting -- every call gets exactly the replies the property promises (one `answer` or `error`; none for a
   call the caller itself aborted), nothing is swallowed and the connection stays up *)
Theorem every_call_answered_once ins : forall s, cup s = true -> Forall inbound_ok ins -> NoDup (map reqid_of ins) ->
  let s' := handle_all ins s in
  cup s' = true /\ swallowed s' = swallowed s /\
  (forall i, In i ins -> replies (reqid_of i) (sent s') = (replies (reqid_of i) (sent s) + expected_replies i)%nat) /\
  (forall r, ~ In r (map reqid_of ins) -> replies r (sent s') = replies r (sent s)).
Proof.
  induction ins as [|i ins IH]; intros s U F N; cbn zeta.
  - cbn. repeat split; auto. intros i [].
  - inversion F as [|? ? Fi Fr]; subst. inversion N as [|? ? Ni Nr]; subst.
    destruct (handle_one i s U Fi) as (U1 & W1 & _ & R1 & O1).
    cbn [handle_all fold_left]. fold (handle_all ins (handle i s)).
    destruct (IH (handle i s) U1 Fr Nr) as (U2 & W2 & R2 & O2).
    split; [exact U2|]. split; [congruence|]. split.
    + intros j [<-|J].
      * rewrite (O2 _ Ni). exact R1.
      * rewrite (R2 j J). rewrite O1; [reflexivity|]. intros E. apply Ni. rewrite <- E. apply in_map. exact J.
    + intros r NI. cbn [map In] in NI. rewrite O2 by tauto. apply O1. intros E. apply NI. left. congruence.
Qed.

(* non-vacuity: four calls of four kinds *)
Example ex_history :
  let x := {| e_type := Ok [86]; e_str := Ok [109]; e_fallback := []; e_stack := []; e_parents := Ok [] |} in
  let mk r rdy rs sch rok ans := {| d_reqid := r; d_schema := sch; d_ready := rdy; d_raises := rs; d_result_ok := rok; d_answer := ans;
                                    d_log_local := true; d_repr_raises := false; d_render_raises := true; d_unsafe := true; d_exc := x |} in
  let ins := [InDelivered (mk 1 true false false true SOk); InRejected false (mk 2 true false false true SOk);
              InDelivered (mk 3 false false false true SOk); InDelivered (mk 4 true false true false SOk);
              InRejected true (mk 5 true false false true SOk); InDelivered (mk 6 true false false true SViolation)] in
  Forall inbound_ok ins /\ NoDup (map reqid_of ins) /\
  map (fun m => match m with MAnswer r => (0, r) | MAnswerAborted r => (1, r) | MError r _ => (2, r) end) (sent (handle_all ins cinit0))
  = [(0, 1); (2, 2); (2, 3); (2, 4); (1, 6)] /\ active (handle_all ins cinit0) = [5].
Proof.
  cbn zeta. split.
  { repeat (apply Forall_cons || apply Forall_nil);
      (split; [cbn; discriminate|cbn; first [reflexivity | discriminate | intros _; reflexivity | intros X; discriminate X]]). }
  split; [repeat constructor; cbn; intuition discriminate|]. split; vm_compute; reflexivity.
Qed.

(* ---- histories in which one-way calls (request id 0, any number of them) are mixed with ordinary calls *)
Definition inbound_ok1 (i : inbound) : Prop := reqid_of i = 0 \/ inbound_ok i.

Definition nonzero_ids (ins : list inbound) : list Z := filter (fun r => negb (r =? 0)) (map reqid_of ins).

Lemma handle_one1 i s : cup s = true -> inbound_ok1 i ->
  let s' := handle i s in
  cup s' = true /\ swallowed s' = swallowed s /\
  replies (reqid_of i) (sent s') = (replies (reqid_of i) (sent s) + expected_replies i)%nat /\
  (forall r, r <> reqid_of i \/ reqid_of i = 0 -> replies r (sent s') = replies r (sent s)).
Proof.
  intros U [Z|K]; cbn zeta.
  - destruct (one_way_contained i s U Z) as (C & M & _ & W). split; [exact C|]. split; [exact W|]. rewrite M. split.
    + assert (E : expected_replies i = 0%nat).
      { unfold reqid_of in Z. destruct i as [ab e|e]; cbn [in_env] in Z; unfold expected_replies; rewrite Z; cbn;
          [rewrite orb_true_r|]; reflexivity. }
      rewrite E. lia.
    + reflexivity.
  - destruct (handle_one i s U K) as (C & W & _ & R1 & O1). split; [exact C|]. split; [exact W|]. split; [exact R1|].
    intros r [N|Z]; [apply O1; exact N|]. destruct K as [K _]. contradiction.
Qed.

Lemma nonzero_ids_cons i ins :
  nonzero_ids (i :: ins) = if reqid_of i =? 0 then nonzero_ids ins else reqid_of i :: nonzero_ids ins.
Proof. unfold nonzero_ids. cbn [map filter]. destruct (reqid_of i =? 0); reflexivity. Qed.

Lemma in_nonzero_ids j ins : In j ins -> reqid_of j <> 0 -> In (reqid_of j) (nonzero_ids ins).
Proof.
  intros J N. unfold nonzero_ids. apply filter_In. split; [apply in_map; exact J|]. apply Z.eqb_neq in N. rewrite N. reflexivity.
Qed.

(* C10_every_call_answered_once_with_one_way: the statement of every_call_answered_once for histories in which any number of
   one-way calls (all with request id 0) occur anywhere among the ordinary ones (distinct non-zero ids): every ordinary call gets
   exactly its replies, every one-way call none, no message is ever addressed to request 0, nothing is swallowed, the connection
   stays up *)
Theorem every_call_answered_once_with_one_way ins : forall s, cup s = true -> Forall inbound_ok1 ins -> NoDup (nonzero_ids ins) ->
  let s' := handle_all ins s in
  cup s' = true /\ swallowed s' = swallowed s /\
  (forall i, In i ins -> replies (reqid_of i) (sent s') = (replies (reqid_of i) (sent s) + expected_replies i)%nat) /\
  (forall r, ~ In r (nonzero_ids ins) -> replies r (sent s') = replies r (sent s)).
Proof.
  induction ins as [|i ins IH]; intros s U F N; cbn zeta.
  - cbn. repeat split; auto. intros i [].
  - inversion F as [|? ? Fi Fr]; subst.
    destruct (handle_one1 i s U Fi) as (U1 & W1 & R1 & O1).
    assert (Nr : NoDup (nonzero_ids ins)).
    { rewrite nonzero_ids_cons in N. destruct (reqid_of i =? 0); [exact N|]. inversion N; assumption. }
    assert (Ni : reqid_of i <> 0 -> ~ In (reqid_of i) (nonzero_ids ins)).
    { intros NZ. rewrite nonzero_ids_cons in N. apply Z.eqb_neq in NZ. rewrite NZ in N. inversion N; assumption. }
    cbn [handle_all fold_left]. fold (handle_all ins (handle i s)).
    destruct (IH (handle i s) U1 Fr Nr) as (U2 & W2 & R2 & O2).
    split; [exact U2|]. split; [congruence|]. split.
    + intros j [<-|J].
      * rewrite O2; [exact R1|]. destruct (Z.eq_dec (reqid_of i) 0) as [Z|NZ]; [|exact (Ni NZ)].
        rewrite Z. unfold nonzero_ids. intros X. apply filter_In in X. destruct X as [_ X]. discriminate X.
      * rewrite (R2 j J). rewrite O1; [reflexivity|].
        destruct (Z.eq_dec (reqid_of i) 0) as [Z|NZ]; [right; exact Z|left].
        intros E. destruct (Z.eq_dec (reqid_of j) 0) as [Zj|NZj]; [congruence|].
        apply (Ni NZ). rewrite <- E. apply in_nonzero_ids; assumption.
    + intros r NI. rewrite nonzero_ids_cons in NI. rewrite O2.
      * apply O1. destruct (Z.eqb_spec (reqid_of i) 0) as [Z|NZ]; [right; exact Z|left]. intros E. apply NI. left. congruence.
      * destruct (reqid_of i =? 0); [exact NI|]. intros X. apply NI. right. exact X.
Qed.

(* non-vacuity: one-way calls of every kind (aborted by the caller, rejected by the callee, not ready, raising, fine) between
   ordinary calls *)
Example ex_history_one_way :
  let x := {| e_type := Ok [86]; e_str := Ok [109]; e_fallback := []; e_stack := []; e_parents := Ok [] |} in
  let mk r rdy rs sch rok ans := {| d_reqid := r; d_schema := sch; d_ready := rdy; d_raises := rs; d_result_ok := rok; d_answer := ans;
                                    d_log_local := true; d_repr_raises := false; d_render_raises := true; d_unsafe := true; d_exc := x |} in
  let ins := [InDelivered (mk 1 true false false true SOk); InRejected true (mk 0 true false false true SOk);
              InRejected false (mk 2 true false false true SOk); InRejected false (mk 0 true false false true SOk);
              InDelivered (mk 0 false false false true SOk); InDelivered (mk 3 true true true false SOk);
              InDelivered (mk 0 true true false true SCrash); InRejected true (mk 5 true false false true SOk);
              InDelivered (mk 0 true false false true SOk)] in
  Forall inbound_ok1 ins /\ NoDup (nonzero_ids ins) /\
  map (fun m => match m with MAnswer r => (0, r) | MAnswerAborted r => (1, r) | MError r _ => (2, r) end) (sent (handle_all ins cinit0))
  = [(0, 1); (2, 2); (2, 3)] /\ active (handle_all ins cinit0) = [5].
Proof.
  cbn zeta. split.
  { repeat (apply Forall_cons || apply Forall_nil);
      first [left; reflexivity
            | right; split; [cbn; discriminate|cbn; first [reflexivity | discriminate | intros _; reflexivity | intros X; discriminate X]]]. }
  split; [vm_compute; repeat constructor; cbn; intuition discriminate|]. split; vm_compute; reflexivity.
Qed.

(* ---- WHICH replies, for whole histories: the exact sequence of messages handed to Broker.send (no NoDup needed: nothing here
   depends on the ids being distinct) -- for every call its `error` (with FailureSlicer's state of its exception) or its `answer` as
   reply_of says, in the order of the history (the order in which the callee concludes the calls: Callee.handle_all), nothing else;
   the connection stays up.  Every hypothesis is exact (delivery_guard_exact, rejected_guard_exact). *)
Lemma handle_reply i s : cup s = true -> inbound_ok1 i ->
  sent (handle i s) = sent s ++ reply_of i /\ cup (handle i s) = true.
Proof.
  intros U [Z|[R K]].
  - destruct (one_way_contained i s U Z) as (C & M & _). split; [|exact C]. rewrite M.
    unfold reply_of, reqid_of in *. destruct i as [ab e|e]; cbn [in_env] in Z; rewrite Z; cbn; rewrite ?orb_true_r, app_nil_r; reflexivity.
  - destruct i as [abort e|e]; unfold reqid_of in R; cbn [in_env] in R.
    + split; [exact (rejected_reply abort e s U R K)|]. apply (rejected_guard_exact abort e s U R). exact K.
    + split; [|apply (delivery_guard_exact e s U R); exact K].
      rewrite (reply_kind e s U R K). unfold reply_of. apply Z.eqb_neq in R. rewrite R. reflexivity.
Qed.

Theorem history_replies ins : forall s, cup s = true -> Forall inbound_ok1 ins ->
  sent (handle_all ins s) = sent s ++ flat_map reply_of ins /\ cup (handle_all ins s) = true.
Proof.
  induction ins as [|i ins IH]; intros s U F.
  - cbn. rewrite app_nil_r. auto.
  - inversion F as [|? ? Fi Fr]; subst. destruct (handle_reply i s U Fi) as (M & C).
    cbn [handle_all fold_left flat_map]. fold (handle_all ins (handle i s)).
    destruct (IH (handle i s) C Fr) as (M2 & C2). split; [|exact C2]. rewrite M2, M, app_assoc. reflexivity.
Qed.

(* non-vacuity of history_guard_exact, and of the guard itself: a fault-free call, then a method raising an exception whose class
   cannot be named, then another fault-free call -- the first is answered, the connection is down, the third gets nothing *)
Example ex_history_outside_guard :
  let ok := {| e_type := Ok [86]; e_str := Ok [109]; e_fallback := []; e_stack := []; e_parents := Ok [] |} in
  let bad := {| e_type := Exc "TypeError"%string; e_str := Ok [109]; e_fallback := []; e_stack := []; e_parents := Exc "TypeError"%string |} in
  let mk r rs x := {| d_reqid := r; d_schema := false; d_ready := true; d_raises := rs; d_result_ok := true; d_answer := SOk;
                      d_log_local := false; d_repr_raises := false; d_render_raises := false; d_unsafe := false; d_exc := x |} in
  Forall inbound_ok1 [InDelivered (mk 1 false ok)] /\ ~ delivery_ok (mk 2 true bad) /\ delivery_ok (mk 2 true ok) /\
  handle_all [InDelivered (mk 1 false ok); InDelivered (mk 2 true bad); InDelivered (mk 3 false ok)] cinit0
    = {| active := []; sent := [MAnswer 1]; cup := false; swallowed := 0 |}.
Proof.
  cbn zeta. split; [apply Forall_cons; [right; split; [cbn; discriminate|cbn; discriminate]|apply Forall_nil]|].
  split; [cbn; discriminate|]. split; [reflexivity|vm_compute; reflexivity].
Qed.

(* the first call outside the guard ends the history: the connection is down and stays down, whatever follows *)
Lemma handle_all_down ins : forall s, cup s = false -> handle_all ins s = s.
Proof.
  induction ins as [|i ins IH]; intros s D; [reflexivity|]. cbn [handle_all fold_left]. fold (handle_all ins (handle i s)).
  assert (E : handle i s = s) by (unfold handle; rewrite D; reflexivity). rewrite E. exact (IH s D).
Qed.

Theorem history_guard_exact pre e post s : cup s = true -> Forall inbound_ok1 pre -> d_reqid e <> 0 -> ~ delivery_ok e ->
  let s' := handle_all (pre ++ InDelivered e :: post) s in
  cup s' = false /\ sent s' = sent s ++ flat_map reply_of pre.
Proof.
  intros U F R K. cbn zeta. unfold handle_all. rewrite fold_left_app. cbn [fold_left].
  fold (handle_all pre s). destruct (history_replies pre s U F) as (M & C).
  fold (handle_all post (handle (InDelivered e) (handle_all pre s))).
  assert (D : cup (handle (InDelivered e) (handle_all pre s)) = false).
  { destruct (cup (handle (InDelivered e) (handle_all pre s))) eqn:X; [|reflexivity].
    exfalso. apply K. apply (delivery_guard_exact e _ C R). exact X. }
  rewrite (handle_all_down post _ D). split; [exact D|].
  (* nothing is written by the crashing call *)
  rewrite <- M. revert D. generalize (handle_all pre s) as s1. intros s1. revert K R. clear.
  intros K R D. destruct s1 as [a sn u sw]. destruct u; [|reflexivity]. apply Z.eqb_neq in R.
  destruct e as [r sch rdy rs rok ans ll rr rn us ex]. unfold delivery_ok, must_fail in K.
  cbn [d_reqid d_answer d_ready d_raises d_schema d_result_ok d_exc] in *. revert D. open_progs.
  destruct (nameable ex) eqn:N; destruct ans, rdy, rs, sch, rok, ll, rr; cbn [negb orb andb] in K; crunch R;
    intros D; try reflexivity; try discriminate D; exfalso; apply K; congruence.
Qed.

