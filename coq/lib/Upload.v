(* C19 -- executable model of the write-then-rename protocols (model only, no proofs).

   File system: names -> inode numbers -> contents, one open write handle whose data becomes visible when it is
   closed (Python's buffered file object; the worst case for "appears only when complete").  An operation that
   fails (ENOENT ...) raises: the rest of the callback is skipped (`failed`).  A crash / interruption is the
   execution of a prefix of the operation list.  The operation ORDER is not written here: it is
   gen/UploadGen.v (translated from remote_putfile, save_service_data, move_into_place) interpreted by `interp`.

   Not modelled: links planted concurrently by another process, power loss (no fsync in the code),
   rename(2) atomicity is the trusted primitive. *)
From Coq Require Import NArith List Bool Arith.
Import ListNotations.
Require Import Verif.lib.UploadShape Verif.gen.UploadGen Verif.lib.Paths.

Inductive ent := F (i : nat) | L (target : str) | D.   (* regular file (inode) | symbolic link (its text) | directory *)

Record st := mkst {
  names : str -> option ent;          (* directory entries (absolute path -> entry) *)
  data : nat -> list N;               (* inode -> visible content *)
  next : nat;                         (* first unused inode number *)
  handle : option (nat * list N);     (* the open file object: inode, written but not yet flushed *)
  failed : bool;                      (* an operation raised *)
  followed : bool }.                  (* an operation went THROUGH a symbolic link (open / chmod follow links):
                                         from then on something outside the directory may have been modified *)

Inductive op :=
| Open (p : str)                      (* open(p, "wb"): create or truncate; follows a symlink *)
| Write (p : str) (d : list N)        (* f.write(d) on the handle that was opened at p *)
| Close (p : str)
| Rename (a b : str)                  (* rename(2): replaces b itself, even if b is a symlink; fails if b is a directory *)
| RenameElseUnlink (a b c : str)      (* try: rename(a, b)  except: (unlink(c), errors ignored); raise *)
| RenameRetry (a b : str)             (* try: rename(a, b)  except OSError: (remove(b), errors ignored); rename(a, b) *)
| Chmod (p : str)                     (* os.chmod follows a symlink *)
| Unlink (p : str)
| UnlinkIfLink (p : str)              (* if islink(p): remove(p)   (lstat) *)
| UnlinkIfExists (p : str).           (* if exists(p): remove(p)   (stat: follows symlinks) *)

Definition upd {A} (f : str -> A) (p : str) (v : A) : str -> A := fun q => if str_eqb q p then v else f q.
Definition updn (f : nat -> list N) (i : nat) (v : list N) : nat -> list N := fun j => if Nat.eqb j i then v else f j.
Definition fail (s : st) : st := mkst (names s) (data s) (next s) (handle s) true (followed s).
Definition follow (s : st) : st := mkst (names s) (data s) (next s) (handle s) true true.

(* where a symlink at p with text t leads (components that are themselves symlinked directories are not modelled) *)
Definition link_dest (p t : str) : str := normpath (join (dirname p) t).

(* os.path.exists(p): stat(2), i.e. symlinks are followed; a dangling link (or a loop) does not exist *)
Fixpoint exists_at (fuel : nat) (s : st) (p : str) : bool :=
  match fuel with
  | O => false
  | S f => match names s p with
           | None => false
           | Some (F _) | Some D => true
           | Some (L t) => exists_at f s (link_dest p t)
           end
  end.
Definition exists_fuel : nat := 9.

(* rename(2) of a non-directory: ENOENT without source, EISDIR onto a directory *)
Definition step_rename (s : st) (a b : str) : st :=
  match names s a with
  | Some e => match names s b with
              | Some D => fail s
              | _ => if str_eqb a b then s
                     else mkst (upd (upd (names s) b (Some e)) a None) (data s) (next s) (handle s) false (followed s)
              end
  | None => fail s
  end.

(* os.remove(p) with every error ignored *)
Definition unlink_quiet (s : st) (p : str) : st :=
  match names s p with
  | Some (F _) | Some (L _) => mkst (upd (names s) p None) (data s) (next s) (handle s) (failed s) (followed s)
  | _ => s
  end.

Definition step (s : st) (o : op) : st :=
  if failed s then s else
  match o with
  | Open p =>
    match names s p with
    | Some (F i) => mkst (names s) (updn (data s) i []) (next s) (Some (i, [])) false (followed s)
    | Some (L _) => follow s
    | Some D => fail s
    | None => mkst (upd (names s) p (Some (F (next s)))) (updn (data s) (next s) []) (S (next s))
                   (Some (next s, [])) false (followed s)
    end
  | Write _ d =>
    match handle s with
    | Some (i, pend) => mkst (names s) (data s) (next s) (Some (i, pend ++ d)) false (followed s)
    | None => fail s
    end
  | Close _ =>
    match handle s with
    | Some (i, pend) => mkst (names s) (updn (data s) i (data s i ++ pend)) (next s) None false (followed s)
    | None => fail s
    end
  | Rename a b => step_rename s a b
  | RenameElseUnlink a b c =>
    let s' := step_rename s a b in
    if failed s' then
      mkst (match names s c with Some (F _) | Some (L _) => upd (names s) c None | _ => names s end)
           (data s) (next s) (handle s) true (followed s)
    else s'
  | RenameRetry a b =>
    let s' := step_rename s a b in
    if failed s' then step_rename (unlink_quiet s b) a b else s'
  | Chmod p => match names s p with Some (F _) | Some D => s | Some (L _) => follow s | None => fail s end
  | Unlink p =>
    match names s p with
    | Some _ => mkst (upd (names s) p None) (data s) (next s) (handle s) false (followed s)
    | None => fail s
    end
  | UnlinkIfLink p =>
    match names s p with
    | Some (L _) => mkst (upd (names s) p None) (data s) (next s) (handle s) false (followed s)
    | _ => s
    end
  | UnlinkIfExists p =>
    if exists_at exists_fuel s p
    then mkst (upd (names s) p None) (data s) (next s) (handle s) false (followed s)
    else s
  end.

Definition run (s : st) (ops : list op) : st := fold_left step ops s.

(* ---- an operating-system operation FAILS (EACCES, EROFS, ENOSPC, EIO, ENOENT ...) instead of being performed ----
   the fault is persistent: every system call of the failing kind made by the same statement fails too (the directory
   stays unwritable, the temporary stays gone).  The exception handling that the statement carries still runs. *)
Definition step_fault (s : st) (o : op) : st :=
  if failed s then s else
  match o with
  | RenameElseUnlink a b c => fail (unlink_quiet s c)     (* the rename fails; the handler removes c and re-raises *)
  | RenameRetry a b => fail (unlink_quiet s b)            (* both renames fail; the remove(b) in between succeeded *)
  | _ => fail s
  end.

(* the k-th operation fails (k beyond the end: no fault) *)
Definition run_fault (k : nat) (s : st) (ops : list op) : st :=
  match nth_error ops k with
  | Some o => step_fault (run s (firstn k ops)) o
  | None => run s ops
  end.

(* what lstat + read of path p shows *)
Inductive view := VNone | VLink (t : str) | VFile (content : list N) | VDir.
Definition look (s : st) (p : str) : view :=
  match names s p with None => VNone | Some (L t) => VLink t | Some (F i) => VFile (data s i) | Some D => VDir end.

(* paths named by an operation *)
Definition touched (o : op) : list str :=
  match o with
  | Open p | Write p _ | Close p | Chmod p | Unlink p | UnlinkIfLink p | UnlinkIfExists p => [p]
  | Rename a b => [a; b]
  | RenameElseUnlink a b c => [a; b; c]
  | RenameRetry a b => [a; b]
  end.

(* the operations that actually reach the operating system, in order (what an strace of the call shows):
   a skipped conditional unlink is invisible, nothing happens after an exception *)
Fixpoint effective (s : st) (ops : list op) : list op :=
  match ops with
  | [] => []
  | o :: r =>
    if failed s then [] else
    match o with
    | UnlinkIfLink p => match names s p with
                        | Some (L _) => Unlink p :: effective (step s o) r
                        | _ => effective (step s o) r
                        end
    | UnlinkIfExists p => if exists_at exists_fuel s p then Unlink p :: effective (step s o) r
                          else effective (step s o) r
    | RenameElseUnlink a b c =>
      if failed (step_rename s a b)
      then Rename a b :: match names s c with Some (F _) | Some (L _) => [Unlink c] | _ => [] end
      else Rename a b :: effective (step s o) r
    | RenameRetry a b =>
      if failed (step_rename s a b)
      then Rename a b :: match names s b with Some (F _) | Some (L _) => [Unlink b] | _ => [] end ++ Rename a b :: effective (step s o) r
      else Rename a b :: effective (step s o) r
    | _ => o :: effective (step s o) r
    end
  end.

(* ---- interpretation of the translated step lists ---- *)
Definition pth (tmp final : str) (t : tgt) : str := match t with Tmp => tmp | Final => final end.

Definition interp (tmp final : str) (chunks : list (list N)) (k : stepk) : list op :=
  match k with
  | SOpen t => [Open (pth tmp final t)]
  | SBlocks t | SDump t => map (Write (pth tmp final t)) chunks
  | SClose t => [Close (pth tmp final t)]
  | SMove a b => [Rename (pth tmp final a) (pth tmp final b)]
  | SMoveRetryAfterUnlink a b => [RenameRetry (pth tmp final a) (pth tmp final b)]
  | SMoveElseUnlink a b c => [RenameElseUnlink (pth tmp final a) (pth tmp final b) (pth tmp final c)]
  | SChmod t => [Chmod (pth tmp final t)]
  | SUnlink t => [Unlink (pth tmp final t)]
  | SUnlinkIfLink t => [UnlinkIfLink (pth tmp final t)]
  | SUnlinkIfExists t => [UnlinkIfExists (pth tmp final t)]
  end.

Definition interps (tmp final : str) (chunks : list (list N)) (ks : list stepk) : list op :=
  flat_map (interp tmp final chunks) ks.

(* how the block stream ended after `blocks`: EOF | the source's read() failed (remote exception, disconnect) |
   the source answered with something f.write() rejects (str, int, object ...: the write raises, nothing is written) *)
Inductive outcome := Done | SrcError | BadBlock.

(* FileUploader.remote_putfile once the name is accepted: final = targetdir/child, tmp = final + ".partial" *)
Definition upload_ops (final : str) (blocks : list (list N)) (oc : outcome) : list op :=
  let tmp := final ++ putfile_tmp_ext in
  interps tmp final blocks putfile_main ++
  interps tmp final blocks (match oc with
                            | Done => putfile_done
                            | SrcError => putfile_err
                            | BadBlock => if reader_write_error_handled then putfile_err else []   (* else: stuck for ever *)
                            end).

(* the whole service call: None = the name is refused before any file operation *)
(* the final name a client-supplied name resolves to: refused literally (`if name in (...): raise`), by FilePath.child, or by
   the parent() test *)
Definition putfile_final (cwd base name : str) : option str :=
  if existsb (str_eqb name) putfile_refused then None else guarded putfile_guard cwd base name.

Definition putfile (cwd base name : str) (blocks : list (list N)) (oc : outcome) : option (list op) :=
  match putfile_final cwd base name with
  | None => None
  | Some final => Some (upload_ops final blocks oc)
  end.

(* save_service_data(basedir, data): chunks = what json.dump writes *)
Definition registry_final (basedir : str) : str := join basedir registry_basename.
Definition registry_ops (basedir : str) (chunks : list (list N)) : list op :=
  let final := registry_final basedir in
  interps (final ++ registry_tmp_ext) final chunks registry_steps.

(* IncidentObserver._got_incident: the file that is written for a remote-supplied incident name *)
Definition gatherer_path (cwd base name : str) : option str :=
  option_map (fun p => match gatherer_path_source with
                       | FromValidated => p ++ gatherer_ext
                       | FromRawName => join base (name ++ gatherer_ext)     (* what the kernel is handed *)
                       end) (guarded gatherer_guard cwd base name).

(* LogPublisher.remote_get_incident: the files that may be read (first the .bz2 one); None = KeyError/InsecurePath *)
Definition publisher_paths (cwd base name : str) : option (list str) :=
  if prefixb publisher_prefix name then
    option_map (fun p => [p ++ publisher_ext ++ publisher_ext2; p ++ publisher_ext])
               (guarded publisher_guard cwd base name)
  else None.

(* directly inside base: base + "/" + one good component *)
Definition insideb (base q : str) : bool :=
  prefixb (base ++ [sep]) q && goodb (skipn (List.length base + 1) q).

(* ---- helpers for the correspondence (concrete initial states, compact observations) ---- *)
Definition mk_st (ents : list (str * ent)) (contents : list (list N)) : st :=
  mkst (fun p => match find (fun e => str_eqb (fst e) p) ents with Some e => Some (snd e) | None => None end)
       (fun i => nth i contents []) (List.length contents) None false false.

Definition code_view (v : view) : list N :=
  match v with VNone => [0%N] | VLink t => 1%N :: t | VFile c => 2%N :: c | VDir => [9%N] end.

Definition code_op (o : op) : N * str * str * N :=
  match o with
  | Open p => (1%N, p, [], 0%N)
  | Write p d => (2%N, p, [], N.of_nat (List.length d))
  | Close p => (3%N, p, [], 0%N)
  | Rename a b => (4%N, a, b, 0%N)
  | Chmod p => (5%N, p, [], 0%N)
  | Unlink p => (6%N, p, [], 0%N)
  | UnlinkIfLink p => (7%N, p, [], 0%N)
  | UnlinkIfExists p => (8%N, p, [], 0%N)
  | RenameElseUnlink a b c => (10%N, a, b, 0%N)
  | RenameRetry a b => (11%N, a, b, 0%N)
  end.

Definition code_opt (o : option str) : list N := match o with None => [0%N] | Some p => 1%N :: p end.

(* the view of `p` after a crash before the k-th operating-system operation, for every k *)
Definition crash_views (s : st) (ops : list op) (p : str) : list (list N) :=
  let eff := effective s ops in
  map (fun k => code_view (look (run s (firstn k eff)) p)) (seq 0 (S (List.length eff))).

(* observations are flattened to `list (list N)` and compared INSIDE Coq with what the implementation did, so that
   only the indices of disagreeing cases have to be printed *)
Definition enc_op (o : op) : list (list N) := let '(k, p1, p2, n) := code_op o in [[k; n]; p1; p2].
Definition b2n (b : bool) : N := if b then 1%N else 0%N.

Fixpoint lstr_eqb (a b : list (list N)) : bool :=
  match a, b with
  | [], [] => true
  | x :: a', y :: b' => str_eqb x y && lstr_eqb a' b'
  | _, _ => false
  end.

Fixpoint mismatches_from (i : nat) (got expected : list (list (list N))) : list nat :=
  match got, expected with
  | [], [] => []
  | g :: gr, e :: er => if lstr_eqb g e then mismatches_from (S i) gr er else i :: mismatches_from (S i) gr er
  | _, _ => [i]
  end.
Definition mismatches := mismatches_from 0.

(* the view of `p` after the k-th operation failed, for every k *)
Definition fault_views (s : st) (ops : list op) (p : str) : list (list N) :=
  map (fun k => code_view (look (run_fault k s ops) p)) (seq 0 (List.length ops)).
