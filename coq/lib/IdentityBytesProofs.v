(* C05: proofs about lib/IdentityBytes.v -- the receive loop of Negotiation over raw bytes. *)
From Coq Require Import ZArith List String Bool Lia.
Import ListNotations.
Require Import Verif.lib.PyLite Verif.gen.NegotiateGen Verif.lib.Negotiate Verif.lib.NegotiateProofs Verif.lib.NegBytes
               Verif.gen.IdentityGen Verif.lib.NegSplit Verif.lib.Identity Verif.lib.IdentityProofs Verif.lib.IdentityBytes.
Local Open Scope Z_scope.

(* facts about the TRANSLATED dispatch, proved by evaluation on the finite phase x role space (independent of how the
   source spells the chain of tests) *)
Lemma dispatch_deciding ph ic : dispatch ph ic = HDeciding -> ph = RP PhDeciding.
Proof. destruct ph as [|[]], ic; cbv; intros H; first [reflexivity | discriminate H]. Qed.

Lemma dispatch_plaintext_client ph ic : dispatch ph ic = HPlaintextClient -> ph = RPlaintext /\ ic = true.
Proof. destruct ph as [|[]], ic; cbv; intros H; first [split; reflexivity | discriminate H]. Qed.

Lemma dispatch_plaintext_server ph ic : dispatch ph ic = HPlaintextServer -> ph = RPlaintext /\ ic = false.
Proof. destruct ph as [|[]], ic; cbv; intros H; first [split; reflexivity | discriminate H]. Qed.

Lemma dispatch_encrypted ph ic : dispatch ph ic = HEncrypted -> ph = RP PhEncrypted.
Proof. destruct ph as [|[]], ic; cbv; intros H; first [reflexivity | discriminate H]. Qed.

Lemma rphase_eqb_eq a b : rphase_eqb a b = true <-> a = b.
Proof. destruct a as [|[]], b as [|[]]; cbv; split; intros H; first [reflexivity | discriminate H]. Qed.

Section BytesProofs.
Variable cert : Type.
Variable tubid_of : cert -> list Z.
Variable decode : list Z -> option (list Z).
Variable D : Type.
Variable parse : list Z -> res D.
Variable has_error : D -> bool.
Variable claimed_of : D -> option (list Z).
Variable pre_chk post_chk decision_chk : D -> res unit.
Variable redirect : list Z -> bool.

Notation handle_hello := (handle_hello cert tubid_of).
Notation handle_encrypted := (handle_encrypted cert tubid_of D parse has_error claimed_of pre_chk post_chk).
Notation handle_deciding := (handle_deciding D parse decision_chk).
Notation bhandle := (bhandle cert tubid_of decode D parse has_error claimed_of pre_chk post_chk decision_chk redirect).
Notation bdrain := (bdrain cert tubid_of decode D parse has_error claimed_of pre_chk post_chk decision_chk redirect).
Notation brecv_chunk := (brecv_chunk cert tubid_of decode D parse has_error claimed_of pre_chk post_chk decision_chk redirect).
Notation brecv_all := (brecv_all cert tubid_of decode D parse has_error claimed_of pre_chk post_chk decision_chk redirect).

Lemma rexc_deciding x : rexc x = RP PhDeciding -> x = RP PhDeciding.
Proof. unfold rexc, phase_set_by_error_handler. first [intros H; exact H | intros H; discriminate H]. Qed.

Lemma rexc_banana x : rexc x = RP PhBanana -> x = RP PhBanana.
Proof. unfold rexc, phase_set_by_error_handler. first [intros H; exact H | intros H; discriminate H]. Qed.

Lemma rexc_eval_not_deciding : rexc (RP phase_during_evaluate_hello) <> RP PhDeciding.
Proof. intros H. apply rexc_deciding in H. unfold phase_during_evaluate_hello in H. discriminate H. Qed.

Lemma rexc_eval_not_banana : rexc (RP phase_during_evaluate_hello) <> RP PhBanana.
Proof. intros H. apply rexc_banana in H. unfold phase_during_evaluate_hello in H. discriminate H. Qed.

(* a header block whose hello passed every check up to and including the identity checks of evaluateNegotiationVersion1 *)
Definition passed_identity (r : role) (my tgt : list Z) (p : presented cert) (hdr : list Z) : Prop :=
  exists d t m, parse hdr = Ok d /\ has_error d = false /\ pre_chk d = Ok tt /\
                handle_hello r my tgt p (claimed_of d) = Accept t m.

Record binv (r : role) (my tgt : list Z) (p : presented cert) (st : bstate) : Prop := {
  I_keys : forall k, In k (b_attached st) -> key_ok cert tubid_of r tgt p k;
  I_their : their_ok cert tubid_of p (b_their st);
  I_dec : b_phase st = RP PhDeciding -> (exists t, b_their st = Some t /\ (r = Client -> t = tgt)) /\ b_passed st <> [];
  I_nb : b_phase st <> RP PhBanana -> b_attached st = [];
  I_len : (List.length (b_attached st) <= 1)%nat;
  I_passed : forall hdr, In hdr (b_passed st) -> passed_identity r my tgt p hdr;
  I_att : b_attached st <> [] -> b_passed st <> [];
  I_plain : b_phase st = RPlaintext -> b_their st = None /\ b_passed st = [];
  I_live : b_phase st <> RP PhAbandoned }.

Lemma raised_inv r my tgt p st w :
  binv r my tgt p st -> b_phase st <> RP PhBanana -> binv r my tgt p (raised st (b_phase st) (b_their st) w).
Proof.
  intros [Ha Hb Hc Hd He Hf Hg Hh Hi] Hnb.
  constructor; unfold raised; cbn [b_attached b_their b_phase b_passed]; try assumption;
    try (intros _; exact (Hd Hnb));
    try (intros H; apply rexc_deciding in H; exact (Hc H));
    try (intros H; unfold rexc in H; destruct phase_set_by_error_handler; [discriminate H|]; exact (Hh H));
    try (unfold rexc, phase_set_by_error_handler; exact Hi).
Qed.

(* an exception raised while evaluateHello runs (possibly after self.theirTubRef was stored) *)
Lemma raised_eval_inv r my tgt p st their w :
  binv r my tgt p st -> b_phase st <> RP PhBanana -> their_ok cert tubid_of p their ->
  binv r my tgt p (raised st (RP phase_during_evaluate_hello) their w).
Proof.
  intros [Ha Hb Hc Hd He Hf Hg Hh Hi] Hnb Hth.
  constructor; unfold raised; cbn [b_attached b_their b_phase b_passed]; try assumption;
    try (intros _; exact (Hd Hnb));
    try (intros H; contradiction (rexc_eval_not_deciding H));
    try (intros H; unfold rexc in H; destruct phase_set_by_error_handler; discriminate H);
    try (unfold rexc, phase_set_by_error_handler, phase_during_evaluate_hello; discriminate).
Qed.

Lemma handle_encrypted_inv r my tgt p st hdr st' exc :
  binv r my tgt p st -> b_phase st <> RP PhBanana ->
  handle_encrypted r my tgt p st hdr = (st', exc) -> binv r my tgt p st'.
Proof.
  intros Hinv Hnb.
  unfold IdentityBytes.handle_encrypted.
  destruct (peer_from_transport cert p) as [c|w].
  2:{ intros H; inversion H; subst. apply raised_inv; auto. }
  destruct (parse hdr) as [d|w] eqn:EP.
  2:{ intros H; inversion H; subst. apply raised_inv; auto. }
  destruct (has_error d) eqn:EE.
  { intros H; inversion H; subst. apply raised_inv; auto. }
  destruct (pre_chk d) as [[]|w] eqn:EPre.
  2:{ intros H; inversion H; subst. apply raised_eval_inv; [exact Hinv|exact Hnb|exact (I_their _ _ _ _ _ Hinv)]. }
  destruct (handle_hello r my tgt p (claimed_of d)) as [w|t m] eqn:EH.
  { intros H; inversion H; subst.
    apply raised_eval_inv; [exact Hinv|exact Hnb|apply their_after_ok; exact (I_their _ _ _ _ _ Hinv)]. }
  assert (Hpass : passed_identity r my tgt p hdr).
  { exists d, t, m. auto. }
  pose proof (hello_key_proven _ _ _ _ _ _ _ _ _ EH) as (crt & Hl & Hk & Hkt).
  pose proof (handle_hello_bound _ _ _ _ _ _ _ _ _ EH) as (crt' & Hl' & Hh' & _ & Htgt & _ & _).
  assert (Hth : their_ok cert tubid_of p (Some t)).
  { intros t0 Ht0. inversion Ht0; subst t0. exists crt'. auto. }
  pose proof Hinv as [Ha Hb Hc Hd He Hf Hg Hh Hi].
  pose proof (Hd Hnb) as Hnil.
  destruct m.
  - destruct (post_chk d) as [u|w].
    + intros H; inversion H; subst st' exc; clear H.
      constructor; unfold switched; cbn [b_attached b_their b_phase b_passed]; rewrite ?Hnil; try assumption.
      * intros k [Hk0|[]]. subst k. exists crt. auto.
      * discriminate.
      * intros H; contradiction H; reflexivity.
      * cbn [List.length]; lia.
      * intros h [Hh0|Hh0]; [subst h; exact Hpass|apply Hf; exact Hh0].
      * intros _; discriminate.
      * discriminate.
      * discriminate.
    + intros H; inversion H; subst st' exc; clear H.
      apply raised_eval_inv; [exact Hinv|exact Hnb|exact Hth].
  - intros H; inversion H; subst st' exc; clear H.
    constructor; cbn [b_attached b_their b_phase b_passed]; try assumption.
    + intros _. split; [exists t; auto|discriminate].
    + intros _; exact Hnil.
    + intros h [Hh0|Hh0]; [subst h; exact Hpass|apply Hf; exact Hh0].
    + intros _; discriminate.
    + unfold slave_phase_after_accept. discriminate.
    + unfold slave_phase_after_accept. discriminate.
Qed.

Lemma handle_deciding_inv r my tgt p st hdr st' exc :
  binv r my tgt p st -> b_phase st = RP PhDeciding ->
  handle_deciding r tgt st hdr = (st', exc) -> binv r my tgt p st'.
Proof.
  intros Hinv Hph. assert (Hnb : b_phase st <> RP PhBanana) by (rewrite Hph; discriminate).
  unfold IdentityBytes.handle_deciding.
  destruct (parse hdr) as [d|w].
  2:{ intros H; inversion H; subst. apply raised_inv; auto. }
  destruct (decision_chk d) as [u|w].
  2:{ intros H; inversion H; subst. apply raised_inv; auto. }
  pose proof Hinv as [Ha Hb Hc Hd He Hf Hg Hh Hi].
  destruct (Hc Hph) as ((t0 & Ht0 & Htgt) & Hpne). rewrite Ht0.
  intros H; inversion H; subst st' exc; clear H.
  pose proof (Hd Hnb) as Hnil.
  constructor; unfold switched; cbn [b_attached b_their b_phase b_passed]; rewrite ?Hnil; try assumption.
  - intros k [Hk0|[]]. subst k.
    destruct (Hb _ Ht0) as (crt & Hl & Hh0). exists crt. split; [exact Hl|].
    destruct r; cbn [is_client].
    + specialize (Htgt eq_refl). subst t0. rewrite ak_client. auto.
    + rewrite ak_server. split; [exact Hh0|discriminate].
  - rewrite <- Ht0. exact Hb.
  - discriminate.
  - intros H; contradiction H; reflexivity.
  - cbn [List.length]; lia.
  - intros _; exact Hpne.
  - discriminate.
  - discriminate.
Qed.

Lemma enter_encrypted_inv r my tgt p st :
  binv r my tgt p st -> b_phase st = RPlaintext -> binv r my tgt p (enter_encrypted st).
Proof.
  intros [Ha Hb Hc Hd He Hf Hg Hh Hi] Hph.
  assert (Hnb : b_phase st <> RP PhBanana) by (rewrite Hph; discriminate).
  constructor; unfold enter_encrypted; cbn [b_attached b_their b_phase b_passed]; try assumption.
  - unfold phase_after_start_encrypted. discriminate.
  - intros _. exact (Hd Hnb).
  - unfold phase_after_start_encrypted. discriminate.
  - unfold phase_after_start_encrypted. discriminate.
Qed.

Lemma bhandle_inv r my tgt p st hdr st' exc :
  binv r my tgt p st -> b_phase st <> RP PhBanana ->
  bhandle r my tgt p st hdr = (st', exc) -> binv r my tgt p st'.
Proof.
  intros Hinv Hnb. unfold IdentityBytes.bhandle.
  destruct (dispatch (b_phase st) (is_client r)) eqn:ED.
  - apply dispatch_plaintext_client in ED. destruct ED as [Hph _].
    destruct (plaintext_client_guard decode hdr); intros H; inversion H; subst.
    + apply enter_encrypted_inv; assumption.
    + apply raised_inv; assumption.
  - apply dispatch_plaintext_server in ED. destruct ED as [Hph _].
    destruct (plaintext_server_guard decode my redirect hdr); intros H; inversion H; subst.
    + apply enter_encrypted_inv; assumption.
    + apply raised_inv; assumption.
  - apply handle_encrypted_inv; assumption.
  - apply dispatch_deciding in ED. apply handle_deciding_inv; assumption.
  - intros H; inversion H; subst. apply raised_inv; assumption.
Qed.

Lemma with_bbuf_inv r my tgt p st b : binv r my tgt p st -> binv r my tgt p (with_bbuf st b).
Proof. intros [Ha Hb Hc Hd He Hf Hg Hh Hi]. constructor; assumption. Qed.

Lemma is_banana_false ph : is_banana ph = false -> ph <> RP PhBanana.
Proof. unfold is_banana. intros H E. subst ph. cbv in H. discriminate H. Qed.

Lemma bdrain_inv r my tgt p fuel : forall st,
  binv r my tgt p st -> b_phase st <> RP PhBanana -> binv r my tgt p (bdrain fuel r my tgt p st).
Proof.
  induction fuel as [|f IH]; intros st Hinv Hnb; cbn [IdentityBytes.bdrain]; [exact Hinv|].
  cbv zeta.
  destruct (header_verdict _ _ =? 0); [apply raised_inv; assumption|].
  destruct (header_verdict _ _ =? 1); [exact Hinv|].
  destruct (find_term (b_buf st)) as [e|]; [|apply raised_inv; assumption].
  destruct (bhandle r my tgt p (with_bbuf st (skipn (e + 4) (b_buf st))) (firstn e (b_buf st))) as [st2 exc] eqn:EB.
  assert (Hinv2 : binv r my tgt p st2).
  { eapply bhandle_inv; [apply with_bbuf_inv; exact Hinv| |exact EB]. exact Hnb. }
  destruct exc; [exact Hinv2|].
  destruct (is_banana (b_phase st2)) eqn:EBan; [exact Hinv2|].
  destruct (b_buf st2); [exact Hinv2|].
  apply IH; [exact Hinv2|apply is_banana_false; exact EBan].
Qed.

Lemma brecv_chunk_inv r my tgt p st chunk : binv r my tgt p st -> binv r my tgt p (brecv_chunk r my tgt p st chunk).
Proof.
  intros Hinv. unfold IdentityBytes.brecv_chunk.
  destruct (is_banana (b_phase st)) eqn:EB; cbn [orb]; [exact Hinv|].
  destruct (is_abandoned (b_phase st)); [exact Hinv|].
  apply bdrain_inv; [apply with_bbuf_inv; exact Hinv|]. apply is_banana_false. exact EB.
Qed.

Lemma b_init_inv r my tgt p : binv r my tgt p b_init.
Proof.
  constructor; unfold b_init; cbn [b_attached b_their b_phase b_passed].
  - intros k [].
  - intros t H; discriminate H.
  - unfold initial_phase. discriminate.
  - reflexivity.
  - cbn [List.length]. lia.
  - intros h [].
  - intros H; contradiction H; reflexivity.
  - intros _. split; reflexivity.
  - unfold initial_phase. discriminate.
Qed.

(* THE CLOSED WORLD: connectionMade does not reach switchToBanana -- the model starts with nothing registered.  By computation on the
   translated do_negotiation / connection_made_switches (read from the whole package); a tree in which the non-negotiating branch is
   live makes this lemma, and with it every theorem below, fail *)
Lemma bytes_start_is_init r tgt : b_connection_made r tgt = b_init.
Proof. reflexivity. Qed.

(* WHY the closed world is needed (the region the translator excludes): were the non-negotiating branch of connectionMade live, a
   client would register the dialled id before a single byte -- let alone a certificate -- was seen *)
Theorem without_negotiation_refuted : forall tgt,
  b_attached (b_connection_made_with true Client tgt) = [tgt] /\ b_passed (b_connection_made_with true Client tgt) = [].
Proof. intros tgt. split; reflexivity. Qed.

Lemma brecv_all_inv r my tgt p chunks : binv r my tgt p (brecv_all r my tgt p chunks).
Proof.
  unfold IdentityBytes.brecv_all.
  assert (G : forall st, binv r my tgt p st -> binv r my tgt p (fold_left (brecv_chunk r my tgt p) chunks st)).
  { induction chunks as [|c cs IH]; intros st Hst; cbn [fold_left]; [exact Hst|]. apply IH. apply brecv_chunk_inv. exact Hst. }
  apply G. rewrite bytes_start_is_init. apply b_init_inv.
Qed.

(* ARBITRARY BYTES, ANY CHUNKING, from the first byte of the connection: every key ever handed to Tub.brokerAttached is the
   hash of the leaf certificate of this transport and, on a client, the dialled id *)
Theorem bytes_attach_proven r my tgt p chunks k :
  In k (b_attached (brecv_all r my tgt p chunks)) ->
  exists crt, leaf p = Some crt /\ tubid_of crt = k /\ (r = Client -> k = tgt).
Proof. intros H. exact (I_keys _ _ _ _ _ (brecv_all_inv r my tgt p chunks) _ H). Qed.

(* no brokerAttached before a hello passed evaluateNegotiationVersion1's identity checks: whenever a key was registered, one
   of the header blocks received on this connection parsed, carried no error, passed the earlier checks and its my-tub-id
   passed the identity checks against the leaf certificate *)
Theorem bytes_no_attach_before_identity r my tgt p chunks :
  b_attached (brecv_all r my tgt p chunks) <> [] ->
  exists hdr d t m, parse hdr = Ok d /\ has_error d = false /\ pre_chk d = Ok tt /\
                    handle_hello r my tgt p (claimed_of d) = Accept t m.
Proof.
  intros H. pose proof (brecv_all_inv r my tgt p chunks) as I.
  pose proof (I_att _ _ _ _ _ I H) as Hne.
  destruct (b_passed (brecv_all r my tgt p chunks)) as [|hdr rest] eqn:E; [contradiction Hne; reflexivity|].
  destruct (I_passed _ _ _ _ _ I hdr) as (d & t & m & H1); [rewrite E; left; reflexivity|].
  exists hdr, d, t, m. exact H1.
Qed.

(* one connection registers at most one key; and only after it left the negotiation phases *)
Theorem bytes_at_most_one_attach r my tgt p chunks :
  (List.length (b_attached (brecv_all r my tgt p chunks)) <= 1)%nat /\
  (b_phase (brecv_all r my tgt p chunks) <> RP PhBanana -> b_attached (brecv_all r my tgt p chunks) = []).
Proof.
  pose proof (brecv_all_inv r my tgt p chunks) as I. split; [exact (I_len _ _ _ _ _ I)|exact (I_nb _ _ _ _ _ I)].
Qed.

(* while the connection is in the PLAINTEXT phase nothing about the peer is believed *)
Theorem bytes_plaintext_knows_nothing r my tgt p chunks :
  b_phase (brecv_all r my tgt p chunks) = RPlaintext ->
  b_their (brecv_all r my tgt p chunks) = None /\ b_attached (brecv_all r my tgt p chunks) = [].
Proof.
  intros H. pose proof (brecv_all_inv r my tgt p chunks) as I.
  split; [exact (proj1 (I_plain _ _ _ _ _ I H))|]. apply (I_nb _ _ _ _ _ I). rewrite H. discriminate.
Qed.

(* ------------------------------------------------------------------ what a refusal does, and what can happen after it
   A header block that makes its handler raise (dataReceived's `except Exception`: failureReason recorded,
   loseConnection) leaves the Negotiation object ALIVE until connectionLost arrives: same receive phase, same buffer rest,
   nothing registered, nothing forgotten about passed hellos; the only thing besides the recorded failure that can change
   is self.theirTubRef, only in the ENCRYPTED phase, and only to the hash of the leaf certificate of this transport. *)
Theorem refusal_changes_nothing_but r my tgt p st hdr st' :
  bhandle r my tgt p st hdr = (st', true) ->
  b_phase st' = b_phase st /\ b_attached st' = b_attached st /\ b_passed st' = b_passed st /\ b_buf st' = b_buf st /\
  b_fail st' <> None /\
  (b_their st' = b_their st \/
   (b_phase st = RP PhEncrypted /\ exists crt, leaf p = Some crt /\ b_their st' = Some (tubid_of crt))).
Proof.
  unfold IdentityBytes.bhandle.
  assert (R : forall w, b_phase (raised st (b_phase st) (b_their st) w) = b_phase st).
  { intros w. unfold raised, rexc, phase_set_by_error_handler. reflexivity. }
  assert (Plain : forall w st0, (raised st (b_phase st) (b_their st) w, true) = (st0, true) ->
            b_phase st0 = b_phase st /\ b_attached st0 = b_attached st /\ b_passed st0 = b_passed st /\ b_buf st0 = b_buf st /\
            b_fail st0 <> None /\
            (b_their st0 = b_their st \/ (b_phase st = RP PhEncrypted /\ exists crt, leaf p = Some crt /\ b_their st0 = Some (tubid_of crt)))).
  { intros w st0 H. inversion H; subst st0. rewrite R. cbn [raised b_attached b_passed b_buf b_fail b_their].
    repeat split; try reflexivity; try discriminate. left; reflexivity. }
  destruct (dispatch (b_phase st) (is_client r)) eqn:ED.
  - destruct (plaintext_client_guard decode hdr); intros H; [discriminate H|]. eapply Plain; exact H.
  - destruct (plaintext_server_guard decode my redirect hdr); intros H; [discriminate H|]. eapply Plain; exact H.
  - apply dispatch_encrypted in ED.
    assert (RE : forall th w, b_phase (raised st (RP phase_during_evaluate_hello) th w) = b_phase st).
    { intros th w. rewrite ED. unfold raised, rexc, phase_set_by_error_handler, phase_during_evaluate_hello. reflexivity. }
    unfold IdentityBytes.handle_encrypted.
    destruct (peer_from_transport cert p) as [c|w]; [|intros H; eapply Plain; exact H].
    destruct (parse hdr) as [d|w]; [|intros H; eapply Plain; exact H].
    destruct (has_error d); [intros H; eapply Plain; exact H|].
    destruct (pre_chk d) as [u|w].
    2:{ intros H; inversion H; subst st'. rewrite RE. cbn [raised b_attached b_passed b_buf b_fail b_their].
        repeat split; try reflexivity; try discriminate. left; reflexivity. }
    destruct (handle_hello r my tgt p (claimed_of d)) as [w|t m] eqn:EH.
    + intros H; inversion H; subst st'. rewrite RE. cbn [raised b_attached b_passed b_buf b_fail b_their].
      repeat split; try reflexivity; try discriminate.
      unfold their_after_rejected_evaluation.
      destruct (leaf p) as [c0|] eqn:El; [|left; reflexivity].
      destruct (claimed_of d) as [[|x tl]|]; try (left; reflexivity).
      destruct (list_eqb (tubid_of c0) (x :: tl)) eqn:E; [|left; reflexivity].
      apply list_eqb_eq in E. right. split; [exact ED|]. exists c0. rewrite E. auto.
    + destruct m.
      * destruct (post_chk d) as [u2|w]; intros H; [discriminate H|].
        inversion H; subst st'. rewrite RE. cbn [raised b_attached b_passed b_buf b_fail b_their].
        repeat split; try reflexivity; try discriminate.
        apply handle_hello_bound in EH. destruct EH as (crt & Hl & Hh & _).
        right. split; [exact ED|]. exists crt. rewrite Hh. auto.
      * intros H; discriminate H.
  - unfold IdentityBytes.handle_deciding.
    destruct (parse hdr) as [d|w]; [|intros H; eapply Plain; exact H].
    destruct (decision_chk d) as [u|w]; [|intros H; eapply Plain; exact H].
    destruct (b_their st); intros H; [discriminate H|eapply Plain; exact H].
  - intros H; eapply Plain; exact H.
Qed.

(* the ENCRYPTED handler has no memory: what it does with a header block -- refuse, wait for the decision, or register --
   does not depend on earlier failures or on a theirTubRef left behind by an earlier rejected hello; every hello is
   checked from scratch against the leaf certificate *)
Theorem hello_evaluation_is_memoryless r my tgt p st1 st2 hdr :
  b_phase st1 = b_phase st2 -> b_attached st1 = b_attached st2 ->
  snd (handle_encrypted r my tgt p st1 hdr) = snd (handle_encrypted r my tgt p st2 hdr) /\
  b_phase (fst (handle_encrypted r my tgt p st1 hdr)) = b_phase (fst (handle_encrypted r my tgt p st2 hdr)) /\
  b_attached (fst (handle_encrypted r my tgt p st1 hdr)) = b_attached (fst (handle_encrypted r my tgt p st2 hdr)) /\
  (snd (handle_encrypted r my tgt p st1 hdr) = false ->
   b_their (fst (handle_encrypted r my tgt p st1 hdr)) = b_their (fst (handle_encrypted r my tgt p st2 hdr))).
Proof.
  intros Hp Ha. unfold IdentityBytes.handle_encrypted.
  destruct (peer_from_transport cert p); [|cbn; rewrite Hp, Ha; repeat split; try reflexivity; discriminate].
  destruct (parse hdr) as [d|w]; [|cbn; rewrite Hp, Ha; repeat split; try reflexivity; discriminate].
  destruct (has_error d); [cbn; rewrite Hp, Ha; repeat split; try reflexivity; discriminate|].
  destruct (pre_chk d); [|cbn; rewrite Ha; repeat split; try reflexivity; discriminate].
  destruct (handle_hello r my tgt p (claimed_of d)) as [w|t m]; [cbn; rewrite Ha; repeat split; try reflexivity; discriminate|].
  destruct m; [destruct (post_chk d)|]; cbn; rewrite Ha; repeat split; try reflexivity; discriminate.
Qed.

(* input alone never ends the life of the Negotiation object: only switchToBanana (hand-over to the Broker) or
   connectionLost (not an input) do *)
Theorem bytes_never_abandoned r my tgt p chunks : b_phase (brecv_all r my tgt p chunks) <> RP PhAbandoned.
Proof. exact (I_live _ _ _ _ _ (brecv_all_inv r my tgt p chunks)). Qed.

(* consequently the object keeps reading: whatever was refused before, the next chunk is processed by the same code *)
Theorem bytes_keeps_reading r my tgt p chunks chunk :
  b_phase (brecv_all r my tgt p chunks) <> RP PhBanana ->
  brecv_all r my tgt p (chunks ++ [chunk]) =
  bdrain (S (List.length (b_buf (brecv_all r my tgt p chunks) ++ chunk))) r my tgt p
         (with_bbuf (brecv_all r my tgt p chunks) (b_buf (brecv_all r my tgt p chunks) ++ chunk)).
Proof.
  intros Hnb. unfold IdentityBytes.brecv_all. rewrite fold_left_app. cbn [fold_left].
  fold (brecv_all r my tgt p chunks). unfold IdentityBytes.brecv_chunk.
  pose proof (bytes_never_abandoned r my tgt p chunks) as Hl.
  destruct (is_banana (b_phase (brecv_all r my tgt p chunks))) eqn:EB.
  { apply rphase_eqb_eq in EB. contradiction. }
  destruct (is_abandoned (b_phase (brecv_all r my tgt p chunks))) eqn:EA.
  { apply rphase_eqb_eq in EA. contradiction. }
  reflexivity.
Qed.

(* ------------------------------------------------------------------ the PLAINTEXT guards are not opaque
   What the two translated plaintext handlers decide is what the receive loop does, and nothing else moves the object out of the
   PLAINTEXT phase: (1) in that phase a block is handled by the guard of this end's role, exactly; (2) the phase is left only by a
   block that passed the guard; (3) for a listener, passing the guard IS the session model's server_lookup on the id the GET named. *)
Notation plain_guard := (plain_guard decode redirect).

Theorem bhandle_plaintext_exact r my tgt p st hdr :
  b_phase st = RPlaintext ->
  bhandle r my tgt p st hdr =
  match plain_guard r my hdr with
  | Ok _ => (enter_encrypted st, false)
  | Exc w => (raised st (b_phase st) (b_their st) w, true)
  end.
Proof.
  intros H. unfold IdentityBytes.bhandle, IdentityBytes.plain_guard. rewrite H.
  destruct r; cbn [is_client].
  - change (dispatch RPlaintext true) with HPlaintextClient. reflexivity.
  - change (dispatch RPlaintext false) with HPlaintextServer. reflexivity.
Qed.

(* a block refused by the plaintext guard: exception, and the object is in the PLAINTEXT phase as before (no TLS, no hello sent) *)
Corollary plaintext_refused_stays_plaintext r my tgt p st hdr w :
  b_phase st = RPlaintext -> plain_guard r my hdr = Exc w ->
  snd (bhandle r my tgt p st hdr) = true /\ b_phase (fst (bhandle r my tgt p st hdr)) = RPlaintext.
Proof.
  intros H G. rewrite (bhandle_plaintext_exact r my tgt p st hdr H), G. cbn [fst snd]. split; [reflexivity|].
  unfold raised, rexc, phase_set_by_error_handler. cbn [b_phase]. exact H.
Qed.

Definition entered (r : role) (my : list Z) (st : bstate) : Prop :=
  b_phase st <> RPlaintext -> exists hdr, plain_guard r my hdr = Ok tt.

Lemma rphase_plain_dec ph : {ph = RPlaintext} + {ph <> RPlaintext}.
Proof. destruct ph; [left; reflexivity|right; discriminate]. Qed.

Lemma bhandle_entered r my tgt p st hdr st' exc :
  entered r my st -> bhandle r my tgt p st hdr = (st', exc) -> entered r my st'.
Proof.
  intros He Hb. destruct (rphase_plain_dec (b_phase st)) as [Hp|Hp].
  - rewrite (bhandle_plaintext_exact r my tgt p st hdr Hp) in Hb.
    destruct (plain_guard r my hdr) as [[]|w] eqn:G; inversion Hb; subst st' exc.
    + intros _. exists hdr. exact G.
    + intros Hn. exfalso. apply Hn. unfold raised, rexc, phase_set_by_error_handler. cbn [b_phase]. exact Hp.
  - intros _. exact (He Hp).
Qed.

Lemma raised_entered r my st th w : entered r my st -> entered r my (raised st (b_phase st) th w).
Proof.
  intros He Hn. apply He. intros E. apply Hn. unfold raised, rexc, phase_set_by_error_handler. cbn [b_phase]. exact E.
Qed.

Lemma bdrain_entered r my tgt p fuel : forall st, entered r my st -> entered r my (bdrain fuel r my tgt p st).
Proof.
  induction fuel as [|f IH]; intros st He; cbn [IdentityBytes.bdrain]; [exact He|].
  cbv zeta.
  destruct (header_verdict _ _ =? 0); [apply raised_entered; exact He|].
  destruct (header_verdict _ _ =? 1); [exact He|].
  destruct (find_term (b_buf st)) as [e|]; [|apply raised_entered; exact He].
  destruct (bhandle r my tgt p (with_bbuf st (skipn (e + 4) (b_buf st))) (firstn e (b_buf st))) as [st2 exc] eqn:EB.
  assert (He2 : entered r my st2) by (eapply bhandle_entered; [|exact EB]; exact He).
  destruct exc; [exact He2|].
  destruct (is_banana (b_phase st2)); [exact He2|].
  destruct (b_buf st2); [exact He2|].
  apply IH. exact He2.
Qed.

Lemma brecv_all_entered r my tgt p chunks : entered r my (brecv_all r my tgt p chunks).
Proof.
  unfold IdentityBytes.brecv_all.
  assert (G : forall st, entered r my st -> entered r my (fold_left (brecv_chunk r my tgt p) chunks st)).
  { induction chunks as [|c cs IH]; intros st Hst; cbn [fold_left]; [exact Hst|]. apply IH.
    unfold IdentityBytes.brecv_chunk. destruct (is_banana (b_phase st) || is_abandoned (b_phase st)); [exact Hst|].
    apply bdrain_entered. exact Hst. }
  apply G. rewrite bytes_start_is_init. intros Hn. exfalso. apply Hn. reflexivity.
Qed.

(* ARBITRARY BYTES, ANY CHUNKING: the object is out of the PLAINTEXT phase (TLS started, hello sent, peer's hello looked at, ...)
   only if one of the header blocks received passed this end's plaintext handler *)
Theorem bytes_leaves_plaintext_only_through_guard r my tgt p chunks :
  b_phase (brecv_all r my tgt p chunks) <> RPlaintext -> exists hdr, plain_guard r my hdr = Ok tt.
Proof. exact (brecv_all_entered r my tgt p chunks). Qed.

(* (3) handlePLAINTEXTServer reached sendPlaintextServerAndStartENCRYPTED exactly when the statements before the listener lookup
   produced an id on which the session model's server_lookup (lib/Identity.v: session) succeeds; the listener's redirect table
   plays no part in an acceptance *)
Theorem server_guard_is_server_lookup my hdr :
  plaintext_server_guard decode my redirect hdr = Ok tt <->
  exists req, plaintext_server_requested decode hdr = Ok req /\ server_lookup req my = Ok tt.
Proof.
  unfold plaintext_server_guard.
  assert (NE : forall req, plaintext_server_requested decode hdr = Ok req -> list_is_nil req = false).
  { intros req. unfold plaintext_server_requested. cbv zeta.
    repeat match goal with
           | |- context [match ?x with _ => _ end] => destruct x eqn:?
           end;
      intros Hq; try discriminate Hq; inversion Hq; subst; destruct req; try reflexivity; cbn in *; discriminate. }
  split.
  - destruct (plaintext_server_requested decode hdr) as [req|w] eqn:ER; [|discriminate].
    intros H. exists req. split; [reflexivity|].
    unfold server_lookup. rewrite (NE req eq_refl). unfold listener_dispatch in H.
    destruct (list_eqb req my); [reflexivity|]. destruct (redirect req); discriminate H.
  - intros (req & ER & HL). rewrite ER. unfold listener_dispatch. unfold server_lookup in HL.
    destruct (list_is_nil req); [discriminate HL|]. destruct (list_eqb req my); [reflexivity|discriminate HL].
Qed.

Corollary server_guard_names_this_tub my hdr :
  plaintext_server_guard decode my redirect hdr = Ok tt -> plaintext_server_requested decode hdr = Ok my /\ my <> [].
Proof.
  intros H. apply server_guard_is_server_lookup in H. destruct H as (req & ER & HL).
  unfold server_lookup in HL. destruct (list_is_nil req) eqn:EN; [discriminate HL|].
  destruct (list_eqb req my) eqn:E; [|discriminate HL]. apply list_eqb_eq in E. subst req.
  split; [exact ER|]. intros E0. subst my. cbn in EN. discriminate EN.
Qed.

(* a listener registers a key, or as much as looks at a hello, only on a connection whose GET named this very Tub *)
Theorem bytes_listener_needs_get_for_this_tub my tgt p chunks :
  b_phase (brecv_all Server my tgt p chunks) <> RPlaintext ->
  exists hdr, plaintext_server_requested decode hdr = Ok my /\ server_lookup my my = Ok tt /\ my <> [].
Proof.
  intros H. destruct (bytes_leaves_plaintext_only_through_guard Server my tgt p chunks H) as (hdr & G).
  unfold IdentityBytes.plain_guard in G. cbn [is_client] in G.
  pose proof (server_guard_names_this_tub my hdr G) as [ER Hne].
  apply server_guard_is_server_lookup in G. destruct G as (req & ER' & HL).
  rewrite ER in ER'. inversion ER'; subst req. exists hdr. auto.
Qed.

Corollary bytes_listener_attach_needs_get my tgt p chunks :
  b_attached (brecv_all Server my tgt p chunks) <> [] ->
  exists hdr, plaintext_server_requested decode hdr = Ok my /\ server_lookup my my = Ok tt /\ my <> [].
Proof.
  intros H. apply bytes_listener_needs_get_for_this_tub with (tgt := tgt) (p := p) (chunks := chunks).
  intros E. apply H. apply (proj2 (bytes_at_most_one_attach Server my tgt p chunks)). rewrite E. discriminate.
Qed.

End BytesProofs.

