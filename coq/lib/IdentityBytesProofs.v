(* C05: proofs about lib/IdentityBytes.v -- the receive loop of Negotiation over raw bytes. *)
From Coq Require Import ZArith List String Bool Lia.
Import ListNotations.
Require Import Verif.lib.PyLite Verif.gen.NegotiateGen Verif.lib.Negotiate Verif.lib.NegotiateProofs Verif.lib.NegBytes
               Verif.gen.IdentityGen Verif.lib.NegSplit Verif.lib.Identity Verif.lib.IdentityProofs Verif.lib.IdentityBytes Verif.lib.IdentityBytesRef.
Local Open Scope Z_scope.

(* facts about the TRANSLATED dispatch, proved by evaluation on the finite phase x role space (independent of how the
   source spells the chain of tests) *)
Lemma dispatch_deciding ph ic : dispatch ph ic = HDeciding -> ph = RP PhDeciding.
Proof. destruct ph as [|[]], ic; cbv; intros H; first [reflexivity | discriminate H]. Qed.

Lemma dispatch_plaintext_client ph ic : dispatch ph ic = HPlaintextClient -> ph = RPlaintext /\ ic = true.
Proof. destruct ph as [|[]], ic; cbv; intros H; first [split; reflexivity | discriminate H]. Qed.

Lemma dispatch_plaintext_server ph ic : dispatch ph ic = HPlaintextServer -> ph = RPlaintext /\ ic = false.
Proof. destruct ph as [|[]], ic; cbv; intros H; first [split; reflexivity | discriminate H]. Qed.

Lemma dispatch_encrypted ph ic : dispatch ph ic = HEncrypted -> ph = RP PhEncrypted.
Proof. destruct ph as [|[]], ic; cbv; intros H; first [reflexivity | discriminate H]. Qed.

Lemma rphase_eqb_eq a b : rphase_eqb a b = true <-> a = b.
Proof. destruct a as [|[]], b as [|[]]; cbv; split; intros H; first [reflexivity | discriminate H]. Qed.

Section BytesProofs.
Variable cert : Type.
Variable tubid_of : cert -> list Z.
Variable decode : list Z -> option (list Z).
Variable pre_ok post_ok decision_ok : list (list Z * list Z) -> bool.
Variable redirect : list Z -> bool.

Notation handle_hello := (handle_hello cert tubid_of).
Notation handle_encrypted := (handle_encrypted cert tubid_of decode pre_ok post_ok).
Notation handle_deciding := (handle_deciding decode decision_ok).
Notation bhandle := (bhandle cert tubid_of decode pre_ok post_ok decision_ok redirect).
Notation bdrain := (bdrain cert tubid_of decode pre_ok post_ok decision_ok redirect).
Notation brecv_chunk := (brecv_chunk cert tubid_of decode pre_ok post_ok decision_ok redirect).
Notation brecv_all := (brecv_all cert tubid_of decode pre_ok post_ok decision_ok redirect).

Lemma rexc_deciding x : rexc x = RP PhDeciding -> x = RP PhDeciding.
Proof. unfold rexc, phase_set_by_error_handler. first [intros H; exact H | intros H; discriminate H]. Qed.

Lemma rexc_banana x : rexc x = RP PhBanana -> x = RP PhBanana.
Proof. unfold rexc, phase_set_by_error_handler. first [intros H; exact H | intros H; discriminate H]. Qed.

Lemma rexc_eval_not_deciding : rexc (RP phase_during_evaluate_hello) <> RP PhDeciding.
Proof. intros H. apply rexc_deciding in H. unfold phase_during_evaluate_hello in H. discriminate H. Qed.

Lemma rexc_eval_not_banana : rexc (RP phase_during_evaluate_hello) <> RP PhBanana.
Proof. intros H. apply rexc_banana in H. unfold phase_during_evaluate_hello in H. discriminate H. Qed.

(* a header block whose hello passed every check up to and including the identity checks of evaluateNegotiationVersion1 *)
Definition passed_identity (r : role) (my tgt : list Z) (p : presented cert) (hdr : list Z) : Prop :=
  exists d t m, parse_lines decode hdr = Some d /\ dict_has k_error d = false /\ pre_ok d = true /\
                handle_hello r my tgt p (dict_get k_my_tub_id d) = Accept t m.

Record binv (r : role) (my tgt : list Z) (p : presented cert) (st : bstate) : Prop := {
  I_keys : forall k, In k (b_attached st) -> key_ok cert tubid_of r tgt p k;
  I_their : their_ok cert tubid_of p (b_their st);
  I_dec : b_phase st = RP PhDeciding -> (exists t, b_their st = Some t /\ (r = Client -> t = tgt)) /\ b_passed st <> [];
  I_nb : b_phase st <> RP PhBanana -> b_attached st = [];
  I_len : (List.length (b_attached st) <= 1)%nat;
  I_passed : forall hdr, In hdr (b_passed st) -> passed_identity r my tgt p hdr;
  I_att : b_attached st <> [] -> b_passed st <> [];
  I_plain : b_phase st = RPlaintext -> b_their st = None /\ b_passed st = [] }.

Lemma raised_inv r my tgt p st w :
  binv r my tgt p st -> b_phase st <> RP PhBanana -> binv r my tgt p (raised st (b_phase st) (b_their st) w).
Proof.
  intros [Ha Hb Hc Hd He Hf Hg Hh] Hnb.
  constructor; unfold raised; cbn [b_attached b_their b_phase b_passed]; try assumption;
    try (intros _; exact (Hd Hnb));
    try (intros H; apply rexc_deciding in H; exact (Hc H));
    try (intros H; unfold rexc in H; destruct phase_set_by_error_handler; [discriminate H|]; exact (Hh H)).
Qed.

(* an exception raised while evaluateHello runs (possibly after self.theirTubRef was stored) *)
Lemma raised_eval_inv r my tgt p st their w :
  binv r my tgt p st -> b_phase st <> RP PhBanana -> their_ok cert tubid_of p their ->
  binv r my tgt p (raised st (RP phase_during_evaluate_hello) their w).
Proof.
  intros [Ha Hb Hc Hd He Hf Hg Hh] Hnb Hth.
  constructor; unfold raised; cbn [b_attached b_their b_phase b_passed]; try assumption;
    try (intros _; exact (Hd Hnb));
    try (intros H; contradiction (rexc_eval_not_deciding H));
    try (intros H; unfold rexc in H; destruct phase_set_by_error_handler; discriminate H).
Qed.

Lemma handle_encrypted_inv r my tgt p st hdr st' exc :
  binv r my tgt p st -> b_phase st <> RP PhBanana ->
  handle_encrypted r my tgt p st hdr = (st', exc) -> binv r my tgt p st'.
Proof.
  intros Hinv Hnb.
  unfold IdentityBytes.handle_encrypted.
  destruct (peer_from_transport cert p) as [c|w].
  2:{ intros H; inversion H; subst. apply raised_inv; auto. }
  destruct (parse_lines decode hdr) as [d|] eqn:EP.
  2:{ intros H; inversion H; subst. apply raised_inv; auto. }
  destruct (dict_has k_error d) eqn:EE.
  { intros H; inversion H; subst. apply raised_inv; auto. }
  destruct (pre_ok d) eqn:EPre; cbn [negb].
  2:{ intros H; inversion H; subst. apply raised_eval_inv; [exact Hinv|exact Hnb|exact (I_their _ _ _ _ _ Hinv)]. }
  destruct (handle_hello r my tgt p (dict_get k_my_tub_id d)) as [w|t m] eqn:EH.
  { intros H; inversion H; subst.
    apply raised_eval_inv; [exact Hinv|exact Hnb|apply their_after_ok; exact (I_their _ _ _ _ _ Hinv)]. }
  assert (Hpass : passed_identity r my tgt p hdr).
  { exists d, t, m. auto. }
  pose proof (hello_key_proven _ _ _ _ _ _ _ _ _ EH) as (crt & Hl & Hk & Hkt).
  pose proof (handle_hello_bound _ _ _ _ _ _ _ _ _ EH) as (crt' & Hl' & Hh' & _ & Htgt & _ & _).
  assert (Hth : their_ok cert tubid_of p (Some t)).
  { intros t0 Ht0. inversion Ht0; subst t0. exists crt'. auto. }
  pose proof Hinv as [Ha Hb Hc Hd He Hf Hg Hh].
  pose proof (Hd Hnb) as Hnil.
  destruct m.
  - destruct (post_ok d).
    + intros H; inversion H; subst st' exc; clear H.
      constructor; unfold switched; cbn [b_attached b_their b_phase b_passed]; rewrite ?Hnil; try assumption.
      * intros k [Hk0|[]]. subst k. exists crt. auto.
      * discriminate.
      * intros H; contradiction H; reflexivity.
      * cbn [List.length]; lia.
      * intros h [Hh0|Hh0]; [subst h; exact Hpass|apply Hf; exact Hh0].
      * intros _; discriminate.
      * discriminate.
    + intros H; inversion H; subst st' exc; clear H.
      apply raised_eval_inv; [exact Hinv|exact Hnb|exact Hth].
  - intros H; inversion H; subst st' exc; clear H.
    constructor; cbn [b_attached b_their b_phase b_passed]; try assumption.
    + intros _. split; [exists t; auto|discriminate].
    + intros _; exact Hnil.
    + intros h [Hh0|Hh0]; [subst h; exact Hpass|apply Hf; exact Hh0].
    + intros _; discriminate.
    + unfold slave_phase_after_accept. discriminate.
Qed.

Lemma handle_deciding_inv r my tgt p st hdr st' exc :
  binv r my tgt p st -> b_phase st = RP PhDeciding ->
  handle_deciding r tgt st hdr = (st', exc) -> binv r my tgt p st'.
Proof.
  intros Hinv Hph. assert (Hnb : b_phase st <> RP PhBanana) by (rewrite Hph; discriminate).
  unfold IdentityBytes.handle_deciding.
  destruct (parse_lines decode hdr) as [d|].
  2:{ intros H; inversion H; subst. apply raised_inv; auto. }
  destruct (decision_ok d).
  2:{ intros H; inversion H; subst. apply raised_inv; auto. }
  pose proof Hinv as [Ha Hb Hc Hd He Hf Hg Hh].
  destruct (Hc Hph) as ((t0 & Ht0 & Htgt) & Hpne). rewrite Ht0.
  intros H; inversion H; subst st' exc; clear H.
  pose proof (Hd Hnb) as Hnil.
  constructor; unfold switched; cbn [b_attached b_their b_phase b_passed]; rewrite ?Hnil; try assumption.
  - intros k [Hk0|[]]. subst k.
    destruct (Hb _ Ht0) as (crt & Hl & Hh0). exists crt. split; [exact Hl|].
    destruct r; cbn [is_client].
    + specialize (Htgt eq_refl). subst t0. rewrite ak_client. auto.
    + rewrite ak_server. split; [exact Hh0|discriminate].
  - rewrite <- Ht0. exact Hb.
  - discriminate.
  - intros H; contradiction H; reflexivity.
  - cbn [List.length]; lia.
  - intros _; exact Hpne.
  - discriminate.
Qed.

Lemma enter_encrypted_inv r my tgt p st :
  binv r my tgt p st -> b_phase st = RPlaintext -> binv r my tgt p (enter_encrypted st).
Proof.
  intros [Ha Hb Hc Hd He Hf Hg Hh] Hph.
  assert (Hnb : b_phase st <> RP PhBanana) by (rewrite Hph; discriminate).
  constructor; unfold enter_encrypted; cbn [b_attached b_their b_phase b_passed]; try assumption.
  - unfold phase_after_start_encrypted. discriminate.
  - intros _. exact (Hd Hnb).
  - unfold phase_after_start_encrypted. discriminate.
Qed.

Lemma bhandle_inv r my tgt p st hdr st' exc :
  binv r my tgt p st -> b_phase st <> RP PhBanana ->
  bhandle r my tgt p st hdr = (st', exc) -> binv r my tgt p st'.
Proof.
  intros Hinv Hnb. unfold IdentityBytes.bhandle.
  destruct (dispatch (b_phase st) (is_client r)) eqn:ED.
  - apply dispatch_plaintext_client in ED. destruct ED as [Hph _].
    destruct (plaintext_client_guard decode hdr); intros H; inversion H; subst.
    + apply enter_encrypted_inv; assumption.
    + apply raised_inv; assumption.
  - apply dispatch_plaintext_server in ED. destruct ED as [Hph _].
    destruct (plaintext_server_guard decode my redirect hdr); intros H; inversion H; subst.
    + apply enter_encrypted_inv; assumption.
    + apply raised_inv; assumption.
  - apply handle_encrypted_inv; assumption.
  - apply dispatch_deciding in ED. apply handle_deciding_inv; assumption.
  - intros H; inversion H; subst. apply raised_inv; assumption.
Qed.

Lemma with_bbuf_inv r my tgt p st b : binv r my tgt p st -> binv r my tgt p (with_bbuf st b).
Proof. intros [Ha Hb Hc Hd He Hf Hg Hh]. constructor; assumption. Qed.

Lemma is_banana_false ph : is_banana ph = false -> ph <> RP PhBanana.
Proof. unfold is_banana. intros H E. subst ph. cbv in H. discriminate H. Qed.

Lemma bdrain_inv r my tgt p fuel : forall st,
  binv r my tgt p st -> b_phase st <> RP PhBanana -> binv r my tgt p (bdrain fuel r my tgt p st).
Proof.
  induction fuel as [|f IH]; intros st Hinv Hnb; cbn [IdentityBytes.bdrain]; [exact Hinv|].
  cbv zeta.
  destruct (header_verdict _ _ =? 0); [apply raised_inv; assumption|].
  destruct (header_verdict _ _ =? 1); [exact Hinv|].
  destruct (find_term (b_buf st)) as [e|]; [|apply raised_inv; assumption].
  destruct (bhandle r my tgt p (with_bbuf st (skipn (e + 4) (b_buf st))) (firstn e (b_buf st))) as [st2 exc] eqn:EB.
  assert (Hinv2 : binv r my tgt p st2).
  { eapply bhandle_inv; [apply with_bbuf_inv; exact Hinv| |exact EB]. exact Hnb. }
  destruct exc; [exact Hinv2|].
  destruct (is_banana (b_phase st2)) eqn:EBan; [exact Hinv2|].
  destruct (b_buf st2); [exact Hinv2|].
  apply IH; [exact Hinv2|apply is_banana_false; exact EBan].
Qed.

Lemma brecv_chunk_inv r my tgt p st chunk : binv r my tgt p st -> binv r my tgt p (brecv_chunk r my tgt p st chunk).
Proof.
  intros Hinv. unfold IdentityBytes.brecv_chunk.
  destruct (is_banana (b_phase st)) eqn:EB; cbn [orb]; [exact Hinv|].
  destruct (is_abandoned (b_phase st)); [exact Hinv|].
  apply bdrain_inv; [apply with_bbuf_inv; exact Hinv|]. apply is_banana_false. exact EB.
Qed.

Lemma b_init_inv r my tgt p : binv r my tgt p b_init.
Proof.
  constructor; unfold b_init; cbn [b_attached b_their b_phase b_passed].
  - intros k [].
  - intros t H; discriminate H.
  - unfold initial_phase. discriminate.
  - reflexivity.
  - cbn [List.length]. lia.
  - intros h [].
  - intros H; contradiction H; reflexivity.
  - intros _. split; reflexivity.
Qed.

Lemma brecv_all_inv r my tgt p chunks : binv r my tgt p (brecv_all r my tgt p chunks).
Proof.
  unfold IdentityBytes.brecv_all.
  assert (G : forall st, binv r my tgt p st -> binv r my tgt p (fold_left (brecv_chunk r my tgt p) chunks st)).
  { induction chunks as [|c cs IH]; intros st Hst; cbn [fold_left]; [exact Hst|]. apply IH. apply brecv_chunk_inv. exact Hst. }
  apply G. apply b_init_inv.
Qed.

(* ARBITRARY BYTES, ANY CHUNKING, from the first byte of the connection: every key ever handed to Tub.brokerAttached is the
   hash of the leaf certificate of this transport and, on a client, the dialled id *)
Theorem bytes_attach_proven r my tgt p chunks k :
  In k (b_attached (brecv_all r my tgt p chunks)) ->
  exists crt, leaf p = Some crt /\ tubid_of crt = k /\ (r = Client -> k = tgt).
Proof. intros H. exact (I_keys _ _ _ _ _ (brecv_all_inv r my tgt p chunks) _ H). Qed.

(* no brokerAttached before a hello passed evaluateNegotiationVersion1's identity checks: whenever a key was registered, one
   of the header blocks received on this connection parsed, carried no error, passed the earlier checks and its my-tub-id
   passed the identity checks against the leaf certificate *)
Theorem bytes_no_attach_before_identity r my tgt p chunks :
  b_attached (brecv_all r my tgt p chunks) <> [] ->
  exists hdr d t m, parse_lines decode hdr = Some d /\ dict_has k_error d = false /\ pre_ok d = true /\
                    handle_hello r my tgt p (dict_get k_my_tub_id d) = Accept t m.
Proof.
  intros H. pose proof (brecv_all_inv r my tgt p chunks) as I.
  pose proof (I_att _ _ _ _ _ I H) as Hne.
  destruct (b_passed (brecv_all r my tgt p chunks)) as [|hdr rest] eqn:E; [contradiction Hne; reflexivity|].
  destruct (I_passed _ _ _ _ _ I hdr) as (d & t & m & H1); [rewrite E; left; reflexivity|].
  exists hdr, d, t, m. exact H1.
Qed.

(* one connection registers at most one key; and only after it left the negotiation phases *)
Theorem bytes_at_most_one_attach r my tgt p chunks :
  (List.length (b_attached (brecv_all r my tgt p chunks)) <= 1)%nat /\
  (b_phase (brecv_all r my tgt p chunks) <> RP PhBanana -> b_attached (brecv_all r my tgt p chunks) = []).
Proof.
  pose proof (brecv_all_inv r my tgt p chunks) as I. split; [exact (I_len _ _ _ _ _ I)|exact (I_nb _ _ _ _ _ I)].
Qed.

(* while the connection is in the PLAINTEXT phase nothing about the peer is believed *)
Theorem bytes_plaintext_knows_nothing r my tgt p chunks :
  b_phase (brecv_all r my tgt p chunks) = RPlaintext ->
  b_their (brecv_all r my tgt p chunks) = None /\ b_attached (brecv_all r my tgt p chunks) = [].
Proof.
  intros H. pose proof (brecv_all_inv r my tgt p chunks) as I.
  split; [exact (proj1 (I_plain _ _ _ _ _ I H))|]. apply (I_nb _ _ _ _ _ I). rewrite H. discriminate.
Qed.

End BytesProofs.

(* ------------------------------------------------------------------ non-vacuity, on the concrete instance of IdentityBytesRef.v *)
Definition exb_tubid (c : Z) : list Z := if c =? 2 then [98; 98] else if c =? 3 then [99; 99] else [].
Definition exb_recv := brecv_all Z exb_tubid ascii_decode ref_pre_ok (ref_post_ok 0 1) (ref_decision_ok 0 1 []) (fun _ => false).
Definition exb_get : list Z := [71; 69; 84; 32; 47; 105; 100; 47; 122; 122; 32; 72; 84; 84; 80; 47; 49; 46; 49; 13; 10; 85; 112; 103; 114; 97; 100; 101; 58; 32; 84; 76; 83; 47; 49; 46; 48; 13; 10; 13; 10].
Definition exb_get_other : list Z := [71; 69; 84; 32; 47; 105; 100; 47; 121; 121; 32; 72; 84; 84; 80; 47; 49; 46; 49; 13; 10; 13; 10].
Definition exb_hello_bb : list Z := [98; 97; 110; 97; 110; 97; 45; 110; 101; 103; 111; 116; 105; 97; 116; 105; 111; 110; 45; 114; 97; 110; 103; 101; 58; 32; 51; 32; 51; 13; 10; 109; 121; 45; 116; 117; 98; 45; 105; 100; 58; 32; 98; 98; 13; 10; 13; 10].
Definition exb_hello_cc : list Z := [98; 97; 110; 97; 110; 97; 45; 110; 101; 103; 111; 116; 105; 97; 116; 105; 111; 110; 45; 114; 97; 110; 103; 101; 58; 32; 51; 32; 51; 13; 10; 109; 121; 45; 116; 117; 98; 45; 105; 100; 58; 32; 99; 99; 13; 10; 13; 10].
Definition exb_101 : list Z := [72; 84; 84; 80; 47; 49; 46; 49; 32; 49; 48; 49; 32; 83; 119; 105; 116; 99; 104; 105; 110; 103; 32; 80; 114; 111; 116; 111; 99; 111; 108; 115; 13; 10; 85; 112; 103; 114; 97; 100; 101; 58; 32; 84; 76; 83; 47; 49; 46; 48; 13; 10; 13; 10].
Definition exb_decision : list Z := [98; 97; 110; 97; 110; 97; 45; 100; 101; 99; 105; 115; 105; 111; 110; 45; 118; 101; 114; 115; 105; 111; 110; 58; 32; 51; 13; 10; 13; 10].

(* a listener "zz" (decides: "zz" > "bb"): GET, then the hello of the peer that authenticated as bb, cut in the middle of a block *)
Example exb_listener_attaches :
  b_attached (exb_recv Server [122; 122] [] {| leaf := Some 2; extras := [] |}
                       [firstn 10 exb_get; skipn 10 exb_get ++ firstn 7 exb_hello_bb; skipn 7 exb_hello_bb]) = [[98; 98]].
Proof. vm_compute. reflexivity. Qed.

(* the same bytes from a peer that authenticated as cc: refused, and a decision block sent afterwards changes nothing *)
Example exb_listener_refuses_impostor :
  let st := exb_recv Server [122; 122] [] {| leaf := Some 3; extras := [] |} [exb_get ++ exb_hello_bb; exb_decision] in
  b_attached st = [] /\ b_their st = None /\ b_phase st = RP PhEncrypted.
Proof. vm_compute. repeat split; reflexivity. Qed.

(* a GET for another Tub is refused in the plaintext phase; the peer carries on with a correct GET and a proven hello *)
Example exb_listener_second_get :
  let st := exb_recv Server [122; 122] [] {| leaf := Some 2; extras := [] |} [exb_get_other; exb_get; exb_hello_bb] in
  b_attached st = [[98; 98]] /\ b_fail st = Some "NegotiationError"%string.
Proof. vm_compute. split; reflexivity. Qed.

(* a dialling Tub "aa" (does not decide: "aa" < "bb") attaches only when the decision arrives, under the dialled id *)
Example exb_client_waits_for_decision :
  b_attached (exb_recv Client [97; 97] [98; 98] {| leaf := Some 2; extras := [] |} [exb_101; exb_hello_bb]) = [] /\
  b_attached (exb_recv Client [97; 97] [98; 98] {| leaf := Some 2; extras := [] |} [exb_101; exb_hello_bb; exb_decision]) = [[98; 98]].
Proof. vm_compute. split; reflexivity. Qed.

(* ... and never when the peer proved an identity other than the dialled one *)
Example exb_client_wrong_tub :
  b_attached (exb_recv Client [97; 97] [98; 98] {| leaf := Some 3; extras := [] |} [exb_101; exb_hello_cc; exb_decision]) = [].
Proof. vm_compute. reflexivity. Qed.
