(* C18, round 7: proofs about lib/LogDisk.v *)
From Coq Require Import ZArith List Bool Lia.
Import ListNotations.
Require Import Verif.lib.PyLite Verif.gen.LogBufGen Verif.lib.LogBuf Verif.lib.LogBufProofs Verif.lib.LogDisk.

(* for ANY order of writes and flushes: what is on disk is a prefix of what was written *)
Lemma f1_fold_prefix (A : Type) (trig : A) (snap : list A) : forall ops s,
  (exists rest, f1_written s = f1_durable s ++ rest) ->
  exists rest, f1_written (fold_left (f1_step trig snap) ops s) = f1_durable (fold_left (f1_step trig snap) ops s) ++ rest.
Proof.
  induction ops as [|op ops IH]; intros s H; cbn [fold_left]; [exact H|].
  apply IH. destruct H as (rest & H). destruct op; cbn [f1_step f1_written f1_durable].
  - exists (rest ++ [LMagic]). rewrite H. rewrite app_assoc. reflexivity.
  - exists (rest ++ [LHeader trig]). rewrite H. rewrite app_assoc. reflexivity.
  - exists (rest ++ map LEvent snap). rewrite H. rewrite app_assoc. reflexivity.
  - exists []. rewrite app_nil_r. reflexivity.
Qed.

Lemma f1_durable_prefix (A : Type) (ops : list f1_op) (trig : A) (snap : list A) :
  exists rest, f1_written (f1_run ops trig snap) = f1_durable (f1_run ops trig snap) ++ rest.
Proof. unfold f1_run. apply f1_fold_prefix. exists []. reflexivity. Qed.

(* for ANY order that ENDS with a flush: everything written is on disk *)
Lemma f1_flush_last (A : Type) (ops : list f1_op) (trig : A) (snap : list A) :
  f1_durable (f1_run (ops ++ [F1Flush]) trig snap) = f1_written (f1_run (ops ++ [F1Flush]) trig snap).
Proof. unfold f1_run. rewrite fold_left_app. cbn [fold_left f1_step f1_written f1_durable]. reflexivity. Qed.

(* a flush that comes BEFORE the snapshot loop leaves the whole snapshot (trigger included) off the disk: the
   round-7 seeded change C18-r7s2, as the model sees it *)
Lemma f1_early_flush_loses_snapshot (A : Type) (trig : A) (snap : list A) :
  f1_durable (f1_run [F1Magic; F1Header; F1Flush; F1Snapshot] trig snap) = [LMagic; LHeader trig] /\
  f1_written (f1_run [F1Magic; F1Header; F1Flush; F1Snapshot] trig snap) = full_report trig snap.
Proof. split; reflexivity. Qed.

(* ... and no flush at all guarantees nothing *)
Lemma f1_no_flush_nothing (A : Type) (trig : A) (snap : list A) :
  f1_durable (f1_run [F1Magic; F1Header; F1Snapshot] trig snap) = [].
Proof. reflexivity. Qed.

(* the translated order: the whole report is on disk when incident_declared returns *)
Lemma translated_order_complete (A : Type) (trig : A) (snap : list A) :
  f1_durable (f1_run incident_f1_ops trig snap) = full_report trig snap /\
  f1_written (f1_run incident_f1_ops trig snap) = full_report trig snap.
Proof. split; reflexivity. Qed.

(* the property's sentence at the moment msg() returns: incident_declared does not raise, and the file on disk is the
   header with the trigger followed by everything that was buffered (in the order of C18_incident_complete) -- for
   both reporters; for the trailing one these are exactly the lines the reporter holds (r_lines), later published *)
Lemma incident_on_disk_at_return c b i trig : nohost b ->
  snd (incident_declared c b i trig) = false /\
  on_disk_at_return b trig = full_report trig (sort_by_num (all_buffered b)) /\
  (forall x, In x (all_buffered b) -> In (LEvent x) (on_disk_at_return b trig)) /\
  In (LHeader trig) (on_disk_at_return b trig) /\
  (c_trailing c = true -> exists r, i_rep (fst (incident_declared c b i trig)) = Some r /\
                                    on_disk_at_return b trig = full_report (r_trigger r) (r_lines r)).
Proof.
  intros Hh.
  assert (E : on_disk_at_return b trig = full_report trig (sort_by_num (all_buffered b))).
  { unfold on_disk_at_return. apply (translated_order_complete event). }
  split; [apply (incident_declared_never_fails c b i trig Hh)|].
  split; [exact E|]. split; [|split].
  - intros x Hx. rewrite E. unfold full_report. right. right. apply in_map.
    apply (proj2 (sort_in (all_buffered b) x)). exact Hx.
  - rewrite E. unfold full_report. right. left. reflexivity.
  - intros Ht. rewrite (incident_declared_ok c b i trig Hh (enc_total _) (forallb_enc_total _)). rewrite Ht.
    eexists. split; [cbn; reflexivity|]. cbn [r_trigger r_lines]. exact E.
Qed.
