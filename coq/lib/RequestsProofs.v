(* C03 -- proofs about the request-table model (lib/Requests.v) instantiated with the programs translated
   from call.py / broker.py into gen/RequestsGen.v.  The closed-form lemmas (complete_step_closed, fail_step_closed,
   finish_step_closed) are where a change of the translated source shows up: they are proved by running the
   interpreter on the generated programs. *)
From Coq Require Import ZArith List Bool Lia.
Import ListNotations.
Require Import Verif.gen.RequestsGen Verif.lib.Requests.
Local Open Scope Z_scope.

Lemma run_is_exec_ps h o ps : forall x,
  (fix run (ps : list pstmt) (x : st * bool) {struct ps} : st * bool :=
     match ps with [] => x | p' :: ps' => run ps' (exec_p p' h o x) end) ps x = exec_ps ps h o x.
Proof. induction ps as [|p ps IH]; intros x; cbn [exec_ps]; [reflexivity|]. apply IH. Qed.

Lemma exec_p_raised p h o s : exec_p p h o (s, true) = (s, true).
Proof. destruct p; reflexivity. Qed.

Lemma exec_ps_raised ps h o s : exec_ps ps h o (s, true) = (s, true).
Proof. induction ps as [|p ps IH]; cbn [exec_ps]; [reflexivity|]. rewrite exec_p_raised. exact IH. Qed.

Lemma exec_p_unfold p h o s :
  exec_p p h o (s, false) =
  match get s h with
  | None => (s, false)
  | Some c =>
    match p with
    | PIfBroker body => if c_tracked c then exec_ps body h o (s, false) else (s, false)
    | PIfActive th el => if c_active c then exec_ps th h o (s, false) else exec_ps el h o (s, false)
    | PRemove => do_remove s (c_rid c)
    | PSetActive b => (set_calls s (upd h (set_active b) (calls s)), false)
    | PSetFailure => (s, false)
    | PCallback => (set_calls s (upd h (add_fire OResult) (calls s)), false)
    | PErrback => (set_calls s (upd h (add_fire o) (calls s)), false)
    | PLog => (s, false)
    end
  end.
Proof.
  destruct p; cbn [exec_p snd fst]; destruct (get s h) as [c|]; try reflexivity.
  - destruct (c_tracked c); [apply run_is_exec_ps | reflexivity].
  - destruct (c_active c); apply run_is_exec_ps.
Qed.

(* ---------- lists *)
Lemma nth_upd_same (l : list call) : forall h f c, nth_error l h = Some c -> nth_error (upd h f l) h = Some (f c).
Proof. induction l as [|a l IH]; intros [|h] f c H; cbn in *; try discriminate; [congruence | eauto]. Qed.

Lemma nth_upd_other (l : list call) : forall h h' f, h <> h' -> nth_error (upd h f l) h' = nth_error l h'.
Proof.
  induction l as [|a l IH]; intros [|h] [|h'] f H; cbn; try reflexivity; try congruence.
  apply IH. congruence.
Qed.

Lemma nth_upd_none (l : list call) : forall h f, nth_error l h = None -> upd h f l = l.
Proof. induction l as [|a l IH]; intros [|h] f H; cbn in *; try reflexivity; try discriminate. f_equal. eauto. Qed.

Lemma length_upd (l : list call) : forall h f, List.length (upd h f l) = List.length l.
Proof. induction l as [|a l IH]; intros [|h] f; cbn; auto. Qed.

Lemma nth_upd (l : list call) h h' f :
  nth_error (upd h f l) h' = if Nat.eqb h h' then option_map f (nth_error l h') else nth_error l h'.
Proof.
  destruct (Nat.eqb_spec h h') as [->|N].
  - destruct (nth_error l h') eqn:E; cbn.
    + eapply nth_upd_same; eauto.
    + rewrite nth_upd_none; auto.
  - apply nth_upd_other; auto.
Qed.

Lemma upd_upd (l : list call) : forall h f g, upd h g (upd h f l) = upd h (fun c => g (f c)) l.
Proof. induction l as [|a l IH]; intros [|h] f g; cbn; try reflexivity. f_equal. apply IH. Qed.

(* ---------- table *)
Lemma tbl_has_true rid t : tbl_has rid t = true <-> In rid (map fst t).
Proof.
  unfold tbl_has. rewrite existsb_exists. split.
  - intros [e [H1 H2]]. apply Z.eqb_eq in H2. subst. apply in_map. exact H1.
  - intros H. apply in_map_iff in H as [e [H1 H2]]. exists e. split; auto. apply Z.eqb_eq. auto.
Qed.

Lemma tbl_del_in rid t e : In e (tbl_del rid t) <-> In e t /\ fst e <> rid.
Proof.
  unfold tbl_del. rewrite filter_In. split; intros [H1 H2]; split; auto.
  - apply negb_true_iff in H2. apply Z.eqb_neq in H2. exact H2.
  - apply negb_true_iff. apply Z.eqb_neq. exact H2.
Qed.

Lemma tbl_find_some rid t h : tbl_find rid t = Some h -> In (rid, h) t.
Proof.
  induction t as [|[r k] t IH]; cbn; [discriminate|].
  destruct (Z.eqb_spec r rid) as [->|N]; intros H.
  - inversion H; subst. left. reflexivity.
  - right. auto.
Qed.

Lemma tbl_find_none rid t : tbl_find rid t = None -> ~ In rid (map fst t).
Proof.
  induction t as [|[r k] t IH]; cbn; [tauto|].
  destruct (Z.eqb_spec r rid) as [->|N]; intros H; [discriminate|].
  intros [E|E]; [congruence | apply IH; auto].
Qed.

Lemma NoDup_map_filter {A B} (f : A -> B) (p : A -> bool) l : NoDup (map f l) -> NoDup (map f (filter p l)).
Proof.
  induction l as [|a l IH]; cbn; intros H; [constructor|].
  inversion H; subst. destruct (p a); cbn; auto.
  constructor; auto. intros X. apply H2. apply in_map_iff in X as [y [E Y]]. apply filter_In in Y as [Y _].
  rewrite <- E. apply in_map. exact Y.
Qed.

(* ---------- closed forms of the translated methods *)
Definition deactivate_and_fire (o : outcome) (c : call) : call := add_fire o (set_active false c).
Definition fire (s : st) (h : nat) (o : outcome) : st := set_calls s (upd h (deactivate_and_fire o) (calls s)).

Definition complete_closed (s : st) (h : nat) : st :=
  match get s h with
  | None => s
  | Some c =>
    if c_tracked c then
      if tbl_has (c_rid c) (table s) then
        let s1 := set_table s (tbl_del (c_rid c) (table s)) in
        if c_active c then fire s1 h OResult else s1
      else bump_raised s
    else if c_active c then fire s h OResult else s
  end.

Definition fail_closed (s : st) (h : nat) (o : outcome) : st :=
  match get s h with
  | None => s
  | Some c =>
    if c_active c then
      if c_tracked c then
        if tbl_has (c_rid c) (table s) then fire (set_table s (tbl_del (c_rid c) (table s))) h o
        else bump_raised s
      else fire s h o
    else s
  end.

Lemma get_set_table s t h : get (set_table s t) h = get s h. Proof. reflexivity. Qed.
Lemma get_set_calls_upd s h f c : get s h = Some c -> get (set_calls s (upd h f (calls s))) h = Some (f c).
Proof. unfold get. cbn [calls set_calls]. apply nth_upd_same. Qed.

Ltac step_p := rewrite exec_p_unfold.

Lemma complete_step_closed s h : complete_step s h = complete_closed s h.
Proof.
  unfold complete_step, complete_closed, PendingRequest_complete. cbn [exec_ps].
  step_p. destruct (get s h) as [c|] eqn:G.
  2:{ step_p. rewrite G. reflexivity. }
  destruct (c_tracked c) eqn:T.
  - cbn [exec_ps]. step_p. rewrite G. unfold do_remove, removeRequest_kind.
    destruct (tbl_has (c_rid c) (table s)) eqn:H.
    + step_p. rewrite get_set_table, G.
      destruct (c_active c) eqn:Ac; cbn [exec_ps].
      * step_p. rewrite get_set_table, G. step_p.
        erewrite get_set_calls_upd by (rewrite get_set_table; exact G).
        cbn [fst]. unfold fire. cbn [calls set_calls set_table]. rewrite upd_upd. reflexivity.
      * step_p. rewrite get_set_table, G. reflexivity.
    + rewrite exec_p_raised. reflexivity.
  - step_p. rewrite G. destruct (c_active c) eqn:Ac; cbn [exec_ps].
    + step_p. rewrite G. step_p. erewrite get_set_calls_upd by exact G.
      cbn [fst]. unfold fire. cbn [calls set_calls]. rewrite upd_upd. reflexivity.
    + step_p. rewrite G. reflexivity.
Qed.

Lemma fail_step_closed s h o : fail_step s h o = fail_closed s h o.
Proof.
  unfold fail_step, fail_closed, PendingRequest_fail. cbn [exec_ps].
  step_p. destruct (get s h) as [c|] eqn:G; [|reflexivity].
  destruct (c_active c) eqn:Ac; cbn [exec_ps].
  2:{ step_p. rewrite G. reflexivity. }
  step_p. rewrite G. destruct (c_tracked c) eqn:T.
  - cbn [exec_ps]. step_p. rewrite G. unfold do_remove, removeRequest_kind.
    destruct (tbl_has (c_rid c) (table s)) eqn:H.
    + step_p. rewrite get_set_table, G. step_p.
      erewrite get_set_calls_upd by (rewrite get_set_table; exact G).
      step_p. erewrite get_set_calls_upd by (rewrite get_set_table; exact G).
      step_p. erewrite get_set_calls_upd by (rewrite get_set_table; exact G).
      cbn [fst]. unfold fire. cbn [calls set_calls set_table]. rewrite upd_upd. reflexivity.
    + rewrite !exec_p_raised. reflexivity.
  - step_p. rewrite G. step_p. erewrite get_set_calls_upd by exact G.
    step_p. erewrite get_set_calls_upd by exact G.
    step_p. erewrite get_set_calls_upd by exact G.
    cbn [fst]. unfold fire. cbn [calls set_calls]. rewrite upd_upd. reflexivity.
Qed.

Definition finish_closed (s : st) (o : outcome) : st :=
  if disconnected s then s
  else set_evq (set_disconnected s) (evq s ++ map (fun e => EFail (snd e) o) (table s)).

Lemma finish_step_closed s o : finish_step s o = finish_closed s o.
Proof.
  unfold finish_step, finish_closed, Broker_finish. cbn [exec_f].
  destruct (disconnected s); reflexivity.
Qed.

(* ---------- invariant *)
Definition call_ok (c : call) : Prop :=
  (List.length (c_fires c) <= 1)%nat /\
  (c_active c = true -> c_fires c = []) /\
  (c_active c = false -> c_twoway c = true -> List.length (c_fires c) = 1%nat) /\
  (c_tracked c = true -> c_twoway c = true) /\
  (c_twoway c = true -> c_active c = true -> c_tracked c = true).

Record Inv0 (s : st) : Prop := {
  I_calls : forall h c, get s h = Some c -> call_ok c;
  I_tbl : forall rid h, In (rid, h) (table s) ->
          exists c, get s h = Some c /\ c_rid c = rid /\ c_tracked c = true /\ c_active c = true;
  I_pend : forall h c, get s h = Some c -> c_tracked c = true -> c_active c = true -> In (c_rid c, h) (table s);
  I_fresh : forall h c, get s h = Some c -> c_tracked c = true -> first_reqid <= c_rid c < nextid s;
  I_uniq : forall h1 h2 c1 c2, get s h1 = Some c1 -> get s h2 = Some c2 ->
           c_tracked c1 = true -> c_tracked c2 = true -> c_rid c1 = c_rid c2 -> h1 = h2;
  I_nodup : NoDup (map fst (table s));
  I_next : first_reqid <= nextid s
}.

Definition Disc (s : st) : Prop :=
  disconnected s = true -> forall rid h, In (rid, h) (table s) -> exists o, In (EFail h o) (evq s).

(* the eventual queue only ever holds failures queued by finish() *)
Definition Quiet (s : st) : Prop := disconnected s = false -> forall h o, ~ In (EFail h o) (evq s).

Definition Inv (s : st) : Prop := Inv0 s /\ Disc s /\ Quiet s.

Lemma get_lt s h c : get s h = Some c -> (h < List.length (calls s))%nat.
Proof. unfold get. intros H. apply nth_error_Some. congruence. Qed.

Lemma get_push_old s c h c' : get s h = Some c' -> get (push s c) h = Some c'.
Proof.
  intros H. pose proof (get_lt _ _ _ H) as L. unfold get, push in *. cbn [calls set_calls].
  rewrite nth_error_app1; auto.
Qed.

Lemma get_push_new s c : get (push s c) (List.length (calls s)) = Some c.
Proof. unfold get, push. cbn [calls set_calls]. rewrite nth_error_app2 by lia. rewrite Nat.sub_diag. reflexivity. Qed.

Lemma get_push s c h c' : get (push s c) h = Some c' ->
  get s h = Some c' \/ (h = List.length (calls s) /\ c' = c).
Proof.
  unfold get, push. cbn [calls set_calls]. intros H.
  destruct (Nat.lt_ge_cases h (List.length (calls s))) as [L|L].
  - rewrite nth_error_app1 in H by auto. left. exact H.
  - rewrite nth_error_app2 in H by auto. right.
    destruct (h - List.length (calls s))%nat as [|k] eqn:E.
    + cbn in H. inversion H. split; [lia | reflexivity].
    + cbn in H. destruct k; discriminate.
Qed.

Lemma get_fire s h o h' :
  get (fire s h o) h' = if Nat.eqb h h' then option_map (deactivate_and_fire o) (get s h') else get s h'.
Proof. unfold get, fire. cbn [calls set_calls]. apply nth_upd. Qed.

Lemma inv0_init : Inv0 init.
Proof.
  split; unfold init, get; cbn; intros; try (destruct h; discriminate); try contradiction.
  - destruct h1; discriminate.
  - constructor.
  - lia.
Qed.

Lemma call_ok_fired o c : c_active c = true -> call_ok c -> call_ok (deactivate_and_fire o c).
Proof.
  intros A [H1 [H2 [H3 [H4 H5]]]]. unfold call_ok, deactivate_and_fire, add_fire, set_active. cbn.
  rewrite (H2 A). cbn. repeat split; auto; intros; discriminate.
Qed.

Lemma inv0_fire s h c o t' :
  Inv0 s -> get s h = Some c -> c_active c = true ->
  (t' = table s /\ c_tracked c = false) \/ (t' = tbl_del (c_rid c) (table s) /\ c_tracked c = true) ->
  Inv0 (fire (set_table s t') h o).
Proof.
  intros I G A Ht.
  assert (Hsub : forall e, In e t' -> In e (table s)).
  { destruct Ht as [[-> _]|[-> _]]; auto. intros e He. apply tbl_del_in in He. tauto. }
  assert (Hnoth : forall rid, ~ In (rid, h) t').
  { intros rid He. destruct Ht as [[-> T]|[-> T]].
    - destruct (I_tbl _ I _ _ He) as [c' [G' [_ [T' _]]]]. congruence.
    - apply tbl_del_in in He as [He Hr]. destruct (I_tbl _ I _ _ He) as [c' [G' [R' _]]]. cbn in Hr. congruence. }
  assert (Hget : forall h' c', get (fire (set_table s t') h o) h' = Some c' ->
            (h' = h /\ c' = deactivate_and_fire o c) \/ (h' <> h /\ get s h' = Some c')).
  { intros h' c'. rewrite get_fire, get_set_table. destruct (Nat.eqb_spec h h') as [<-|N].
    - rewrite G. cbn. intros X. inversion X. auto.
    - intros X. right. split; congruence. }
  split.
  - intros h' c' H. apply Hget in H as [[-> ->]|[_ H]]; [apply call_ok_fired; eauto using I_calls | eauto using I_calls].
  - intros rid h' He. cbn [table fire set_calls set_table] in He.
    assert (h' <> h) by (intros ->; eapply Hnoth; eauto).
    destruct (I_tbl _ I _ _ (Hsub _ He)) as [c' [G' R]]. exists c'. split; auto.
    rewrite get_fire, get_set_table. destruct (Nat.eqb_spec h h'); congruence.
  - intros h' c' H T' A'. cbn [table fire set_calls set_table].
    apply Hget in H as [[-> ->]|[N H]]; [cbn in A'; discriminate|].
    pose proof (I_pend _ I _ _ H T' A') as P.
    destruct Ht as [[-> _]|[-> T]]; auto.
    apply tbl_del_in. split; auto. cbn. intros E. apply N. eapply (I_uniq _ I); eauto.
  - intros h' c' H T'. cbn [nextid fire set_calls set_table].
    apply Hget in H as [[-> ->]|[N H]].
    + cbn in *. eapply (I_fresh _ I); eauto.
    + eapply (I_fresh _ I); eauto.
  - intros h1 h2 c1 c2 H1 H2 T1 T2 E.
    apply Hget in H1 as [[-> ->]|[N1 H1]]; apply Hget in H2 as [[-> ->]|[N2 H2]]; auto; cbn in *.
    + eapply (I_uniq _ I); eauto.
    + eapply (I_uniq _ I); eauto.
    + eapply (I_uniq _ I); eauto.
  - cbn [table fire set_calls set_table]. destruct Ht as [[-> _]|[-> _]]; [apply (I_nodup _ I)|].
    apply NoDup_map_filter. apply (I_nodup _ I).
  - cbn. apply (I_next _ I).
Qed.

Lemma inv0_bump s : Inv0 s -> Inv0 (bump_raised s).
Proof. intros I. destruct I. split; auto. Qed.

Lemma inv0_set_batch s b : Inv0 s -> Inv0 (set_batch s b).
Proof. intros I. destruct I. split; auto. Qed.

Lemma inv0_set_evq s q : Inv0 s -> Inv0 (set_evq s q).
Proof. intros I. destruct I. split; auto. Qed.

Lemma inv0_set_disc s : Inv0 s -> Inv0 (set_disconnected s).
Proof. intros I. destruct I. split; auto. Qed.

Lemma inv0_complete s h : Inv0 s -> Inv0 (complete_closed s h).
Proof.
  intros I. unfold complete_closed. destruct (get s h) as [c|] eqn:G; auto.
  destruct (c_tracked c) eqn:T.
  - destruct (tbl_has (c_rid c) (table s)) eqn:H; [|apply inv0_bump; auto].
    destruct (c_active c) eqn:A.
    + eapply inv0_fire; eauto.
    + exfalso. apply tbl_has_true in H. apply in_map_iff in H as [[r k] [E H]]. cbn in E. subst r.
      destruct (I_tbl _ I _ _ H) as [c' [G' [R' [T' A']]]].
      assert (k = h) by (eapply (I_uniq _ I); eauto). subst. congruence.
  - destruct (c_active c) eqn:A; auto.
    replace s with (set_table s (table s)) at 1 by (destruct s; reflexivity).
    eapply inv0_fire; eauto.
Qed.

Lemma inv0_fail s h o : Inv0 s -> Inv0 (fail_closed s h o).
Proof.
  intros I. unfold fail_closed. destruct (get s h) as [c|] eqn:G; auto.
  destruct (c_active c) eqn:A; auto.
  destruct (c_tracked c) eqn:T.
  - destruct (tbl_has (c_rid c) (table s)) eqn:H; [|apply inv0_bump; auto].
    eapply inv0_fire; eauto.
  - replace s with (set_table s (table s)) at 1 by (destruct s; reflexivity).
    eapply inv0_fire; eauto.
Qed.

Lemma NoDup_snoc {A} (l : list A) a : NoDup l -> ~ In a l -> NoDup (l ++ [a]).
Proof.
  induction l as [|b l IH]; cbn; intros H N.
  - constructor; [tauto | constructor].
  - inversion H; subst. constructor.
    + rewrite in_app_iff. cbn. intros [X|[X|[]]]; [tauto | subst; tauto].
    + apply IH; tauto.
Qed.

Lemma inv0_take_id s : Inv0 s -> Inv0 (take_id s).
Proof.
  intros I. split; try apply I.
  - intros h c G T. cbn [nextid take_id]. pose proof (I_fresh _ I h c G T). lia.
  - cbn. pose proof (I_next _ I). lia.
Qed.

Lemma inv0_push_untracked s c : Inv0 s -> c_tracked c = false -> call_ok c -> Inv0 (push s c).
Proof.
  intros I T OK. split.
  - intros h c' G. apply get_push in G as [G|[_ ->]]; eauto using I_calls.
  - intros rid h He. cbn in He. destruct (I_tbl _ I _ _ He) as [c' [G R]]. exists c'. split; auto.
    apply get_push_old. exact G.
  - intros h c' G T' A. cbn. apply get_push in G as [G|[_ ->]]; [eapply (I_pend _ I); eauto | congruence].
  - intros h c' G T'. cbn. apply get_push in G as [G|[_ ->]]; [eapply (I_fresh _ I); eauto | congruence].
  - intros h1 h2 c1 c2 G1 G2 T1 T2 E.
    apply get_push in G1 as [G1|[_ ->]]; [|congruence].
    apply get_push in G2 as [G2|[_ ->]]; [|congruence].
    eapply (I_uniq _ I); eauto.
  - cbn. apply (I_nodup _ I).
  - cbn. apply (I_next _ I).
Qed.

Definition new_tracked (rid : Z) : call := mkCall rid true true PendingRequest_active_default [].

Lemma inv0_push_tracked s :
  Inv0 s ->
  let s1 := push (take_id s) (new_tracked (nextid s)) in
  Inv0 (set_table s1 (table s1 ++ [(nextid s, List.length (calls s))])).
Proof.
  intros I s1.
  assert (OKn : call_ok (new_tracked (nextid s))).
  { unfold call_ok, new_tracked, PendingRequest_active_default. cbn. repeat split; auto; intros; discriminate. }
  assert (Hget : forall h c, get (set_table s1 (table s1 ++ [(nextid s, List.length (calls s))])) h = Some c ->
            get s h = Some c \/ (h = List.length (calls s) /\ c = new_tracked (nextid s))).
  { intros h c G. rewrite get_set_table in G. apply get_push in G. exact G. }
  assert (Hold : forall h c, get s h = Some c -> get (set_table s1 (table s1 ++ [(nextid s, List.length (calls s))])) h = Some c).
  { intros h c G. rewrite get_set_table. apply get_push_old. exact G. }
  split.
  - intros h c G. apply Hget in G as [G|[_ ->]]; eauto using I_calls.
  - intros rid h He. cbn [table set_table] in He. apply in_app_iff in He as [He|[He|[]]].
    + cbn in He. destruct (I_tbl _ I _ _ He) as [c [G R]]. exists c. split; auto.
    + inversion He; subst. exists (new_tracked (nextid s)). split.
      * rewrite get_set_table. apply (get_push_new (take_id s)).
      * cbn. auto.
  - intros h c G T A. cbn [table set_table]. apply in_app_iff. apply Hget in G as [G|[-> ->]].
    + left. cbn. eapply (I_pend _ I); eauto.
    + right. left. reflexivity.
  - intros h c G T. cbn [nextid set_table]. apply Hget in G as [G|[-> ->]].
    + pose proof (I_fresh _ I _ _ G T). cbn. lia.
    + cbn. pose proof (I_next _ I). lia.
  - intros h1 h2 c1 c2 G1 G2 T1 T2 E.
    apply Hget in G1 as [G1|[-> ->]]; apply Hget in G2 as [G2|[-> ->]]; auto.
    + eapply (I_uniq _ I); eauto.
    + pose proof (I_fresh _ I _ _ G1 T1). cbn in E. lia.
    + pose proof (I_fresh _ I _ _ G2 T2). cbn in E. lia.
  - cbn [table set_table]. rewrite map_app. cbn.
    apply NoDup_snoc; [apply (I_nodup _ I)|].
    intros X. apply in_map_iff in X as [[r k] [E X]]. cbn in E, X. subst r.
    destruct (I_tbl _ I _ _ X) as [c [G [R [T _]]]]. pose proof (I_fresh _ I _ _ G T). lia.
  - cbn. pose proof (I_next _ I). lia.
Qed.

Lemma inv0_call s k : Inv0 s -> Inv0 (call_step s k).
Proof.
  intros I. unfold call_step, oneway_silent_when_disconnected, newRequestID_refuses_when_disconnected.
  rewrite !andb_true_r.
  assert (D : call_ok (mkCall 0 true false false [ODeadRef])) by (unfold call_ok; cbn; repeat split; auto; intros; discriminate).
  destruct k.
  - destruct (disconnected s); [apply inv0_push_untracked; auto|].
    apply (inv0_push_tracked s I).
  - destruct (disconnected s); apply inv0_push_untracked; auto; unfold call_ok, PendingRequest_active_default; cbn;
      repeat split; auto; intros; discriminate.
  - destruct (disconnected s); [apply inv0_push_untracked; auto|].
    apply inv0_push_untracked; [apply inv0_take_id; auto | reflexivity |].
    unfold call_ok; cbn; repeat split; auto; intros; discriminate.
Qed.

Lemma inv0_finish s o : Inv0 s -> Inv0 (finish_closed s o).
Proof.
  intros I. unfold finish_closed. destruct (disconnected s); auto.
  apply inv0_set_evq. apply inv0_set_disc. exact I.
Qed.

(* one iteration of _turn under the translated turn_mode_of_source *)
Lemma turn_cases s :
  (evq s = [] /\ turn_step s = set_batch s 0) \/
  (exists h o q b, evq s = EFail h o :: q /\ turn_step s = fail_closed (set_batch (set_evq s q) b) h o) \/
  (exists r q b, evq s = EForeign r :: q /\ turn_step s = set_batch (set_evq s q) b).
Proof.
  unfold turn_step, turn_mode_of_source. destruct (evq s) as [|[h o|r] q] eqn:Q.
  - left. auto.
  - right. left. eexists h, o, q, _. split; [reflexivity|]. rewrite fail_step_closed. reflexivity.
  - right. right. eexists r, q, _. split; [reflexivity|]. destruct r; reflexivity.
Qed.

Lemma inv0_step s x : Inv0 s -> Inv0 (step s x).
Proof.
  intros I. destruct x; cbn [step].
  - apply inv0_call; auto.
  - destruct (tbl_find rid (table s)); auto. rewrite complete_step_closed. apply inv0_complete; auto.
  - destruct (tbl_find rid (table s)); auto. rewrite fail_step_closed. apply inv0_fail; auto.
  - destruct (tbl_find rid (table s)); auto. rewrite fail_step_closed. apply inv0_fail; auto.
  - rewrite complete_step_closed. apply inv0_complete; auto.
  - rewrite fail_step_closed. apply inv0_fail; auto.
  - rewrite finish_step_closed. apply inv0_finish; auto.
  - apply inv0_set_evq. auto.
  - destruct (turn_cases s) as [[_ ->]|[[h [o [q [b [_ ->]]]]]|[r [q [b [_ ->]]]]]].
    + apply inv0_set_batch. auto.
    + apply inv0_fail. apply inv0_set_batch. apply inv0_set_evq. auto.
    + apply inv0_set_batch. apply inv0_set_evq. auto.
Qed.

(* ---------- frame facts *)
Lemma frame_complete s h :
  disconnected (complete_closed s h) = disconnected s /\ evq (complete_closed s h) = evq s /\
  nextid (complete_closed s h) = nextid s /\
  List.length (calls (complete_closed s h)) = List.length (calls s) /\
  (forall e, In e (table (complete_closed s h)) -> In e (table s)).
Proof.
  unfold complete_closed. destruct (get s h) as [c|]; [|tauto].
  destruct (c_tracked c); [destruct (tbl_has (c_rid c) (table s))|]; try destruct (c_active c);
    cbn; rewrite ?length_upd; repeat split; auto; intros e He; apply tbl_del_in in He; tauto.
Qed.

Lemma frame_fail s h o :
  disconnected (fail_closed s h o) = disconnected s /\ evq (fail_closed s h o) = evq s /\
  nextid (fail_closed s h o) = nextid s /\
  List.length (calls (fail_closed s h o)) = List.length (calls s) /\
  (forall e, In e (table (fail_closed s h o)) -> In e (table s)).
Proof.
  unfold fail_closed. destruct (get s h) as [c|]; [|tauto].
  destruct (c_active c); [|tauto].
  destruct (c_tracked c); [destruct (tbl_has (c_rid c) (table s))|];
    cbn; rewrite ?length_upd; repeat split; auto; intros e He; apply tbl_del_in in He; tauto.
Qed.

Lemma frame_call s k :
  disconnected (call_step s k) = disconnected s /\ evq (call_step s k) = evq s /\
  (disconnected s = true -> table (call_step s k) = table s).
Proof.
  unfold call_step, oneway_silent_when_disconnected, newRequestID_refuses_when_disconnected.
  rewrite !andb_true_r. destruct k; destruct (disconnected s) eqn:E; cbn; rewrite ?E; repeat split; auto; intros H; discriminate H.
Qed.

Lemma disc_shrink s s' :
  Disc s -> disconnected s' = disconnected s -> evq s' = evq s -> (forall e, In e (table s') -> In e (table s)) -> Disc s'.
Proof. intros D E1 E2 Sub Hd rid h He. rewrite E2. apply (D (eq_trans (eq_sym E1) Hd) rid h). auto. Qed.

Lemma disc_step s x : Inv0 s -> Disc s -> Disc (step s x).
Proof.
  intros I D. destruct x; cbn [step].
  - destruct (frame_call s k) as [E1 [E2 E3]]. intros Hd. rewrite E1 in Hd. rewrite E2, (E3 Hd). apply D. exact Hd.
  - destruct (tbl_find rid (table s)); auto. rewrite complete_step_closed.
    destruct (frame_complete s n) as [E1 [E2 [_ [_ Sub]]]]. eapply disc_shrink; eauto.
  - destruct (tbl_find rid (table s)); auto. rewrite fail_step_closed.
    destruct (frame_fail s n ORemoteError) as [E1 [E2 [_ [_ Sub]]]]. eapply disc_shrink; eauto.
  - destruct (tbl_find rid (table s)); auto. rewrite fail_step_closed.
    destruct (frame_fail s n OViolation) as [E1 [E2 [_ [_ Sub]]]]. eapply disc_shrink; eauto.
  - rewrite complete_step_closed. destruct (frame_complete s h) as [E1 [E2 [_ [_ Sub]]]]. eapply disc_shrink; eauto.
  - rewrite fail_step_closed. destruct (frame_fail s h o) as [E1 [E2 [_ [_ Sub]]]]. eapply disc_shrink; eauto.
  - rewrite finish_step_closed. unfold finish_closed. destruct (disconnected s) eqn:Hd; auto.
    intros _ rid h He. cbn in *. exists (reason_outcome r). apply in_app_iff. right.
    apply in_map_iff. exists (rid, h). auto.
  - intros Hd rid h He. cbn in *. destruct (D Hd rid h He) as [o Ho]. exists o. apply in_app_iff. auto.
  - destruct (turn_cases s) as [[_ ->]|[[h [o [q [b [Q ->]]]]]|[r [q [b [Q ->]]]]]].
    + exact D.
    + intros Hd rid h' He.
      destruct (frame_fail (set_batch (set_evq s q) b) h o) as [E1 [E2 [_ [_ Sub]]]].
      rewrite E1 in Hd. rewrite E2. cbn [disconnected evq set_evq set_batch table] in *.
      pose proof (Sub _ He) as He0.
      destruct (D Hd rid h' He0) as [o' Ho']. rewrite Q in Ho'. destruct Ho' as [X|X]; [|eauto].
      inversion X; subst h' o'. exfalso.
      destruct (I_tbl _ I _ _ He0) as [c [G [R [T A]]]].
      pose proof (I_pend _ I _ _ G T A) as P.
      unfold fail_closed in He.
      change (get (set_batch (set_evq s q) b) h) with (get s h) in He. rewrite G, A, T in He.
      cbn [table set_evq set_batch] in He.
      assert (Hh : tbl_has (c_rid c) (table s) = true) by (apply tbl_has_true; apply in_map_iff; exists (c_rid c, h); auto).
      rewrite Hh in He. cbn in He. apply tbl_del_in in He as [_ N]. cbn in N. congruence.
    + intros Hd rid h He. cbn in *. destruct (D Hd rid h He) as [o Ho]. rewrite Q in Ho.
      destruct Ho as [X|X]; [discriminate | eauto].
Qed.

Lemma quiet_step s x : Quiet s -> Quiet (step s x).
Proof.
  intros Q. destruct x; cbn [step].
  - destruct (frame_call s k) as [E1 [E2 _]]. intros Hd. rewrite E2. apply Q. congruence.
  - destruct (tbl_find rid (table s)); auto. rewrite complete_step_closed.
    destruct (frame_complete s n) as [E1 [E2 _]]. intros Hd. rewrite E2. apply Q. congruence.
  - destruct (tbl_find rid (table s)); auto. rewrite fail_step_closed.
    destruct (frame_fail s n ORemoteError) as [E1 [E2 _]]. intros Hd. rewrite E2. apply Q. congruence.
  - destruct (tbl_find rid (table s)); auto. rewrite fail_step_closed.
    destruct (frame_fail s n OViolation) as [E1 [E2 _]]. intros Hd. rewrite E2. apply Q. congruence.
  - rewrite complete_step_closed. destruct (frame_complete s h) as [E1 [E2 _]]. intros Hd. rewrite E2. apply Q. congruence.
  - rewrite fail_step_closed. destruct (frame_fail s h o) as [E1 [E2 _]]. intros Hd. rewrite E2. apply Q. congruence.
  - rewrite finish_step_closed. unfold finish_closed. destruct (disconnected s) eqn:Hd; auto.
    intros X. cbn in X. discriminate.
  - intros Hd h o X. cbn in *. apply in_app_iff in X as [X|[X|[]]]; [apply (Q Hd h o X) | discriminate].
  - destruct (turn_cases s) as [[_ ->]|[[h [o [q [b [E ->]]]]]|[r [q [b [E ->]]]]]].
    + exact Q.
    + destruct (frame_fail (set_batch (set_evq s q) b) h o) as [E1 [E2 _]]. intros Hd. rewrite E1 in Hd. cbn in Hd.
      exfalso. apply (Q Hd h o). rewrite E. left. reflexivity.
    + intros Hd h o X. cbn in *. apply (Q Hd h o). rewrite E. right. exact X.
Qed.

Lemma inv_init : Inv init.
Proof. split; [apply inv0_init | split; [intros H; discriminate | intros _ h o X; exact X]]. Qed.

Lemma inv_step s x : Inv s -> Inv (step s x).
Proof. intros [I [D Q]]. split; [apply inv0_step | split; [apply disc_step | apply quiet_step]]; auto. Qed.

Lemma inv_run_from ops : forall s, Inv s -> Inv (run_from s ops).
Proof. induction ops as [|x ops IH]; intros s I; cbn; auto. apply IH. apply inv_step. exact I. Qed.

Lemma inv_run ops : Inv (run ops).
Proof. apply inv_run_from. apply inv_init. Qed.

(* ---------- the property theorems *)

(* 1. nothing fires twice *)
Theorem at_most_once : forall ops h c, get (run ops) h = Some c -> (List.length (c_fires c) <= 1)%nat.
Proof. intros ops h c G. destruct (inv_run ops) as [I _]. apply (I_calls _ I _ _ G). Qed.

(* 2. the table holds exactly the requests that were registered and have not fired *)
Theorem table_iff_pending : forall ops rid,
  In rid (map fst (table (run ops))) <->
  exists h c, get (run ops) h = Some c /\ c_tracked c = true /\ c_rid c = rid /\ c_fires c = [].
Proof.
  intros ops rid. destruct (inv_run ops) as [I _]. split.
  - intros H. apply in_map_iff in H as [[r h] [E H]]. cbn in E. subst r.
    destruct (I_tbl _ I _ _ H) as [c [G [R [T A]]]]. exists h, c. repeat split; auto.
    destruct (I_calls _ I _ _ G) as [_ [F _]]. auto.
  - intros [h [c [G [T [R F]]]]].
    destruct (I_calls _ I _ _ G) as [_ [_ [F1 [F2 _]]]].
    destruct (c_active c) eqn:A.
    + subst rid. apply in_map_iff. exists (c_rid c, h). split; auto. apply (I_pend _ I _ _ G T A).
    + specialize (F1 eq_refl (F2 T)). rewrite F in F1. discriminate.
Qed.

Theorem table_keys_unique : forall ops, NoDup (map fst (table (run ops))).
Proof. intros ops. destruct (inv_run ops) as [I _]. apply (I_nodup _ I). Qed.

Theorem reqids_unique_and_fresh : forall ops h1 h2 c1 c2,
  get (run ops) h1 = Some c1 -> get (run ops) h2 = Some c2 -> c_tracked c1 = true -> c_tracked c2 = true ->
  (c_rid c1 = c_rid c2 -> h1 = h2) /\ oneway_reqid < c_rid c1 < nextid (run ops).
Proof.
  intros ops h1 h2 c1 c2 G1 G2 T1 T2. destruct (inv_run ops) as [I _]. split.
  - eapply (I_uniq _ I); eauto.
  - pose proof (I_fresh _ I _ _ G1 T1). unfold oneway_reqid, first_reqid in *. lia.
Qed.

(* 3. after the connection is gone and the eventual queue has drained, nothing is pending and every
      callRemote has fired exactly once *)
Lemma drained_state s : Inv s -> disconnected s = true -> evq s = [] ->
  table s = [] /\ forall h c, get s h = Some c -> c_twoway c = true -> List.length (c_fires c) = 1%nat.
Proof.
  intros [I [D _]] Hd Q.
  assert (Tn : table s = []).
  { destruct (table s) as [|[r h] t] eqn:E; auto. destruct (D Hd r h) as [o Ho]; [rewrite E; left; reflexivity|].
    rewrite Q in Ho. contradiction. }
  split; auto. intros h c G Tw.
  destruct (I_calls _ I _ _ G) as [_ [_ [F1 [_ F3]]]].
  destruct (c_active c) eqn:A; auto.
  pose proof (I_pend _ I _ _ G (F3 Tw eq_refl) A) as P. rewrite Tn in P. contradiction.
Qed.

Theorem drained_after_loss : forall ops,
  disconnected (run ops) = true -> evq (run ops) = [] ->
  table (run ops) = [] /\
  forall h c, get (run ops) h = Some c -> c_twoway c = true -> List.length (c_fires c) = 1%nat.
Proof. intros ops. apply drained_state. apply inv_run. Qed.

Lemma turn_frame s : disconnected (step s Turn) = disconnected s /\ evq (step s Turn) = tl (evq s) /\
  List.length (calls (step s Turn)) = List.length (calls s).
Proof.
  change (step s Turn) with (turn_step s).
  destruct (turn_cases s) as [[Q ->]|[[h [o [q [b [Q ->]]]]]|[r [q [b [Q ->]]]]]]; rewrite Q.
  - cbn. rewrite Q. auto.
  - destruct (frame_fail (set_batch (set_evq s q) b) h o) as [E1 [E2 [_ [E4 _]]]]. rewrite E1, E2, E4. auto.
  - auto.
Qed.

Lemma turns_drain n : forall s, disconnected (run_from s (repeat Turn n)) = disconnected s /\
  evq (run_from s (repeat Turn n)) = skipn n (evq s) /\
  List.length (calls (run_from s (repeat Turn n))) = List.length (calls s).
Proof.
  induction n as [|n IH]; intros s; [cbn; auto|].
  cbn [repeat run_from fold_left]. destruct (IH (step s Turn)) as [E1 [E2 E3]]. unfold run_from in *.
  destruct (turn_frame s) as [F1 [F2 F3]]. rewrite E1, E2, E3, F1, F2, F3.
  repeat split; auto. destruct (evq s); cbn; [destruct n|]; reflexivity.
Qed.

Lemma finish_disconnects s r : disconnected (step s (Finish r)) = true.
Proof. cbn [step]. rewrite finish_step_closed. unfold finish_closed. destruct (disconnected s) eqn:E; auto. Qed.

(* ... and that state is always reached: losing the connection and letting the queued eventual-sends run
   (as many turns as there are queued entries) drains everything *)
Theorem loss_then_drain : forall ops r,
  let s1 := run (ops ++ [Finish r]) in
  let s2 := run_from s1 (repeat Turn (List.length (evq s1))) in
  disconnected s2 = true /\ evq s2 = [] /\ table s2 = [] /\
  List.length (calls s2) = List.length (calls (run ops)) /\
  forall h c, get s2 h = Some c -> c_twoway c = true -> List.length (c_fires c) = 1%nat.
Proof.
  intros ops r s1 s2.
  assert (I1 : Inv s1) by apply inv_run.
  assert (I2 : Inv s2) by (apply inv_run_from; exact I1).
  destruct (turns_drain (List.length (evq s1)) s1) as [E1 [E2 E3]]. fold s2 in E1, E2, E3.
  assert (Hd : disconnected s2 = true).
  { rewrite E1. unfold s1, run. rewrite fold_left_app. cbn [fold_left]. apply finish_disconnects. }
  assert (Q : evq s2 = []) by (rewrite E2; apply skipn_all).
  destruct (drained_state s2 I2 Hd Q) as [Tn F].
  repeat split; auto.
  rewrite E3. unfold s1, run. rewrite fold_left_app. cbn [fold_left step]. rewrite finish_step_closed.
  unfold finish_closed. destruct (disconnected (fold_left step ops init)); reflexivity.
Qed.

(* ---------- 4. the first outcome is final *)
Definition extends (c c' : call) : Prop :=
  c_rid c' = c_rid c /\ c_twoway c' = c_twoway c /\ c_tracked c' = c_tracked c /\
  exists extra, c_fires c' = c_fires c ++ extra.

Lemma extends_refl c : extends c c.
Proof. repeat split; auto. exists []. rewrite app_nil_r. reflexivity. Qed.

Lemma extends_trans a b c : extends a b -> extends b c -> extends a c.
Proof.
  intros [A1 [A2 [A3 [e1 A4]]]] [B1 [B2 [B3 [e2 B4]]]]. repeat split; try congruence.
  exists (e1 ++ e2). rewrite B4, A4, app_assoc. reflexivity.
Qed.

Lemma fire_extends s t h o h' c : get s h' = Some c ->
  exists c', get (fire (set_table s t) h o) h' = Some c' /\ extends c c'.
Proof.
  intros G. rewrite get_fire, get_set_table. destruct (Nat.eqb h h').
  - rewrite G. cbn. eexists; split; [reflexivity|]. repeat split; auto. exists [o]. reflexivity.
  - exists c. split; auto. apply extends_refl.
Qed.

Lemma complete_extends s h h' c : get s h' = Some c ->
  exists c', get (complete_closed s h) h' = Some c' /\ extends c c'.
Proof.
  intros G. unfold complete_closed. destruct (get s h) as [d|]; [|eauto using extends_refl].
  destruct (c_tracked d); [destruct (tbl_has (c_rid d) (table s))|]; try destruct (c_active d);
    eauto using extends_refl, fire_extends.
  replace s with (set_table s (table s)) at 1 by (destruct s; reflexivity). apply fire_extends. exact G.
Qed.

Lemma fail_extends s h o h' c : get s h' = Some c ->
  exists c', get (fail_closed s h o) h' = Some c' /\ extends c c'.
Proof.
  intros G. unfold fail_closed. destruct (get s h) as [d|]; [|eauto using extends_refl].
  destruct (c_active d); [|eauto using extends_refl].
  destruct (c_tracked d); [destruct (tbl_has (c_rid d) (table s))|]; eauto using extends_refl, fire_extends.
  replace s with (set_table s (table s)) at 1 by (destruct s; reflexivity). apply fire_extends. exact G.
Qed.

Lemma call_extends s k h c : get s h = Some c -> get (call_step s k) h = Some c.
Proof.
  intros G. unfold call_step. destruct k;
    repeat match goal with |- context [if ?b then _ else _] => destruct b end;
    try (apply get_push_old; exact G).
Qed.

Lemma step_extends s x h c : get s h = Some c -> exists c', get (step s x) h = Some c' /\ extends c c'.
Proof.
  intros G. destruct x; cbn [step].
  - exists c. split; [apply call_extends; auto | apply extends_refl].
  - destruct (tbl_find rid (table s)); [rewrite complete_step_closed; apply complete_extends; auto | eauto using extends_refl].
  - destruct (tbl_find rid (table s)); [rewrite fail_step_closed; apply fail_extends; auto | eauto using extends_refl].
  - destruct (tbl_find rid (table s)); [rewrite fail_step_closed; apply fail_extends; auto | eauto using extends_refl].
  - rewrite complete_step_closed; apply complete_extends; auto.
  - rewrite fail_step_closed; apply fail_extends; auto.
  - rewrite finish_step_closed. unfold finish_closed. destruct (disconnected s); exists c; split; auto using extends_refl.
  - exists c. split; auto using extends_refl.
  - destruct (turn_cases s) as [[_ ->]|[[h' [o [q [b [_ ->]]]]]|[r [q [b [_ ->]]]]]].
    + exists c. split; auto using extends_refl.
    + apply fail_extends. exact G.
    + exists c. split; auto using extends_refl.
Qed.

Lemma run_from_extends ops : forall s h c, get s h = Some c ->
  exists c', get (run_from s ops) h = Some c' /\ extends c c'.
Proof.
  induction ops as [|x ops IH]; intros s h c G; cbn; [eauto using extends_refl|].
  destruct (step_extends s x h c G) as [c1 [G1 E1]].
  destruct (IH _ _ _ G1) as [c2 [G2 E2]]. exists c2. split; auto. eapply extends_trans; eauto.
Qed.

(* whatever happens later (ops2 arbitrary), a Deferred that has fired with outcome o keeps exactly that one firing *)
Theorem first_outcome_is_final : forall ops1 ops2 h c o,
  get (run ops1) h = Some c -> c_fires c = [o] ->
  exists c', get (run (ops1 ++ ops2)) h = Some c' /\ c_fires c' = [o] /\ c_rid c' = c_rid c /\ c_twoway c' = c_twoway c.
Proof.
  intros ops1 ops2 h c o G F.
  destruct (run_from_extends ops2 _ _ _ G) as [c' [G' [E1 [E2 [E3 [extra E4]]]]]].
  assert (R : run (ops1 ++ ops2) = run_from (run ops1) ops2) by (unfold run, run_from; apply fold_left_app).
  rewrite <- R in G'. exists c'. repeat split; auto.
  pose proof (at_most_once _ _ _ G') as L. rewrite E4, F in *. cbn in L.
  destruct extra; [reflexivity | cbn in L; lia].
Qed.

(* handles are stable: a call never disappears and keeps its request id *)
Theorem calls_persist : forall ops1 ops2 h c,
  get (run ops1) h = Some c -> exists c', get (run (ops1 ++ ops2)) h = Some c' /\ extends c c'.
Proof.
  intros ops1 ops2 h c G.
  assert (R : run (ops1 ++ ops2) = run_from (run ops1) ops2) by (unfold run, run_from; apply fold_left_app).
  rewrite R. apply run_from_extends. exact G.
Qed.

(* ---------- 5. late events fire nothing; where the KeyError comes from *)
Theorem late_events_fire_nothing : forall ops h c,
  get (run ops) h = Some c -> c_active c = false ->
  calls (step (run ops) (Complete h)) = calls (run ops) /\
  table (step (run ops) (Complete h)) = table (run ops) /\
  (forall o, step (run ops) (Fail h o) = run ops) /\
  (c_tracked c = true ->
     step (run ops) (Answer (c_rid c)) = run ops /\ step (run ops) (Error (c_rid c)) = run ops /\
     step (run ops) (AnswerViolation (c_rid c)) = run ops).
Proof.
  intros ops h c G A. destruct (inv_run ops) as [I _]. set (s := run ops) in *.
  assert (Hno : c_tracked c = true -> tbl_has (c_rid c) (table s) = false).
  { intros T. destruct (tbl_has (c_rid c) (table s)) eqn:H; auto. exfalso.
    apply tbl_has_true in H. apply in_map_iff in H as [[r k] [E H]]. cbn in E. subst r.
    destruct (I_tbl _ I _ _ H) as [c' [G' [R' [T' A']]]].
    assert (k = h) by (eapply (I_uniq _ I); eauto). subst. congruence. }
  cbn [step]. rewrite complete_step_closed. unfold complete_closed. rewrite G, A.
  split; [|split; [|split]].
  - destruct (c_tracked c); [rewrite Hno by reflexivity|]; reflexivity.
  - destruct (c_tracked c); [rewrite Hno by reflexivity|]; reflexivity.
  - intros o. rewrite fail_step_closed. unfold fail_closed. rewrite G, A. reflexivity.
  - intros T. specialize (Hno T).
    assert (F : tbl_find (c_rid c) (table s) = None).
    { destruct (tbl_find (c_rid c) (table s)) eqn:F; auto. apply tbl_find_some in F.
      assert (X : tbl_has (c_rid c) (table s) = true) by (apply tbl_has_true; apply in_map_iff; eexists; split; [|exact F]; reflexivity).
      congruence. }
    rewrite F. auto.
Qed.

(* PendingRequest.fail never raises, Answer/Error from the wire never raise; the only exception is the KeyError of
   removeRequest when complete() is called on a request object that was registered and is already retired -- and
   that changes no Deferred and no table entry *)
Theorem keyerror_only_from_late_complete : forall ops x,
  raised (step (run ops) x) = raised (run ops) \/
  (raised (step (run ops) x) = S (raised (run ops)) /\
   exists h c, x = Complete h /\ get (run ops) h = Some c /\ c_tracked c = true /\ c_active c = false /\
               calls (step (run ops) x) = calls (run ops) /\ table (step (run ops) x) = table (run ops)).
Proof.
  intros ops x. destruct (inv_run ops) as [I _]. set (s := run ops) in *.
  assert (HF : forall s0 h o, Inv0 s0 -> raised (fail_closed s0 h o) = raised s0).
  { intros s0 h o I0. unfold fail_closed. destruct (get s0 h) as [c|] eqn:G; auto.
    destruct (c_active c) eqn:A; auto. destruct (c_tracked c) eqn:T; auto.
    destruct (tbl_has (c_rid c) (table s0)) eqn:H; auto. exfalso.
    pose proof (I_pend _ I0 _ _ G T A) as P.
    assert (X : tbl_has (c_rid c) (table s0) = true) by (apply tbl_has_true; apply in_map_iff; eexists; split; [|exact P]; reflexivity).
    congruence. }
  assert (HC : forall h, raised (complete_closed s h) = raised s \/
             (raised (complete_closed s h) = S (raised s) /\ exists c, get s h = Some c /\ c_tracked c = true /\ c_active c = false /\
              calls (complete_closed s h) = calls s /\ table (complete_closed s h) = table s)).
  { intros h. unfold complete_closed. destruct (get s h) as [c|] eqn:G; auto.
    destruct (c_tracked c) eqn:T; [|destruct (c_active c); auto].
    destruct (tbl_has (c_rid c) (table s)) eqn:H; [destruct (c_active c); auto|].
    right. split; [reflexivity|]. exists c. repeat split; auto.
    destruct (c_active c) eqn:A; auto. exfalso.
    pose proof (I_pend _ I _ _ G T A) as P.
    assert (X : tbl_has (c_rid c) (table s) = true) by (apply tbl_has_true; apply in_map_iff; eexists; split; [|exact P]; reflexivity).
    congruence. }
  destruct x; cbn [step].
  - left. unfold call_step. destruct k; repeat match goal with |- context [if ?b then _ else _] => destruct b end; reflexivity.
  - destruct (tbl_find rid (table s)) as [h|] eqn:F; auto. rewrite complete_step_closed.
    destruct (HC h) as [E|[E [c [G [T [A _]]]]]]; auto. exfalso.
    apply tbl_find_some in F. destruct (I_tbl _ I _ _ F) as [c' [G' [_ [_ A']]]]. congruence.
  - destruct (tbl_find rid (table s)); auto. rewrite fail_step_closed. left. apply HF. auto.
  - destruct (tbl_find rid (table s)); auto. rewrite fail_step_closed. left. apply HF. auto.
  - rewrite complete_step_closed. destruct (HC h) as [E|[E [c R]]]; auto. right. split; auto. exists h, c. tauto.
  - rewrite fail_step_closed. left. apply HF. auto.
  - rewrite finish_step_closed. unfold finish_closed. destruct (disconnected s); auto.
  - left. reflexivity.
  - left. destruct (turn_cases s) as [[_ ->]|[[h [o [q [b [_ ->]]]]]|[r [q [b [_ ->]]]]]]; try reflexivity.
    rewrite HF by (apply inv0_set_batch; apply inv0_set_evq; auto). reflexivity.
Qed.

(* ---------- 6. a callRemote on a dead connection fails at once with DeadReferenceError and is never registered *)
Theorem call_after_loss_is_dead : forall ops k,
  disconnected (run ops) = true -> k <> KOneWay ->
  let s' := step (run ops) (Call k) in
  exists c, get s' (List.length (calls (run ops))) = Some c /\ c_fires c = [ODeadRef] /\ c_tracked c = false /\
            table s' = table (run ops) /\ evq s' = evq (run ops).
Proof.
  intros ops k Hd Hk s'. unfold s'. cbn [step]. unfold call_step, newRequestID_refuses_when_disconnected.
  rewrite Hd. cbn [andb]. destruct k; try congruence;
    (eexists; split; [apply get_push_new | repeat split; reflexivity]).
Qed.

(* a wire answer for an id that is not pending (never issued, already answered, already failed) changes nothing *)
Theorem unknown_reqid_ignored : forall ops rid,
  ~ In rid (map fst (table (run ops))) ->
  step (run ops) (Answer rid) = run ops /\ step (run ops) (Error rid) = run ops /\
  step (run ops) (AnswerViolation rid) = run ops.
Proof.
  intros ops rid N. cbn [step].
  destruct (tbl_find rid (table (run ops))) eqn:F; [|auto].
  exfalso. apply N. apply tbl_find_some in F. apply in_map_iff. eexists; split; [|exact F]. reflexivity.
Qed.

(* ---------- 7. the outcome given by a lost connection *)

(* the code's test (translated: lost_test_of_source, lost_connection_errors_listed) implements the documented mapping
   "all connection-lost errors become DeadReferenceError": listed classes AND their subclasses *)
Theorem lost_reason_is_DeadReferenceError : forall r, is_lost r = true -> reason_outcome r = ODeadRef.
Proof. intros [c|c|]; cbn; try discriminate; intros _; destruct c; reflexivity. Qed.

Theorem unrelated_reason_passes_through : reason_outcome RUnrelated = OOther.
Proof. reflexivity. Qed.

Lemma fail_closed_get s h' o h c : Inv0 s -> get s h = Some c ->
  get (fail_closed s h' o) h = Some c \/
  (h' = h /\ c_fires c = [] /\ exists c', get (fail_closed s h' o) h = Some c' /\ c_fires c' = [o]).
Proof.
  intros I G. unfold fail_closed. destruct (get s h') as [d|] eqn:G'; auto.
  destruct (c_active d) eqn:A; auto.
  assert (F : forall t, get (fire (set_table s t) h' o) h = Some c \/
     (h' = h /\ c_fires c = [] /\ exists c', get (fire (set_table s t) h' o) h = Some c' /\ c_fires c' = [o])).
  { intros t. rewrite get_fire, get_set_table. destruct (Nat.eqb_spec h' h) as [->|N]; auto.
    right. split; auto. rewrite G in G'. inversion G'; subst d.
    destruct (I_calls _ I _ _ G) as [_ [E _]]. specialize (E A). split; auto.
    rewrite G. cbn. eexists. split; [reflexivity|]. cbn. rewrite E. reflexivity. }
  destruct (c_tracked d); [destruct (tbl_has (c_rid d) (table s))|]; auto.
  replace s with (set_table s (table s)) at 1 3 by (destruct s; reflexivity). apply F.
Qed.

Definition outP (h : nat) (o : outcome) (s : st) : Prop :=
  (forall o', In (EFail h o') (evq s) -> o' = o) /\
  exists c, get s h = Some c /\ (c_fires c = [] \/ c_fires c = [o]).

Lemma outP_turn h o s : Inv0 s -> outP h o s -> outP h o (step s Turn).
Proof.
  intros I [Q [c [G F]]]. change (step s Turn) with (turn_step s).
  destruct (turn_cases s) as [[E ->]|[[h' [o' [q [b [E ->]]]]]|[r [q [b [E ->]]]]]].
  - split; eauto.
  - destruct (frame_fail (set_batch (set_evq s q) b) h' o') as [_ [E2 _]].
    split.
    + intros o'' H. rewrite E2 in H. cbn in H. apply Q. rewrite E. right. exact H.
    + destruct (fail_closed_get (set_batch (set_evq s q) b) h' o' h c (inv0_set_batch _ _ (inv0_set_evq _ _ I)) G)
        as [X|[-> [F0 [c' [X Y]]]]].
      * exists c. auto.
      * exists c'. split; auto. right. rewrite Y. f_equal. apply Q. rewrite E. left. reflexivity.
  - split.
    + intros o'' H. cbn in H. apply Q. rewrite E. right. exact H.
    + exists c. auto.
Qed.

Lemma outP_turns h o n : forall s, Inv s -> outP h o s -> outP h o (run_from s (repeat Turn n)).
Proof.
  induction n as [|n IH]; intros s I P; [exact P|].
  cbn [repeat run_from fold_left]. apply (IH (step s Turn)); [apply inv_step; auto | apply outP_turn; [apply I | auto]].
Qed.

(* every callRemote that is pending when the connection ends (connected until then) fires with exactly the outcome the
   reason maps to -- and nothing else; with lost_reason_is_DeadReferenceError: DeadReferenceError for every lost-connection
   reason, subclasses included *)
Theorem loss_outcome : forall ops r h c,
  disconnected (run ops) = false -> get (run ops) h = Some c -> c_twoway c = true -> c_fires c = [] ->
  let s1 := run (ops ++ [Finish r]) in
  let s2 := run_from s1 (repeat Turn (List.length (evq s1))) in
  exists c', get s2 h = Some c' /\ c_fires c' = [reason_outcome r].
Proof.
  intros ops r h c Hd G Tw F s1 s2.
  destruct (inv_run ops) as [I [_ Qt]].
  assert (S1 : s1 = finish_closed (run ops) (reason_outcome r)).
  { unfold s1, run. rewrite fold_left_app. cbn [fold_left step]. apply finish_step_closed. }
  assert (P1 : outP h (reason_outcome r) s1).
  { rewrite S1. unfold finish_closed. rewrite Hd. split.
    - intros o' H. cbn in H. apply in_app_iff in H as [H|H]; [exfalso; exact (Qt Hd h o' H)|].
      apply in_map_iff in H as [e [E _]]. congruence.
    - exists c. split; auto. }
  assert (I1 : Inv s1) by apply inv_run.
  pose proof (outP_turns h (reason_outcome r) (List.length (evq s1)) s1 I1 P1) as [_ [c' [G' F']]]. fold s2 in G'.
  exists c'. split; auto.
  destruct (loss_then_drain ops r) as [_ [_ [_ [_ L]]]]. fold s1 s2 in L.
  assert (G1 : get s1 h = Some c) by (rewrite S1; unfold finish_closed; rewrite Hd; exact G).
  destruct (run_from_extends (repeat Turn (List.length (evq s1))) s1 h c G1) as [c2 [G2 [_ [T2 _]]]]. fold s2 in G2.
  rewrite G' in G2. inversion G2; subst c2.
  specialize (L h c' G' (eq_trans T2 Tw)).
  destruct F' as [X|X]; auto. rewrite X in L. discriminate.
Qed.

Corollary lost_connection_gives_DeadReferenceError : forall ops r h c,
  is_lost r = true ->
  disconnected (run ops) = false -> get (run ops) h = Some c -> c_twoway c = true -> c_fires c = [] ->
  let s1 := run (ops ++ [Finish r]) in
  let s2 := run_from s1 (repeat Turn (List.length (evq s1))) in
  exists c', get s2 h = Some c' /\ c_fires c' = [ODeadRef].
Proof.
  intros ops r h c L Hd G Tw F. rewrite <- (lost_reason_is_DeadReferenceError r L).
  apply (loss_outcome ops r h c); auto.
Qed.

Example ex_lost_subclass :
  let ops := [Call KTwoWay; Call KTwoWay; Answer 1; Finish (RSubclass SSLErrorC); Turn] in
  map (fun c => map ocode (c_fires c)) (calls (run ops)) = [[1]; [4]].
Proof. vm_compute. reflexivity. Qed.

Example ex_unrelated_reason :
  let ops := [Call KTwoWay; Finish RUnrelated; Turn] in
  map (fun c => map ocode (c_fires c)) (calls (run ops)) = [[7]].
Proof. vm_compute. reflexivity. Qed.

(* ---------- 8. the eventual queue: an event that raises affects nothing but itself *)
Theorem turn_runs_exactly_one_event : forall ops,
  evq (step (run ops) Turn) = tl (evq (run ops)) /\ disconnected (step (run ops) Turn) = disconnected (run ops).
Proof. intros ops. destruct (turn_frame (run ops)) as [A [B _]]. auto. Qed.

Theorem foreign_event_changes_no_request : forall ops r q,
  evq (run ops) = EForeign r :: q ->
  calls (step (run ops) Turn) = calls (run ops) /\ table (step (run ops) Turn) = table (run ops) /\
  evq (step (run ops) Turn) = q.
Proof.
  intros ops r q E. change (step (run ops) Turn) with (turn_step (run ops)).
  destruct (turn_cases (run ops)) as [[Q _]|[[h [o [q' [b [Q _]]]]]|[r' [q' [b [Q ->]]]]]]; try congruence.
  rewrite E in Q. inversion Q; subst. auto.
Qed.

Example ex_raising_bystander :
  let ops := [Call KTwoWay; Call KTwoWay; Enqueue true; Finish (RListed ConnectionLostC); Enqueue true; Turn; Turn; Turn; Turn] in
  map (fun c => map ocode (c_fires c)) (calls (run ops)) = [[4]; [4]] /\ evq (run ops) = [] /\ table (run ops) = [].
Proof. vm_compute. repeat split; reflexivity. Qed.

(* ---------- non-vacuity *)
Example ex_trace :
  let ops := [Call KTwoWay; Call KTwoWay; Call KOneWay; Call KTwoWay; Call KLocalReject;
              Answer 1; Fail 3 OSendFail; Finish (RListed ConnectionDoneC); Complete 0; Call KTwoWay; Turn; Turn] in
  snapshot (run ops) =
  ([], [[1]; [4]; []; [5]; [6]; [4]], (true, [], 1)).
Proof. vm_compute. reflexivity. Qed.

Example ex_keyerror :
  let ops := [Call KTwoWay; Error 1; Complete 0] in
  raised (run ops) = 1%nat /\ map (fun c => List.length (c_fires c)) (calls (run ops)) = [1%nat].
Proof. vm_compute. split; reflexivity. Qed.

Example ex_pending_after_loss_before_turn :
  let ops := [Call KTwoWay; Call KTwoWay; Answer 2; Finish (RSubclass ConnectionLostC)] in
  disconnected (run ops) = true /\ map fst (table (run ops)) = [1] /\ evq (run ops) = [EFail 0 ODeadRef].
Proof. vm_compute. repeat split; reflexivity. Qed.

Example ex_first_outcome :
  exists c, get (run [Call KTwoWay; Answer 1]) 0 = Some c /\ c_fires c = [OResult].
Proof. eexists. split; vm_compute; reflexivity. Qed.

(* ---------- what an answer / an error / a Violation / a send failure DOES (the functional half of the property):
   the request that is pending under that id fires with exactly that outcome, leaves the table, and nothing else changes *)
Definition resolves (s s' : st) (h : nat) (rid : Z) (o : outcome) : Prop :=
  (exists c c', get s h = Some c /\ c_fires c = [] /\ c_rid c = rid /\ get s' h = Some c' /\ c_fires c' = [o] /\ c_active c' = false) /\
  ~ In rid (map fst (table s')) /\
  (forall h2, h2 <> h -> get s' h2 = get s h2) /\
  (forall e, In e (table s') <-> In e (table s) /\ fst e <> rid) /\
  evq s' = evq s /\ disconnected s' = disconnected s /\ raised s' = raised s /\
  List.length (calls s') = List.length (calls s).

Lemma pending_entry s rid h : Inv0 s -> In (rid, h) (table s) ->
  exists c, get s h = Some c /\ c_rid c = rid /\ c_tracked c = true /\ c_active c = true /\ c_fires c = [] /\
            tbl_has rid (table s) = true.
Proof.
  intros I H. destruct (I_tbl _ I _ _ H) as [c [G [R [T A]]]]. exists c. repeat split; auto.
  - destruct (I_calls _ I _ _ G) as [_ [E _]]. auto.
  - apply tbl_has_true. apply in_map_iff. exists (rid, h). auto.
Qed.

Lemma fire_resolves s h c o : get s h = Some c -> c_fires c = [] ->
  resolves s (fire (set_table s (tbl_del (c_rid c) (table s))) h o) h (c_rid c) o.
Proof.
  intros G F. unfold resolves. split; [|split; [|split; [|split]]].
  - exists c, (deactivate_and_fire o c). repeat split; auto.
    + rewrite get_fire, get_set_table, Nat.eqb_refl, G. reflexivity.
    + cbn. rewrite F. reflexivity.
  - cbn [fire set_calls table set_table]. intros X. apply in_map_iff in X as [e [E1 E2]]. apply tbl_del_in in E2. tauto.
  - intros h2 N. rewrite get_fire, get_set_table. destruct (Nat.eqb_spec h h2); [congruence|reflexivity].
  - intros e. cbn [fire set_calls table set_table]. apply tbl_del_in.
  - cbn. rewrite length_upd. repeat split; reflexivity.
Qed.

Lemma complete_pending s rid h : Inv0 s -> In (rid, h) (table s) -> resolves s (complete_closed s h) h rid OResult.
Proof.
  intros I H. destruct (pending_entry _ _ _ I H) as [c [G [R [T [A [F B]]]]]].
  unfold complete_closed. rewrite G, T. subst rid. rewrite B, A. apply fire_resolves; assumption.
Qed.

Lemma fail_pending s rid h o : Inv0 s -> In (rid, h) (table s) -> resolves s (fail_closed s h o) h rid o.
Proof.
  intros I H. destruct (pending_entry _ _ _ I H) as [c [G [R [T [A [F B]]]]]].
  unfold fail_closed. rewrite G, A, T. subst rid. rewrite B. apply fire_resolves; assumption.
Qed.

(* an answer sequence for a pending request id fires that request with the method's result *)
Theorem answer_fires_result : forall ops rid h, tbl_find rid (table (run ops)) = Some h ->
  resolves (run ops) (step (run ops) (Answer rid)) h rid OResult.
Proof.
  intros ops rid h H. cbn [step]. rewrite H, complete_step_closed.
  apply complete_pending; [apply (inv_run ops)|apply tbl_find_some; exact H].
Qed.

(* an error sequence fires it with the remote failure *)
Theorem error_fires_remote_failure : forall ops rid h, tbl_find rid (table (run ops)) = Some h ->
  resolves (run ops) (step (run ops) (Error rid)) h rid ORemoteError.
Proof.
  intros ops rid h H. cbn [step]. rewrite H, fail_step_closed.
  apply fail_pending; [apply (inv_run ops)|apply tbl_find_some; exact H].
Qed.

(* a Violation while its answer is being received fires it with the Violation *)
Theorem violation_fires_violation : forall ops rid h, tbl_find rid (table (run ops)) = Some h ->
  resolves (run ops) (step (run ops) (AnswerViolation rid)) h rid OViolation.
Proof.
  intros ops rid h H. cbn [step]. rewrite H, fail_step_closed.
  apply fail_pending; [apply (inv_run ops)|apply tbl_find_some; exact H].
Qed.

(* complete() / fail(why) on a pending request object (late answer, serialization failure of the arguments, ...) fires it
   with exactly that outcome *)
Theorem fail_on_pending_fires : forall ops rid h o, In (rid, h) (table (run ops)) ->
  resolves (run ops) (step (run ops) (Fail h o)) h rid o /\
  resolves (run ops) (step (run ops) (Complete h)) h rid OResult.
Proof.
  intros ops rid h o H. cbn [step]. rewrite fail_step_closed, complete_step_closed.
  split; [apply fail_pending|apply complete_pending]; auto; apply (inv_run ops).
Qed.

(* every registered callRemote that has not fired IS reachable by these: its id is in the table under its handle *)
Theorem pending_is_in_table : forall ops h c, get (run ops) h = Some c -> c_twoway c = true -> c_fires c = [] ->
  In (c_rid c, h) (table (run ops)) /\ tbl_find (c_rid c) (table (run ops)) = Some h.
Proof.
  intros ops h c G T F. destruct (inv_run ops) as [I _].
  destruct (I_calls _ I _ _ G) as [_ [_ [K3 [_ K5]]]].
  assert (A : c_active c = true).
  { destruct (c_active c) eqn:A; [reflexivity|]. specialize (K3 eq_refl T). rewrite F in K3. discriminate. }
  pose proof (I_pend _ I _ _ G (K5 T A) A) as P. split; [exact P|].
  destruct (tbl_find (c_rid c) (table (run ops))) as [h'|] eqn:E.
  - apply tbl_find_some in E. f_equal.
    destruct (I_tbl _ I _ _ E) as [c' [G' [R' [T' _]]]].
    symmetry. apply (I_uniq _ I h h' c c' G G' (K5 T A) T'). congruence.
  - apply tbl_find_none in E. exfalso. apply E. apply in_map_iff. exists (c_rid c, h). auto.
Qed.

Example resolves_inhabited :
  resolves (run [Call KTwoWay; Call KTwoWay]) (step (run [Call KTwoWay; Call KTwoWay]) (Answer 2)) 1%nat 2 OResult.
Proof. apply (answer_fires_result [Call KTwoWay; Call KTwoWay] 2 1%nat). reflexivity. Qed.
