From Coq Require Import ZArith List Bool Lia.
Import ListNotations.
Require Import Verif.gen.RequestsGen Verif.lib.Requests.
Lemma placeholder : True. Proof. exact I. Qed.
