(* C10: the RELAY path.  A calls B, B calls C, C fails: B holds a CopiedFailure and sends it on to A through
   CopiedFailureSlicer.getStateToCopy (call.py), which does NOT truncate: type = reflect.qual of the stand-in class that
   setCopyableState built from the received name (lib/Send.v requal), value and parents as received, traceback as received
   or the fixed text.  The statement list of that function is matched by the generator (gen/FailureGen.v). *)
From Coq Require Import ZArith List String Bool.
Import ListNotations.
Require Import Verif.lib.PyLite Verif.lib.Utf8 Verif.gen.FailureGen Verif.lib.Failure Verif.gen.SendGen Verif.lib.Send.
Local Open Scope Z_scope.

(* (on UTF-8 bytes: '.' is one byte and no byte of a multi-byte character equals it, so splitting the bytes at 46 is splitting
   the text at '.') *)
Definition relay_state (unsafe : bool) (s : fstate) : fstate :=
  {| s_type := requal type_name_separator (s_type s);
     s_value := s_value s;
     s_traceback := if unsafe then s_traceback s else copied_default_traceback;
     s_parents := s_parents s |}.

(* callee C -> middle party B (which relays with its own unsafeTracebacks setting) -> caller A *)
Definition relayed_report (unsafe_c unsafe_b expose_a : bool) (e : exc) : res delivered :=
  match get_state unsafe_c e with
  | Exc t => Exc t
  | Ok s => if failure_constraint_ok s
            then (let r := relay_state unsafe_b s in
                  if failure_constraint_ok r then Ok (deliver expose_a r) else Exc "Violation"%string)
            else Exc "Violation"%string
  end.
