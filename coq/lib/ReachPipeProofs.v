(* C06: proofs about the parse / deliver machine of lib/ReachPipe.v *)
From Coq Require Import ZArith List String Bool Lia.
Import ListNotations.
Require Import Verif.lib.PyLite Verif.gen.ReachGen Verif.gen.ReachDispGen Verif.lib.Reach Verif.lib.ReachProofs
  Verif.lib.ReachDeep Verif.lib.ReachDeepProofs Verif.lib.ReachPipe.
Local Open Scope Z_scope.

(* ------------------------------------------------------------------ bookkeeping *)
Lemma pq_set_pst ps st c : pq (set_pst ps st) c = pq ps c.
Proof. destruct c; reflexivity. Qed.
Lemma pst_set_pq ps c q : p_st (set_pq ps c q) = p_st ps.
Proof. destruct c; reflexivity. Qed.
Lemma pst_set_pst ps st : p_st (set_pst ps st) = st.
Proof. reflexivity. Qed.
Lemma pq_set_same ps c q : pq (set_pq ps c q) c = q.
Proof. destruct c; reflexivity. Qed.
Lemma pq_set_other ps c c' q : c <> c' -> pq (set_pq ps c q) c' = pq ps c'.
Proof. destruct c, c'; intros H; try reflexivity; contradiction H; reflexivity. Qed.

(* ------------------------------------------------------------------ one step of lib/Reach.v = parse, then deliver at once *)
Lemma step_msg_parse w st c req clid m args :
  c_alive (get_conn st c) = true ->
  step w st (Msg c req clid m args) =
  let '(inst, out, fx) := parse w st c clid m args in
  match out with
  | Enter _ => let '(st', sent) := deliver_fx w st c req fx in (st', {| r_inst := inst; r_out := out; r_sent := sent |})
  | Aborted => (set_conn st c (drop_conn (get_conn st c)), {| r_inst := inst; r_out := out; r_sent := [] |})
  | _ => (st, {| r_inst := inst; r_out := out; r_sent := [] |})
  end.
Proof.
  intros AL. cbn [step]. rewrite AL. cbn [negb]. unfold parse. destruct (clid =? broker_clid).
  - destruct (broker_call m args) as [out fx] eqn:B.
    destruct (broker_call_fx _ _ _ _ B) as [F1 [F2 [F3 F4]]].
    destruct out as [e| | | |].
    + destruct fx as [| |nm|k n]; cbn [deliver_fx]; try reflexivity.
      * exfalso. assert (X : Enter e = Aborted) by (apply F2; reflexivity). discriminate.
      * destruct (found_name w st nm) as [[o st0]|]; [|reflexivity].
        destruct (req =? 0); [reflexivity|]. destruct (grant w st0 c o ""); reflexivity.
    + rewrite (F1 eq_refl). reflexivity.
    + assert (X : fx = FxDrop) by (apply F2; reflexivity). rewrite X. reflexivity.
    + contradiction F3; reflexivity.
    + contradiction F4; reflexivity.
  - destruct (obj_call (eff w (s_decl st)) (s_copy st) (get_conn st c) clid m args) as [inst out].
    destruct out; reflexivity.
Qed.

(* what the parser must have seen to resolve a call to `e`: the statement of calls_sound, about the state AT PARSE TIME *)
Definition call_justified (w : world) (st : state) (c : cid) (clid : Z) (m : mname) (e : entered) : Prop :=
  c_alive (get_conn st c) = true /\
  ((clid = 0 /\ exists s, m = MStr s /\ In s broker_methods /\ e = EBroker (remote_prefix ++ s)) \/
   (clid < 0 /\ exists o, exported st c clid o /\ e = ECallable o) \/
   (0 < clid /\ exists o s, exported st c clid o /\ m = MStr s /\ e = EObj o (remote_prefix ++ s) /\
        In (remote_prefix ++ s)%string (o_attrs (w_obj w o)) /\
        (forall l, iface_of w (s_decl st) o = Some l -> In s l))).

Lemma parse_enter_justified w st c clid m args inst e fx :
  c_alive (get_conn st c) = true -> parse w st c clid m args = (inst, Enter e, fx) -> call_justified w st c clid m e.
Proof.
  intros AL P. pose proof (step_msg_parse w st c 0 clid m args AL) as S. rewrite P in S.
  destruct (deliver_fx w st c 0 fx) as [st' sent].
  exact (calls_sound _ _ _ _ _ _ _ _ _ _ S eq_refl).
Qed.

Lemma parse_inst w st c clid m args inst out fx cls :
  c_alive (get_conn st c) = true -> parse w st c clid m args = (inst, out, fx) -> In cls inst ->
  exists n, In (ACopyable n) args /\ sget n (s_copy st) = Some cls.
Proof.
  intros AL P Hin. pose proof (step_msg_parse w st c 0 clid m args AL) as S. rewrite P in S.
  destruct out as [e| | | |].
  - destruct (deliver_fx w st c 0 fx) as [st' sent]. eapply classes_sound; [exact S|exact Hin].
  - eapply classes_sound; [exact S|exact Hin].
  - eapply classes_sound; [exact S|exact Hin].
  - eapply classes_sound; [exact S|exact Hin].
  - eapply classes_sound; [exact S|exact Hin].
Qed.

(* what the parser queues, in terms of the verdict `parse` of lib/Reach.v's one-step model *)
Lemma resolve_spec w st c clid m args inst out fx ok :
  resolve w st c clid m args = (inst, out, fx, ok) ->
  (ok = true /\ parse w st c clid m args = (inst, out, fx)) \/
  (ok = false /\ fx = FxNone /\ (exists e, out = Enter e) /\ parse w st c clid m args = (inst, Reject, FxNone)).
Proof.
  unfold resolve, resolve_with, parse. destruct (clid =? broker_clid).
  - destruct (broker_call m args) as [o f]. intros H; inversion H; subst. left; auto.
  - destruct (obj_call (eff w (s_decl st)) (s_copy st) (get_conn st c) clid m args) as [i o].
    destruct o as [e| | | |]; try solve [intros H; inversion H; subst; left; auto].
    destruct (obj_call (add_attr (eff w (s_decl st)) (attr_of m)) (s_copy st) (get_conn st c) clid m args) as [i2 o2].
    destruct o2 as [e| | | |]; intros H; inversion H; subst; try solve [left; auto].
    right. split; [reflexivity|]. split; [reflexivity|]. split; [exists e; reflexivity|reflexivity].
Qed.

Lemma step_local_no_enter w st e st' r x :
  (forall c req clid m args, e <> Msg c req clid m args) -> step w st e = (st', r) -> r_out r <> Enter x.
Proof.
  intros NM S. destruct e as [p o' sw|o'|n0 cls|n0 cls em|o' d|n0 o'|n0| |c o' sw|c req clid m args|c t|c];
    cbn [step] in S; try (inversion S; subst; cbn; discriminate).
  - destruct (grant w st c o' sw) as [s2 sent]. inversion S; subst. cbn. discriminate.
  - exfalso. eapply NM; reflexivity.
  - inversion S; subst. cbn. destruct (c_alive _); discriminate.
Qed.

(* ------------------------------------------------------------------ the shape of one step of the machine *)
Lemma pstep_local w ps e :
  (forall c req clid m args, e <> Msg c req clid m args) ->
  exists st' r q', step w (p_st ps) e = (st', r) /\
    pstep w ps (PE e) = (q', {| pr_inst := r_inst r; pr_out := Out (r_out r); pr_sent := r_sent r |}) /\
    p_st q' = st' /\ (forall c, pq q' c = pq ps c \/ (e = Drop c /\ pq q' c = [])).
Proof.
  intros NM. unfold pstep, pstep_with.
  destruct e as [p o' sw|o'|n0 cls|n0 cls em|o' d|n0 o'|n0| |c o' sw|c req clid m args|c t|c];
    try (destruct (step w (p_st ps) _) as [st' r] eqn:S; exists st', r; eexists; split; [reflexivity|]; split; [reflexivity|];
         split; [reflexivity|]; intros c0; left; apply pq_set_pst).
  - exfalso. eapply NM; reflexivity.
  - destruct (step w (p_st ps) (Drop c)) as [st' r] eqn:S; exists st', r; eexists; split; [reflexivity|]; split; [reflexivity|].
    split; [apply pst_set_pq|]. intros c0. destruct (cid_dec c c0) as [E|NE].
    + subst c0. right. split; [reflexivity|apply pq_set_same].
    + left. rewrite pq_set_other by exact NE. apply pq_set_pst.
Qed.

Lemma pstep_msg w ps c req clid m args :
  pstep w ps (PE (Msg c req clid m args)) =
  if negb (c_alive (get_conn (p_st ps) c)) then (ps, pres0 (Out Dead))
  else let '(inst, out, fx, ok) := resolve w (p_st ps) c clid m args in
       match out with
       | Enter e => (set_pq ps c (pq ps c ++ [{| d_req := req; d_ent := e; d_fx := fx; d_ok := ok |}]),
                     {| pr_inst := inst; pr_out := Queued; pr_sent := [] |})
       | Aborted => (set_pq (set_pst ps (set_conn (p_st ps) c (drop_conn (get_conn (p_st ps) c)))) c [],
                     {| pr_inst := inst; pr_out := Out Aborted; pr_sent := [] |})
       | _ => (ps, {| pr_inst := inst; pr_out := Out out; pr_sent := [] |})
       end.
Proof. reflexivity. Qed.

Lemma pstep_deliver w ps c :
  pstep w ps (PDeliver c) =
  if negb (c_alive (get_conn (p_st ps) c)) then (ps, pres0 Idle)
  else match pq ps c with
       | [] => (ps, pres0 Idle)
       | d :: q => if d_ok d then
                     let '(st', sent) := deliver_fx w (p_st ps) c (d_req d) (d_fx d) in
                     (set_pq (set_pst ps st') c q, {| pr_inst := []; pr_out := Out (Enter (d_ent d)); pr_sent := sent |})
                   else (set_pq ps c q, pres0 (Out Reject))
       end.
Proof. reflexivity. Qed.

(* a delivery is in a queue only because a call on that connection was parsed and resolved, or it was there before *)
Lemma pstep_queue w ps pe ps' r c d :
  pstep w ps pe = (ps', r) -> In d (pq ps' c) ->
  In d (pq ps c) \/
  exists req clid m args, pe = PE (Msg c req clid m args) /\ d_req d = req /\
                          (d_ok d = true -> call_justified w (p_st ps) c clid m (d_ent d)).
Proof.
  intros S Hin. destruct pe as [e|c0].
  - destruct e as [p o' sw|o'|n0 cls|n0 cls em|o' d0|n0 o'|n0| |c1 o' sw|c1 req clid m args|c1 t|c1].
    10:{ rewrite pstep_msg in S. destruct (c_alive (get_conn (p_st ps) c1)) eqn:AL; cbn [negb] in S.
         2:{ inversion S; subst. left; exact Hin. }
         destruct (resolve w (p_st ps) c1 clid m args) as [[[inst out] fx] ok] eqn:P.
         destruct out as [e| | | |]; try (inversion S; subst; left; exact Hin).
         - inversion S; subst. destruct (cid_dec c1 c) as [E|NE].
           + subst c1. rewrite pq_set_same in Hin. apply in_app_or in Hin. destruct Hin as [Hin|[Hd|[]]]; [left; exact Hin|].
             right. exists req, clid, m, args. subst d. cbn [d_req d_ent d_ok]. split; [reflexivity|]. split; [reflexivity|].
             intros OK. subst ok. destruct (resolve_spec _ _ _ _ _ _ _ _ _ _ P) as [[_ P2]|[X _]]; [|discriminate].
             eapply parse_enter_justified; eauto.
           + rewrite pq_set_other in Hin by exact NE. left; exact Hin.
         - inversion S; subst. destruct (cid_dec c1 c) as [E|NE].
           + subst c1. rewrite pq_set_same in Hin. destruct Hin.
           + rewrite pq_set_other in Hin by exact NE. rewrite pq_set_pst in Hin. left; exact Hin. }
    all: match goal with
         | S : pstep _ _ (PE ?e) = _ |- _ =>
           let NM := fresh in
           assert (NM : forall c req clid m args, e <> Msg c req clid m args) by (intros; discriminate);
           destruct (pstep_local w ps e NM) as [st' [r0 [q' [_ [S2 [_ Q]]]]]];
           rewrite S2 in S; inversion S; subst;
           destruct (Q c) as [Q1|[_ Q1]]; rewrite Q1 in Hin; [left; exact Hin | destruct Hin]
         end.
  - rewrite pstep_deliver in S. destruct (negb (c_alive (get_conn (p_st ps) c0))). { inversion S; subst. left; exact Hin. }
    destruct (pq ps c0) as [|d0 q] eqn:Q. { inversion S; subst. left; exact Hin. }
    destruct (d_ok d0).
    + destruct (deliver_fx w (p_st ps) c0 (d_req d0) (d_fx d0)) as [st' sent]. inversion S; subst.
      destruct (cid_dec c0 c) as [E|NE].
      * subst c0. rewrite pq_set_same in Hin. left. rewrite Q. right; exact Hin.
      * rewrite pq_set_other in Hin by exact NE. rewrite pq_set_pst in Hin. left; exact Hin.
    + inversion S; subst. destruct (cid_dec c0 c) as [E|NE].
      * subst c0. rewrite pq_set_same in Hin. left. rewrite Q. right; exact Hin.
      * rewrite pq_set_other in Hin by exact NE. left; exact Hin.
Qed.

(* code is entered only by a delivery, and what is entered is what the head of that connection's queue was resolved to *)
Lemma pstep_enter w ps pe ps' r e :
  pstep w ps pe = (ps', r) -> pr_out r = Out (Enter e) ->
  exists c d q, pe = PDeliver c /\ pq ps c = d :: q /\ d_ent d = e /\ c_alive (get_conn (p_st ps) c) = true /\ d_ok d = true.
Proof.
  intros S Ho. destruct pe as [ev|c0].
  - exfalso. destruct ev as [p o' sw|o'|n0 cls|n0 cls em|o' d0|n0 o'|n0| |c1 o' sw|c1 req clid m args|c1 t|c1].
    10:{ rewrite pstep_msg in S. destruct (negb (c_alive (get_conn (p_st ps) c1))). { inversion S; subst. discriminate. }
         destruct (resolve w (p_st ps) c1 clid m args) as [[[inst out] fx] ok].
         destruct out; inversion S; subst; discriminate. }
    all: match goal with
         | S : pstep _ _ (PE ?e) = _ |- _ =>
           let NM := fresh in
           assert (NM : forall c req clid m args, e <> Msg c req clid m args) by (intros; discriminate);
           destruct (pstep_local w ps e NM) as [st' [r0 [q' [S1 [S2 _]]]]];
           rewrite S2 in S; inversion S; subst; cbn [pr_out] in Ho; inversion Ho as [Ho'];
           exact (step_local_no_enter _ _ _ _ _ _ NM S1 Ho')
         end.
  - rewrite pstep_deliver in S. destruct (c_alive (get_conn (p_st ps) c0)) eqn:AL; cbn [negb] in S.
    2:{ inversion S; subst. discriminate. }
    destruct (pq ps c0) as [|d0 q] eqn:Q. { inversion S; subst. discriminate. }
    destruct (d_ok d0) eqn:OK. 2:{ inversion S; subst. discriminate. }
    destruct (deliver_fx w (p_st ps) c0 (d_req d0) (d_fx d0)) as [st' sent]. inversion S; subst.
    cbn [pr_out] in Ho. inversion Ho; subst. exists c0, d0, q. auto 6.
Qed.

Lemma prun_cons w ps e h :
  prun w ps (e :: h) = let '(ps1, x) := pstep w ps e in let '(ps2, xs) := prun w ps1 h in (ps2, x :: xs).
Proof. reflexivity. Qed.

(* ------------------------------------------------------------------ the honest reachability theorem *)
(* Over all schedules: whatever is entered was resolved by the parse of a call that arrived EARLIER on the same connection,
   against the tables as they were THEN (the connection alive, the id in its export table, the attribute "remote_"+name
   present and in the interface the object exposed then), and a delivery turn of that connection followed. *)
Lemma pipe_calls_from w h : forall ps0 ps rs,
  prun w ps0 h = (ps, rs) ->
  (forall c d, In d (pq ps c) ->
     In d (pq ps0 c) \/
     exists h1 h2 req clid m args, h = h1 ++ PE (Msg c req clid m args) :: h2 /\ d_req d = req /\
        (d_ok d = true -> call_justified w (p_st (fst (prun w ps0 h1))) c clid m (d_ent d))) /\
  (forall r e, In r rs -> pr_out r = Out (Enter e) ->
     (exists c d, In d (pq ps0 c) /\ d_ok d = true /\ d_ent d = e /\ In (PDeliver c) h) \/
     exists h1 h2 c req clid m args, h = h1 ++ PE (Msg c req clid m args) :: h2 /\ In (PDeliver c) h2 /\
        call_justified w (p_st (fst (prun w ps0 h1))) c clid m e).
Proof.
  induction h as [|pe h IH]; intros ps0 ps rs R.
  - cbn in R. inversion R; subst. split; [intros c d H; left; exact H | intros r e []].
  - rewrite prun_cons in R. destruct (pstep w ps0 pe) as [ps1 x] eqn:S.
    destruct (prun w ps1 h) as [ps2 xs] eqn:R1. inversion R; subst ps2 rs. clear R.
    destruct (IH ps1 ps xs R1) as [IQ IE].
    assert (PF : forall h1, fst (prun w ps0 (pe :: h1)) = fst (prun w ps1 h1)).
    { intros h1. rewrite prun_cons, S. destruct (prun w ps1 h1); reflexivity. }
    split.
    + intros c d Hin. destruct (IQ c d Hin) as [H1|[h1 [h2 [req [clid [m [args [E [Rq J]]]]]]]]].
      * destruct (pstep_queue _ _ _ _ _ _ _ S H1) as [H0|[req [clid [m [args [E [Rq J]]]]]]]; [left; exact H0|].
        right. exists [], h, req, clid, m, args. subst pe. split; [reflexivity|]. split; [exact Rq|exact J].
      * right. exists (pe :: h1), h2, req, clid, m, args. split; [rewrite E; reflexivity|]. split; [exact Rq|].
        rewrite PF. exact J.
    + intros r e [Hr|Hr] Ho.
      * subst x. destruct (pstep_enter _ _ _ _ _ _ S Ho) as [c [d [q [E [Q [De [_ OK]]]]]]]. left. exists c, d.
        split; [rewrite Q; left; reflexivity|]. split; [exact OK|]. split; [exact De|]. left. exact E.
      * destruct (IE r e Hr Ho) as [[c [d [H1 [OK [De Dl]]]]]|[h1 [h2 [c [req [clid [m [args [E [Dl J]]]]]]]]]].
        -- destruct (pstep_queue _ _ _ _ _ _ _ S H1) as [H0|[req [clid [m [args [E [Rq J]]]]]]].
           ++ left. exists c, d. split; [exact H0|]. split; [exact OK|]. split; [exact De|right; exact Dl].
           ++ right. exists [], h, c, req, clid, m, args. subst pe. split; [reflexivity|]. split; [exact Dl|].
              rewrite <- De. exact (J OK).
        -- right. exists (pe :: h1), h2, c, req, clid, m, args. split; [rewrite E; reflexivity|]. split; [exact Dl|].
           rewrite PF. exact J.
Qed.

Theorem pipe_calls : forall w h ps rs r e,
  prun w pinit h = (ps, rs) -> In r rs -> pr_out r = Out (Enter e) ->
  exists h1 h2 c req clid m args,
    h = h1 ++ PE (Msg c req clid m args) :: h2 /\ In (PDeliver c) h2 /\
    call_justified w (p_st (fst (prun w pinit h1))) c clid m e.
Proof.
  intros w h ps rs r e R Hr Ho. destruct (pipe_calls_from w h pinit ps rs R) as [_ IE].
  destruct (IE r e Hr Ho) as [[c [d [Hin _]]]|H]; [destruct c; destruct Hin|exact H].
Qed.

(* instances are created while a call is PARSED, only of classes registered then under the names the message carries *)
Theorem pipe_classes : forall w ps pe ps' r cls,
  pstep w ps pe = (ps', r) -> In cls (pr_inst r) ->
  exists c req clid m args n, pe = PE (Msg c req clid m args) /\ In (ACopyable n) args /\ sget n (s_copy (p_st ps)) = Some cls.
Proof.
  intros w ps pe ps' r cls S Hin. destruct pe as [ev|c0].
  - destruct ev as [p o' sw|o'|n0 cls0 |n0 cls0 em|o' d0|n0 o'|n0| |c1 o' sw|c1 req clid m args|c1 t|c1].
    10:{ rewrite pstep_msg in S. destruct (c_alive (get_conn (p_st ps) c1)) eqn:AL; cbn [negb] in S.
         2:{ inversion S; subst. destruct Hin. }
         destruct (resolve w (p_st ps) c1 clid m args) as [[[inst out] fx] ok] eqn:P.
         assert (Hi : In cls inst) by (destruct out; inversion S; subst; exact Hin).
         destruct (resolve_spec _ _ _ _ _ _ _ _ _ _ P) as [[_ P2]|[_ [_ [_ P2]]]];
           destruct (parse_inst _ _ _ _ _ _ _ _ _ _ AL P2 Hi) as [n [A B]]; exists c1, req, clid, m, args, n; auto. }
    all: exfalso;
         match goal with
         | S : pstep _ _ (PE ?e) = _ |- _ =>
           let NM := fresh in
           assert (NM : forall c req clid m args, e <> Msg c req clid m args) by (intros; discriminate);
           destruct (pstep_local w ps e NM) as [st' [r0 [q' [S1 [S2 _]]]]];
           rewrite S2 in S; inversion S; subst; cbn [pr_inst] in Hin; cbn [step] in S1
         end; try (inversion S1; subst; exact Hin).
    + destruct (grant w (p_st ps) c1 o' sw). inversion S1; subst. exact Hin.
  - exfalso. rewrite pstep_deliver in S. destruct (negb (c_alive (get_conn (p_st ps) c0))). { inversion S; subst. destruct Hin. }
    destruct (pq ps c0) as [|d0 q]. { inversion S; subst. destruct Hin. }
    destruct (d_ok d0); [|inversion S; subst; destruct Hin].
    destruct (deliver_fx w (p_st ps) c0 (d_req d0) (d_fx d0)). inversion S; subst. destruct Hin.
Qed.

(* ------------------------------------------------------------------ every state the machine reaches is a state of lib/Reach.v *)
Lemma run_app w a : forall st b,
  run w st (a ++ b) = let '(s1, r1) := run w st a in let '(s2, r2) := run w s1 b in (s2, r1 ++ r2).
Proof.
  induction a as [|e a IH]; intros st b.
  - cbn. destruct (run w st b); reflexivity.
  - cbn [app run]. destruct (step w st e) as [st1 x]. rewrite IH. destruct (run w st1 a) as [s1 r1].
    destruct (run w s1 b) as [s2 r2]. reflexivity.
Qed.

Lemma parse_decref w st c k n :
  parse w st c 0 (MStr "decref") [AInt k; AInt n] = ([], Enter (EBroker "remote_decref"), FxDecref k n).
Proof. reflexivity. Qed.
Lemma parse_lookup w st c nm :
  parse w st c 0 (MStr "getReferenceByName") [ABytes (MStr nm)] = ([], Enter (EBroker "remote_getReferenceByName"), FxLookup nm).
Proof. reflexivity. Qed.

(* a delivery changes the tables exactly as ONE step of lib/Reach.v (the broker call it stands for, taken now) or not at all *)
Lemma deliver_as_step w st c req fx st' sent :
  c_alive (get_conn st c) = true -> deliver_fx w st c req fx = (st', sent) ->
  (st' = st /\ sent = []) \/
  exists m args r, fx_msg fx = Some (m, args) /\ step w st (Msg c req 0 m args) = (st', r) /\ r_sent r = sent.
Proof.
  intros AL D. destruct fx as [| |nm|k n].
  - left. inversion D; auto.
  - left. inversion D; auto.
  - right. exists (MStr "getReferenceByName"), [ABytes (MStr nm)]. eexists. split; [reflexivity|].
    rewrite (step_msg_parse w st c req 0 _ _ AL), parse_lookup, D. split; reflexivity.
  - right. exists (MStr "decref"), [AInt k; AInt n]. eexists. split; [reflexivity|].
    rewrite (step_msg_parse w st c req 0 _ _ AL), parse_decref, D. split; reflexivity.
Qed.

Lemma pstep_as_steps w ps pe ps' r :
  pstep w ps pe = (ps', r) ->
  (p_st ps' = p_st ps /\ pr_sent r = []) \/
  exists e r0, step w (p_st ps) e = (p_st ps', r0) /\ r_sent r0 = pr_sent r /\
               match pe with
               | PE e' => e = e'
               | PDeliver c => exists d q m args, pq ps c = d :: q /\ d_ok d = true /\ fx_msg (d_fx d) = Some (m, args) /\
                                                  e = Msg c (d_req d) 0 m args
               end.
Proof.
  intros S. destruct pe as [ev|c0].
  - destruct ev as [p o' sw|o'|n0 cls|n0 cls em|o' d0|n0 o'|n0| |c1 o' sw|c1 req clid m args|c1 t|c1].
    10:{ rewrite pstep_msg in S. destruct (c_alive (get_conn (p_st ps) c1)) eqn:AL; cbn [negb] in S.
         2:{ inversion S; subst. left; auto. }
         pose proof (step_msg_parse w (p_st ps) c1 req clid m args AL) as SP.
         destruct (resolve w (p_st ps) c1 clid m args) as [[[inst out] fx] ok] eqn:P.
         destruct out as [e| | | |]; try (inversion S; subst; left; split; [try apply pst_set_pq; reflexivity | reflexivity]).
         destruct (resolve_spec _ _ _ _ _ _ _ _ _ _ P) as [[_ P2]|[_ [_ [[e X] _]]]]; [|discriminate].
         rewrite P2 in SP.
         inversion S; subst. right. eexists. eexists. rewrite pst_set_pq, pst_set_pst. split; [exact SP|]. split; reflexivity. }
    all: right;
         match goal with
         | S : pstep _ _ (PE ?e) = _ |- _ =>
           let NM := fresh in
           assert (NM : forall c req clid m args, e <> Msg c req clid m args) by (intros; discriminate);
           destruct (pstep_local w ps e NM) as [st' [r0 [q' [S1 [S2 [S3 _]]]]]];
           rewrite S2 in S; inversion S; subst; exists e, r0; split; [exact S1|]; split; reflexivity
         end.
  - rewrite pstep_deliver in S. destruct (c_alive (get_conn (p_st ps) c0)) eqn:AL; cbn [negb] in S.
    2:{ inversion S; subst. left; auto. }
    destruct (pq ps c0) as [|d0 q] eqn:Q. { inversion S; subst. left; auto. }
    destruct (d_ok d0) eqn:OK. 2:{ inversion S; subst. left. split; [apply pst_set_pq|reflexivity]. }
    destruct (deliver_fx w (p_st ps) c0 (d_req d0) (d_fx d0)) as [st' sent] eqn:D. inversion S; subst.
    rewrite pst_set_pq, pst_set_pst. cbn [pr_sent].
    destruct (deliver_as_step _ _ _ _ _ _ _ AL D) as [[E1 E2]|[m [args [r0 [F [S1 S2]]]]]]; [left; auto|].
    right. exists (Msg c0 (d_req d0) 0 m args), r0. split; [exact S1|]. split; [exact S2|].
    exists d0, q, m, args. auto.
Qed.

Theorem pipe_states_are_states : forall w h ps ps' rs,
  prun w ps h = (ps', rs) ->
  exists es, fst (run w (p_st ps) es) = p_st ps' /\ sent_of (snd (run w (p_st ps) es)) = psent_of rs.
Proof.
  intros w h. induction h as [|pe h IH]; intros ps ps' rs R.
  - cbn in R. inversion R; subst. exists []. split; reflexivity.
  - rewrite prun_cons in R. destruct (pstep w ps pe) as [ps1 x] eqn:S. destruct (prun w ps1 h) as [ps2 xs] eqn:R1.
    inversion R; subst ps2 rs. clear R. destruct (IH ps1 ps' xs R1) as [es [E1 E2]].
    unfold psent_of. cbn [map concat]. fold (psent_of xs).
    destruct (pstep_as_steps _ _ _ _ _ S) as [[P1 P2]|[e [r0 [S1 [S2 _]]]]].
    + exists es. rewrite <- P1, P2. split; [exact E1|exact E2].
    + exists (e :: es). cbn [run]. rewrite S1. destruct (run w (p_st ps1) es) as [s2 r2]. cbn [fst snd] in *.
      split; [exact E1|]. change (r_sent r0 ++ sent_of r2 = pr_sent x ++ psent_of xs). rewrite S2, E2. reflexivity.
Qed.

(* "explicitly sent to it over that same connection and not yet released", over all schedules *)
Theorem pipe_exports_were_granted : forall w h ps rs c clid o rc,
  prun w pinit h = (ps, rs) -> zget clid (c_exports (get_conn (p_st ps) c)) = Some (o, rc) ->
  0 < rc /\ clid <> 0 /\ Z.abs clid < c_next (get_conn (p_st ps) c) /\ In (c, clid, o) (psent_of rs).
Proof.
  intros w h ps rs c clid o rc R G. destruct (pipe_states_are_states w h pinit ps rs R) as [es [E1 E2]].
  cbn [p_st pinit] in E1, E2. destruct (run w init es) as [st xs] eqn:RR. cbn [fst snd] in *. subst st.
  rewrite <- E2. eapply exports_were_granted; eauto.
Qed.

(* a my-reference is emitted only by a grant of the application, or when a name lookup is DELIVERED *)
Theorem pipe_sent_justified : forall w ps pe ps' r c clid o,
  pstep w ps pe = (ps', r) -> In (c, clid, o) (pr_sent r) ->
  (exists sw, pe = PE (Grant c o sw)) \/
  (pe = PDeliver c /\ exists d q n, pq ps c = d :: q /\ d_fx d = FxLookup n /\ d_req d <> 0 /\ lookup_name w (p_st ps) n = Some o).
Proof.
  intros w ps pe ps' r c clid o S Hin.
  destruct (pstep_as_steps _ _ _ _ _ S) as [[_ P2]|[e [r0 [S1 [S2 M]]]]]; [rewrite P2 in Hin; destruct Hin|].
  pose proof Hin as Hin0. rewrite <- S2 in Hin. destruct (sent_justified _ _ _ _ _ _ _ _ S1 Hin) as [[sw E]|[req [n [E [NZ L]]]]].
  - destruct pe as [e'|c0].
    + subst e'. left. exists sw. rewrite E. reflexivity.
    + exfalso. destruct M as [d [q [m [args [_ [_ [_ E2]]]]]]]. rewrite E in E2. discriminate.
  - destruct pe as [e'|c0].
    + exfalso. subst e'. rewrite E, pstep_msg in S.
      destruct (negb (c_alive (get_conn (p_st ps) c))). { inversion S; subst. destruct Hin0. }
      destruct (resolve w (p_st ps) c broker_clid (MStr "getReferenceByName") [ABytes (MStr n)]) as [[[i0 o0] f0] k0].
      destruct o0; inversion S; subst; destruct Hin0.
    + destruct M as [d [q [m [args [Q [_ [F E2]]]]]]]. rewrite E in E2. inversion E2; subst c0 req m args. right. split; [reflexivity|].
      exists d, q, n. split; [exact Q|]. split; [|split; [exact NZ|exact L]].
      destruct (d_fx d) as [| |nm|k k2]; cbn [fx_msg] in F; try discriminate. inversion F; reflexivity.
Qed.

(* ------------------------------------------------------------------ the machine built from the TRANSLATED code is this machine *)
Lemma kinds_ok_add_attr w a cn : kinds_ok w cn -> kinds_ok (add_attr w a) cn.
Proof. intros K k o rc H. exact (K k o rc H). Qed.

Lemma resolve_T_eq w st c clid m args : all_kinds_ok w st -> resolve_T w st c clid m args = resolve w st c clid m args.
Proof.
  intros K. unfold resolve_T, resolve, resolve_with. destruct (clid =? broker_clid) eqn:BC; [reflexivity|].
  apply Z.eqb_neq in BC. unfold broker_clid in BC.
  rewrite obj_call_T_eq; [| apply kinds_ok_eff; apply K | exact BC].
  rewrite obj_call_T_eq; [reflexivity | apply kinds_ok_add_attr; apply kinds_ok_eff; apply K | exact BC].
Qed.

Lemma deliver_fx_T_eq w st c req fx : deliver_fx_T w st c req fx = deliver_fx w st c req fx.
Proof. destruct fx; cbn [deliver_fx_T deliver_fx]; rewrite ?decref_T_eq, ?found_name_T_eq; reflexivity. Qed.

Lemma pstep_T_eq w ps pe : all_kinds_ok w (p_st ps) -> pstep_T w ps pe = pstep w ps pe.
Proof.
  intros K. unfold pstep_T, pstep, pstep_with. destruct pe as [e|c].
  - destruct e; rewrite ?(step_T_eq w (p_st ps) _ K); try reflexivity.
    rewrite (resolve_T_eq _ _ _ _ _ _ K). reflexivity.
  - destruct (negb _); [reflexivity|]. destruct (pq ps c); [reflexivity|]. rewrite deliver_fx_T_eq. reflexivity.
Qed.

Lemma pstep_invariants w ps pe ps' r log :
  inv (p_st ps) log -> all_kinds_ok w (p_st ps) -> pstep w ps pe = (ps', r) ->
  inv (p_st ps') (log ++ pr_sent r) /\ all_kinds_ok w (p_st ps').
Proof.
  intros I K S. destruct (pstep_as_steps _ _ _ _ _ S) as [[P1 P2]|[e [r0 [S1 [S2 _]]]]].
  - rewrite P1, P2, app_nil_r. auto.
  - rewrite <- S2. split; [eapply step_inv; eauto | eapply step_kinds; eauto].
Qed.

Lemma prun_T_eq_from w h : forall ps log, inv (p_st ps) log -> all_kinds_ok w (p_st ps) -> prun_T w ps h = prun w ps h.
Proof.
  induction h as [|pe h IH]; intros ps log I K; [reflexivity|].
  change (prun_T w ps (pe :: h)) with (let '(ps1, x) := pstep_T w ps pe in let '(ps2, xs) := prun_T w ps1 h in (ps2, x :: xs)).
  rewrite prun_cons, (pstep_T_eq w ps pe K). destruct (pstep w ps pe) as [ps1 x] eqn:S.
  destruct (pstep_invariants _ _ _ _ _ _ I K S) as [I1 K1]. rewrite (IH ps1 _ I1 K1). reflexivity.
Qed.

Theorem prun_T_eq : forall w h, prun_T w pinit h = prun w pinit h.
Proof. intros w h. exact (prun_T_eq_from w h pinit [] init_inv (init_kinds w)). Qed.

Theorem pipe_kinds_reachable : forall w h ps rs c k o rc,
  prun w pinit h = (ps, rs) -> zget k (c_exports (get_conn (p_st ps) c)) = Some (o, rc) ->
  (k < 0 -> o_kind (w_obj w o) = KCallable) /\ (0 < k -> o_kind (w_obj w o) = KObj).
Proof.
  intros w h ps rs c k o rc R G. destruct (pipe_states_are_states w h pinit ps rs R) as [es [E1 _]].
  cbn [p_st pinit] in E1. destruct (run w init es) as [st xs] eqn:RR. cbn [fst] in E1. subst st.
  eapply kinds_reachable; eauto.
Qed.

(* ------------------------------------------------------------------ lib/Reach.v's step = parse + immediate delivery on an idle queue *)
Theorem atomic_msg : forall w ps c req clid m args ps1 r1 ps2 r2 st' r,
  pq ps c = [] ->
  pstep w ps (PE (Msg c req clid m args)) = (ps1, r1) -> pstep w ps1 (PDeliver c) = (ps2, r2) ->
  step w (p_st ps) (Msg c req clid m args) = (st', r) ->
  p_st ps2 = st' /\ (forall c', pq ps2 c' = pq ps c') /\ r_inst r = pr_inst r1 /\ r_sent r = pr_sent r2 /\ pr_sent r1 = [] /\
  match r_out r with
  | Enter e => pr_out r1 = Queued /\ pr_out r2 = Out (Enter e)
  | Reject => (pr_out r1 = Out Reject /\ pr_out r2 = Idle) \/ (pr_out r1 = Queued /\ pr_out r2 = Out Reject)
  | o => pr_out r1 = Out o /\ pr_out r2 = Idle
  end.
Proof.
  intros w ps c req clid m args ps1 r1 ps2 r2 st' r Q S1 S2 S.
  rewrite pstep_msg in S1. destruct (c_alive (get_conn (p_st ps) c)) eqn:AL; cbn [negb] in S1.
  2:{ inversion S1; subst ps1 r1. rewrite pstep_deliver, AL in S2. cbn [negb] in S2. inversion S2; subst.
      cbn [step] in S. rewrite AL in S. cbn [negb] in S. inversion S; subst. cbn. auto 10. }
  rewrite (step_msg_parse w (p_st ps) c req clid m args AL) in S.
  assert (QQ : forall (x : pstate) q, (forall c', pq (set_pq x c q) c' = pq ps c') <-> (q = pq ps c /\ forall c', c <> c' -> pq x c' = pq ps c')).
  { intros x q. split.
    - intros H. split; [rewrite <- (H c); symmetry; apply pq_set_same|]. intros c' NE. rewrite <- (H c'). symmetry. apply pq_set_other; exact NE.
    - intros [H1 H2] c'. destruct (cid_dec c c') as [E|NE]; [subst c'; rewrite pq_set_same; exact H1 | rewrite pq_set_other by exact NE; auto]. }
  destruct (resolve w (p_st ps) c clid m args) as [[[inst out] fx] ok] eqn:P.
  destruct (resolve_spec _ _ _ _ _ _ _ _ _ _ P) as [[OK P2]|[OK [FX [[e X] P2]]]]; rewrite P2 in S.
  - subst ok. destruct out as [e| | | |].
    + inversion S1; subst ps1 r1. rewrite pstep_deliver, pst_set_pq, AL, pq_set_same, Q in S2. cbn [negb app d_req d_fx d_ent d_ok] in S2.
      destruct (deliver_fx w (p_st ps) c req fx) as [s2 sent]. inversion S2; subst. inversion S; subst. cbn.
      split; [apply pst_set_pq|]. split; [|auto].
      apply QQ. split; [symmetry; exact Q|]. intros c' NE. rewrite pq_set_pst. apply pq_set_other; exact NE.
    + inversion S1; subst ps1 r1. rewrite pstep_deliver, AL, Q in S2. cbn [negb] in S2. inversion S2; subst. inversion S; subst. cbn. auto 10.
    + inversion S1; subst ps1 r1. rewrite pstep_deliver, pst_set_pq, pst_set_pst, get_set_same in S2. cbn [drop_conn c_alive negb] in S2.
      inversion S2; subst. inversion S; subst. cbn. split; [apply pst_set_pq|]. split; [|auto].
      apply QQ. split; [symmetry; exact Q|]. intros c' NE. apply pq_set_pst.
    + inversion S1; subst ps1 r1. rewrite pstep_deliver, AL, Q in S2. cbn [negb] in S2. inversion S2; subst. inversion S; subst. cbn. auto 10.
    + inversion S1; subst ps1 r1. rewrite pstep_deliver, AL, Q in S2. cbn [negb] in S2. inversion S2; subst. inversion S; subst. cbn. auto 10.
  - subst ok out fx. inversion S1; subst ps1 r1. rewrite pstep_deliver, pst_set_pq, AL, pq_set_same, Q in S2. cbn [negb app d_ok] in S2.
    inversion S2; subst. inversion S; subst. cbn. split; [rewrite !pst_set_pq; reflexivity|]. split; [|auto 10].
    apply QQ. split; [symmetry; exact Q|]. intros c' NE. apply pq_set_other; exact NE.
Qed.

(* ------------------------------------------------------------------ what does NOT hold: "held when DELIVERED" *)
Definition pipe_world : world := rf_world.
(* the peer is granted an object (id 1), then sends decref(1,1) and call(1,"hi") in one segment: both are parsed before
   either is delivered; the call was resolved while the id was still held, so remote_hi is entered on the RELEASED object.
   Replayed on the real code by the harness (signature oracle/released-id-entered-when-pipelined). *)
Definition pipe_hist_released : list pevent :=
  [PE (Grant CA 1 "sw0")] ++ burst CA [(11, 0, MStr "decref", [AInt 1; AInt 1]); (12, 1, MStr "hi", [])].
Theorem held_at_delivery_refuted :
  exists w h1 ps1 rs1 ps2 r,
    prun w pinit h1 = (ps1, rs1) /\ pstep w ps1 (PDeliver CA) = (ps2, r) /\
    pr_out r = Out (Enter (EObj 1 "remote_hi")) /\
    c_exports (get_conn (p_st ps1) CA) = [] /\ c_alive (get_conn (p_st ps1) CA) = true.
Proof.
  exists pipe_world, (removelast pipe_hist_released).
  destruct (prun pipe_world pinit (removelast pipe_hist_released)) as [ps1 rs1] eqn:R.
  destruct (pstep pipe_world ps1 (PDeliver CA)) as [ps2 r] eqn:S.
  exists ps1, rs1, ps2, r. split; [reflexivity|]. split; [exact S|].
  vm_compute in R. inversion R; subst ps1 rs1. vm_compute in S. inversion S; subst. vm_compute. auto.
Qed.

(* the same bytes, one call per segment (each delivered before the next arrives): the second call is refused.  The theorems of
   this file hold for both schedules; those of lib/ReachProofs.v about `step (Msg ..)` describe the second one only. *)
Example ex_schedules_differ :
  map pr_out (snd (prun pipe_world pinit pipe_hist_released)) =
    [Out Local; Queued; Queued; Out (Enter (EBroker "remote_decref")); Out (Enter (EObj 1 "remote_hi"))] /\
  map pr_out (snd (prun pipe_world pinit (atomic [Grant CA 1 "sw0"; Msg CA 11 0 (MStr "decref") [AInt 1; AInt 1]; Msg CA 12 1 (MStr "hi") []]))) =
    [Out Local; Queued; Out (Enter (EBroker "remote_decref")); Out Reject; Idle].
Proof. vm_compute. split; reflexivity. Qed.

(* the converse interleaving: a lookup and a call to the id the lookup is ABOUT to grant, in one segment: the call is refused
   (the id was not held when it was parsed); pipe_calls applies non-trivially to the first history (its hypotheses are met) *)
Example ex_lookup_then_call :
  map pr_out (snd (prun pipe_world pinit
     ([PE (Register "pub" 1 "sw0")] ++ burst CA [(11, 0, MStr "getReferenceByName", [ABytes (MStr "pub")]); (12, 1, MStr "hi", [])]))) =
  [Out Local; Queued; Out Reject; Out (Enter (EBroker "remote_getReferenceByName")); Idle].
Proof. vm_compute. reflexivity. Qed.

Example ex_pipe_calls_hyps :
  exists ps rs r, prun pipe_world pinit pipe_hist_released = (ps, rs) /\ In r rs /\ pr_out r = Out (Enter (EObj 1 "remote_hi")) /\
                  p_qa ps = [] /\ c_exports (s_a (p_st ps)) = [].
Proof.
  destruct (prun pipe_world pinit pipe_hist_released) as [ps rs] eqn:R. vm_compute in R. inversion R; subst.
  eexists. eexists. eexists. split; [reflexivity|]. split; [right; right; right; right; left; reflexivity|]. cbn. auto.
Qed.

(* the hypotheses of pipe_exports_were_granted / pipe_kinds_reachable are met non-trivially: a pipelined history that leaves
   entries (an object and a bound method) in a table *)
Example ex_pipe_exports_hyps :
  let h := [PE (Grant CA 1 "sw0"); PE (Grant CA 3 "sw1")] ++ burst CA [(1, 1, MStr "hi", []); (2, 0, MStr "decref", [AInt 1; AInt 1]); (3, 1, MStr "hi", [])] in
  c_exports (s_a (p_st (fst (prun ex_world pinit h)))) = [(-2, (3, 1))] /\
  map pr_out (snd (prun ex_world pinit h)) =
    [Out Local; Out Local; Queued; Queued; Queued; Out (Enter (EObj 1 "remote_hi")); Out (Enter (EBroker "remote_decref")); Out (Enter (EObj 1 "remote_hi"))].
Proof. vm_compute. split; reflexivity. Qed.

(* the attribute lookup happens at delivery: a call resolved to an object WITHOUT the attribute is queued; if a protocol error
   later in the same segment drops the connection, it is abandoned like every queued call (the peer gets no error answer);
   otherwise its delivery turn fails the request *)
Example ex_missing_attribute_is_queued :
  map pr_out (snd (prun pipe_world pinit ([PE (Grant CA 1 "sw0")] ++ burst CA [(1, 1, MStr "nosuch", []); (2, 1, MStr "hi", [AYourRef (-3)])]))) =
    [Out Local; Queued; Out Aborted; Idle; Idle] /\
  map pr_out (snd (prun pipe_world pinit ([PE (Grant CA 1 "sw0")] ++ burst CA [(1, 1, MStr "nosuch", []); (2, 1, MStr "hi", [])]))) =
    [Out Local; Queued; Queued; Out Reject; Out (Enter (EObj 1 "remote_hi"))].
Proof. vm_compute. split; reflexivity. Qed.
