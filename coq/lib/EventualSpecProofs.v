(* C17: theorems about the reference machine of lib/EventualSpec.v with the shape of the current code (good_cfg);
   lib/EventualProofs.v transfers them to the translated code. *)
From Coq Require Import ZArith List Bool Lia.
Import ListNotations.
Require Import Verif.lib.EventualBase Verif.gen.EventualGen Verif.lib.EventualSpec.
Local Open Scope Z_scope.

(* ---- induction over actions whose flush callbacks are again lists of actions (nested inductive):
   to prove P for every action it is enough to prove it for eventually(s) from P for every action of s, and for a
   flush request from P for every action of its callback *)
Fixpoint act_nested_ind (P : act -> Prop)
    (HE : forall s, Forall P (sacts s) -> P (AEnq s))
    (HF : forall fid cb, Forall P cb -> P (AFlush fid cb)) (a : act) {struct a} : P a :=
  match a with
  | AEnq s =>
      match s return P (AEnq s) with
      | Sc i acts k =>
          HE (Sc i acts k) ((fix go (l : list act) : Forall P l :=
                    match l with
                    | [] => Forall_nil P
                    | x :: l' => Forall_cons x (act_nested_ind P HE HF x) (go l')
                    end) acts)
      end
  | AFlush fid cb =>
      HF fid cb ((fix go (l : list act) : Forall P l :=
                    match l with
                    | [] => Forall_nil P
                    | x :: l' => Forall_cons x (act_nested_ind P HE HF x) (go l')
                    end) cb)
  end.

Definition ids (l : list script) : list Z := map sid l.

Lemma subs_app a b : subs (a ++ b) = subs a ++ subs b.
Proof. induction a as [|e a IH]; [reflexivity|]. destruct e; cbn [app subs]; rewrite ?IH; reflexivity. Qed.
Lemma rans_app a b : rans (a ++ b) = rans a ++ rans b.
Proof. induction a as [|e a IH]; [reflexivity|]. destruct e; cbn [app rans]; rewrite ?IH; reflexivity. Qed.
Lemma fdeferred_app a b : fdeferred (a ++ b) = fdeferred a ++ fdeferred b.
Proof.
  induction a as [|e a IH]; [reflexivity|].
  destruct e as [| | | | |f d|]; cbn [app fdeferred]; try destruct d; rewrite ?IH; reflexivity.
Qed.
Lemma fpopped_app a b : fpopped (a ++ b) = fpopped a ++ fpopped b.
Proof. induction a as [|e a IH]; [reflexivity|]. destruct e; cbn [app fpopped]; rewrite ?IH; reflexivity. Qed.
Lemma ffired_app a b : ffired (a ++ b) = ffired a ++ ffired b.
Proof. induction a as [|e a IH]; [reflexivity|]. destruct e; cbn [app ffired]; rewrite ?IH; reflexivity. Qed.
Lemma fanswered_app a b : fanswered (a ++ b) = fanswered a ++ fanswered b.
Proof.
  induction a as [|e a IH]; [reflexivity|].
  destruct e as [| | | | |f d|]; cbn [app fanswered]; try destruct d; rewrite ?IH; reflexivity.
Qed.
Lemma freqs_app a b : freqs (a ++ b) = freqs a ++ freqs b.
Proof. induction a as [|e a IH]; [reflexivity|]. destruct e; cbn [app freqs]; rewrite ?IH; reflexivity. Qed.

Lemma ids_app a b : ids (a ++ b) = ids a ++ ids b.
Proof. apply map_app. Qed.

(* between operations: the timer flag mirrors the reactor, and pending work is always scheduled *)
Definition wfq (st : qstate) : Prop :=
  timer st = sched st /\ (events st <> [] -> sched st = true).

(* an observer is registered only while work is queued (outside the batch loop) *)
Definition qinv (st : qstate) : Prop := events st = [] -> flushers st = [].

Definition noflushfired (t : list ev) : Prop :=
  Forall (fun e => match e with FlushFired _ _ _ => False | _ => True end) t.

Lemma noflushfired_ok t : noflushfired t -> Forall flush_ok t.
Proof. intros H. eapply Forall_impl; [|exact H]. intros e; destruct e; cbn; tauto. Qed.

(* ---- eventually(s) *)
Lemma enq1_good st s :
  ids (events (enq1 good_cfg st s)) = ids (events st) ++ [sid s] /\
  in_turn (enq1 good_cfg st s) = in_turn st /\ flushers (enq1 good_cfg st s) = flushers st /\
  (wfq st -> wfq (enq1 good_cfg st s)) /\ (sched st = true -> sched (enq1 good_cfg st s) = true) /\
  events (enq1 good_cfg st s) <> [].
Proof.
  unfold enq1. cbn [good_cfg c_pos c_arms events in_turn flushers timer sched].
  split; [rewrite ids_app; reflexivity|]. split; [reflexivity|]. split; [reflexivity|]. split; [|split].
  - intros [H1 H2]. unfold wfq; cbn [timer sched events]. rewrite H1, andb_true_r.
    split; [reflexivity|]. intros _. destruct (sched st); reflexivity.
  - intros ->. reflexivity.
  - intros C. apply app_eq_nil in C as [_ C]. discriminate.
Qed.

(* ---- what a list of actions does, under the current code (good_cfg), whoever performs it:
   nothing runs; the queue grows by what was submitted; deferred flush requests are appended to the
   observers, in order; every notification answers a request made on the idle queue *)
Definition acts_spec (ctx : option (list script)) (st st' : qstate) (t : list ev) : Prop :=
  rans t = [] /\ fpopped t = [] /\
  ids (events st') = ids (events st) ++ subs t /\
  in_turn st' = in_turn st /\
  map fst (flushers st') = map fst (flushers st) ++ fdeferred t /\
  ffired t = fanswered t /\
  (wfq st -> wfq st') /\
  (sched st = true -> sched st' = true) /\
  (in_turn st = true -> noflushfired t) /\
  (ctx = None -> Forall flush_ok t) /\
  (in_turn st = false -> qinv st -> qinv st') /\
  (events st <> [] -> events st' <> []).

Lemma acts_spec_refl ctx st : acts_spec ctx st st [].
Proof.
  unfold acts_spec. cbn [rans fpopped subs fdeferred ffired fanswered]. rewrite !app_nil_r.
  repeat (split; [first [reflexivity | solve [auto] | intros; constructor]|]). auto.
Qed.

Lemma acts_spec_trans ctx st st1 st2 t1 t2 :
  acts_spec ctx st st1 t1 -> acts_spec ctx st1 st2 t2 -> acts_spec ctx st st2 (t1 ++ t2).
Proof.
  intros (A1 & A2 & A3 & A4 & A5 & A6 & A7 & A8 & A9 & A10 & A11 & A12)
         (B1 & B2 & B3 & B4 & B5 & B6 & B7 & B8 & B9 & B10 & B11 & B12).
  unfold acts_spec.
  rewrite rans_app, fpopped_app, subs_app, fdeferred_app, ffired_app, fanswered_app.
  rewrite A1, B1, A2, B2, B3, A3, B4, A4, B5, A5, A6, B6, <- !app_assoc.
  split; [reflexivity|]. split; [reflexivity|]. split; [reflexivity|]. split; [reflexivity|].
  split; [reflexivity|]. split; [reflexivity|]. split; [auto|]. split; [auto|].
  split; [|split; [|split]].
  - intros Hi. apply Forall_app. split; [apply A9; exact Hi|]. apply B9. congruence.
  - intros Hc. apply Forall_app. split; [apply A10; exact Hc|apply B10; exact Hc].
  - intros Hi Hq. apply B11; [congruence|]. apply A11; assumption.
  - auto.
Qed.

Lemma run_list_spec ctx l :
  Forall (fun a => forall st st' t, do_act good_cfg ctx st a = (st', t) -> acts_spec ctx st st' t) l ->
  forall st st' t, run_list (do_act good_cfg ctx) l st = (st', t) -> acts_spec ctx st st' t.
Proof.
  induction 1 as [|a l Ha _ IH]; intros st st' t; cbn [run_list].
  - intros H; injection H as <- <-. apply acts_spec_refl.
  - destruct (do_act good_cfg ctx st a) as [st1 t1] eqn:E1.
    destruct (run_list (do_act good_cfg ctx) l st1) as [st2 t2] eqn:E2.
    intros H; injection H as <- <-.
    eapply acts_spec_trans; [apply Ha; exact E1|apply IH; exact E2].
Qed.

Lemma do_act_unfold c ctx st fid cb :
  do_act c ctx st (AFlush fid cb) =
  if flush_idle c st
  then let '(st', t) := run_acts c ctx st cb in (st', FlushReq fid false :: fired_ev ctx st fid :: t)
  else (set_flushers st (flushers st ++ [(fid, cb)]), [FlushReq fid true]).
Proof. reflexivity. Qed.

(* ---- one action *)
Lemma do_act_spec ctx a : forall st st' t,
  do_act good_cfg ctx st a = (st', t) -> acts_spec ctx st st' t.
Proof.
  induction a as [s _|fid cb IH] using act_nested_ind; intros st st' t.
  - cbn [do_act good_cfg c_append_runs]. intros H; injection H as <- <-.
    destruct (enq1_good st s) as (A1 & A2 & A3 & A4 & A5 & A6).
    unfold acts_spec. cbn [rans fpopped subs fdeferred ffired fanswered]. rewrite A3, app_nil_r.
    split; [reflexivity|]. split; [reflexivity|]. split; [exact A1|]. split; [exact A2|].
    split; [reflexivity|]. split; [reflexivity|]. split; [exact A4|]. split; [exact A5|].
    split; [intros _; repeat constructor|]. split; [intros _; repeat constructor|].
    split; [intros _ _ C; contradiction|]. intros _; exact A6.
  - rewrite do_act_unfold. unfold flush_idle, run_acts. cbn [good_cfg c_guard].
    destruct (is_nil (events st) && negb (in_turn st)) eqn:E.
    + apply andb_true_iff in E as [E1 E2]. apply negb_true_iff in E2.
      assert (He : events st = []) by (destruct (events st); [reflexivity|discriminate]).
      destruct (run_list (do_act good_cfg ctx) cb st) as [st1 t1] eqn:E3.
      intros H; injection H as <- <-.
      apply (run_list_spec ctx cb IH) in E3 as (A1 & A2 & A3 & A4 & A5 & A6 & A7 & A8 & A9 & A10 & A11 & A12).
      unfold acts_spec, fired_ev. cbn [rans fpopped subs fdeferred ffired fanswered].
      rewrite A6.
      split; [exact A1|]. split; [exact A2|]. split; [exact A3|]. split; [exact A4|].
      split; [exact A5|]. split; [reflexivity|]. split; [exact A7|]. split; [exact A8|].
      split; [intros C; congruence|]. split; [|split; [exact A11|exact A12]].
      intros ->. constructor; [exact I|]. constructor; [|apply A10; reflexivity].
      cbn [flush_ok]. rewrite He. split; reflexivity.
    + intros H; injection H as <- <-.
      unfold acts_spec. cbn [set_flushers events in_turn timer sched flushers rans fpopped subs fdeferred ffired fanswered].
      rewrite app_nil_r, map_app. cbn [map fst].
      split; [reflexivity|]. split; [reflexivity|]. split; [reflexivity|]. split; [reflexivity|].
      split; [reflexivity|]. split; [reflexivity|].
      split; [intros [H1 H2]; split; assumption|]. split; [auto|].
      split; [intros _; repeat constructor|]. split; [intros _; repeat constructor|].
      split; [|auto].
      intros Hi _ C. cbn [set_flushers events] in C. rewrite Hi, C in E. discriminate.
Qed.

Lemma run_acts_spec ctx l st st' t :
  run_acts good_cfg ctx st l = (st', t) -> acts_spec ctx st st' t.
Proof.
  unfold run_acts. apply run_list_spec. apply Forall_forall. intros a _. apply do_act_spec.
Qed.

Lemma notify_spec st f cb st' t :
  notify good_cfg None st f cb = (st', t) -> events st = [] -> in_turn st = false ->
  exists t', t = FlushFired f 0%nat false :: t' /\ acts_spec None st st' t'.
Proof.
  unfold notify. destruct (run_acts good_cfg None st cb) as [st1 t1] eqn:E.
  intros H He Hi; injection H as <- <-. exists t1. unfold fired_ev. rewrite He. split; [reflexivity|].
  eapply run_acts_spec. exact E.
Qed.

(* ---- the batch loop *)
Lemma run_batch_good batch : forall st st' t ok,
  run_batch good_cfg st batch = (st', t, ok) ->
  ok = true /\ rans t = ids batch /\ ids (events st') = ids (events st) ++ subs t /\
  in_turn st' = in_turn st /\ (wfq st -> wfq st') /\ (in_turn st = true -> noflushfired t) /\
  fpopped t = [] /\ map fst (flushers st') = map fst (flushers st) ++ fdeferred t /\ ffired t = fanswered t.
Proof.
  induction batch as [|s rest IH]; intros st st' t ok; cbn [run_batch].
  - intros H; inversion H; subst. cbn [rans subs ids map fpopped fdeferred ffired fanswered]. rewrite !app_nil_r.
    repeat (split; [first [reflexivity | solve [auto] | intros; constructor]|]). reflexivity.
  - destruct (run_acts good_cfg (Some rest) st (sacts s)) as [st1 t1] eqn:E1.
    apply run_acts_spec in E1 as (A1 & A2 & A3 & A4 & A5 & A6 & A7 & A8 & A9 & A10 & A11 & A12).
    unfold catches. cbn [c_catch good_cfg].
    destruct (run_batch good_cfg st1 rest) as [[st2 t2] ok2] eqn:E2.
    apply IH in E2 as (B0 & B1 & B2 & B3 & B4 & B5 & B6 & B7 & B8).
    destruct (sraises s); intros H; inversion H; subst; clear H;
      cbn [rans subs ids map fpopped fdeferred ffired fanswered];
      rewrite ?rans_app, ?subs_app, ?fpopped_app, ?fdeferred_app, ?ffired_app, ?fanswered_app;
      cbn [rans subs fpopped fdeferred ffired fanswered];
      rewrite A1, B1, B2, A3, B3, A4, A2, B6, B7, A5, A6, B8, <- ?app_assoc; cbn [app ids];
      (split; [reflexivity|]); (split; [reflexivity|]); (split; [reflexivity|]); (split; [reflexivity|]);
      (split; [auto|]);
      (split; [|split; [reflexivity|split; reflexivity]]);
      intros Hi; assert (N1 := A9 Hi); (assert (N2 : noflushfired t2) by (apply B5; congruence));
      unfold noflushfired in *; (constructor; [exact I|]); apply Forall_app; (split; [exact N1|]);
      first [exact N2 | constructor; [exact I | exact N2]].
Qed.

(* ---- the observer loop never runs out of fuel, for EVERY configuration: one notification takes one
   registered observer away and its callback can register at most as many as it contains flush requests *)
Lemma act_flushes_unfold fid cb : act_flushes (AFlush fid cb) = S (acts_flushes cb).
Proof.
  reflexivity.
Qed.

Lemma act_flushes_enq s : act_flushes (AEnq s) = acts_flushes (sacts s).
Proof. destruct s. reflexivity. Qed.

Lemma obs_weight_app a b : obs_weight (a ++ b) = (obs_weight a + obs_weight b)%nat.
Proof. unfold obs_weight. induction a as [|x a IH]; [reflexivity|]. cbn [app fold_right]. rewrite IH. lia. Qed.

Lemma enq1_flushers c st s : flushers (enq1 c st s) = flushers st.
Proof. reflexivity. Qed.

Lemma run_list_weight c l :
  Forall (fun a => forall ctx st, (obs_weight (flushers (fst (do_act c ctx st a))) <= obs_weight (flushers st) + act_flushes a)%nat) l ->
  forall ctx st, (obs_weight (flushers (fst (run_list (do_act c ctx) l st))) <= obs_weight (flushers st) + acts_flushes l)%nat.
Proof.
  induction 1 as [|a l Ha _ IH]; intros ctx st; cbn [run_list].
  - cbn. lia.
  - specialize (Ha ctx st). destruct (do_act c ctx st a) as [st1 t1]. cbn [fst] in Ha.
    specialize (IH ctx st1). destruct (run_list (do_act c ctx) l st1) as [st2 t2]. cbn [fst] in *.
    unfold acts_flushes in *. cbn [fold_right]. lia.
Qed.

Lemma do_act_weight c a : forall ctx st,
  (obs_weight (flushers (fst (do_act c ctx st a))) <= obs_weight (flushers st) + act_flushes a)%nat.
Proof.
  induction a as [s IH|fid cb IH] using act_nested_ind; intros ctx st.
  - rewrite act_flushes_enq. destruct s as [i acts k]. cbn [do_act sacts] in *. destruct (c_append_runs c).
    + pose proof (run_list_weight c acts IH (Some match ctx with Some r => r | None => [] end) (enq1 c st (Sc i acts k))) as W.
      destruct (run_list _ acts (enq1 c st (Sc i acts k))) as [st1 t1]. cbn [fst] in *.
      rewrite enq1_flushers in W. lia.
    + cbn [fst]. rewrite enq1_flushers. lia.
  - rewrite do_act_unfold, act_flushes_unfold. unfold run_acts. destruct (flush_idle c st).
    + pose proof (run_list_weight c cb IH ctx st) as W.
      destruct (run_list (do_act c ctx) cb st) as [st1 t1]. cbn [fst] in *. lia.
    + cbn [fst set_flushers flushers]. rewrite obs_weight_app. unfold obs_weight at 2. cbn [fold_right snd]. lia.
Qed.

Lemma run_acts_weight c ctx l st :
  (obs_weight (flushers (fst (run_acts c ctx st l))) <= obs_weight (flushers st) + acts_flushes l)%nat.
Proof. unfold run_acts. apply run_list_weight. apply Forall_forall. intros a _. apply do_act_weight. Qed.

(* the `while` loop of _turn ends because its condition is false, never because the model's fuel is used up *)
Theorem fire_while_complete : forall c fuel st,
  (obs_weight (flushers st) <= fuel)%nat ->
  flushers (fst (fire_while c fuel st)) = [] \/ events (fst (fire_while c fuel st)) <> [].
Proof.
  intros c fuel. induction fuel as [|fuel IH]; intros st Hw; cbn [fire_while].
  - left. cbn [fst]. destruct (flushers st) as [|[f cb] rest]; [reflexivity|].
    unfold obs_weight in Hw. cbn [fold_right] in Hw. lia.
  - destruct (flushers st) as [|[f cb] rest] eqn:Ef; [left; exact Ef|].
    destruct (is_nil (events st)) eqn:En.
    + unfold notify.
      pose proof (run_acts_weight c None cb (set_flushers st rest)) as W.
      destruct (run_acts c None (set_flushers st rest) cb) as [st1 t1]. cbn [fst set_flushers flushers] in W.
      assert (W1 : (obs_weight (flushers st1) <= fuel)%nat).
      { unfold obs_weight in Hw. cbn [fold_right snd] in Hw. fold (obs_weight rest) in Hw. lia. }
      specialize (IH st1 W1). destruct (fire_while c fuel st1) as [st2 t2]. exact IH.
    + right. cbn [fst]. intros C. rewrite C in En. discriminate.
Qed.

(* ---- one reactor turn *)
(* between operations no batch is running, and observers are registered only while work is queued *)
Definition wft (st : qstate) : Prop :=
  wfq st /\ in_turn st = false /\ qinv st.

Lemma fire_while_good fuel : forall st st' t,
  fire_while good_cfg fuel st = (st', t) -> wfq st -> in_turn st = false ->
  wfq st' /\ in_turn st' = false /\ Forall flush_ok t /\ rans t = [] /\
  ids (events st') = ids (events st) ++ subs t /\
  map fst (flushers st) ++ fdeferred t = fpopped t ++ map fst (flushers st') /\
  ffired t = fanswered t.
Proof.
  induction fuel as [|fuel IH]; intros st st' t; cbn [fire_while].
  - intros H W Hi; injection H as <- <-. cbn [rans subs fdeferred fpopped ffired fanswered]. rewrite !app_nil_r.
    repeat (split; [first [reflexivity | assumption | constructor]|]). reflexivity.
  - destruct (flushers st) as [|[f cb] rest] eqn:Ef.
    + intros H W Hi; injection H as <- <-. cbn [rans subs fdeferred fpopped ffired fanswered]. rewrite Ef, !app_nil_r.
      repeat (split; [first [reflexivity | assumption | constructor]|]). reflexivity.
    + destruct (is_nil (events st)) eqn:En.
      * destruct (notify good_cfg None (set_flushers st rest) f cb) as [st1 t1] eqn:E1.
        destruct (fire_while good_cfg fuel st1) as [st2 t2] eqn:E2.
        intros H W Hi; injection H as <- <-.
        assert (He : events st = []) by (destruct (events st); [reflexivity|discriminate]).
        apply notify_spec in E1 as (t1' & -> & (A1 & A2 & A3 & A4 & A5 & A6 & A7 & A8 & A9 & A10 & A11 & A12));
          [|exact He|exact Hi].
        cbn [set_flushers events flushers in_turn] in *.
        assert (W1 : wfq st1) by (apply A7; destruct W as [W1 W2]; split; assumption).
        apply IH in E2 as (B1 & B2 & B3 & B4 & B5 & B6 & B7); [|exact W1|congruence].
        split; [exact B1|]. split; [exact B2|]. split.
        { constructor; [exact I|]. constructor; [cbn; split; reflexivity|].
          apply Forall_app; split; [apply A10; reflexivity|exact B3]. }
        cbn [rans subs fdeferred fpopped ffired fanswered app map fst].
        rewrite rans_app, subs_app, fdeferred_app, fpopped_app, ffired_app, fanswered_app.
        rewrite A1, B4, B5, A3, A2, A6, B7, <- !app_assoc. cbn [app].
        split; [reflexivity|]. split; [reflexivity|]. split; [|reflexivity].
        f_equal. rewrite app_assoc, <- A5. exact B6.
      * intros H W Hi; injection H as <- <-. cbn [rans subs fdeferred fpopped ffired fanswered]. rewrite Ef, !app_nil_r.
        repeat (split; [first [reflexivity | assumption | constructor]|]). reflexivity.
Qed.

Lemma qinv_sched st : wfq st -> qinv st -> flushers st <> [] -> sched st = true.
Proof.
  intros [_ W2] Q Hf. apply W2. intros C. apply Hf. apply Q. exact C.
Qed.

Lemma turn_good st st' t :
  turn good_cfg st = (st', t) -> wft st ->
  wft st' /\ Forall flush_ok t /\
  ids (events st) ++ subs t = rans t ++ ids (events st') /\
  firstn (List.length (events st)) (rans t) = ids (events st) /\
  (exists t1 t2, t = t1 ++ t2 /\ rans t1 = ids (events st) /\ rans t2 = []) /\
  map fst (flushers st) ++ fdeferred t = fpopped t ++ map fst (flushers st') /\
  ffired t = fanswered t.
Proof.
  unfold turn. intros H [[W1 W2] [Hi W3]].
  destruct (sched st) eqn:Es; cbn [negb] in H.
  - cbn [good_cfg c_clears c_marks c_order] in H.
    match type of H with context [run_batch good_cfg ?s0 ?b] =>
      destruct (run_batch good_cfg s0 b) as [[st1 t1] ok] eqn:E; set (st0 := s0) in * end.
    apply run_batch_good in E as (B0 & B1 & B2 & B3 & B4 & B5 & B6 & B7 & B8). subst ok.
    assert (W0 : wfq st0) by (split; [reflexivity|]; intros C; exfalso; apply C; reflexivity).
    specialize (B4 W0). specialize (B5 eq_refl). cbn [st0 events in_turn flushers ids map app] in B2, B3, B7.
    assert (Hnf : Forall flush_ok t1) by (apply noflushfired_ok; exact B5).
    unfold fire in H. cbn [good_cfg c_fire flushers] in H.
    match type of H with context [fire_while good_cfg ?fu ?s2] =>
      pose proof (fire_while_complete good_cfg fu s2 (le_n _)) as Hx;
      destruct (fire_while good_cfg fu s2) as [st2 t2] eqn:E2 end.
    injection H as <- <-. cbn [fst] in Hx.
    apply fire_while_good in E2 as (C1 & C2 & C3 & C4 & C5 & C6 & C7); [|exact B4|reflexivity].
    cbn [events flushers] in C5, C6.
    split.
    { split; [exact C1|]. split; [exact C2|]. intros He. destruct Hx as [Hx|Hx]; [exact Hx|contradiction]. }
    split; [apply Forall_app; split; assumption|].
    rewrite subs_app, rans_app, fdeferred_app, fpopped_app, ffired_app, fanswered_app.
    rewrite C4, app_nil_r, B1, C5, B2, B6, B8, C7. cbn [app].
    split; [rewrite app_assoc; reflexivity|]. split.
    { unfold ids. rewrite <- (map_length sid (events st)). apply firstn_all. }
    split; [exists t1, t2; auto|]. split; [|reflexivity].
    rewrite app_assoc, <- B7. exact C6.
  - injection H as <- <-.
    assert (He : events st = []).
    { destruct (events st) eqn:E; [reflexivity|]. assert (false = true) by (apply W2; discriminate). discriminate. }
    split; [unfold wft, wfq; rewrite Es; auto|]. split; [constructor|].
    rewrite He. cbn [ids map app subs rans List.length firstn fdeferred fpopped ffired fanswered]. rewrite app_nil_r.
    split; [reflexivity|]. split; [reflexivity|]. split; [exists [], []; auto|]. split; reflexivity.
Qed.

Lemma act_top_good st a st' t :
  do_act good_cfg None st a = (st', t) -> wft st ->
  wft st' /\ Forall flush_ok t /\ ids (events st) ++ subs t = rans t ++ ids (events st') /\
  map fst (flushers st) ++ fdeferred t = fpopped t ++ map fst (flushers st') /\ ffired t = fanswered t.
Proof.
  intros H (W & Hi & Q).
  apply do_act_spec in H as (A1 & A2 & A3 & A4 & A5 & A6 & A7 & A8 & A9 & A10 & A11 & A12).
  rewrite A1, A2, A3, A5. cbn [app].
  split; [|split; [apply A10; reflexivity|split; [reflexivity|split; [reflexivity|exact A6]]]].
  split; [apply A7; exact W|]. split; [congruence|]. apply A11; assumption.
Qed.

Definition step_spec (st st' : qstate) (t : list ev) : Prop :=
  wft st' /\ Forall flush_ok t /\ ids (events st) ++ subs t = rans t ++ ids (events st') /\
  map fst (flushers st) ++ fdeferred t = fpopped t ++ map fst (flushers st') /\ ffired t = fanswered t.

Lemma step_good st o st' t :
  step good_cfg st o = (st', t) -> wft st -> step_spec st st' t.
Proof.
  destruct o as [a|]; cbn [step]; intros H W.
  - eapply act_top_good; eassumption.
  - apply turn_good in H as (A & B & C & _ & _ & D & E); [|exact W]. unfold step_spec. auto.
Qed.

Lemma run_good ops : forall st st' t,
  run good_cfg st ops = (st', t) -> wft st -> step_spec st st' t.
Proof.
  induction ops as [|o ops IH]; intros st st' t; cbn [run].
  - intros H W; inversion H; subst. unfold step_spec. cbn [subs rans fdeferred fpopped ffired fanswered app].
    rewrite !app_nil_r. split; [exact W|]. split; [constructor|]. auto.
  - destruct (step good_cfg st o) as [st1 t1] eqn:E1. destruct (run good_cfg st1 ops) as [st2 t2] eqn:E2.
    intros H W; inversion H; subst; clear H.
    apply step_good in E1 as (A1 & A2 & A3 & A4 & A5); [|exact W].
    apply IH in E2 as (B1 & B2 & B3 & B4 & B5); [|exact A1].
    split; [exact B1|]. split; [apply Forall_app; split; assumption|].
    rewrite subs_app, rans_app, fdeferred_app, fpopped_app, ffired_app, fanswered_app.
    split; [rewrite app_assoc, A3, <- !app_assoc, B3; reflexivity|].
    split; [rewrite app_assoc, A4, <- !app_assoc, B4; reflexivity|].
    rewrite A5, B5. reflexivity.
Qed.

Lemma wft_q0 : wft q0.
Proof.
  split; [split; [reflexivity|intros C; exfalso; apply C; reflexivity]|]. split; [reflexivity|]. intros _; reflexivity.
Qed.

(* ======================= property theorems ======================= *)

(* eventually(f) only records f: nothing runs, whatever the state and whoever calls it
   (top level, a callable of the running batch, the callback of a flush Deferred).
   This rests on the translated fact ev_append_runs_callable = false (c_append_runs good_cfg): see
   [ev_never_sync_needs_fact] below. *)
Theorem ev_never_sync : forall ctx st s,
  snd (do_act good_cfg ctx st (AEnq s)) = [Sub (sid s)] /\
  forall l, rans (snd (run_acts good_cfg ctx st l)) = [].
Proof.
  intros ctx st s. split; [reflexivity|].
  intros l. destruct (run_acts good_cfg ctx st l) as [st' t] eqn:E. apply run_acts_spec in E. apply E.
Qed.

(* ... and the dependence on that fact is real: for a configuration whose append() calls cb, the statement fails --
   the callable runs inside eventually() (and once more in its turn) *)
Lemma ev_never_sync_needs_fact :
  exists c ctx st s, c_append_runs c = true /\ In (Ran (sid s)) (snd (do_act c ctx st (AEnq s))).
Proof.
  exists append_sync_cfg, None, q0, (Sc 1 [] RNo). split; [reflexivity|]. vm_compute. tauto.
Qed.

Lemma ev_never_sync_append_sync_refuted :
  let ops := [OAct (AEnq (Sc 1 [AEnq (Sc 2 [] RNo); AFlush 7 []] RExc)); OTurn; OTurn] in
  snd (run append_sync_cfg q0 ops) =
    [Sub 1; Ran 1; Sub 2; Ran 2; FlushReq 7 true; Raised 1; Escaped 1;
     Ran 1; Sub 2; Ran 2; FlushReq 7 true; Raised 1; Ran 2; Ran 2; FlushPop 7; FlushFired 7 0%nat false;
     FlushPop 7; FlushFired 7 0%nat false].
Proof. vm_compute. reflexivity. Qed.

Example ev_never_sync_now :
  let ops := [OAct (AEnq (Sc 1 [AEnq (Sc 2 [] RNo); AFlush 7 []] RExc)); OTurn; OTurn] in
  c_append_runs good_cfg = false /\
  snd (do_act good_cfg None q0 (AEnq (Sc 1 [AEnq (Sc 2 [] RNo); AFlush 7 []] RExc))) = [Sub 1] /\
  snd (run good_cfg q0 ops) =
    [Sub 1; Ran 1; Sub 2; FlushReq 7 true; Raised 1; Ran 2; FlushPop 7; FlushFired 7 0%nat false].
Proof. vm_compute. repeat split; reflexivity. Qed.

(* run order = submission order: at any moment the callables submitted so far (at top level,
   re-entrantly, or by flush callbacks) are, in order, those already run followed by those still queued *)
Theorem ev_fifo : forall ops st t,
  run good_cfg q0 ops = (st, t) -> subs t = rans t ++ map sid (events st).
Proof.
  intros ops st t H. apply run_good in H as (_ & _ & H & _); [|exact wft_q0]. exact H.
Qed.

Corollary ev_exactly_once : forall ops st t,
  run good_cfg q0 ops = (st, t) -> events st = [] -> rans t = subs t.
Proof. intros ops st t H He. apply ev_fifo in H. rewrite He, app_nil_r in H. auto. Qed.

(* one turn runs exactly the callables queued when it started, in order, whether or not some
   of them raise; what they (or the flush callbacks served at the end of the turn) enqueue is
   left for a later turn *)
Theorem ev_isolation : forall ops st t st' t',
  run good_cfg q0 ops = (st, t) -> turn good_cfg st = (st', t') ->
  rans t' = map sid (events st) /\ map sid (events st') = subs t'.
Proof.
  intros ops st t st' t' H Ht.
  apply run_good in H as (W & _ & _); [|exact wft_q0].
  apply turn_good in Ht as (_ & _ & A & _ & (t1 & t2 & -> & B1 & B2) & _); [|exact W].
  rewrite rans_app, B1, B2, app_nil_r in *. split; [reflexivity|].
  apply app_inv_head in A. auto.
Qed.

(* work that is queued always has a reactor call pending, and so has a registered flush observer *)
Theorem ev_scheduled : forall ops st t,
  run good_cfg q0 ops = (st, t) ->
  (events st <> [] -> sched st = true) /\ (flushers st <> [] -> sched st = true) /\ in_turn st = false.
Proof.
  intros ops st t H. apply run_good in H as ((W & Hi & Q) & _ & _); [|exact wft_q0].
  split; [apply W|]. split; [apply qinv_sched; assumption|exact Hi].
Qed.

(* the flush notification fires only when nothing is queued and no callable of a batch is running *)
Theorem ev_flush : forall ops st t,
  run good_cfg q0 ops = (st, t) -> Forall flush_ok t.
Proof.
  intros ops st t H. apply run_good in H as (_ & H & _); [|exact wft_q0]. exact H.
Qed.

(* NEW.  No flush observer is lost, none is notified twice, and the deferred ones are served in request order:
   for every program,
   - the deferred requests made so far are, in order, the observers taken out of the list so far followed by
     those still registered;
   - the notifications are, in order and one for one, the requests answered at once (made on the idle queue)
     and the observers taken out of the list. *)
Theorem ev_flush_accounting : forall ops st t,
  run good_cfg q0 ops = (st, t) ->
  fdeferred t = fpopped t ++ map fst (flushers st) /\ ffired t = fanswered t.
Proof.
  intros ops st t H. apply run_good in H as (_ & _ & _ & A & B); [|exact wft_q0].
  cbn [q0 flushers map app] in A. auto.
Qed.

(* NEW.  Whenever the queue is empty between two operations -- in particular after a turn that leaves it
   empty -- no observer remains registered: every deferred request made so far has been notified *)
Theorem ev_flush_drained : forall ops st t,
  run good_cfg q0 ops = (st, t) -> events st = [] ->
  flushers st = [] /\ fdeferred t = fpopped t.
Proof.
  intros ops st t H He. pose proof (ev_flush_accounting _ _ _ H) as [A _].
  apply run_good in H as ((_ & _ & Q) & _); [|exact wft_q0].
  specialize (Q He). rewrite Q in A. cbn [map] in A. rewrite app_nil_r in A. auto.
Qed.

(* NEW.  A flush request made between two operations is answered at once exactly when nothing is queued *)
Theorem ev_flush_sync_iff : forall ops st t fid cb,
  run good_cfg q0 ops = (st, t) ->
  (events st = [] -> exists t', snd (do_act good_cfg None st (AFlush fid cb)) = FlushReq fid false :: FlushFired fid 0%nat false :: t') /\
  (events st <> [] -> do_act good_cfg None st (AFlush fid cb) = (set_flushers st (flushers st ++ [(fid, cb)]), [FlushReq fid true])).
Proof.
  intros ops st t fid cb H.
  apply run_good in H as ((_ & Hi & _) & _); [|exact wft_q0].
  rewrite do_act_unfold. unfold flush_idle, fired_ev. cbn [good_cfg c_guard]. rewrite Hi. split.
  - intros ->. cbn [is_nil andb negb]. destruct (run_acts good_cfg None st cb) as [st1 t1]. cbn [snd].
    exists t1. cbn [List.length]. destruct st; reflexivity.
  - intros Hn. destruct (events st); [contradiction|]. reflexivity.
Qed.

(* D11, for the record: the guard `if not self._events` of the earlier code admits a notification
   while a later callable of the same batch has not run *)
Definition d11_witness : list op :=
  [OAct (AEnq (Sc 1 [AFlush 7 []] RNo)); OAct (AEnq (Sc 2 [] RNo)); OTurn].

Lemma ev_flush_old_guard_refuted :
  exists ops st t, run old_cfg q0 ops = (st, t) /\ In (FlushFired 7 1%nat true) t.
Proof. exists d11_witness. eexists. eexists. split; [vm_compute; reflexivity|]. cbn. tauto. Qed.

Example d11_witness_now :
  snd (run good_cfg q0 d11_witness) =
  [Sub 1; Sub 2; Ran 1; FlushReq 7 true; Ran 2; FlushPop 7; FlushFired 7 0%nat false].
Proof. vm_compute. reflexivity. Qed.

(* the second repair, for the record: with `if not self._events: fire every observer` a later observer is
   notified although the callback of an earlier one has just enqueued work *)
Definition d17_witness : list op :=
  [OAct (AEnq (Sc 1 [] RNo)); OAct (AFlush 7 [AEnq (Sc 2 [] RNo)]); OAct (AFlush 8 []); OTurn].

Lemma ev_flush_old_loop_refuted :
  exists ops st t, run old2_cfg q0 ops = (st, t) /\ In (FlushFired 8 1%nat false) t.
Proof. exists d17_witness. eexists. eexists. split; [vm_compute; reflexivity|]. cbn. tauto. Qed.

Example d17_witness_now :
  snd (run good_cfg q0 (d17_witness ++ [OTurn])) =
  [Sub 1; FlushReq 7 true; FlushReq 8 true; Ran 1; FlushPop 7; FlushFired 7 0%nat false; Sub 2; Ran 2;
   FlushPop 8; FlushFired 8 0%nat false].
Proof. vm_compute. reflexivity. Qed.

(* non-vacuity: a program with re-entrant enqueueing, a raising callable and flushes *)
Example ev_example :
  let ops := [OAct (AEnq (Sc 1 [AEnq (Sc 3 [] RNo); AFlush 8 [AEnq (Sc 4 [] RBase)]] RExc)); OAct (AFlush 9 []);
              OAct (AEnq (Sc 2 [] RNo)); OTurn; OTurn; OTurn; OAct (AFlush 10 [])] in
  snd (run good_cfg q0 ops) =
    [Sub 1; FlushReq 9 true; Sub 2; Ran 1; Sub 3; FlushReq 8 true; Raised 1; Ran 2; Ran 3;
     FlushPop 9; FlushFired 9 0%nat false; FlushPop 8; FlushFired 8 0%nat false; Sub 4;
     Ran 4; Raised 4; FlushReq 10 false; FlushFired 10 0%nat false]
  /\ events (fst (run good_cfg q0 ops)) = [].
Proof. vm_compute. split; reflexivity. Qed.

(* non-vacuity of the nested callbacks.
   (1) a callback that calls flush on the idle queue: the inner Deferred comes back fired and ITS callback runs
       at once, nested (request 2 is answered before the outer callback goes on to enqueue callable 5) *)
Example ev_nested_sync :
  snd (run good_cfg q0 [OAct (AFlush 1 [AFlush 2 [AEnq (Sc 4 [] RNo)]; AEnq (Sc 5 [] RNo)]); OTurn]) =
  [FlushReq 1 false; FlushFired 1 0%nat false; FlushReq 2 false; FlushFired 2 0%nat false; Sub 4; Sub 5; Ran 4; Ran 5].
Proof. vm_compute. reflexivity. Qed.

(* (2) a callback that first enqueues work and then calls flush: the request is deferred, stays registered behind
       the observers that were not served yet (8), and both wait for the turn that runs the new work *)
Example ev_nested_deferred :
  let ops := [OAct (AEnq (Sc 1 [] RNo)); OAct (AFlush 7 [AEnq (Sc 2 [] RNo); AFlush 9 []]); OAct (AFlush 8 []); OTurn] in
  snd (run good_cfg q0 ops) =
    [Sub 1; FlushReq 7 true; FlushReq 8 true; Ran 1; FlushPop 7; FlushFired 7 0%nat false; Sub 2; FlushReq 9 true]
  /\ map fst (flushers (fst (run good_cfg q0 ops))) = [8; 9]
  /\ snd (run good_cfg q0 (ops ++ [OTurn])) =
    [Sub 1; FlushReq 7 true; FlushReq 8 true; Ran 1; FlushPop 7; FlushFired 7 0%nat false; Sub 2; FlushReq 9 true;
     Ran 2; FlushPop 8; FlushFired 8 0%nat false; FlushPop 9; FlushFired 9 0%nat false]
  /\ flushers (fst (run good_cfg q0 (ops ++ [OTurn]))) = [].
Proof. vm_compute. repeat split; reflexivity. Qed.

(* (3) two levels of nesting inside the observer loop of _turn: observer 7's callback calls flush (3, answered at
       once: the queue is empty and no batch is running), whose callback calls flush (4, at once), whose callback
       enqueues 5 and calls flush (6, deferred: it is appended to the LIVE list behind observer 8, which the
       loop has not served yet); a request answered at once overtakes the registered observer 8 *)
Example ev_nested_two_levels :
  let ops := [OAct (AEnq (Sc 1 [AFlush 7 [AFlush 3 [AFlush 4 [AEnq (Sc 5 [] RNo); AFlush 6 []]]]; AFlush 8 []] RNo)); OTurn] in
  snd (run good_cfg q0 ops) =
    [Sub 1; Ran 1; FlushReq 7 true; FlushReq 8 true; FlushPop 7; FlushFired 7 0%nat false;
     FlushReq 3 false; FlushFired 3 0%nat false; FlushReq 4 false; FlushFired 4 0%nat false; Sub 5; FlushReq 6 true]
  /\ map fst (flushers (fst (run good_cfg q0 ops))) = [8; 6]
  /\ snd (run good_cfg q0 (ops ++ [OTurn])) = snd (run good_cfg q0 ops) ++
       [Ran 5; FlushPop 8; FlushFired 8 0%nat false; FlushPop 6; FlushFired 6 0%nat false]
  /\ flushers (fst (run good_cfg q0 (ops ++ [OTurn]))) = [].
Proof. vm_compute. repeat split; reflexivity. Qed.

(* the snapshot loop of the earlier code (old2_cfg, seeded change C17-s1) on the same program: observer 8 is notified
   although callable 5 -- enqueued by the nested callback of observer 7 -- has not run *)
Lemma ev_flush_old_loop_nested_refuted :
  let ops := [OAct (AEnq (Sc 1 [AFlush 7 [AFlush 3 [AFlush 4 [AEnq (Sc 5 [] RNo); AFlush 6 []]]]; AFlush 8 []] RNo)); OTurn] in
  In (FlushFired 8 1%nat false) (snd (run old2_cfg q0 ops)) /\ map fst (flushers (fst (run old2_cfg q0 ops))) = [6].
Proof. vm_compute. split; [tauto|reflexivity]. Qed.

(* a loop over a snapshot of the observers that forgets what the callbacks registered meanwhile would lose observer 6
   of that program; the live loop of the current code keeps it: this is what [ev_flush_accounting] excludes *)
Example ev_live_list_keeps_late_observers :
  let ops := [OAct (AEnq (Sc 1 [] RNo)); OAct (AFlush 7 [AEnq (Sc 2 [] RNo); AFlush 9 [AFlush 10 []]]); OTurn; OTurn] in
  ffired (snd (run good_cfg q0 ops)) = [7; 9; 10] /\ freqs (snd (run good_cfg q0 ops)) = [7; 9; 10] /\
  flushers (fst (run good_cfg q0 ops)) = [].
Proof. vm_compute. repeat split; reflexivity. Qed.

(* `except Exception:` (seeded change C17-r2s1), for the record: a callable that raises a BaseException which is not
   an Exception ends the turn, and the callables queued behind it never run *)
Lemma ev_isolation_exc_only_refuted :
  let ops := [OAct (AEnq (Sc 1 [] RNo)); OAct (AEnq (Sc 2 [] RBase)); OAct (AEnq (Sc 3 [] RNo)); OTurn; OTurn] in
  rans (snd (run exc_only_cfg q0 ops)) = [1; 2] /\ in_turn (fst (run exc_only_cfg q0 ops)) = true.
Proof. vm_compute. split; reflexivity. Qed.

Example ev_isolation_base_now :
  let ops := [OAct (AEnq (Sc 1 [] RNo)); OAct (AEnq (Sc 2 [] RBase)); OAct (AEnq (Sc 3 [] RNo)); OTurn; OTurn] in
  snd (run good_cfg q0 ops) = [Sub 1; Sub 2; Sub 3; Ran 1; Ran 2; Raised 2; Ran 3].
Proof. vm_compute. reflexivity. Qed.
