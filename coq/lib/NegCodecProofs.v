(* C13: the negotiation message codec.  Theorems about the TRANSLATED Negotiation.parseLines / sendBlock of
   gen/NegCodecGen.v: every block that sendBlock can emit (keys lower-case without ':' / CR, values without CR and without
   leading blanks, all valid UTF-8) is framed by the FIRST terminator of the byte stream, whatever follows it, and parses back
   to exactly the block that was sent. *)
From Coq Require Import ZArith List String Bool Lia Arith.
Import ListNotations.
Require Import Verif.lib.PyLite Verif.gen.NegotiateGen Verif.lib.Negotiate Verif.lib.NegotiateProofs Verif.lib.NegCodec
  Verif.gen.NegCodecGen Verif.lib.NegSplit.
Local Open Scope Z_scope.

Definition nocr (l : bytes) : Prop := Forall (fun c => c <> 13) l.

Definition wf_key (k : bytes) : Prop :=
  Forall (fun c => c <> 13 /\ c <> 58) k /\ bytes_lower k = k /\ ensure_str k = Ok k.
Definition wf_val (v : bytes) : Prop :=
  nocr v /\ bytes_lstrip v = v /\ ensure_str v = Ok v.
Definition wf_pair (kv : bytes * bytes) : Prop := wf_key (fst kv) /\ wf_val (snd kv).

(* a Python dict with str keys in canonical form: keys strictly ascending *)
Fixpoint canonical (d : dict) : Prop :=
  match d with
  | [] => True
  | kv :: r => Forall (fun kv' => str_ltb (fst kv) (fst kv') = true) r /\ canonical r
  end.

Definition line_of (kv : bytes * bytes) : bytes := fst kv ++ 58 :: 32 :: snd kv.

Fixpoint join_lines (ls : list bytes) : bytes :=
  match ls with
  | [] => []
  | l :: r => match r with [] => l | _ => l ++ 13 :: 10 :: join_lines r end
  end.

Definition header_of (d : dict) : bytes := join_lines (map line_of d).

(* ---- small facts *)
Lemma list_eqb_refl a : list_eqb a a = true.
Proof. apply list_eqb_eq. reflexivity. Qed.

Lemma ltb_neq a b : str_ltb a b = true -> list_eqb b a = false /\ list_eqb a b = false /\ str_ltb b a = false.
Proof.
  intros H. split; [|split; [|apply str_ltb_asym; exact H]].
  - destruct (list_eqb b a) eqn:E; [|reflexivity]. apply list_eqb_eq in E. subst. rewrite str_ltb_irrefl in H. discriminate.
  - destruct (list_eqb a b) eqn:E; [|reflexivity]. apply list_eqb_eq in E. subst. rewrite str_ltb_irrefl in H. discriminate.
Qed.

(* ---- dict *)
Lemma dset_snoc d : forall k v, Forall (fun kv => str_ltb (fst kv) k = true) d -> dset d k v = d ++ [(k, v)].
Proof.
  induction d as [|[k' v'] r IH]; intros k v H; [reflexivity|].
  inversion H as [|? ? H1 H2]; subst. cbn [fst] in H1. destruct (ltb_neq _ _ H1) as (E1 & _ & E3).
  cbn [dset app]. rewrite E1. unfold bytes_ltb. rewrite E3. rewrite (IH k v H2). reflexivity.
Qed.

Lemma canonical_mid l1 : forall kv l2, canonical (l1 ++ kv :: l2) -> Forall (fun kv' => str_ltb (fst kv') (fst kv) = true) l1 /\ canonical l2.
Proof.
  induction l1 as [|x l1 IH]; intros kv l2 H.
  - cbn in H. destruct H as [_ H]. split; [constructor|exact H].
  - cbn [app canonical] in H. destruct H as [H1 H2]. destruct (IH kv l2 H2) as [I1 I2]. split; [|exact I2].
    constructor; [|exact I1]. rewrite Forall_forall in H1. apply H1. apply in_or_app. right. left. reflexivity.
Qed.

Lemma dget_canonical d : canonical d -> Forall (fun kv => dget d (fst kv) = Some (snd kv)) d.
Proof.
  induction d as [|[k v] r IH]; intros C; [constructor|]. destruct C as [C1 C2]. constructor.
  - cbn [dget fst snd]. rewrite list_eqb_refl. reflexivity.
  - specialize (IH C2). rewrite Forall_forall in *. intros kv Hin. cbn [dget].
    destruct (ltb_neq _ _ (C1 kv Hin)) as (E & _ & _). cbn [fst] in E. rewrite E. apply IH. exact Hin.
Qed.

Lemma sort_canonical d : canonical d -> sort_keys (dict_keys d) = dict_keys d.
Proof.
  induction d as [|[k v] r IH]; intros C; [reflexivity|]. destruct C as [C1 C2].
  unfold dict_keys in *. cbn [map sort_keys fst]. rewrite (IH C2).
  destruct r as [|[k2 v2] r2]; [reflexivity|]. cbn [map fst insert_sorted].
  inversion C1 as [|? ? H1 _]; subst. cbn [fst] in H1. destruct (ltb_neq _ _ H1) as (_ & _ & E). unfold bytes_ltb. rewrite E. reflexivity.
Qed.

(* ---- bytes.index / slices *)
Lemma find_colon k r : Forall (fun c => c <> 13 /\ c <> 58) k -> bytes_find [58] (k ++ 58 :: r) = Some (List.length k).
Proof.
  induction k as [|x k IH]; intros H; [cbn; reflexivity|].
  inversion H as [|? ? [_ Hx] Hk]; subst. change ((x :: k) ++ 58 :: r) with (x :: (k ++ 58 :: r)).
  cbn [bytes_find starts_with]. destruct (Z.eqb_spec 58 x); [lia|]. cbn [andb]. rewrite (IH Hk). reflexivity.
Qed.

Lemma slice_prefix (k r : bytes) : py_slice (k ++ r) None (Some (Z.of_nat (List.length k))) = k.
Proof.
  unfold py_slice, norm_idx. cbv zeta. rewrite app_length, Nat2Z.inj_add.
  destruct (Z.ltb_spec (Z.of_nat (List.length k)) 0); [lia|].
  rewrite Z.min_r by lia. rewrite Z.max_r by lia. rewrite Z.sub_0_r, Nat2Z.id.
  change (Z.to_nat 0) with 0%nat. cbn [skipn]. rewrite firstn_app, Nat.sub_diag, firstn_all. cbn [firstn]. apply app_nil_r.
Qed.

Lemma slice_suffix (k r : bytes) : py_slice (k ++ 58 :: r) (Some (Z.of_nat (List.length k) + 1)) None = r.
Proof.
  unfold py_slice, norm_idx. cbv zeta. rewrite app_length. cbn [List.length]. rewrite Nat2Z.inj_add, Nat2Z.inj_succ.
  destruct (Z.ltb_spec (Z.of_nat (List.length k) + 1) 0); [lia|].
  rewrite Z.min_r by lia. rewrite Z.max_r by lia.
  replace (Z.to_nat (Z.of_nat (List.length k) + 1)) with (S (List.length k)) by lia.
  replace (Z.to_nat (Z.of_nat (List.length k) + Z.succ (Z.of_nat (List.length r)) - (Z.of_nat (List.length k) + 1))) with (List.length r) by lia.
  rewrite skipn_app. rewrite skipn_all2 by lia. replace (S (List.length k) - List.length k)%nat with 1%nat by lia.
  cbn [skipn app]. apply firstn_all.
Qed.

(* ---- one line *)
Lemma parse_line block kv : wf_pair kv -> parseLines_body1 block (line_of kv) = Ok (dset block (fst kv) (snd kv)).
Proof.
  destruct kv as [k v]. intros [(K1 & K2 & K3) (V1 & V2 & V3)]. cbn [fst snd] in *.
  unfold parseLines_body1, line_of, bind, bytes_index. cbn [fst snd]. rewrite (find_colon k (32 :: v) K1).
  cbv beta zeta iota. rewrite slice_prefix, slice_suffix. cbn [bytes_lstrip]. change (is_space 32) with true. cbv iota.
  rewrite K2, V2, V3, K3. reflexivity.
Qed.

Lemma parse_fold l2 : forall l1, canonical (l1 ++ l2) -> Forall wf_pair l2 ->
  for_res (map line_of l2) l1 parseLines_body1 = Ok (l1 ++ l2).
Proof.
  induction l2 as [|kv l2 IH]; intros l1 C W; [cbn; rewrite app_nil_r; reflexivity|].
  inversion W as [|? ? W1 W2]; subst. cbn [map for_res]. rewrite (parse_line l1 kv W1).
  destruct (canonical_mid l1 kv l2 C) as [B _]. rewrite (dset_snoc l1 _ _ B).
  replace ((fst kv, snd kv)) with kv by (destruct kv; reflexivity).
  rewrite (IH (l1 ++ [kv])); [rewrite <- app_assoc; reflexivity | rewrite <- app_assoc; exact C | exact W2].
Qed.

(* ---- bytes.split(CRLF) of joined lines *)
Lemma split_line a : forall cur rest, nocr a -> split_go [13; 10] 0 cur (a ++ rest) = split_go [13; 10] 0 (rev a ++ cur) rest.
Proof.
  induction a as [|x a IH]; intros cur rest H; [reflexivity|]. inversion H as [|? ? Hx Ha]; subst.
  change ((x :: a) ++ rest) with (x :: (a ++ rest)). cbn [split_go starts_with].
  destruct (Z.eqb_spec 13 x); [lia|]. cbn [andb]. rewrite (IH (x :: cur) rest Ha). cbn [rev]. rewrite <- app_assoc. reflexivity.
Qed.

Lemma split_join ls : forall cur, ls <> [] -> Forall nocr ls ->
  split_go [13; 10] 0 cur (join_lines ls) = (rev cur ++ hd [] ls) :: tl ls.
Proof.
  induction ls as [|l r IH]; intros cur NE H; [congruence|]. inversion H as [|? ? Hl Hr]; subst.
  destruct r as [|l2 r2].
  - cbn [join_lines hd tl]. rewrite <- (app_nil_r l) at 1. rewrite (split_line l cur [] Hl). cbn [split_go].
    rewrite rev_app_distr, rev_involutive. reflexivity.
  - change (join_lines (l :: l2 :: r2)) with (l ++ 13 :: 10 :: join_lines (l2 :: r2)).
    rewrite (split_line l cur _ Hl). cbn [split_go starts_with List.length Nat.sub]. cbn [Z.eqb Pos.eqb andb].
    rewrite (IH [] ltac:(discriminate) Hr). rewrite rev_app_distr, rev_involutive. cbn [rev app hd tl]. reflexivity.
Qed.

Theorem split_joined ls : ls <> [] -> Forall nocr ls -> bytes_split [13; 10] (join_lines ls) = ls.
Proof.
  intros NE H. unfold bytes_split. rewrite (split_join ls [] NE H). destruct ls; [congruence|reflexivity].
Qed.

Lemma line_nocr kv : wf_pair kv -> nocr (line_of kv).
Proof.
  destruct kv as [k v]. intros [(K1 & _) (V1 & _)]. unfold nocr, line_of in *. cbn [fst snd] in *. apply Forall_app. split.
  - eapply Forall_impl; [|exact K1]. intros c [Hc _]; exact Hc.
  - constructor; [lia|]. constructor; [lia|exact V1].
Qed.

(* parse (lines of a block) = the block *)
Theorem parse_header d : d <> [] -> canonical d -> Forall wf_pair d -> parseLines (header_of d) = Ok d.
Proof.
  intros NE C W. unfold parseLines, header_of. cbv zeta.
  rewrite split_joined; [|destruct d; [congruence|discriminate]|].
  - rewrite (parse_fold d [] C W). reflexivity.
  - rewrite Forall_map. eapply Forall_impl; [|exact W]. intros kv; apply line_nocr.
Qed.

(* ---- sendBlock *)
Definition enc_line (kv : bytes * bytes) : bytes := line_of kv ++ [13; 10].
Definition wire_of (d : dict) : bytes := flat_map enc_line d ++ [13; 10].

Lemma send_fold d l : forall w, Forall (fun kv => dget d (fst kv) = Some (snd kv) /\ bytes_lower (fst kv) = fst kv) l ->
  for_res (map fst l) w (sendBlock_body1 d) = Ok (w ++ flat_map enc_line l).
Proof.
  induction l as [|kv l IH]; intros w H; [cbn; rewrite app_nil_r; reflexivity|].
  inversion H as [|? ? [H1 H2] H3]; subst. cbn [map for_res flat_map].
  unfold sendBlock_body1 at 1. unfold bind, dget_res. rewrite H1, H2. cbv beta zeta iota.
  rewrite (IH _ H3). unfold enc_line, line_of. f_equal. rewrite <- !app_assoc. cbn [app]. reflexivity.
Qed.

Theorem send_canonical d : canonical d -> Forall wf_pair d -> sendBlock d = Ok (wire_of d).
Proof.
  intros C W. unfold sendBlock, bind. cbv zeta. rewrite (sort_canonical d C). unfold dict_keys.
  rewrite (send_fold d d []).
  - reflexivity.
  - pose proof (dget_canonical d C) as G. rewrite Forall_forall in *. intros kv Hin. split; [apply G; exact Hin|].
    destruct (W kv Hin) as [(_ & L & _) _]. exact L.
Qed.

Lemma wire_header d : d <> [] -> wire_of d = header_of d ++ [13; 10; 13; 10].
Proof.
  intros NE. unfold wire_of, header_of. induction d as [|kv r IH]; [congruence|].
  destruct r as [|kv2 r2].
  - cbn. unfold enc_line. rewrite <- !app_assoc. reflexivity.
  - change (map line_of (kv :: kv2 :: r2)) with (line_of kv :: map line_of (kv2 :: r2)).
    change (join_lines (line_of kv :: map line_of (kv2 :: r2))) with (line_of kv ++ 13 :: 10 :: join_lines (map line_of (kv2 :: r2))).
    cbn [flat_map] in *. unfold enc_line at 1. rewrite <- !app_assoc. f_equal. cbn [app]. f_equal. f_equal.
    rewrite <- app_assoc in IH. apply IH. discriminate.
Qed.

(* ---- framing: the first terminator of the stream is the one that ends the block *)
Lemma starts_term_head x l : x <> 13 -> starts_term (x :: l) = false.
Proof.
  intros H. destruct l as [|b [|c [|d r]]]; cbn [starts_term]; try reflexivity.
  destruct (Z.eqb_spec x 13); [lia|reflexivity].
Qed.

Lemma find_term_skip a : forall rest, nocr a -> find_term (a ++ rest) = option_map (Nat.add (List.length a)) (find_term rest).
Proof.
  induction a as [|x a IH]; intros rest H; [cbn; destruct (find_term rest); reflexivity|].
  inversion H as [|? ? Hx Ha]; subst. change ((x :: a) ++ rest) with (x :: (a ++ rest)).
  cbn [find_term]. rewrite (starts_term_head x _ Hx). rewrite (IH rest Ha). destruct (find_term rest); reflexivity.
Qed.

Lemma find_term_cons x l : find_term (x :: l) = if starts_term (x :: l) then Some 0%nat else option_map S (find_term l).
Proof. reflexivity. Qed.

Lemma find_term_crlf c rest : c <> 13 -> find_term (13 :: 10 :: c :: rest) = option_map (Nat.add 2) (find_term (c :: rest)).
Proof.
  intros H. rewrite (find_term_cons 13), (find_term_cons 10).
  assert (E : starts_term (13 :: 10 :: c :: rest) = false).
  { destruct rest as [|d r]; cbn [starts_term]; [reflexivity|]. destruct (Z.eqb_spec c 13); [lia|reflexivity]. }
  rewrite E. rewrite (starts_term_head 10 (c :: rest)) by lia. destruct (find_term (c :: rest)); reflexivity.
Qed.

Definition good_line (l : bytes) : Prop := nocr l /\ exists c t, l = c :: t.

Lemma join_head l r : good_line l -> exists c t, join_lines (l :: r) = c :: t /\ c <> 13.
Proof.
  intros [N (c & t & ->)]. inversion N; subst. destruct r; cbn [join_lines]; [exists c, t; auto|].
  eexists c, _. split; [reflexivity|assumption].
Qed.

Lemma find_term_joined ls : forall rest, ls <> [] -> Forall good_line ls ->
  find_term (join_lines ls ++ 13 :: 10 :: 13 :: 10 :: rest) = Some (List.length (join_lines ls)).
Proof.
  induction ls as [|l r IH]; intros rest NE H; [congruence|]. inversion H as [|? ? Hl Hr]; subst.
  destruct r as [|l2 r2].
  - cbn [join_lines]. rewrite (find_term_skip l _ (proj1 Hl)). cbn. f_equal. lia.
  - change (join_lines (l :: l2 :: r2)) with (l ++ 13 :: 10 :: join_lines (l2 :: r2)).
    rewrite <- app_assoc. rewrite (find_term_skip l _ (proj1 Hl)). cbn [app].
    inversion Hr as [|? ? Hl2 _]; subst. destruct (join_head l2 r2 Hl2) as (c & t & E & Hc).
    specialize (IH rest ltac:(discriminate) Hr). rewrite E in IH |- *. cbn [app] in IH |- *.
    rewrite (find_term_crlf c _ Hc). rewrite IH. cbn [option_map]. f_equal. rewrite app_length. cbn [List.length]. lia.
Qed.

Lemma line_good kv : wf_pair kv -> good_line (line_of kv).
Proof.
  intros W. split; [apply line_nocr; exact W|]. destruct kv as [[|c k] v]; unfold line_of; cbn [fst snd app]; eauto.
Qed.

(* C13: a block written by sendBlock, followed by ANY bytes (the next block, the first Banana tokens), is cut by the
   receiver exactly at its end, and what is cut off parses back to the block *)
Theorem block_round_trip d rest :
  d <> [] -> canonical d -> Forall wf_pair d ->
  exists wire, sendBlock d = Ok wire /\
    find_term (wire ++ rest) = Some (List.length (header_of d)) /\
    firstn (List.length (header_of d)) (wire ++ rest) = header_of d /\
    skipn (List.length (header_of d) + 4) (wire ++ rest) = rest /\
    parseLines (header_of d) = Ok d.
Proof.
  intros NE C W. exists (wire_of d). split; [apply send_canonical; assumption|].
  rewrite (wire_header d NE). rewrite <- app_assoc. cbn [app]. split; [|split; [|split]].
  - unfold header_of. apply find_term_joined; [destruct d; [congruence|discriminate]|].
    rewrite Forall_map. eapply Forall_impl; [|exact W]. intros kv; apply line_good.
  - rewrite firstn_app, Nat.sub_diag, firstn_all. cbn [firstn]. apply app_nil_r.
  - rewrite skipn_app. rewrite skipn_all2 by lia.
    replace (List.length (header_of d) + 4 - List.length (header_of d))%nat with 4%nat by lia. reflexivity.
  - apply parse_header; assumption.
Qed.

(* totality: whatever bytes arrive, parseLines returns a block or raises one of two exceptions -- both are caught by the
   catch-all of dataReceived (it catches Exception), which records the failure and drops this connection *)
Lemma for_res_tags {A S} (xs : list A) (body : S -> A -> res S) (P : string -> Prop) :
  (forall s x t, body s x = Exc t -> P t) -> forall s t, for_res xs s body = Exc t -> P t.
Proof.
  intros Hb. induction xs as [|x r IH]; intros s t H; [discriminate|]. cbn [for_res] in H.
  destruct (body s x) eqn:E; [eapply IH; exact H|]. inversion H; subst. eapply Hb; exact E.
Qed.

Theorem parse_total header :
  (exists d, parseLines header = Ok d) \/ parseLines header = Exc "ValueError" \/ parseLines header = Exc "UnicodeDecodeError".
Proof.
  destruct (parseLines header) as [d|t] eqn:E; [left; eauto|right].
  assert (P : t = "ValueError"%string \/ t = "UnicodeDecodeError"%string).
  { unfold parseLines in E. cbv zeta in E. unfold bind in E at 1.
    destruct (for_res _ _ _) eqn:F; [discriminate|]. inversion E; subst.
    eapply (for_res_tags _ _ (fun t => t = "ValueError"%string \/ t = "UnicodeDecodeError"%string)); [|exact F].
    intros s x t0. unfold parseLines_body1, bind, bytes_index, ensure_str.
    repeat (match goal with
            | |- context [match bytes_find ?a ?b with _ => _ end] => destruct (bytes_find a b)
            | |- context [if utf8_valid ?a ?b then _ else _] => destruct (utf8_valid a b)
            end; cbv beta iota zeta); intros X; inversion X; auto. }
  destruct P as [-> | ->]; auto.
Qed.

(* non-vacuity: a hello-like block *)
Definition ex_block : dict := [([97; 45; 98], [49; 32; 51]); ([109; 121], [120])].
Example ex_block_ok : ex_block <> [] /\ canonical ex_block /\ Forall wf_pair ex_block.
Proof.
  split; [discriminate|]. split; [cbn; repeat constructor|].
  repeat constructor; cbn; try lia; try reflexivity.
Qed.
Example ex_block_wire : sendBlock ex_block = Ok [97; 45; 98; 58; 32; 49; 32; 51; 13; 10; 109; 121; 58; 32; 120; 13; 10; 13; 10].
Proof. vm_compute. reflexivity. Qed.
