(* C05: the KEY PATH of Tub.getReference.  Tub.brokers is a Python dict keyed by TubRef OBJECTS; "the connection to Tub X" is
   whatever that dict finds for the TubRef built from the FURL.  Everything about the keys is translated (gen/IdentityGen.v):
     tubref_distinguishers                       TubRef._distinguishers; __eq__ and __hash__ both go through it
     sturdy_getTubRef, getReference_key          SturdyRef.getTubRef + TubRef.__init__, Tub._getReference
     tubref_of_id                                evaluateNegotiationVersion1's TubRef(theirTubID)
     getBroker_decide                            Tub.getBrokerForTubRef, statement by statement
     attach_key / handle_hello                   as in lib/Identity.v
   A SturdyRef enters as the record `sref` that SturdyRef(furl) produced: how a FURL's text is parsed (decode_furl: the tub id is
   the first 32 characters of the tubid part) is C20's subject and is tied here by the direct oracle.  Definitions only. *)
From Coq Require Import ZArith List String Bool.
Import ListNotations.
Require Import Verif.lib.PyLite Verif.gen.NegotiateGen Verif.lib.Negotiate Verif.gen.IdentityGen Verif.lib.Identity.
Local Open Scope Z_scope.

Fixpoint strs_eqb (a b : list (list Z)) : bool :=
  match a, b with
  | [], [] => true
  | x :: a', y :: b' => list_eqb x y && strs_eqb a' b'
  | _, _ => false
  end.

(* one component of the tuple *)
Inductive fval := VStr (v : option (list Z)) | VStrs (v : list (list Z)).
Definition field_val (f : kfield) (a : sref) : fval :=
  match f with KTubID => VStr (sr_tub a) | KHints => VStrs (sr_hints a) end.
Definition fval_eqb (a b : fval) : bool :=
  match a, b with
  | VStr x, VStr y => ostr_eqb x y
  | VStrs x, VStrs y => strs_eqb x y
  | _, _ => false
  end.
Fixpoint fvals_eqb (a b : list fval) : bool :=
  match a, b with
  | [], [] => true
  | x :: a', y :: b' => fval_eqb x y && fvals_eqb a' b'
  | _, _ => false
  end.

(* the tuple TubRef._distinguishers() returns: what __hash__ hashes and __eq__ compares (both TubRefs are of class TubRef) *)
Definition tubref_hkey (a : sref) : list fval := map (fun f => field_val f a) tubref_distinguishers.
Definition tubref_eqb (a b : sref) : bool := fvals_eqb (tubref_hkey a) (tubref_hkey b).

(* a dict probe finds a stored key iff the hashes agree (equal hashed tuples; unequal tuples are taken to hash differently, which
   only makes the model find LESS than a hash collision would -- and a collision is still filtered by __eq__) and __eq__ holds *)
Definition dict_match (probe stored : sref) : bool :=
  fvals_eqb (tubref_hkey probe) (tubref_hkey stored) && tubref_eqb probe stored.

Section Keys.
Variable cert : Type.
Variable tubid_of : cert -> list Z.

Definition ktable := list (sref * conn cert).       (* Tub.brokers: TubRef object -> Broker *)

Fixpoint kt_find (k : sref) (t : ktable) : option (sref * conn cert) :=
  match t with [] => None | e :: r => if dict_match k (fst e) then Some e else kt_find k r end.
Fixpoint kt_remove (k : sref) (t : ktable) : ktable :=
  match t with [] => [] | e :: r => if dict_match k (fst e) then kt_remove k r else e :: kt_remove k r end.

(* Tub.brokerAttached(tubref, broker): refuses a key the dict already finds *)
Definition k_attached (k : sref) (c : conn cert) (t : ktable) : ktable :=
  match kt_find k t with Some _ => t | None => (k, c) :: t end.

Inductive kevent :=
  | KNegotiated (r : role) (target : sref)        (* client: connector.target = the TubRef getBrokerForTubRef was asked for *)
                (p : presented cert) (claimed : option (list Z)) (decision_arrives : bool)
  | KDetached (k : sref)
  | KLookup (k : sref).                           (* getBrokerForTubRef(k): may create the loopback Broker *)

Definition tub_of (k : sref) : list Z := match sr_tub k with Some t => t | None => [] end.

Definition kstep (my_id : list Z) (t : ktable) (e : kevent) : ktable :=
  match e with
  | KNegotiated r target p claimed arrives =>
      match handle_hello cert tubid_of r my_id (tub_of target) p claimed with
      | Reject _ => t
      | Accept their master =>
          if master || arrives
          then k_attached (if is_client r then target else tubref_of_id their) {| conn_cert := leaf p; conn_loop := false |} t
          else t
      end
  | KDetached k => kt_remove k t
  | KLookup k =>
      match getBroker_decide (match kt_find k t with Some _ => true | None => false end) (ostr_eqb (sr_tub k) (Some my_id)) with
      | GbLoopback => k_attached k {| conn_cert := None; conn_loop := true |} t
      | _ => t
      end
  end.

Definition krun (my_id : list Z) (evs : list kevent) : ktable := fold_left (kstep my_id) evs [].

(* Tub.getReference(furl) on a running Tub, after SturdyRef(furl) gave s: the Broker Tub.brokers finds for its TubRef *)
Definition getReference_broker (t : ktable) (s : sref) : option (sref * conn cert) := kt_find (getReference_key s) t.
End Keys.
