(* C18: executable model of foolscap's logging core, built on the constants and shape facts
   TRANSLATED into gen/LogBufGen.v:
     - FoolscapLogger.msg/_msg/add_event/set_buffer_size/set_generation_threshold, Count   (logging/log.py)
     - IncidentQualifier, IncidentReporter / NonTrailingIncidentReporter                      (logging/incident.py)
     - Subscription.send/start_sending/_event_received/_error                                 (logging/publish.py)
   Granularity: one op = one call from the application followed by a complete turn of the eventual-send queue
   (the harness drives the real code the same way).
   JSON is abstracted: an event carries e_ok = "json.dumps(event, cls=ExtendedEncoder) succeeds" (measured by the
   harness on the real encoder) and `enc` says whether serialize_to_json_utf8 produces a line for it
   (modelled-not-verified: CPython's json and that the last-resort record is always encodable).
   Definitions only (no proofs) so that the model can be evaluated even if a proof breaks. *)
From Coq Require Import ZArith List Bool Lia.
Import ListNotations.
Require Import Verif.lib.PyLite Verif.gen.LogBufGen.
Local Open Scope Z_scope.

Definition cmpZ (op : lcmp) (a b : Z) : bool :=
  match op with
  | LGt => b <? a | LGe => b <=? a | LLt => a <? b | LLe => a <=? b | LEq => a =? b | LNe => negb (a =? b)
  end.

(* ---------------------------------------------------------------- events *)
(* The event number.  log.msg(num=..) accepts ANY object and buffers it as event['num'] (the second strangers' review:
   e_num : Z alone excluded msg('a', num='x'), whose sort key made incident_declared raise before 7a22019):
     NumInt      an int -- isinstance(num, int) holds and the value orders as ints do; e_num is its value (the numbers the
                 logger hands out itself are of this kind);
     NumOdd      any other object for which isinstance(num, int) is False: 'x', None, 1.5, a list, an object ...;
                 e_num is then only an identity tag of that object (the harness: a code per value), never an order;
     NumHostile  an object on which the test isinstance(num, int) ITSELF raises (a __class__ property that raises);
                 e_num = identity tag.
   (an int subclass that overrides its comparisons to raise is outside the three kinds; replayed by the oracle.) *)
Inductive numkind := NumInt | NumOdd | NumHostile.

Record event := mkEv { e_num : Z; e_fac : Z; e_lvl : Z; e_ok : bool; e_id : Z; e_numk : numkind }.

Definition is_int (e : event) : bool := match e_numk e with NumInt => true | _ => false end.
Definition is_hostile (e : event) : bool := match e_numk e with NumHostile => true | _ => false end.

Definition FAC_NONE : Z := 0.
Definition FAC_INTERNAL : Z := 1.       (* "foolscap/internal-error" *)

(* ---------------------------------------------------------------- dicts (insertion ordered) *)
Fixpoint aget {V} (k : Z) (l : list (Z * V)) : option V :=
  match l with
  | [] => None
  | (k', v) :: t => if k =? k' then Some v else aget k t
  end.

Fixpoint aset {V} (k : Z) (v : V) (l : list (Z * V)) : list (Z * V) :=
  match l with
  | [] => [(k, v)]
  | (k', v') :: t => if k =? k' then (k', v) :: t else (k', v') :: aset k v t
  end.

Definition bufs_t := list (Z * list (Z * list event)).     (* buffers[facility][level] = deque *)

Definition dict_of (b : bufs_t) (f : Z) : list (Z * list event) :=
  match aget f b with Some d => d | None => [] end.

Definition buf_get (b : bufs_t) (f l : Z) : list event :=
  match aget l (dict_of b f) with Some q => q | None => [] end.

Definition buf_set (b : bufs_t) (f l : Z) (q : list event) : bufs_t :=
  aset f (aset l q (dict_of b f)) b.

Definition all_buffered (b : bufs_t) : list event :=       (* get_buffered_events: dict order *)
  flat_map (fun fd => flat_map (fun lq => snd lq) (snd fd)) b.

(* buffer_sizes[facility][level], flattened (its order is never observed) *)
Definition sizes_t := list ((Z * Z) * Z).

Fixpoint sget (f l : Z) (s : sizes_t) : option Z :=
  match s with
  | [] => None
  | ((f', l'), n) :: t => if (f =? f') && (l =? l') then Some n else sget f l t
  end.

Definition sset (f l n : Z) (s : sizes_t) : sizes_t := ((f, l), n) :: s.

Definition limit_of (s : sizes_t) (f l : Z) : Z :=
  match sget f l s with Some n => n | None => DEFAULT_SIZELIMIT end.

(* ---------------------------------------------------------------- trimming (shape read from add_event) *)
Definition pop (side : popside) (q : list event) : option (list event) :=
  match q with
  | [] => None                                    (* deque.popleft()/pop() on an empty deque: IndexError *)
  | x :: t => match side with PopLeft => Some t | PopRight => Some (removelast q) end
  end.

(* -> Some (buffer, raised) ; None = out of fuel (proved impossible with the fuel given by trim) *)
Fixpoint trim_loop (fuel : nat) (q : list event) (limit : Z) {struct fuel} : option (list event * bool) :=
  match fuel with
  | O => None
  | S fuel' =>
    if cmpZ trim_cmp (Z.of_nat (List.length q)) limit
    then match pop trim_pop q with
         | None => Some (q, true)
         | Some q' => trim_loop fuel' q' limit
         end
    else Some (q, false)
  end.

Definition trim (q : list event) (limit : Z) : option (list event * bool) :=
  match trim_kind with
  | TrimWhile => trim_loop (S (S (List.length q))) q limit
  | TrimIf =>
    if cmpZ trim_cmp (Z.of_nat (List.length q)) limit
    then match pop trim_pop q with None => Some (q, true) | Some q' => Some (q', false) end
    else Some (q, false)
  end.

(* ---------------------------------------------------------------- incidents *)
(* `events.sort(key=K)`: K is TRANSLATED from both sites (numkey: incident_sort_key, catchup_sort_key).
     KeyIntElse d   K = lambda a: a['num'] if isinstance(a['num'], int) else d   (7a22019, d = -1): total on NumInt / NumOdd;
                    computing the key of a NumHostile event raises (isinstance raises), whatever else the list holds;
     KeyRaw         K = lambda a: a['num']   (the earlier form): the keys are the objects themselves, and ordering an
                    object that is not an int against another key raises TypeError as soon as there are two elements
                    (list.sort compares every element at least once).  Over-approximation under KeyRaw only: non-int
                    objects that DO order against the other keys (a float among ints, two strings alone) sort fine in
                    CPython; the model says `raises` for them.  Exact under KeyIntElse. *)
Definition key_of (k : numkey) (e : event) : Z :=
  match k with KeyRaw => e_num e | KeyIntElse d => if is_int e then e_num e else d end.

Definition sort_raises (k : numkey) (l : list event) : bool :=
  match k with
  | KeyIntElse _ => existsb is_hostile l
  | KeyRaw => (2 <=? Z.of_nat (List.length l)) && negb (forallb is_int l)
  end.

Fixpoint insert_by_key (k : numkey) (e : event) (l : list event) : list event :=
  match l with
  | [] => [e]
  | x :: t => if key_of k e <=? key_of k x then e :: x :: t else x :: insert_by_key k e t
  end.

(* list.sort is stable: events with equal keys (all the non-integer ones under KeyIntElse) keep their buffer order *)
Definition sort_with (k : numkey) (l : list event) : list event := fold_right (insert_by_key k) [] l.

Definition sort_by_num (l : list event) : list event := sort_with incident_sort_key l.     (* incident_declared *)
Definition sort_catchup (l : list event) : list event := sort_with catchup_sort_key l.     (* Subscription.subscribe *)

(* an event's line can be produced: the plain encoding works (e_ok) or serialize_to_json_utf8 has the total
   three-stage form (translated shape fact serialize_total) *)
Definition enc (e : event) : bool := serialize_total || e_ok e.

(* the serialisation loop: events are written until the first one that cannot be encoded *)
Fixpoint write_all (l : list event) : list event * bool :=
  match l with
  | [] => ([], true)
  | e :: t => if enc e then let '(w, ok) := write_all t in (e :: w, ok) else ([], false)
  end.

Record reporter := mkRep { r_trigger : event; r_lines : list event; r_remaining : Z; r_timer : bool }.

Record inc_st := mkInc {
  i_rep : option reporter;         (* active reporter registered as observer (trailing reporters only) *)
  i_zombie : bool;                 (* a reporter that failed in this very msg() call is still referenced and active *)
  i_declared : Z;
  i_recorded : Z;
  i_files : list (list event);     (* published incident-*.flog.bz2 files, oldest first: trigger :: event lines *)
  i_junk : Z                       (* incidents abandoned for ever: .flog + .flog.bz2.tmp left behind *)
}.

(* faults of the synchronous incident handling (inputs of the model, not defects of foolscap):
   QualifierRaises = the qualifier's check_event raises for events of incident level;
   ReporterRaises  = incident_declared raises before creating any file (logdir removed / not a directory /
                     a reporter factory whose incident_declared raises) *)
Inductive fault := NoFault | QualifierRaises | ReporterRaises.

Record cfg := mkCfg { c_qual : bool (* setLogDir called *); c_trailing : bool (* IncidentReporter vs NonTrailing *);
                      c_fault : fault }.

Record decl_acc := mkAcc { a_lines : list event; a_registered : bool; a_timer : bool; a_finished : bool; a_failed : bool }.

Definition inc_stage_step (c : cfg) (b : bufs_t) (trig : event) (a : decl_acc) (stg : inc_stage) : decl_acc :=
  if a_failed a then a else
  match stg with
  | IsHeader => if enc trig then a else mkAcc (a_lines a) (a_registered a) (a_timer a) (a_finished a) true
  | IsSubscribe => if c_trailing c then mkAcc (a_lines a) true (a_timer a) (a_finished a) false else a
  | IsSnapshot =>
    if sort_raises incident_sort_key (all_buffered b)          (* events.sort raises: nothing of the snapshot is written *)
    then mkAcc (a_lines a) (a_registered a) (a_timer a) (a_finished a) true
    else
    let '(w, ok) := write_all (sort_by_num (all_buffered b)) in
    mkAcc (a_lines a ++ w) (a_registered a) (a_timer a) (a_finished a) (negb ok)
  | IsFinish => if c_trailing c then mkAcc (a_lines a) (a_registered a) true (a_finished a) false
                else mkAcc (a_lines a) (a_registered a) (a_timer a) true false
  end.

Definition publish (r : reporter) (i : inc_st) : inc_st :=
  mkInc None (i_zombie i) (i_declared i) (i_recorded i + 1) (i_files i ++ [r_trigger r :: r_lines r]) (i_junk i).

(* IncidentReporter.incident_declared -> (state, raised) *)
Definition incident_declared (c : cfg) (b : bufs_t) (i : inc_st) (trig : event) : inc_st * bool :=
  let a := fold_left (inc_stage_step c b trig) incident_stages (mkAcc [] false false false false) in
  let r := mkRep trig (a_lines a) TRAILING_EVENT_LIMIT (a_timer a) in
  if a_failed a then
    if a_registered a
    then (mkInc (Some r) true (i_declared i) (i_recorded i) (i_files i) (i_junk i), true)      (* stuck: observer stays *)
    else (mkInc None true (i_declared i) (i_recorded i) (i_files i) (i_junk i + 1), true)
  else if a_finished a then (publish r i, false)
  else (mkInc (Some r) (i_zombie i) (i_declared i) (i_recorded i) (i_files i) (i_junk i), false).

Definition is_some {A} (o : option A) : bool := match o with Some _ => true | None => false end.

(* FoolscapLogger.declare_incident *)
Definition declare_incident (c : cfg) (b : bufs_t) (i : inc_st) (e : event) : inc_st * bool :=
  let i1 := mkInc (i_rep i) (i_zombie i) (i_declared i + 1) (i_recorded i) (i_files i) (i_junk i) in
  if one_reporter_at_a_time && (is_some (i_rep i) || i_zombie i) then (i1, false)     (* ir.new_trigger: nothing *)
  else match c_fault c with
       | ReporterRaises => (mkInc None true (i_declared i1) (i_recorded i1) (i_files i1) (i_junk i1), true)
       | _ => incident_declared c b i1 e
       end.

(* IncidentQualifier.event, called synchronously at the end of add_event *)
Definition qualifier_stage (c : cfg) (b : bufs_t) (i : inc_st) (e : event) : inc_st * bool :=
  if c_qual c && cmpZ incident_cmp (e_lvl e) incident_level
  then match c_fault c with QualifierRaises => (i, true) | _ => declare_incident c b i e end
  else (i, false).

(* IncidentReporter.trailing_event, run from the eventual-send queue (an exception is swallowed there) *)
Definition trailing_event (i : inc_st) (ev : event) : inc_st :=
  match i_rep i with
  | None => i
  | Some r =>
    let rem := r_remaining r - trailing_decrement in
    if cmpZ trailing_cmp rem 0
    then mkInc (Some (mkRep (r_trigger r) (if enc ev then r_lines r ++ [ev] else r_lines r) rem (r_timer r)))
               (i_zombie i) (i_declared i) (i_recorded i) (i_files i) (i_junk i)
    else publish (mkRep (r_trigger r) (r_lines r) rem (r_timer r)) i
  end.

(* ---------------------------------------------------------------- the logger *)
Record st := mkSt { s_seq : Z; s_sizes : sizes_t; s_thr : list (Z * Z); s_bufs : bufs_t; s_inc : inc_st }.

Record ae_acc := mkAe { x_bufs : bufs_t; x_inc : inc_st; x_raised : bool; x_notified : bool }.

Definition add_stage_step (c : cfg) (sz : sizes_t) (e : event) (a : ae_acc) (stg : add_stage) : ae_acc :=
  if x_raised a then a else
  match stg with
  | StImmediate => a                       (* immediate observers: the Subscription machine below *)
  | StObservers => mkAe (x_bufs a) (x_inc a) false (is_some (i_rep (x_inc a)))
  | StAppend => mkAe (buf_set (x_bufs a) (e_fac e) (e_lvl e) (buf_get (x_bufs a) (e_fac e) (e_lvl e) ++ [e]))
                     (x_inc a) false (x_notified a)
  | StTrim =>
    match trim (buf_get (x_bufs a) (e_fac e) (e_lvl e)) (limit_of sz (e_fac e) (e_lvl e)) with
    | None => mkAe (x_bufs a) (x_inc a) true (x_notified a)
    | Some (q, raised) => mkAe (buf_set (x_bufs a) (e_fac e) (e_lvl e) q) (x_inc a) raised (x_notified a)
    end
  | StQualifier =>
    let '(i', raised) := qualifier_stage c (x_bufs a) (x_inc a) e in mkAe (x_bufs a) i' raised (x_notified a)
  end.

Definition add_event (c : cfg) (sz : sizes_t) (b : bufs_t) (i : inc_st) (e : event) : ae_acc :=
  fold_left (add_stage_step c sz e) add_event_stages (mkAe b i false false).

Definition threshold_of (thr : list (Z * Z)) (f : Z) : Z :=
  match aget f thr with Some t => t | None => DEFAULT_THRESHOLD end.

(* FoolscapLogger._msg -> (state, raised, events handed to the registered observer) *)
Definition msg_inner (c : cfg) (s : st) (e : event) : st * bool * list event :=
  if cmpZ threshold_drop_cmp (e_lvl e) (threshold_of (s_thr s) (e_fac e)) then (s, false, [])
  else let a := add_event c (s_sizes s) (s_bufs s) (s_inc s) e in
       (mkSt (s_seq s) (s_sizes s) (s_thr s) (x_bufs a) (x_inc a), x_raised a, if x_notified a then [e] else []).

Definition with_inc (s : st) (i : inc_st) : st := mkSt (s_seq s) (s_sizes s) (s_thr s) (s_bufs s) i.

Definition end_of_call (s : st) (notes : list event) : st :=
  let i := fold_left trailing_event notes (s_inc s) in
  with_inc s (mkInc (i_rep i) false (i_declared i) (i_recorded i) (i_files i) (i_junk i)).

Definition fallback_id (id : Z) : Z := - id - 1.

Inductive op :=
| Msg (num : option (Z * numkind)) (fac lvl : Z) (ok reprok : bool) (id : Z)
    (* log.msg(...) whose _msg reaches add_event; num = Some (value or identity tag, kind): the caller passed num= *)
| MsgBad (reprok : bool) (id : Z)       (* _msg raises before add_event: uncomparable level, unhashable facility, str() fails *)
| SetSize (fac lvl n : Z)
| SetThr (fac lvl : Z)
| Timer.                                (* TRAILING_DELAY elapses *)

Definition next_num (seq : Z) : Z * Z :=        (* Count.next, translated *)
  match count_next seq with Ok (v, n) => (v, n) | Exc _ => (seq, seq) end.

Definition init_seq : Z :=
  match count_init count_firstval_default 0 with Ok (_, n) => n | Exc _ => 0 end.

(* the kind of the number of a call: the logger's own numbers are ints *)
Definition kind_of (numo : option (Z * numkind)) : numkind := match numo with Some n => snd n | None => NumInt end.

(* the internal-error event that replaces a failed _msg carries the SAME num object (num=num) *)
Definition fallback (c : cfg) (s : st) (num id : Z) (reprok : bool) (k : numkind) : st * list event :=
  if reprok then let '(s2, _, n2) := msg_inner c s (mkEv num FAC_INTERNAL fallback_level true (fallback_id id) k) in (s2, n2)
  else (s, []).

(* the value returned to the caller: Some num; None would mean "an exception escaped msg()" *)
Definition step (c : cfg) (s : st) (o : op) : st * option Z :=
  match o with
  | Msg numo fac lvl ok reprok id =>
    let '(num, seq') := match numo with Some n => (fst n, s_seq s) | None => next_num (s_seq s) end in
    let s0 := mkSt seq' (s_sizes s) (s_thr s) (s_bufs s) (s_inc s) in
    let '(s1, raised, n1) := msg_inner c s0 (mkEv num fac lvl ok id (kind_of numo)) in
    if raised then
      if msg_catch_all then let '(s2, n2) := fallback c s1 num id reprok (kind_of numo) in (end_of_call s2 (n1 ++ n2), Some num)
      else (end_of_call s1 n1, None)
    else (end_of_call s1 n1, Some num)
  | MsgBad reprok id =>
    let '(num, seq') := next_num (s_seq s) in
    let s0 := mkSt seq' (s_sizes s) (s_thr s) (s_bufs s) (s_inc s) in
    if msg_catch_all then let '(s2, n2) := fallback c s0 num id reprok NumInt in (end_of_call s2 n2, Some num)
    else (s0, None)
  | SetSize f l n => (mkSt (s_seq s) (sset f l n (s_sizes s)) (s_thr s) (s_bufs s) (s_inc s), None)
  | SetThr f l => (mkSt (s_seq s) (s_sizes s) (aset f l (s_thr s)) (s_bufs s) (s_inc s), None)
  | Timer =>
    match i_rep (s_inc s) with
    | Some r => if r_timer r then (with_inc s (publish r (s_inc s)), None) else (s, None)
    | None => (s, None)
    end
  end.

Definition init_inc : inc_st := mkInc None false 0 0 [] 0.
Definition init : st := mkSt init_seq [] [] [] init_inc.

Fixpoint run (c : cfg) (s : st) (ops : list op) : st * list (option Z) :=
  match ops with
  | [] => (s, [])
  | o :: t => let '(s1, r) := step c s o in let '(s2, rs) := run c s1 t in (s2, r :: rs)
  end.

(* a history during which the configuration / the fault of the incident handling changes: segments *)
Fixpoint run_segs (s : st) (segs : list (cfg * list op)) : st :=
  match segs with
  | [] => s
  | (c, ops) :: t => run_segs (fst (run c s ops)) t
  end.

Definition is_auto (o : op) : bool :=
  match o with Msg None _ _ _ _ _ => true | MsgBad _ _ => true | _ => false end.

Definition is_call (o : op) : bool :=
  match o with Msg _ _ _ _ _ _ => true | MsgBad _ _ => true | _ => false end.

(* ---------------------------------------------------------------- Subscription (publish.py) *)
Record sub := mkSub {
  q_queue : list Z; q_inflight : Z; q_marked : bool; q_subscribed : bool;
  q_outstanding : Z;              (* unfired callRemote Deferreds (ghost) *)
  q_delivered : list Z;           (* events handed to observer.callRemote("msg", ..), in order *)
  q_emitted : list Z              (* events handed to send() by the logger, in order (ghost) *)
}.

Inductive sop := Send (e : Z) | Turn | Ack | Nack.

Definition spop (side : popside) (q : list Z) : option (Z * list Z) :=
  match q with
  | [] => None
  | x :: t => match side with PopLeft => Some (x, t) | PopRight => Some (last q x, removelast q) end
  end.

(* start_sending's loop: while self.queue and (MAX_IN_FLIGHT - in_flight > 0) *)
Fixpoint drain (fuel : nat) (maxfl : Z) (q : list Z) (infl outst : Z) (dl : list Z) {struct fuel}
  : list Z * Z * Z * list Z :=
  match fuel with
  | O => (q, infl, outst, dl)
  | S fuel' =>
    match spop sub_pop q with
    | None => (q, infl, outst, dl)
    | Some (x, q') =>
      if cmpZ sub_room_cmp (maxfl - infl) 0
      then drain fuel' maxfl q' (infl + sub_inflight_inc) (outst + 1) (dl ++ [x])
      else (q, infl, outst, dl)
    end
  end.

Definition sub_step (maxq maxfl : Z) (s : sub) (o : sop) : sub :=
  match o with
  | Send e =>
    if q_subscribed s then
      mkSub (if cmpZ sub_accept_cmp (Z.of_nat (List.length (q_queue s))) maxq then q_queue s ++ [e] else q_queue s)
            (q_inflight s) true true (q_outstanding s) (q_delivered s) (q_emitted s ++ [e])
    else s
  | Turn =>
    if q_marked s then
      let '(q, infl, outst, dl) := drain (List.length (q_queue s)) maxfl (q_queue s) (q_inflight s) (q_outstanding s)
                                         (q_delivered s) in
      mkSub q infl false (q_subscribed s) outst dl (q_emitted s)
    else s
  | Ack =>
    if 0 <? q_outstanding s then
      mkSub (q_queue s) (q_inflight s - sub_inflight_dec) true (q_subscribed s) (q_outstanding s - 1) (q_delivered s)
            (q_emitted s)
    else s
  | Nack =>
    if 0 <? q_outstanding s then
      mkSub (q_queue s) (q_inflight s) (q_marked s) false (q_outstanding s - 1) (q_delivered s) (q_emitted s)
    else s
  end.

Definition sub_init : sub := mkSub [] 0 false true 0 [] [].

Definition sub_run (maxq maxfl : Z) (ops : list sop) : sub := fold_left (sub_step maxq maxfl) ops sub_init.

(* ---------------------------------------------------------------- subscribe(catch_up) *)
(* Subscription.subscribe: the catch-up batch = every buffered event sorted by number goes straight to the observer
   (callRemoteOnly: no Deferred, not counted in flight); the subscription itself starts with an empty queue *)
(* -> (subscription, catch-up batch, raised).  subscribe() registers send() as an immediate observer FIRST; when the
   sort raises the subscription stays registered but the subscriber is handed no catch-up batch (subscribe runs from the
   eventual queue: the exception is logged there) *)
Definition sub_subscribe (catch_up : bool) (b : bufs_t) : sub * list event * bool :=
  match catchup with
  | CatchupDirect =>
    if catch_up && sort_raises catchup_sort_key (all_buffered b) then (sub_init, [], true)
    else (sub_init, if catch_up then sort_catchup (all_buffered b) else [], false)
  end.

(* ---------------------------------------------------------------- written files read back *)
(* A flogfile is MAGIC + one JSON line per record, optionally bz2-compressed.  get_events chooses the decompressor from
   the name it reads (".bz2" suffix); every writer chooses the compressor from a name: the translated shape facts say
   WHICH name (the final one or the one actually opened, which differ for `flogtool filter` in place: FINAL + ".tmp") *)
Inductive codec := Plain | Bz2.

Definition codec_eqb (a b : codec) : bool := match a, b with Plain, Plain => true | Bz2, Bz2 => true | _, _ => false end.

Definition codec_of_name (ends_bz2 : bool) : codec := if ends_bz2 then Bz2 else Plain.

(* name the data is first written to: in-place filtering writes FINAL.tmp (never ends in .bz2), then renames *)
Definition opened_ends_bz2 (final_bz2 inplace : bool) : bool := if inplace then false else final_bz2.

Definition write_codec (from : name_used) (final_bz2 inplace : bool) : codec :=
  match from with
  | FinalName => codec_of_name final_bz2
  | OpenedName => codec_of_name (opened_ends_bz2 final_bz2 inplace)
  end.

(* get_events on a file called NAME whose content was produced with codec w: Some lines, or None = cannot be read *)
Definition read_back {A} (name_bz2 : bool) (w : codec) (lines : list A) : option (list A) :=
  if codec_eqb (codec_of_name name_bz2) w then Some lines else None.

(* flogtool filter: the records kept.  A record is a header (always kept) or an event with its level and whether its
   facility starts with the --strip-facility prefix *)
Record frec := mkFrec { fr_header : bool; fr_lvl : Z; fr_stripped : bool; fr_id : Z }.

Definition filter_keep (above : option Z) (strip : bool) (r : frec) : bool :=
  fr_header r ||
  (match above with Some a => negb (cmpZ filter_above_drop_cmp (fr_lvl r) a) | None => true end
   && negb (strip && fr_stripped r)).

Definition filter_run (above : option Z) (strip : bool) (final_bz2 inplace : bool) (recs : list frec)
  : option (list frec) :=
  read_back final_bz2 (write_codec filter_codec_from final_bz2 inplace) (filter (filter_keep above strip) recs).

Definition logfile_written (name_bz2 : bool) (recs : list frec) : option (list frec) :=
  read_back name_bz2 (write_codec logfile_codec_from name_bz2 false) recs.

(* ---------------------------------------------------------------- one reactor iteration at a time *)
(* `step` above runs ONE application call and then the whole eventual-send queue.  What follows is the same machine at
   a finer grain: several calls may happen before the queue runs, an application observer may make a call from inside
   the queue's batch, calls may be due at the same instant as a reporter's trailing timer (before or after it).
   A trailing reporter now has three phases: recording (i_rep = Some r: subscribed, active), stopped (f_closing:
   unsubscribed by stop_recording, files still open, closed by finished_recording in the NEXT batch) and finished.
   Whether a stopped reporter still claims to be active is the translated fact active_cleared_at; while one does,
   declare_incident gives every trigger to its new_trigger() -- modelled with the same flag as a failed reporter that
   is still referenced (i_zombie). *)
Record fine := mkFine { f_s : st; f_closing : list reporter }.

Definition window_active (closing : list reporter) : bool :=
  match active_cleared_at with AtStop => false | AtFinish => negb (list_is_nil closing) end.

Definition set_zombie (s : st) (z : bool) : st :=
  let i := s_inc s in with_inc s (mkInc (i_rep i) z (i_declared i) (i_recorded i) (i_files i) (i_junk i)).

Definition rep_id (s : st) : Z := match i_rep (s_inc s) with Some r => e_id (r_trigger r) | None => 0 end.

Definition tag (s : st) (l : list event) : list (Z * event) := map (fun e => (rep_id s, e)) l.

(* one application call WITHOUT the eventual turn -> state, value returned, notifications queued (each addressed to the
   reporter that was subscribed when the event was emitted) *)
Definition call_nt (c : cfg) (s : st) (o : op) : st * option Z * list (Z * event) :=
  match o with
  | Msg numo fac lvl ok reprok id =>
    let '(num, seq') := match numo with Some n => (fst n, s_seq s) | None => next_num (s_seq s) end in
    let s0 := mkSt seq' (s_sizes s) (s_thr s) (s_bufs s) (s_inc s) in
    let '(s1, raised, n1) := msg_inner c s0 (mkEv num fac lvl ok id (kind_of numo)) in
    if raised then
      if msg_catch_all then let '(s2, n2) := fallback c s1 num id reprok (kind_of numo) in (set_zombie s2 false, Some num, tag s0 n1 ++ tag s1 n2)
      else (set_zombie s1 false, None, tag s0 n1)
    else (set_zombie s1 false, Some num, tag s0 n1)
  | MsgBad reprok id =>
    let '(num, seq') := next_num (s_seq s) in
    let s0 := mkSt seq' (s_sizes s) (s_thr s) (s_bufs s) (s_inc s) in
    if msg_catch_all then let '(s2, n2) := fallback c s0 num id reprok NumInt in (set_zombie s2 false, Some num, tag s0 n2)
    else (s0, None, [])
  | SetSize _ _ _ | SetThr _ _ => (fst (step c s o), None, [])
  | Timer => (s, None, [])
  end.

Definition fcall (c : cfg) (f : fine) (o : op) : fine * option Z * list (Z * event) :=
  let '(s1, r, n) := call_nt c (set_zombie (f_s f) (window_active (f_closing f))) o in (mkFine s1 (f_closing f), r, n).

Fixpoint fcalls (c : cfg) (f : fine) (calls : list op) : fine * list (option Z) * list (Z * event) :=
  match calls with
  | [] => (f, [], [])
  | o :: t => let '(f1, r, n) := fcall c f o in let '(f2, rs, ns) := fcalls c f1 t in (f2, r :: rs, n ++ ns)
  end.

(* trailing_event run from the queue: a reporter that is no longer recording ignores it; exhausting the quota only
   STOPS the recording (stop_recording); the file is published by finished_recording in the next batch *)
Definition trailing_event_f (f : fine) (n : Z * event) : fine :=
  let i := s_inc (f_s f) in
  match i_rep i with
  | None => f
  | Some r =>
    if negb (e_id (r_trigger r) =? fst n) then f else
    let rem := r_remaining r - trailing_decrement in
    if cmpZ trailing_cmp rem 0
    then mkFine (with_inc (f_s f) (trailing_event i (snd n))) (f_closing f)
    else mkFine (with_inc (f_s f) (mkInc None (i_zombie i) (i_declared i) (i_recorded i) (i_files i) (i_junk i)))
                (f_closing f ++ [mkRep (r_trigger r) (r_lines r) rem (r_timer r)])
  end.

Definition record_file (i : inc_st) (r : reporter) : inc_st :=
  mkInc (i_rep i) (i_zombie i) (i_declared i) (i_recorded i + 1) (i_files i ++ [r_trigger r :: r_lines r]) (i_junk i).

Definition finish_all (f : fine) : fine :=
  mkFine (with_inc (f_s f) (fold_left record_file (f_closing f) (s_inc (f_s f)))) [].

(* the queue's batch: the notifications in order; an application observer (registered before any reporter, so it sees
   each event first) may react to the k-th one with a call of its own, whose notifications go to the next batch *)
Fixpoint deliver (c : cfg) (f : fine) (notes : list (Z * event)) (idx : nat) (react : option (nat * op))
  : fine * list (option Z) * list (Z * event) :=
  match notes with
  | [] => (f, [], [])
  | n :: t =>
    let '(f1, r1, n1) := match react with
                         | Some (k, o) => if Nat.eqb k idx then let '(f', r, nn) := fcall c f o in (f', [r], nn) else (f, [], [])
                         | None => (f, [], [])
                         end in
    let f2 := trailing_event_f f1 n in
    let '(f3, r3, n3) := deliver c f2 t (S idx) react in (f3, r1 ++ r3, n1 ++ n3)
  end.

(* the trailing timer of reporter `target` (the one that was recording when the iteration began) fires *)
Definition timer_stop (f : fine) (target : option Z) : fine :=
  let i := s_inc (f_s f) in
  match i_rep i, target with
  | Some r, Some t =>
    if r_timer r && (e_id (r_trigger r) =? t)
    then mkFine (with_inc (f_s f) (mkInc None (i_zombie i) (i_declared i) (i_recorded i) (i_files i) (i_junk i)))
                (f_closing f ++ [r])
    else f
  | _, _ => f
  end.

Definition timer_target (f : fine) : option Z :=
  match i_rep (s_inc (f_s f)) with Some r => Some (e_id (r_trigger r)) | None => None end.

Inductive iter :=
| ICalls (calls : list op) (react : option (nat * op))
| ITimer (before after : list op).    (* calls due at the instant of the trailing timer, run before / after it *)

Definition iterate (c : cfg) (f : fine) (it : iter) : fine * list (option Z) :=
  match it with
  | ICalls calls react =>
    let '(f1, rets, notes) := fcalls c f calls in
    let '(f2, rets2, notes2) := deliver c f1 notes 0 react in
    let '(f3, _, _) := deliver c (finish_all f2) notes2 0 None in
    (finish_all f3, rets ++ rets2)
  | ITimer before after =>
    let '(f0, rets0, notes0) := fcalls c f before in
    let '(f1, rets1, notes1) := fcalls c (timer_stop f0 (timer_target f)) after in
    let '(f2, _, _) := deliver c (finish_all f1) (notes0 ++ notes1) 0 None in
    (finish_all f2, rets0 ++ rets1)
  end.

Fixpoint iterations (c : cfg) (f : fine) (its : list iter) : fine * list (option Z) :=
  match its with
  | [] => (f, [])
  | it :: t => let '(f1, r) := iterate c f it in let '(f2, rs) := iterations c f1 t in (f2, r ++ rs)
  end.

Definition fine_init : fine := mkFine init [].

(* where an event ended up: header or line of some published incident file *)
Definition in_some_file (i : inc_st) (id : Z) : bool :=
  existsb (fun f => existsb (fun e => e_id e =? id) f) (i_files i).

(* ---------------------------------------------------------------- what an immediate observer is handed *)
(* Subscription.send is an immediate observer: add_event calls it synchronously, at the place the translated stage
   order says (StImmediate), unless an earlier stage raised.  step_sends = the events handed to immediate observers by
   one op, in order (the event itself, then the internal-error event that replaces a failed _msg). *)
Definition imm_step (c : cfg) (sz : sizes_t) (e : event) (p : ae_acc * bool) (stg : add_stage) : ae_acc * bool :=
  (add_stage_step c sz e (fst p) stg,
   snd p || match stg with StImmediate => negb (x_raised (fst p)) | _ => false end).

Definition immediate_sees (c : cfg) (sz : sizes_t) (b : bufs_t) (i : inc_st) (e : event) : bool :=
  snd (fold_left (imm_step c sz e) add_event_stages (mkAe b i false false, false)).

Definition msg_sends (c : cfg) (s : st) (e : event) : list event :=
  if cmpZ threshold_drop_cmp (e_lvl e) (threshold_of (s_thr s) (e_fac e)) then []
  else if immediate_sees c (s_sizes s) (s_bufs s) (s_inc s) e then [e] else [].

Definition fallback_event (num id : Z) (k : numkind) : event := mkEv num FAC_INTERNAL fallback_level true (fallback_id id) k.

Definition step_sends (c : cfg) (s : st) (o : op) : list event :=
  match o with
  | Msg numo fac lvl ok reprok id =>
    let '(num, seq') := match numo with Some n => (fst n, s_seq s) | None => next_num (s_seq s) end in
    let s0 := mkSt seq' (s_sizes s) (s_thr s) (s_bufs s) (s_inc s) in
    let '(s1, raised, _) := msg_inner c s0 (mkEv num fac lvl ok id (kind_of numo)) in
    msg_sends c s0 (mkEv num fac lvl ok id (kind_of numo)) ++
    (if raised && msg_catch_all && reprok then msg_sends c s1 (fallback_event num id (kind_of numo)) else [])
  | MsgBad reprok id =>
    let '(num, seq') := next_num (s_seq s) in
    let s0 := mkSt seq' (s_sizes s) (s_thr s) (s_bufs s) (s_inc s) in
    if msg_catch_all && reprok then msg_sends c s0 (fallback_event num id NumInt) else []
  | _ => []
  end.

Fixpoint run_sends (c : cfg) (s : st) (ops : list op) : list event :=
  match ops with
  | [] => []
  | o :: t => step_sends c s o ++ run_sends c (fst (step c s o)) t
  end.

Fixpoint segs_sends (s : st) (segs : list (cfg * list op)) : list event :=
  match segs with
  | [] => []
  | (c, ops) :: t => run_sends c s ops ++ segs_sends (fst (run c s ops)) t
  end.

(* the events a Subscription's send() is called with by a schedule *)
Definition sends_of (sops : list sop) : list Z := flat_map (fun o => match o with Send e => [e] | _ => [] end) sops.

(* calls that leave the numbering to the logger (num= is a hook for replaying foreign events) *)
Definition auto_only (o : op) : Prop := match o with Msg (Some _) _ _ _ _ _ => False | _ => True end.

(* calls whose num= (if any) is not an object on which isinstance(.., int) raises *)
Definition op_not_hostile (o : op) : Prop := match o with Msg (Some (_, NumHostile)) _ _ _ _ _ => False | _ => True end.
