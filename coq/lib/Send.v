(* C10: the send side of Banana (banana.py produce / handleSendViolation / pushSlicer / popSlicer, slicer.py
   BaseSlicer.childAborted, slicers/root.py RootSlicer.childAborted) as a machine over what `produce` observes at
   each turn of its loop, and the receiving side's framing (depth / ABORT / CLOSE) of broker.py+banana.py.
   The doPop/sendAbort flags of the two `except Violation` sites are read from the source (gen/SendGen.v). *)
From Coq Require Import ZArith List Bool.
Import ListNotations.
Require Import Verif.lib.PyLite Verif.gen.SendGen.
Local Open Scope Z_scope.

Inductive tok := TOpen (n : Z) | TClose (n : Z) | TAbort (n : Z) | TData (z : Z).

(* one turn of the loop in Banana.produce: what next(slices) of the slicer on top of the stack did *)
Inductive event :=
| ETok (z : Z)       (* yielded a primitive token: sendToken *)
| EPush              (* yielded an object; newSlicerFor and pushSlicer succeeded: OPEN is sent *)
| EUnsendable        (* yielded an object; newSlicerFor / slicer.slice raised Violation: nothing pushed, no OPEN *)
| EEnd               (* StopIteration: popSlicer *)
| ERaise             (* next() raised Violation *)
| ECrash.            (* next() raised anything else: sendFailed, the connection is dropped *)

(* fate of one top-level object handed to RootSlicer.send: its objectSentDeferred fires with callback (OSent, with
   the primitive tokens that were written for it) or errback (OAborted: an OPEN had been written, so the peer saw
   OPEN .. ABORT CLOSE; ONotStarted: nothing at all was written) *)
Inductive outcome := OSent (data : list Z) | OAborted | ONotStarted.

Record sstate := {
  stack : list Z;                    (* openIDs of the slicers above the RootSlicer, innermost first *)
  cnt : Z;                           (* Banana.openCount *)
  up : bool;                         (* the transport has not been told to close *)
  out : list tok;                    (* everything written so far *)
  cur : list Z;                      (* primitive tokens of the top-level object being sent *)
  log : list outcome                 (* one entry per top-level object that the RootSlicer is done with *)
}.

Definition init (c : Z) : sstate := {| stack := []; cnt := c; up := true; out := []; cur := []; log := [] |}.

(* ABORT n; CLOSE n for every slicer still on the stack: what handleSendViolation does once a parent gives up *)
Definition unwind_all (s : list Z) : list tok := flat_map (fun id => [TAbort id; TClose id]) s.

(* handleSendViolation(f, doPop, sendAbort): first turn with the given flags on the current top, then
   `f = top.childAborted(f)`: every slicer but the root hands the failure on (turns with doPop=sendAbort=True),
   the RootSlicer absorbs it and errbacks the Deferred of the object it was sending *)
Definition violation (doPop sendAbort : bool) (s : sstate) : sstate :=
  match stack s with
  | [] => {| stack := []; cnt := cnt s; up := up s; out := out s; cur := []; log := log s ++ [ONotStarted] |}
  | id :: r =>
    let first := (if sendAbort then [TAbort id] else []) ++ (if doPop then [TClose id] else []) in
    let rest := if doPop then r else id :: r in
    {| stack := []; cnt := cnt s; up := up s; out := out s ++ first ++ unwind_all rest; cur := [];
       log := log s ++ [OAborted] |}
  end.

Definition crash (s : sstate) : sstate :=
  {| stack := stack s; cnt := cnt s; up := false; out := out s; cur := cur s; log := log s |}.

Definition step (s : sstate) (e : event) : sstate :=
  if negb (up s) then s else
  match e with
  | ETok z =>
    match stack s with
    | [] => (* a primitive handed to the RootSlicer is a top-level object of its own *)
      {| stack := []; cnt := cnt s; up := true; out := out s ++ [TData z]; cur := cur s; log := log s ++ [OSent [z]] |}
    | _ => {| stack := stack s; cnt := cnt s; up := true; out := out s ++ [TData z]; cur := cur s ++ [z]; log := log s |}
    end
  | EPush => {| stack := cnt s :: stack s; cnt := cnt s + open_counter_step; up := true; out := out s ++ [TOpen (cnt s)];
                cur := cur s; log := log s |}
  | EEnd =>
    match stack s with
    | [] => s                                     (* the RootSlicer's iterator never ends *)
    | [id] => {| stack := []; cnt := cnt s; up := true; out := out s ++ [TClose id]; cur := []; log := log s ++ [OSent (cur s)] |}
    | id :: r => {| stack := r; cnt := cnt s; up := true; out := out s ++ [TClose id]; cur := cur s; log := log s |}
    end
  | EUnsendable => violation push_violation_pops push_violation_aborts s
  | ERaise =>
    match stack s with
    | [] => crash s                               (* would pop the RootSlicer: BananaError, not a Violation *)
    | _ => violation next_violation_pops next_violation_aborts s
    end
  | ECrash => crash s
  end.

Definition run (s : sstate) (evs : list event) : sstate := fold_left step evs s.

(* ---- the receiver's framing of the token stream (Banana.handleData: OPEN pushes an unslicer, CLOSE pops one and
   must carry the count of the matching OPEN, ABORT makes the enclosing top-level object be discarded; the
   PBRootUnslicer absorbs the violation) *)
Inductive robj := Delivered (data : list Z) | Dropped.

Record rstate := {
  rstack : list Z;
  rcur : list Z;
  raborted : bool;
  rlog : list robj;
  rsync : bool                    (* false after a CLOSE/ABORT that does not match: "lost sync", connection dropped *)
}.

Definition rinit : rstate := {| rstack := []; rcur := []; raborted := false; rlog := []; rsync := true |}.

Definition rstep (r : rstate) (t : tok) : rstate :=
  if negb (rsync r) then r else
  match t with
  | TData z =>
    match rstack r with
    | [] => {| rstack := []; rcur := rcur r; raborted := raborted r; rlog := rlog r ++ [Delivered [z]]; rsync := true |}
    | _ => {| rstack := rstack r; rcur := rcur r ++ [z]; raborted := raborted r; rlog := rlog r; rsync := true |}
    end
  | TOpen n => {| rstack := n :: rstack r; rcur := rcur r; raborted := raborted r; rlog := rlog r; rsync := true |}
  | TAbort n =>
    match rstack r with
    | m :: _ => if n =? m then {| rstack := rstack r; rcur := rcur r; raborted := true; rlog := rlog r; rsync := true |}
                else {| rstack := rstack r; rcur := rcur r; raborted := raborted r; rlog := rlog r; rsync := false |}
    | [] => {| rstack := []; rcur := rcur r; raborted := raborted r; rlog := rlog r; rsync := false |}
    end
  | TClose n =>
    match rstack r with
    | [m] => if n =? m then {| rstack := []; rcur := []; raborted := false;
                               rlog := rlog r ++ [if raborted r then Dropped else Delivered (rcur r)]; rsync := true |}
             else {| rstack := rstack r; rcur := rcur r; raborted := raborted r; rlog := rlog r; rsync := false |}
    | m :: rest => if n =? m then {| rstack := rest; rcur := rcur r; raborted := raborted r; rlog := rlog r; rsync := true |}
                   else {| rstack := rstack r; rcur := rcur r; raborted := raborted r; rlog := rlog r; rsync := false |}
    | [] => {| rstack := []; rcur := rcur r; raborted := raborted r; rlog := rlog r; rsync := false |}
    end
  end.

Definition rrun (r : rstate) (ts : list tok) : rstate := fold_left rstep ts r.

(* what the sender's log says the receiver should have seen: objects that never sent an OPEN are invisible *)
Fixpoint visible (l : list outcome) : list robj :=
  match l with
  | [] => []
  | OSent d :: r => Delivered d :: visible r
  | OAborted :: r => Dropped :: visible r
  | ONotStarted :: r => visible r
  end.

(* events during which the connection is certain to survive: no non-Violation exception *)
Definition ok_event (s : sstate) (e : event) : bool :=
  match e with
  | ECrash => false
  | ERaise => match stack s with [] => false | _ => true end
  | _ => true
  end.

Fixpoint all_ok (s : sstate) (evs : list event) : bool :=
  match evs with
  | [] => true
  | e :: r => ok_event s e && all_ok (step s e) r
  end.

(* ---- object trees, for the correspondence with the real slicers (the theorems quantify over event lists) *)
Inductive item :=
| Tok (z : Z)
| Sub (body : list item)        (* sendable child object whose slicer yields body *)
| Unsendable                    (* child object without a slicer *)
| RaiseV                        (* the enclosing slicer raises Violation at this point *)
| CrashX.                       (* the enclosing slicer raises something else at this point *)

(* DFS observation sequence; the machine stops asking a slicer once it has been aborted, which `run` does not need
   to know: events_of emits everything and `trim` cuts each top-level object after its first fault *)
Fixpoint events_of (i : item) : list event :=
  match i with
  | Tok z => [ETok z]
  | Sub body => EPush :: (fix go (l : list item) : list event :=
                            match l with [] => [EEnd] | x :: r => events_of x ++ go r end) body
  | Unsendable => [EUnsendable]
  | RaiseV => [ERaise]
  | CrashX => [ECrash]
  end.

Definition is_fault (e : event) : bool :=
  match e with EUnsendable | ERaise | ECrash => true | _ => false end.

Fixpoint trim (evs : list event) : list event :=
  match evs with
  | [] => []
  | e :: r => if is_fault e then [e] else e :: trim r
  end.

Definition events_of_top (i : item) : list event := trim (events_of i).

(* shifting OPEN numbers *)
Definition shift_tok (d : Z) (t : tok) : tok :=
  match t with TOpen n => TOpen (n + d) | TClose n => TClose (n + d) | TAbort n => TAbort (n + d) | TData z => TData z end.

(* ---- OPEN numbering on the receiving side.  Banana.handleData numbers the OPENs it sees with objectCounter; the number
   is what Unslicer.start(count)/setObject register and what a later `reference` sequence (which carries the SENDER's
   number, Banana.openCount) is resolved against.  The receiver may be discarding part of the stream -- after an ABORT,
   or because one of its own unslicers raised Violation on some token (a schema violation, an unknown method ...), which
   the sender cannot know.  `viol` marks the tokens on which the receiver decides to reject: any choice is allowed.
   Whether a discarded OPEN is counted is read from the source (recv_counts_rejected_opens). *)
Record cstate := {
  ccount : Z;            (* objectCounter *)
  cdepth : nat;          (* open sequences *)
  cdiscard : bool;       (* discardCount > 0: the rest of the current top-level object is being thrown away *)
  cagree : bool;         (* every OPEN so far got the number the sender wrote into it *)
  cdown : bool           (* an unslicer absorbed a violation and stayed on the stack: it is handed the tokens of whatever
                            comes next and raises BananaError -- the connection is dropped *)
}.

Definition cinit (c : Z) : cstate := {| ccount := c; cdepth := 0; cdiscard := false; cagree := true; cdown := false |}.

(* a Violation raised by an unslicer inside a top-level sequence (depth > 0): when every PB unslicer gives its sequence up
   (reportViolation returns the failure, read from the source) the rest of that top-level object is discarded; at depth 0
   the rejected token concerns only itself *)
Definition reject (c : cstate) (viol : bool) : bool :=
  cdiscard c || (viol && match cdepth c with O => false | S _ => true end).

Definition stuck (c : cstate) (viol : bool) : bool :=
  cdown c || (viol && negb (cdiscard c) && match cdepth c with O => false | S _ => true end && negb pb_unslicers_propagate).

Definition cstep (c : cstate) (tv : tok * bool) : cstate :=
  let '(t, viol) := tv in
  match t with
  | TOpen n =>
    let counted := negb (cdiscard c) || recv_counts_rejected_opens in
    {| ccount := if counted then ccount c + 1 else ccount c; cdepth := S (cdepth c);
       cdiscard := cdiscard c || viol;      (* a rejected OPEN (inOpen) discards the sequence it opens *)
       cagree := cagree c && (n =? ccount c); cdown := cdown c |}
  | TClose _ =>
    {| ccount := ccount c; cdepth := pred (cdepth c);
       cdiscard := match cdepth c with S O | O => false | _ => reject c viol end; cagree := cagree c; cdown := stuck c viol |}
  | TAbort _ => {| ccount := ccount c; cdepth := cdepth c;
                   cdiscard := match cdepth c with O => cdiscard c | S _ => true end; cagree := cagree c; cdown := cdown c |}
  | TData _ => {| ccount := ccount c; cdepth := cdepth c; cdiscard := reject c viol; cagree := cagree c; cdown := stuck c viol |}
  end.

Definition crun (c : cstate) (tvs : list (tok * bool)) : cstate := fold_left cstep tvs c.

(* the OPENs of a token list carry consecutive numbers from c; result: the next number *)
Fixpoint next_open (c : Z) (ts : list tok) : option Z :=
  match ts with
  | [] => Some c
  | TOpen n :: r => if n =? c then next_open (c + 1) r else None
  | _ :: r => next_open c r
  end.

(* nesting depth after a token list *)
Fixpoint dep (d : nat) (ts : list tok) : nat :=
  match ts with
  | [] => d
  | TOpen _ :: r => dep (S d) r
  | TClose _ :: r => dep (pred d) r
  | _ :: r => dep d r
  end.

(* token lists that stay strictly inside the top-level object that is open at nesting depth d (the depth never returns to 0) *)
Fixpoint inside (d : nat) (ts : list tok) : bool :=
  match ts with
  | [] => true
  | t :: r => match dep d [t] with O => false | S k => inside (S k) r end
  end.

(* ---- the class object that CopiedFailure.setCopyableState puts into f.type: __module__ / __name__ are the transmitted
   name split at its LAST dot; reflect.qual(f.type) joins them again.  Nothing else enters (no table that outlives the call) *)
Fixpoint split_last (sep : Z) (t : list Z) : option (list Z * list Z) :=
  match t with
  | [] => None
  | c :: r => match split_last sep r with
              | Some (m, n) => Some (c :: m, n)
              | None => if c =? sep then Some ([], r) else None
              end
  end.

Definition requal (sep : Z) (t : list Z) : list Z :=
  match split_last sep t with Some (m, n) => m ++ [sep] ++ n | None => [sep] ++ t end.   (* "".join([]) + "." + name *)

(* ---- the callee's inbound delivery queue (Broker.scheduleCall / doNextCall): calls are started strictly in arrival order;
   the head of the queue is waited for until its arguments are ready (ready_deferred: only third-party references, "gifts",
   make one).  When it fires the waiting flag is cleared and the next delivery is looked at -- on callback the method runs,
   on errback (gift refused / its Tub unreachable) callFailed answers with an error.  Whether the flag is cleared on
   errback too is read from the source (ready_flag_cleared_on_failure). *)
Inductive readiness := ReadyOk | ReadyFails.
Inductive handled := Ran (req : Z) | Refused (req : Z).

Fixpoint drain (waiting : bool) (q : list (Z * readiness)) : list handled :=
  match q with
  | [] => []
  | (req, r) :: rest =>
    if waiting then []                                  (* doNextCall returns at once: nothing behind it is looked at *)
    else match r with
         | ReadyOk => Ran req :: drain false rest
         | ReadyFails => Refused req :: drain (negb ready_flag_cleared_on_failure) rest
         end
  end.

Definition expected_handling (d : Z * readiness) : handled :=
  match snd d with ReadyOk => Ran (fst d) | ReadyFails => Refused (fst d) end.

(* ---- PendingRequest.fail (call.py): an active request is marked inactive, then -- only when the caller's Tub has
   logRemoteFailures set -- a few log lines are written, then the Deferred is errbacked.  The logged method name joins the
   interface name and the method name; for a target without RemoteInterface the interface name is None, so the join raises
   unless the names carry fallbacks (read from the source): the exception would escape with the request already inactive
   and its Deferred never fired. *)
Record preq := { p_active : bool; p_fired : nat }.

Inductive fail_result := FailDone (r : preq) | FailRaised (r : preq).

Definition fail_request (log_remote_failures interface_known : bool) (r : preq) : fail_result :=
  if p_active r then
    if log_remote_failures && negb interface_known && negb log_name_has_fallback
    then FailRaised {| p_active := false; p_fired := p_fired r |}
    else FailDone {| p_active := false; p_fired := S (p_fired r) |}
  else FailDone r.
