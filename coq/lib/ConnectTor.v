(* ConnectTor.v -- what TubConnector.connectToAll (ConnectAll.v) sees of a hint that is handled by a Tor handler whose Tor is
   ready / still starting / failing (TorState.v): the bridge between the two models.  Definitions only. *)
From Coq Require Import ZArith List String Bool.
Import ListNotations.
Require Import Verif.lib.PyLite Verif.lib.Furl Verif.lib.TorState Verif.lib.ConnectAll.
Local Open Scope Z_scope.

(* the handler's Deferred has not fired -> the hint waits; it fired with an endpoint -> what that endpoint's connect() does
   (epb: HPending / HConnectFails e); it failed -> get_endpoint passes the failure through (connection.get_endpoint's
   `problem` errback returns it) *)
Definition of_tor (epb : houtcome) (o : outcome) : houtcome :=
  match o with
  | Waiting => HWaiting
  | Done (Ok _) => epb
  | Done (Exc e) => HRaises e
  end.

Definition tor_beh (nonpublic : str -> bool) (st : tor_state) (epb : hstr -> houtcome) (h : hstr) : houtcome :=
  of_tor (epb h) (tor_handler nonpublic st h).
