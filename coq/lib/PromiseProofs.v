(* C17: theorems about the Promise model (lib/Promise.v) instantiated with the shape facts
   read from promise.py (src_pcfg), and about the OneShotObserverList model. *)
From Coq Require Import ZArith List Bool Lia Arith.
Import ListNotations.
Require Import Verif.gen.EventualGen Verif.lib.Promise.
Local Open Scope Z_scope.

Definition good_pcfg : pcfg := {|
  pc_break_assigns := true; pc_break_guard := true; pc_resolve_guarded := true; pc_sets_near := true;
  pc_queue_on := pending_state; pc_wait_on := pending_state; pc_pending_pos := Tail;
  pc_drain_order := Forward; pc_watch_order := Forward; pc_codes_distinct := true |}.

(* THE TIE: constants and shape facts of promise.py are the ones the proofs rely on.  Reverting the
   D10 repair (`self._state == BROKEN` in _break) turns pc_break_assigns into false and this fails. *)
Lemma src_is_good : src_pcfg = good_pcfg.
Proof. reflexivity. Qed.

Definition resolved (pr : promise) (o : outcome) : Prop :=
  ptarget pr = Some o /\ plive pr = false /\ ppending pr = [] /\ pwatch pr = [] /\
  pstate pr = match o with Val _ => SNear | Fail _ => SBroken end.
Definition unresolved (pr : promise) : Prop :=
  pending_state (pstate pr) = true /\ plive pr = true /\ ptarget pr = None.
Definition WFp (pr : promise) : Prop := unresolved pr \/ exists o, resolved pr o.
Definition WF (s : ps) : Prop := forall p pr, tbl s p = Some pr -> (p < next s)%nat /\ WFp pr.
Definition ext (s s' : ps) : Prop :=
  forall p pr o, tbl s p = Some pr -> resolved pr o -> tbl s' p = Some pr.
Definition task_ok (s : ps) (t : task) : Prop :=
  match t with
  | TDeliver p _ => exists pr o, tbl s p = Some pr /\ resolved pr o
  | TCallback p _ o => exists pr, tbl s p = Some pr /\ resolved pr o
  end.
Definition ev_ok (s : ps) (e : pev) : Prop :=
  forall p o, outcome_of p e = Some o -> exists pr, tbl s p = Some pr /\ resolved pr o.
Definition Inv (s : ps) : Prop := WF s /\ Forall (task_ok s) (queue s).
Definition Good (s s' : ps) (evs : list pev) : Prop :=
  Inv s' /\ ext s s' /\ Forall (ev_ok s') evs.

Lemma unres_not_res pr o : unresolved pr -> resolved pr o -> False.
Proof. intros (_ & A & _) (_ & B & _). congruence. Qed.

Lemma resolved_fun pr o1 o2 : resolved pr o1 -> resolved pr o2 -> o1 = o2.
Proof. intros (A & _) (B & _). congruence. Qed.

Lemma task_ok_ext s s' t : ext s s' -> task_ok s t -> task_ok s' t.
Proof.
  intros E. destruct t as [p m|p wt o]; cbn [task_ok].
  - intros (pr & o & A & B). exists pr, o. split; [eapply E; eauto|exact B].
  - intros (pr & A & B). exists pr. split; [eapply E; eauto|exact B].
Qed.

Lemma ev_ok_ext s s' e : ext s s' -> ev_ok s e -> ev_ok s' e.
Proof. intros E H p o Ho. destruct (H p o Ho) as (pr & A & B). exists pr. split; [eapply E; eauto|exact B]. Qed.

Lemma ext_refl s : ext s s.
Proof. intros p pr o A _. exact A. Qed.
Lemma ext_trans s1 s2 s3 : ext s1 s2 -> ext s2 s3 -> ext s1 s3.
Proof. intros A B p pr o H R. eapply B; [eapply A; eauto|exact R]. Qed.

Lemma good_refl s : Inv s -> Good s s [].
Proof. intros I. split; [exact I|]. split; [apply ext_refl|constructor]. Qed.

Lemma good_evs s evs : Inv s -> Forall (ev_ok s) evs -> Good s s evs.
Proof. intros I H. split; [exact I|]. split; [apply ext_refl|exact H]. Qed.

Lemma good_trans s s1 s2 e1 e2 : Good s s1 e1 -> Good s1 s2 e2 -> Good s s2 (e1 ++ e2).
Proof.
  intros (I1 & X1 & V1) (I2 & X2 & V2). split; [exact I2|]. split; [eapply ext_trans; eauto|].
  apply Forall_app. split; [|exact V2]. eapply Forall_impl; [|exact V1]. intros e. apply ev_ok_ext. exact X2.
Qed.

Lemma no_outcome_ok s e : (forall p, outcome_of p e = None) -> ev_ok s e.
Proof. intros H p o Ho. rewrite H in Ho. discriminate. Qed.

Lemma upd_same t p pr : upd t p pr p = Some pr.
Proof. unfold upd. rewrite Nat.eqb_refl. reflexivity. Qed.
Lemma upd_other t p pr i : i <> p -> upd t p pr i = t i.
Proof. intros H. unfold upd. destruct (Nat.eqb_spec i p); [contradiction|reflexivity]. Qed.

(* ---- primitives *)
Lemma setp_good s p pr0 pr' :
  Inv s -> tbl s p = Some pr0 -> WFp pr' -> (unresolved pr0 \/ pr' = pr0) -> Good s (setp s p pr') [].
Proof.
  intros [W Q] H0 Wp Hc.
  assert (X : ext s (setp s p pr')).
  { intros i pr o A R. cbn [setp tbl]. destruct (Nat.eq_dec i p) as [->|Hn].
    - rewrite upd_same. rewrite H0 in A. injection A as <-.
      destruct Hc as [Hu| ->]; [exfalso; eapply unres_not_res; eauto|reflexivity].
    - rewrite upd_other by exact Hn. exact A. }
  split; [|split; [exact X|constructor]].
  split.
  - intros i pr A. cbn [setp tbl next] in *. destruct (Nat.eq_dec i p) as [->|Hn].
    + rewrite upd_same in A. injection A as <-. split; [apply (W p pr0 H0)|exact Wp].
    + rewrite upd_other in A by exact Hn. apply W. exact A.
  - cbn [setp queue]. eapply Forall_impl; [|exact Q]. intros t. apply task_ok_ext. exact X.
Qed.

Lemma enq_good s ts : Inv s -> Forall (task_ok s) ts -> Good s (enq s ts) [].
Proof.
  intros [W Q] H. split; [|split; [intros p pr o A _; exact A|constructor]].
  split; [exact W|]. cbn [enq queue]. apply Forall_app. split; assumption.
Qed.

Lemma alloc_good s : Inv s -> Good s (fst (alloc s)) [].
Proof.
  intros [W Q].
  assert (X : ext s (fst (alloc s))).
  { intros i pr o A R. cbn [alloc fst tbl]. destruct (Nat.eq_dec i (next s)) as [->|Hn].
    - destruct (W _ _ A) as [Hl _]. lia.
    - rewrite upd_other by exact Hn. exact A. }
  split; [|split; [exact X|constructor]]. split.
  - intros i pr A. cbn [alloc fst tbl next] in *. destruct (Nat.eq_dec i (next s)) as [->|Hn].
    + rewrite upd_same in A. injection A as <-. split; [lia|]. left. repeat split.
    + rewrite upd_other in A by exact Hn. destruct (W _ _ A). split; [lia|assumption].
  - cbn [alloc fst queue]. eapply Forall_impl; [|exact Q]. intros t. apply task_ok_ext. exact X.
Qed.

Lemma good_inv s s' e : Good s s' e -> Inv s'.
Proof. intros (I & _). exact I. Qed.

(* a promise that is not in a pending state is resolved, with its target *)
Lemma wf_resolved pr : WFp pr -> pending_state (pstate pr) = false -> exists o, resolved pr o.
Proof. intros [(A & _)|H] Hp; [congruence|exact H]. Qed.
Lemma wf_unresolved pr : WFp pr -> pending_state (pstate pr) = true -> unresolved pr.
Proof.
  intros [H|(o & _ & _ & _ & _ & A)] Hp; [exact H|]. rewrite A in Hp. destruct o; discriminate.
Qed.
Lemma wf_live pr : WFp pr -> plive pr = true -> unresolved pr.
Proof. intros [H|(o & _ & A & _)] Hp; [exact H|congruence]. Qed.
Lemma wf_notlive pr : WFp pr -> plive pr = false -> exists o, resolved pr o.
Proof. intros [(_ & A & _)|H] Hp; [congruence|exact H]. Qed.

(* ---- _resolve2 *)
Lemma resolve2_good top s p o s' e :
  Inv s -> resolve2 good_pcfg top s p o = (s', e) -> Good s s' e.
Proof.
  intros I. pose proof I as [W Q]. unfold resolve2. destruct (tbl s p) as [pr|] eqn:Hp.
  2:{ intros H; injection H as <- <-. apply good_refl; exact I. }
  destruct (W _ _ Hp) as [Hl Wp].
  cbn [good_pcfg pc_break_guard pc_sets_near pc_break_assigns pc_drain_order pc_watch_order].
  match goal with |- (if ?c then _ else _) = _ -> _ => destruct c end.
  { intros H; injection H as <- <-. apply good_evs; [exact I|]. constructor; [|constructor].
    apply no_outcome_ok; reflexivity. }
  destruct (plive pr) eqn:Hlive; cbn [negb].
  - (* live: the promise is unresolved and becomes resolved with o *)
    pose proof (wf_live _ Wp Hlive) as Hu.
    intros H; injection H as <- <-.
    set (pr' := {| pstate := match o with Val _ => SNear | Fail _ => SBroken end; ptarget := Some o;
                   plive := false; ppending := []; pwatch := [] |}).
    assert (R' : resolved pr' o) by (repeat split).
    assert (G1 : Good s (setp s p pr') []).
    { eapply setp_good; eauto. right. exists o. exact R'. }
    replace (@nil pev) with (@nil pev ++ @nil pev) by reflexivity.
    eapply good_trans; [exact G1|].
    apply enq_good; [eapply good_inv; exact G1|].
    unfold drain_tasks. cbn [ord]. apply Forall_app. split; apply Forall_forall; intros t Ht;
      apply in_map_iff in Ht as (x & <- & _); cbn [task_ok setp tbl]; rewrite upd_same; eauto.
  - destruct (wf_notlive _ Wp Hlive) as (o' & R).
    assert (Hps : pending_state (pstate pr) = false).
    { destruct R as (_ & _ & _ & _ & ->). destruct o'; reflexivity. }
    rewrite Hps. intros H; injection H as <- <-. apply good_evs; [exact I|]. constructor; [|constructor].
    apply no_outcome_ok; reflexivity.
Qed.

Lemma chain_to_good top s p q s' e :
  Inv s -> chain_to good_pcfg top s p q = (s', e) -> Good s s' e.
Proof.
  intros I. pose proof I as [W Q]. unfold chain_to. destruct (tbl s q) as [qr|] eqn:Hq.
  2:{ intros H; injection H as <- <-. apply good_refl; exact I. }
  destruct (W _ _ Hq) as [Hl Wq]. cbn [good_pcfg pc_wait_on].
  destruct (pending_state (pstate qr)) eqn:Hs.
  - pose proof (wf_unresolved _ Wq Hs) as Hu. destruct Hu as (U1 & U2 & U3). rewrite U2.
    intros H; injection H as <- <-. eapply setp_good; eauto.
    + left. repeat split; assumption.
    + left. repeat split; assumption.
  - destruct (wf_resolved _ Wq Hs) as (o & R). destruct R as (T & R'). rewrite T.
    apply resolve2_good. exact I.
Qed.

Lemma resolve_call_good top s p x s' e :
  Inv s -> resolve_call good_pcfg top s p x = (s', e) -> Good s s' e.
Proof.
  intros I. pose proof I as [W Q]. unfold resolve_call. destruct (tbl s p) as [pr|] eqn:Hp.
  2:{ intros H; injection H as <- <-. apply good_refl; exact I. }
  destruct (W _ _ Hp) as [Hl Wp]. cbn [good_pcfg pc_resolve_guarded andb].
  destruct (is_eventual (pstate pr)) eqn:He; cbn [negb].
  2:{ intros H; injection H as <- <-. apply good_evs; [exact I|]. constructor; [|constructor].
      apply no_outcome_ok; reflexivity. }
  destruct x as [v|f|q]; try (apply resolve2_good; exact I).
  destruct (tbl s q) as [qr|] eqn:Hq.
  2:{ intros H; injection H as <- <-. apply good_refl; exact I. }
  assert (Hps : pending_state (pstate pr) = true) by (destruct (pstate pr); try discriminate; reflexivity).
  pose proof (wf_unresolved _ Wp Hps) as (U1 & U2 & U3).
  match goal with |- (let '(_, _) := chain_to _ _ ?s1 _ _ in _) = _ -> _ => set (s1' := s1) end.
  assert (G1 : Good s s1' []).
  { eapply setp_good; eauto.
    - left. repeat split; assumption.
    - left. repeat split; assumption. }
  destruct (chain_to good_pcfg top s1' p q) as [s2 e2] eqn:Ec.
  intros H; injection H as <- <-. apply chain_to_good in Ec; [|eapply good_inv; exact G1].
  change (EChained p q :: e2) with ([] ++ ([EChained p q] ++ e2)).
  eapply good_trans; [exact G1|]. eapply good_trans; [|exact Ec].
  apply good_evs; [eapply good_inv; exact G1|]. constructor; [|constructor]. apply no_outcome_ok; reflexivity.
Qed.

Lemma send_op_good s p m b wr s' e :
  Inv s -> send_op good_pcfg s p m b wr = (s', e) -> Good s s' e.
Proof.
  intros I. pose proof I as [W Q]. unfold send_op. destruct (tbl s p) as [pr|] eqn:Hp.
  2:{ intros H; injection H as <- <-. apply good_refl; exact I. }
  destruct (W _ _ Hp) as [Hl Wp].
  assert (GA : forall s1 r, (if wr then let '(s1, r) := alloc s in (s1, Some r) else (s, None)) = (s1, r) ->
                            Good s s1 [] /\ tbl s1 p = Some pr).
  { intros s1 r. destruct wr.
    - intros H. injection H as <- <-. split; [apply alloc_good; exact I|].
      cbn [alloc fst tbl]. rewrite upd_other by lia. exact Hp.
    - intros H. injection H as <- <-. split; [apply good_refl; exact I|exact Hp]. }
  destruct (if wr then let '(s1, r) := alloc s in (s1, Some r) else (s, None)) as [s1 r] eqn:Ea.
  destruct (GA s1 r eq_refl) as [G1 Hp1]. pose proof (good_inv _ _ _ G1) as I1.
  cbn [good_pcfg pc_queue_on pc_pending_pos put].
  destruct (pending_state (pstate pr)) eqn:Hs.
  - pose proof (wf_unresolved _ Wp Hs) as (U1 & U2 & U3). rewrite U2.
    intros H; injection H as <- <-.
    assert (G2 : Good s1 (setp s1 p {| pstate := pstate pr; ptarget := ptarget pr; plive := true;
                   ppending := ppending pr ++ [{| mid := m; mbeh := b; mres := r |}]; pwatch := pwatch pr |}) []).
    { eapply setp_good; eauto; left; repeat split; assumption. }
    destruct G2 as (A & B & _). destruct G1 as (_ & B1 & _).
    split; [exact A|]. split; [eapply ext_trans; eauto|].
    constructor; [|constructor]. apply no_outcome_ok; reflexivity.
  - destruct (wf_resolved _ Wp Hs) as (o & R).
    intros H; injection H as <- <-.
    assert (G2 : Good s1 (enq s1 [TDeliver p {| mid := m; mbeh := b; mres := r |}]) []).
    { apply enq_good; [exact I1|]. constructor; [|constructor]. cbn [task_ok]. eauto. }
    destruct G2 as (A & B & _). destruct G1 as (_ & B1 & _).
    split; [exact A|]. split; [eapply ext_trans; eauto|].
    constructor; [|constructor]. apply no_outcome_ok; reflexivity.
Qed.

Lemma when_op_good s p w s' e :
  Inv s -> when_op good_pcfg s p w = (s', e) -> Good s s' e.
Proof.
  intros I. pose proof I as [W Q]. unfold when_op. destruct (tbl s p) as [pr|] eqn:Hp.
  2:{ intros H; injection H as <- <-. apply good_refl; exact I. }
  destruct (W _ _ Hp) as [Hl Wp]. cbn [good_pcfg pc_wait_on].
  destruct (pending_state (pstate pr)) eqn:Hs.
  - pose proof (wf_unresolved _ Wp Hs) as (U1 & U2 & U3). rewrite U2.
    intros H; injection H as <- <-.
    assert (G : Good s (setp s p {| pstate := pstate pr; ptarget := ptarget pr; plive := true; ppending := ppending pr;
                                    pwatch := pwatch pr ++ [Promise.W w] |}) []).
    { eapply setp_good; eauto; left; repeat split; assumption. }
    destruct G as (A & B & _). split; [exact A|]. split; [exact B|].
    constructor; [|constructor]. apply no_outcome_ok; reflexivity.
  - destruct (wf_resolved _ Wp Hs) as (o & R). pose proof R as (T & _). rewrite T.
    intros H; injection H as <- <-. apply good_evs; [exact I|].
    constructor; [apply no_outcome_ok; reflexivity|]. constructor; [|constructor].
    intros p' o' Ho. cbn [outcome_of] in Ho. destruct (Nat.eqb_spec p p') as [->|]; [|discriminate].
    injection Ho as <-. eauto.
Qed.

Lemma set_def_good s m d : Inv s -> Good s (set_def s m d) [].
Proof.
  intros [W Q]. split; [|split; [intros p pr o A _; exact A|constructor]].
  split; [exact W|exact Q].
Qed.

Lemma resolver_good s0 r x s1 e1 : Inv s0 -> resolver good_pcfg s0 r x = (s1, e1) -> Good s0 s1 e1.
Proof.
  intros I0. unfold resolver. destruct r.
  - apply resolve_call_good. exact I0.
  - intros H; injection H as <- <-. apply good_refl. exact I0.
Qed.

Lemma meth_send_good s m s0 e0 : Inv s -> meth_send good_pcfg s m = (s0, e0) -> Good s s0 e0.
Proof.
  intros I. unfold meth_send. destruct (mbeh m); try (intros H; injection H as <- <-; apply good_refl; exact I).
  apply send_op_good. exact I.
Qed.

Lemma meth_result_good nx s0 m s1 x : Inv s0 -> meth_result nx s0 m = (s1, x) -> Good s0 s1 [].
Proof.
  intros I. unfold meth_result. destruct (mbeh m); try (intros H; injection H as <- _; apply good_refl; exact I).
  destruct (dget (defs s0) (mid m)) as [[r|x0|]|]; intros H; injection H as <- _;
    first [apply set_def_good; exact I | apply good_refl; exact I].
Qed.

Lemma resolver_opt_good s0 r x s1 e1 : Inv s0 -> resolver_opt good_pcfg s0 r x = (s1, e1) -> Good s0 s1 e1.
Proof.
  intros I0. unfold resolver_opt. destruct x; [apply resolver_good; exact I0|].
  intros H; injection H as <- <-. apply good_refl. exact I0.
Qed.

Lemma run_task_good s t s' e :
  Inv s -> task_ok s t -> run_task good_pcfg s t = (s', e) -> Good s s' e.
Proof.
  intros I Tk. pose proof I as [W Q]. destruct t as [p m|p [w|p'] o]; cbn [run_task].
  - destruct Tk as (pr & o & Hp & R). rewrite Hp. pose proof R as (T & _). rewrite T.
    assert (Hev : forall v0, ev_ok s (EDelivered p v0 o)).
    { intros v0 p' o' Ho. cbn [outcome_of] in Ho. destruct (Nat.eqb_spec p p') as [->|]; [|discriminate].
      injection Ho as <-. eauto. }
    assert (HevN : ev_ok s (dev p m o)).
    { unfold dev. destruct (invocable (mbeh m)); [apply Hev|].
      intros p' o' Ho. cbn [outcome_of] in Ho. destruct (Nat.eqb_spec p p') as [->|]; [|discriminate].
      injection Ho as <-. eauto. }
    destruct o as [v|f].
    + destruct (meth_send good_pcfg s m) as [s0 e0] eqn:E0.
      destruct (meth_result (next s) s0 m) as [s0' x] eqn:E1.
      destruct (resolver_opt good_pcfg s0' (mres m) x) as [s1 e1] eqn:Er.
      intros H; injection H as <- <-.
      apply meth_send_good in E0; [|exact I].
      apply meth_result_good in E1; [|eapply good_inv; exact E0].
      apply resolver_opt_good in Er; [|eapply good_inv; exact E1].
      change (dev p m (Val v) :: e0 ++ e1) with ([dev p m (Val v)] ++ (e0 ++ ([] ++ e1))).
      eapply good_trans; [|eapply good_trans; [exact E0|eapply good_trans; eassumption]].
      apply good_evs; [exact I|]. constructor; [apply HevN|constructor].
    + destruct (resolver good_pcfg s (mres m) (RFail f)) as [s1 e1] eqn:Er.
      intros H; injection H as <- <-. apply resolver_good in Er; [|exact I].
      change (EDelivered p (mid m) (Fail f) :: e1) with ([EDelivered p (mid m) (Fail f)] ++ e1).
      eapply good_trans; [|exact Er]. apply good_evs; [exact I|]. constructor; [apply Hev|constructor].
  - intros H; injection H as <- <-. apply good_evs; [exact I|]. constructor; [|constructor].
    destruct Tk as (pr & Hp & R). intros p0 o0 Ho. cbn [outcome_of] in Ho.
    destruct (Nat.eqb_spec p p0) as [->|]; [|discriminate]. injection Ho as <-. eauto.
  - apply resolve2_good. exact I.
Qed.

Lemma run_one_good s s' e : Inv s -> run_one good_pcfg s = (s', e) -> Good s s' e.
Proof.
  intros I. pose proof I as [W Q]. unfold run_one. destruct (queue s) as [|t q'] eqn:Eq.
  - intros H; injection H as <- <-. apply good_refl; exact I.
  - set (s0 := {| tbl := tbl s; next := next s; queue := q'; defs := defs s |}).
    assert (I0 : Inv s0) by (split; [exact W|]; inversion Q; assumption).
    assert (T0 : task_ok s0 t) by (inversion Q; assumption).
    intros H. apply run_task_good in H; [|exact I0|exact T0].
    destruct H as (A & B & C). split; [exact A|]. split; [|exact C].
    intros p pr o Hp R. apply (B p pr o); assumption.
Qed.

Lemma run_n_good n : forall s s' e, Inv s -> run_n good_pcfg n s = (s', e) -> Good s s' e.
Proof.
  induction n as [|n IH]; intros s s' e I; cbn [run_n].
  - intros H; injection H as <- <-. apply good_refl; exact I.
  - destruct (run_one good_pcfg s) as [s1 t1] eqn:E1. destruct (run_n good_pcfg n s1) as [s2 t2] eqn:E2.
    intros H; injection H as <- <-. apply run_one_good in E1; [|exact I].
    apply IH in E2; [|eapply good_inv; exact E1]. eapply good_trans; eassumption.
Qed.

Lemma fire_def_good s m x s' e : Inv s -> fire_def good_pcfg s m x = (s', e) -> Good s s' e.
Proof.
  intros I. unfold fire_def.
  match goal with |- (if ?c then _ else _) = _ -> _ => destruct c end.
  { intros H; injection H as <- <-. apply good_refl; exact I. }
  destruct (dget (defs s) m) as [[r|x0|]|].
  - intros H. apply resolver_good in H; [|eapply good_inv; apply set_def_good; exact I].
    replace e with ([] ++ e) by reflexivity. eapply good_trans; [apply set_def_good; exact I|exact H].
  - intros H; injection H as <- <-. apply good_refl; exact I.
  - intros H; injection H as <- <-. apply good_refl; exact I.
  - intros H; injection H as <- <-. apply set_def_good; exact I.
Qed.

Lemma pstep_good s o s' e : Inv s -> pstep good_pcfg s o = (s', e) -> Good s s' e.
Proof.
  intros I. destruct o as [|p m b|p m b|p w|p x|m x|]; cbn [pstep].
  - intros H; injection H as <- <-. apply alloc_good; exact I.
  - apply send_op_good; exact I.
  - apply send_op_good; exact I.
  - apply when_op_good; exact I.
  - destruct x as [v|f|q]; try (apply resolve_call_good; exact I).
    destruct (Nat.ltb q (next s)); [apply resolve_call_good; exact I|].
    intros H; injection H as <- <-. apply good_refl; exact I.
  - apply fire_def_good; exact I.
  - apply run_n_good; exact I.
Qed.

Lemma prun_good ops : forall s s' e, Inv s -> prun good_pcfg s ops = (s', e) -> Good s s' e.
Proof.
  induction ops as [|o ops IH]; intros s s' e I; cbn [prun].
  - intros H; injection H as <- <-. apply good_refl; exact I.
  - destruct (pstep good_pcfg s o) as [s1 t1] eqn:E1. destruct (prun good_pcfg s1 ops) as [s2 t2] eqn:E2.
    intros H; injection H as <- <-. apply pstep_good in E1; [|exact I].
    apply IH in E2; [|eapply good_inv; exact E1]. eapply good_trans; eassumption.
Qed.

Lemma inv_ps0 : Inv ps0.
Proof. split; [intros p pr H; discriminate|constructor]. Qed.

(* ======================= property theorems ======================= *)

(* "it cannot be resolved twice": in every reachable state, resolving (with a value, a promise or a
   Failure) a promise that is not EVENTUAL is refused with UsageError and changes nothing ... *)
Theorem pr_second_resolve_refused : forall s p pr x,
  tbl s p = Some pr -> pstate pr <> SEventual ->
  resolve_call src_pcfg true s p x = (s, [ERefused p true]).
Proof.
  rewrite src_is_good. intros s p pr x Hp Hs. unfold resolve_call. rewrite Hp.
  cbn [good_pcfg pc_resolve_guarded andb]. destruct (pstate pr); try contradiction; reflexivity.
Qed.

(* ... and an accepted resolution always leaves the EVENTUAL state (this is where `_break` must
   ASSIGN: with the comparison of D10 the promise stayed EVENTUAL) *)
Theorem pr_resolve_leaves_eventual : forall ops s t p pr x s' e,
  prun src_pcfg ps0 ops = (s, t) -> tbl s p = Some pr -> pstate pr = SEventual ->
  (match x with RProm q => tbl s q <> None | _ => True end) ->
  resolve_call src_pcfg true s p x = (s', e) ->
  exists pr', tbl s' p = Some pr' /\ pstate pr' <> SEventual.
Proof.
  rewrite src_is_good. intros ops s t p pr x s' e Hrun Hp Hs Hx.
  apply prun_good in Hrun; [|exact inv_ps0]. destruct Hrun as ([W Q] & _ & _).
  destruct (W _ _ Hp) as [_ Wp].
  assert (Hps : pending_state (pstate pr) = true) by (rewrite Hs; reflexivity).
  pose proof (wf_unresolved _ Wp Hps) as (_ & U2 & U3).
  unfold resolve_call. rewrite Hp. cbn [good_pcfg pc_resolve_guarded andb]. rewrite Hs. cbn [is_eventual negb].
  assert (R2 : forall o s1 e1, resolve2 good_pcfg true s p o = (s1, e1) ->
                exists pr', tbl s1 p = Some pr' /\ pstate pr' <> SEventual).
  { intros o s1 e1. unfold resolve2. rewrite Hp, U2, Hs.
    cbn [good_pcfg pc_break_guard pc_sets_near pc_break_assigns is_broken andb negb].
    destruct o; intros H; injection H as <- _; cbn [enq setp tbl]; rewrite upd_same; eexists; split;
      try reflexivity; cbn [pstate]; discriminate. }
  destruct x as [v|f|q]; try apply R2.
  destruct (tbl s q) as [qr|] eqn:Hq; [|contradiction].
  unfold chain_to. cbn [setp tbl].
  destruct (Nat.eq_dec q p) as [->|Hn].
  - rewrite upd_same. cbn [good_pcfg pc_wait_on pstate pending_state plive]. rewrite U2.
    intros H; injection H as <- _. cbn [setp tbl]. rewrite upd_same. eexists; split; [reflexivity|]. cbn [pstate]. discriminate.
  - rewrite upd_other by exact Hn. rewrite Hq. cbn [good_pcfg pc_wait_on].
    destruct (pending_state (pstate qr)).
    + destruct (plive qr); intros H; injection H as <- _; cbn [setp tbl].
      * rewrite upd_other by auto. rewrite upd_same. eexists; split; [reflexivity|]. cbn [pstate]. discriminate.
      * rewrite upd_same. eexists; split; [reflexivity|]. cbn [pstate]. discriminate.
    + destruct (ptarget qr) as [o|].
      * unfold resolve2. cbn [setp tbl]. rewrite upd_same. cbn [pstate plive]. rewrite U2.
        cbn [good_pcfg pc_break_guard pc_sets_near pc_break_assigns is_broken andb negb].
        assert (Hb : (match o with Fail _ => false | Val _ => false end) = false) by (destruct o; reflexivity).
        rewrite Hb. destruct o; intros H; injection H as <- _; cbn [enq setp tbl]; rewrite upd_same; eexists; split;
          try reflexivity; cbn [pstate]; discriminate.
      * intros H; injection H as <- _. cbn [setp tbl]. rewrite upd_same. eexists; split; [reflexivity|]. cbn [pstate]. discriminate.
Qed.

(* "once resolved or broken ...": a promise that has reached NEAR v / BROKEN f keeps exactly that
   state and target through every further program *)
Theorem pr_stable : forall ops1 ops2 s1 t1 s2 t2 p pr,
  prun src_pcfg ps0 ops1 = (s1, t1) -> tbl s1 p = Some pr ->
  (pstate pr = SNear \/ pstate pr = SBroken) ->
  prun src_pcfg s1 ops2 = (s2, t2) ->
  tbl s2 p = Some pr /\
  exists o, ptarget pr = Some o /\ (pstate pr = SNear <-> exists v, o = Val v).
Proof.
  rewrite src_is_good. intros ops1 ops2 s1 t1 s2 t2 p pr H1 Hp Hs H2.
  apply prun_good in H1; [|exact inv_ps0]. pose proof (good_inv _ _ _ H1) as I1. destruct I1 as [W Q].
  destruct (W _ _ Hp) as [_ Wp].
  assert (Hps : pending_state (pstate pr) = false) by (destruct Hs as [-> | ->]; reflexivity).
  destruct (wf_resolved _ Wp Hps) as (o & R).
  apply prun_good in H2; [|split; assumption]. destruct H2 as (_ & X & _).
  split; [eapply X; eauto|]. exists o. destruct R as (T & _ & _ & _ & S). split; [exact T|].
  rewrite S. destruct o; split; intros H; eauto; try discriminate. destruct H as (v & H). discriminate.
Qed.

(* "... every past and future observer (when/_then/_except/sends) sees that same outcome": all
   reports about a promise in a run -- observers told, messages handed to the resolution -- carry
   one and the same outcome, which is the promise's final target *)
Theorem pr_observers_agree : forall ops s t p e1 o1,
  prun src_pcfg ps0 ops = (s, t) -> In e1 t -> outcome_of p e1 = Some o1 ->
  (exists pr, tbl s p = Some pr /\ ptarget pr = Some o1 /\
              pstate pr = match o1 with Val _ => SNear | Fail _ => SBroken end) /\
  forall e2 o2, In e2 t -> outcome_of p e2 = Some o2 -> o2 = o1.
Proof.
  rewrite src_is_good. intros ops s t p e1 o1 H He1 Ho1.
  apply prun_good in H; [|exact inv_ps0]. destruct H as (_ & _ & V).
  rewrite Forall_forall in V. destruct (V _ He1 p o1 Ho1) as (pr & Hp & R).
  split.
  - exists pr. destruct R as (T & _ & _ & _ & S). auto.
  - intros e2 o2 He2 Ho2. destruct (V _ He2 p o2 Ho2) as (pr2 & Hp2 & R2).
    rewrite Hp in Hp2. injection Hp2 as <-. eapply resolved_fun; eauto.
Qed.

(* ---- "delivers every message sent to it, in send order and exactly once, to its resolution".
   Proved here as the three local facts from which the global statement follows by the FIFO
   discipline of the queue (C17_ev_fifo); the global accounting invariant
       sent_to p log = delivered_to p log ++ queued_for p queue ++ pending_of s p
   over all programs is NOT closed in Coq (see the direct oracle `oracle/delivery-order`). *)

(* (a) a send is appended behind everything sent before: to _pendingMethods while the promise is
   pending, to the eventual-send queue once it is resolved *)
Lemma pr_order_send : forall s p pr m b wr s' e,
  tbl s p = Some pr -> (p < next s)%nat -> send_op src_pcfg s p m b wr = (s', e) ->
  (pending_state (pstate pr) = true -> plive pr = true ->
     pending_of s' p = pending_of s p ++ [m] /\ queue s' = queue s) /\
  (pending_state (pstate pr) = false ->
     pending_of s' p = pending_of s p /\ exists mm, mid mm = m /\ queue s' = queue s ++ [TDeliver p mm]).
Proof.
  rewrite src_is_good. intros s p pr m b wr s' e Hp Hl. unfold send_op. rewrite Hp.
  cbn [good_pcfg pc_queue_on pc_pending_pos put].
  assert (Hne : Nat.eqb p (next s) = false) by (apply Nat.eqb_neq; lia).
  destruct wr; cbn [alloc]; destruct (pending_state (pstate pr)) eqn:Hs; destruct (plive pr) eqn:Hlv;
    intros H; injection H as <- <-; (split; [intros Hx Hy; try discriminate|intros Hx; try discriminate]);
    unfold pending_of; cbn [setp enq tbl queue]; rewrite ?upd_same; unfold upd; rewrite ?Nat.eqb_refl, ?Hne, ?Hp;
    cbn [ppending]; rewrite ?map_app; cbn [map mid]; try (split; reflexivity);
    (split; [reflexivity|]); eexists; (split; [|reflexivity]); reflexivity.
Qed.

(* (b) resolution releases the queued messages in the order they were sent, then the observers in
   the order they subscribed, behind everything already in the queue; nothing stays behind *)
Lemma pr_order_release : forall top s p pr o s' e,
  tbl s p = Some pr -> plive pr = true -> pstate pr <> SBroken ->
  resolve2 src_pcfg top s p o = (s', e) ->
  e = [] /\ pending_of s' p = [] /\
  queue s' = queue s ++ map (TDeliver p) (ppending pr) ++ map (fun wt => TCallback p wt o) (pwatch pr).
Proof.
  rewrite src_is_good. intros top s p pr o s' e Hp Hl Hs. unfold resolve2. rewrite Hp, Hl.
  cbn [good_pcfg pc_break_guard pc_sets_near pc_break_assigns negb andb].
  assert (Hb : (match o with Fail _ => is_broken (pstate pr) | Val _ => false end) = false).
  { destruct o; [reflexivity|]. destruct (pstate pr); try reflexivity. contradiction. }
  rewrite Hb. intros H; injection H as <- <-. split; [reflexivity|].
  unfold pending_of, drain_tasks. cbn [enq setp tbl queue good_pcfg pc_drain_order pc_watch_order ord].
  rewrite upd_same. split; reflexivity.
Qed.

Lemma delivered_to_app q a b : delivered_to q (a ++ b) = delivered_to q a ++ delivered_to q b.
Proof.
  induction a as [|e a IH]; [reflexivity|]. destruct e; cbn [app delivered_to]; rewrite ?IH; try reflexivity.
  all: destruct (Nat.eqb p q); cbn [app]; rewrite ?IH; reflexivity.
Qed.

(* what [dev] reports is a hand-over of that message to that promise, whichever of the two events it is *)
Lemma delivered_to_dev q p m o : delivered_to q [dev p m o] = if Nat.eqb p q then [mid m] else [].
Proof. unfold dev. destruct (invocable (mbeh m)); reflexivity. Qed.
Lemma dev_not_crash p m o q top : dev p m o <> ECrash q top.
Proof. unfold dev. destruct (invocable (mbeh m)); discriminate. Qed.
Lemma dev_not_chained p m o a b : dev p m o <> EChained a b.
Proof. unfold dev. destruct (invocable (mbeh m)); discriminate. Qed.
Lemma dev_quiet p m o q :
  sent_to q [dev p m o] = [] /\ whens q [dev p m o] = [] /\ observed q [dev p m o] = [].
Proof. unfold dev. destruct (invocable (mbeh m)); repeat split. Qed.

(* D10, for the record: with `self._state == BROKEN` (comparison) in _break the promise stays EVENTUAL after being
   broken, a later when() fails with AttributeError and a second resolution is not refused *)
Lemma pr_d10_refuted :
  let t := snd (prun d10_pcfg ps0 [PNew; PResolve 0 (RFail 1); PWhen 0 7; PResolve 0 (RVal 3)]) in
  In (ECrash 0 true) t /\ ~ In (ERefused 0 true) t.
Proof. vm_compute. split; [auto|]. intros [H|[H|H]]; try discriminate; exact H. Qed.

Example pr_d10_now :
  snd (prun src_pcfg ps0 [PNew; PResolve 0 (RFail 1); PWhen 0 7; PResolve 0 (RVal 3)])
  = [EWhen 0 7; EObserved 0 7 (Fail 1); ERefused 0 true].
Proof. vm_compute. reflexivity. Qed.

(* non-vacuity: a chain of promises resolved to promises, sends before and after, observers before and after *)
Example pr_example :
  let ops := [PNew; PNew; PSend 0 1 (BRet 11); PWhen 0 100; PResolve 0 (RProm 1); PSend 0 2 (BRaise 5);
              PResolve 1 (RVal 9); PTurn; PTurn; PWhen 0 101; PWhen 3 102; PTurn; PResolve 0 (RVal 4)] in
  snd (prun src_pcfg ps0 ops) =
    [ESent 0 1; EWhen 0 100; EChained 0 1; ESent 0 2; EDelivered 0 1 (Val 9); EDelivered 0 2 (Val 9); EObserved 0 100 (Val 9);
     EWhen 0 101; EObserved 0 101 (Val 9); EWhen 3 102; EObserved 3 102 (Fail 5); ERefused 0 true].
Proof. vm_compute. reflexivity. Qed.

(* ======================= a message to a method the target does not have ======================= *)

(* the delivery of such a message to a value, for EVERY configuration and state: nothing runs on the target (no
   re-entrant send, no Deferred is remembered), the one thing that happens is the call of the result promise's
   resolver with the AttributeError Failure; the report is the hand-over event that has no counterpart in the
   implementation trace *)
Lemma pr_nometh_delivery : forall c s p m pr v,
  tbl s p = Some pr -> ptarget pr = Some (Val v) -> mbeh m = BNoMeth ->
  run_task c s (TDeliver p m) =
    (let '(s1, e) := resolver c s (mres m) (RFail attr_error) in (s1, EDeliveredNM p (mid m) (Val v) :: e)).
Proof.
  intros c s p m pr v Hp Ht Hb. cbn [run_task]. rewrite Hp, Ht. unfold meth_send, meth_result, dev, resolver_opt.
  rewrite Hb. cbn [invocable]. destruct (resolver c s (mres m) (RFail attr_error)) as [s1 e]. reflexivity.
Qed.

(* sendOnly(p).nosuch(..): the Failure is swallowed -- the state is untouched, nothing is reported but the hand-over *)
Theorem pr_nometh_sendonly_swallowed : forall s p m pr v,
  tbl s p = Some pr -> ptarget pr = Some (Val v) -> mbeh m = BNoMeth -> mres m = None ->
  run_task src_pcfg s (TDeliver p m) = (s, [EDeliveredNM p (mid m) (Val v)]).
Proof.
  intros s p m pr v Hp Ht Hb Hr. rewrite (pr_nometh_delivery _ _ _ _ _ _ Hp Ht Hb), Hr. reflexivity.
Qed.

(* send(p).nosuch(..): the result promise -- still EVENTUAL, as send() made it -- is BROKEN with the AttributeError;
   the messages and observers that were waiting on it are released towards that Failure, in order, behind everything
   already scheduled (so: the tasks queued behind this delivery are untouched); no message is sent, no method runs *)
Theorem pr_nometh_breaks_result : forall s p m pr v r rr s' e,
  tbl s p = Some pr -> ptarget pr = Some (Val v) -> mbeh m = BNoMeth ->
  mres m = Some r -> tbl s r = Some rr -> pstate rr = SEventual -> plive rr = true ->
  run_task src_pcfg s (TDeliver p m) = (s', e) ->
  e = [EDeliveredNM p (mid m) (Val v)] /\
  tbl s' r = Some {| pstate := SBroken; ptarget := Some (Fail attr_error); plive := false; ppending := []; pwatch := [] |} /\
  (forall i, i <> r -> tbl s' i = tbl s i) /\ next s' = next s /\ defs s' = defs s /\
  queue s' = queue s ++ map (TDeliver r) (ppending rr) ++ map (fun wt => TCallback r wt (Fail attr_error)) (pwatch rr).
Proof.
  rewrite src_is_good. intros s p m pr v r rr s' e Hp Ht Hb Hr Hrr Hs Hl.
  rewrite (pr_nometh_delivery _ _ _ _ _ _ Hp Ht Hb), Hr. unfold resolver, resolve_call, resolve2. rewrite Hrr, Hs, Hl.
  cbn [good_pcfg pc_resolve_guarded pc_break_guard pc_break_assigns pc_drain_order pc_watch_order
       is_eventual is_broken andb negb].
  intros H; injection H as <- <-. split; [reflexivity|]. cbn [enq setp tbl next defs queue].
  split; [apply upd_same|]. split; [intros i Hi; apply upd_other; exact Hi|].
  split; [reflexivity|]. split; [reflexivity|]. unfold drain_tasks. cbn [ord]. reflexivity.
Qed.

(* non-vacuity, and the whole story on one program: a send to a missing method between two ordinary sends, queued
   before the resolution.  All three messages are handed to the resolution in send order, once each; the neighbours'
   methods are invoked (their result promises 1 and 3 become NEAR), nothing is invoked for message 2, its result
   promise 2 is BROKEN with the AttributeError, and the observer waiting on it is told that Failure *)
Example pr_nometh_example :
  let ops := [PNew; PSend 0 1 (BRet 11); PSend 0 2 BNoMeth; PSend 0 3 (BRet 13); PWhen 2 100;
              PResolve 0 (RVal 9); PTurn; PTurn] in
  let '(s, t) := prun src_pcfg ps0 ops in
  (t, sent_to 0 t, delivered_to 0 t, map (fun i => enc_promise (tbl s i)) [1; 2; 3]%nat, flat_map enc_pev t)
  = ([ESent 0 1; ESent 0 2; ESent 0 3; EWhen 2 100;
      EDelivered 0 1 (Val 9); EDeliveredNM 0 2 (Val 9); EDelivered 0 3 (Val 9); EObserved 2 100 (Fail (-1))],
     [1; 2; 3], [1; 2; 3], [[2; 1; 11]; [3; 2; -1]; [2; 1; 13]],
     [1; 0; 1;  1; 0; 2;  1; 0; 3;  2; 0; 1; 9;  2; 0; 3; 9;  3; 2; 100; 1; -1]).
Proof. vm_compute. reflexivity. Qed.

(* the same message sent with sendOnly after the resolution, and one sent to a BROKEN promise (where it behaves like
   every other message: the resolver gets the promise's own Failure, not an AttributeError) *)
Example pr_nometh_example2 :
  let ops := [PNew; PNew; PResolve 0 (RVal 9); PResolve 1 (RFail 4); PSendOnly 0 1 BNoMeth; PSendOnly 0 2 (BRet 0);
              PSend 1 3 BNoMeth; PWhen 2 100; PTurn; PTurn] in
  let '(s, t) := prun src_pcfg ps0 ops in
  (t, List.length (queue s), enc_promise (tbl s 2))
  = ([ESent 0 1; ESent 0 2; ESent 1 3; EWhen 2 100;
      EDeliveredNM 0 1 (Val 9); EDelivered 0 2 (Val 9); EDelivered 1 3 (Fail 4); EObserved 2 100 (Fail 4)],
     0%nat, [3; 2; 4]).
Proof. vm_compute. reflexivity. Qed.

(* the hypotheses of pr_nometh_breaks_result are met in a reachable state (with a backlog and an observer on the result
   promise), and its conclusion is what the model computes there *)
Example pr_nometh_breaks_result_example :
  let ops := [PNew; PResolve 0 (RVal 9); PSend 0 1 BNoMeth; PSendOnly 1 2 (BRet 0); PWhen 1 100] in
  let s := fst (prun src_pcfg ps0 ops) in
  let m := {| mid := 1; mbeh := BNoMeth; mres := Some 1%nat |} in
  queue s = [TDeliver 0 m] /\
  (match tbl s 0 with Some pr => ptarget pr | None => None end) = Some (Val 9) /\
  (match tbl s 1 with Some rr => (pstate rr, plive rr, map mid (ppending rr), pwatch rr) | None => (SNear, false, [], []) end)
    = (SEventual, true, [2], [W 100]) /\
  queued_for 1 (queue (fst (run_one src_pcfg s))) = [2] /\ cb_for 1 (queue (fst (run_one src_pcfg s))) = [100].
Proof. vm_compute. repeat split. Qed.

(* ======================= OneShotObserverList ======================= *)
Lemma oso_asserts : ob_fire_asserts_unfired = true.
Proof. reflexivity. Qed.

Lemma oso_after_fire ops : forall s r, o_fired s = Some r ->
  forall w r', In (OEventually w r') (snd (oso_run s ops)) -> r' = r.
Proof.
  induction ops as [|o ops IH]; intros s r Hf w r'; cbn [oso_run].
  - cbn. intros [].
  - destruct (oso_step s o) as [s1 t1] eqn:E1. destruct (oso_run s1 ops) as [s2 t2] eqn:E2. cbn [snd].
    intros Hin. apply in_app_or in Hin. unfold oso_step in E1. rewrite Hf, oso_asserts in E1.
    destruct o; injection E1 as <- <-.
    + destruct Hin as [[H|[]]|H]; [injection H as _ <-; reflexivity|].
      eapply (IH s r Hf w r'). rewrite E2. exact H.
    + destruct Hin as [[H|[]]|H]; [discriminate|]. eapply (IH s r Hf w r'). rewrite E2. exact H.
Qed.

Lemma oso_before_fire ops : forall s, o_fired s = None ->
  exists r, forall w r', In (OEventually w r') (snd (oso_run s ops)) -> r' = r.
Proof.
  induction ops as [|o ops IH]; intros s Hf; cbn [oso_run].
  - exists 0. cbn. intros w r' [].
  - destruct (oso_step s o) as [s1 t1] eqn:E1. destruct (oso_run s1 ops) as [s2 t2] eqn:E2. cbn [snd].
    unfold oso_step in E1. rewrite Hf in E1. destruct o; injection E1 as <- <-.
    + destruct (IH {| o_fired := None; o_watchers := o_watchers s ++ [w] |} eq_refl) as (r & Hr).
      exists r. intros w0 r' Hin. cbn [app] in Hin. apply (Hr w0). rewrite E2. exact Hin.
    + exists r. intros w0 r' Hin. apply in_app_or in Hin as [H|H].
      * apply in_map_iff in H as (x & Hx & _). injection Hx as _ <-. reflexivity.
      * eapply (oso_after_fire ops {| o_fired := Some r; o_watchers := [] |} r eq_refl w0 r'). rewrite E2. exact H.
Qed.

(* every subscriber of a one-shot observer list -- before or after it fired -- is sent (eventually, never
   synchronously: the model only emits eventual-sends) one and the same result *)
Theorem oso_single_result : forall ops w1 r1 w2 r2,
  In (OEventually w1 r1) (snd (oso_run oso0 ops)) -> In (OEventually w2 r2) (snd (oso_run oso0 ops)) -> r1 = r2.
Proof.
  intros ops w1 r1 w2 r2 H1 H2. destruct (oso_before_fire ops oso0 eq_refl) as (r & Hr).
  rewrite (Hr _ _ H1), (Hr _ _ H2). reflexivity.
Qed.

(* non-vacuity of the re-entrant send: the message a method sends while it runs is delivered behind everything
   that was already queued for that promise *)
Example pr_reentrant_send_example :
  snd (prun src_pcfg ps0 [PNew; PResolve 0 (RVal 9); PSendOnly 0 1 (BSendRet 0 3 7); PSendOnly 0 2 (BRet 0); PTurn; PTurn])
  = [ESent 0 1; ESent 0 2; EDelivered 0 1 (Val 9); ESent 0 3; EDelivered 0 2 (Val 9); EDelivered 0 3 (Val 9)].
Proof. vm_compute. reflexivity. Qed.
