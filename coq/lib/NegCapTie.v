(* C11: the size guard of Negotiation.dataReceived, straight from the translated definition (gen/NegotiateGen.v) *)
From Coq Require Import ZArith List Bool Lia.
Import ListNotations.
Require Import Verif.lib.PyLite Verif.gen.NegotiateGen.
Local Open Scope Z_scope.

Ltac zb := repeat match goal with
                  | |- context [Z.leb ?a ?b] => destruct (Z.leb_spec a b)
                  | |- context [Z.ltb ?a ?b] => destruct (Z.ltb_spec a b)
                  | |- context [Z.eqb ?a ?b] => destruct (Z.eqb_spec a b)
                  | |- context [Z.geb ?a ?b] => rewrite (Z.geb_leb a b)
                  | |- context [Z.gtb ?a ?b] => rewrite (Z.gtb_ltb a b)
                  end; cbn [andb orb negb]; try reflexivity; try (f_equal; try f_equal; lia); try lia.

(* Negotiation.dataReceived's size guard, as translated into gen/NegotiateGen.header_verdict (0 = refuse "Header too long", 1 = wait
   for more, 2 = split off a block) *)
Theorem neg_cap_beyond : forall eoh buflen, 4096 < eoh -> header_verdict eoh buflen = 0.
Proof. intros eoh buflen H. unfold header_verdict. zb. Qed.

Theorem neg_cap_no_terminator : forall buflen, header_verdict (-1) buflen = 0 <-> 4100 <= buflen.
Proof. intros buflen. unfold header_verdict. split; intros H; revert H; zb; try discriminate; intros; try lia; try reflexivity. Qed.

Theorem neg_waits_below_cap : forall buflen, header_verdict (-1) buflen = 1 <-> buflen < 4100.
Proof. intros buflen. unfold header_verdict. split; intros H; revert H; zb; try discriminate; intros; try lia; try reflexivity. Qed.

Theorem neg_block_within_cap : forall eoh buflen, 0 <= eoh <= 4096 -> header_verdict eoh buflen = 2.
Proof. intros eoh buflen H. unfold header_verdict. zb. Qed.
