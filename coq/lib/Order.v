(* C04: executable model of the path of a call from callRemote to the remote_ method, on one
   direction of one connection.  Definitions only (proofs: lib/OrderProofs.v).

   sender    RootSlicer.sendQueue (sendq), the top-level object on Banana.slicerStack, possibly paused on a
             Deferred yielded by one of its slicers (cur), the bytes of completely serialized calls (wire)
   receiver  Broker.inboundDeliveryQueue (inq), the delivery popped by doNextCall whose ready_deferred has
             not fired (waiting, flag _waiting_for_call_to_be_ready), foolscap.eventual's queue (evq)

   loss      Broker.finish on the receiver (lost; the queued deliveries are dropped), after which doNextCall returns at once
   gifts     the Deferred network that makes a delivery ready: TheirReferenceUnslicer (obj_deferred, ready_deferred),
             ArgumentUnslicer.num_unreferenceable_children / _all_children_are_referenceable_d, AsyncAND of the
             arguments, AsyncAND of the call -- the step functions and_cb / update_child / args_close_* are translated
             statement by statement from util.py and call.py (gen/OrderGen.v)

   Every queue discipline comes from gen/OrderGen.v, i.e. from the AST of the current source:
   sendq_push/sendq_pop/send_idle_before_enqueue (slicers/root.py), inq_push/inq_pop/head_of_line (broker.py),
   evq_push/evq_iter (eventual.py).  The wire is FIFO by assumption (TCP / the test transports). *)
From Coq Require Import List Bool Arith ZArith.
Import ListNotations.
Require Import Verif.gen.OrderGen.

(* ---- queues with a discipline read from the source *)
Definition q_put {A} (p : push_end) (x : A) (l : list A) : list A :=
  match p with PushBack => l ++ [x] | PushFront => x :: l end.

Definition q_take {A} (p : pop_end) (l : list A) : option (A * list A) :=
  match p with
  | PopFront => match l with [] => None | x :: r => Some (x, r) end
  | PopBack => match rev l with [] => None | x :: r => Some (x, rev r) end
  end.

(* ---- calls *)
Inductive fate :=
  | FPlain          (* arguments accepted, ready on arrival *)
  | FGift (n : nat) (* carries n third-party references, none resolved on arrival (n = 0: ready on arrival) *)
  | FRejectEarly    (* refused while being received (schema Violation on a token, or ABORTed by the sender): never queued *)
  | FRejectLate.    (* refused by checkAllArgs in _doCall, when its turn comes *)

Record call := { cid : nat; stalls : nat; cfate : fate }.

Inductive thunk := TDoNext.                     (* eventually(self.doNextCall) *)
Inductive event := Queued (c : nat) | Rejected (c : nat) | Entered (c : nat) | Failed (c : nat).

(* ---- the Deferred network of one delivery that carries third-party references.
   nunref   ArgumentUnslicer.num_unreferenceable_children
   has_all  ArgumentUnslicer._all_children_are_referenceable_d exists (created by receiveClose when nunref <> 0)
   r1/f1    AsyncAND of the arguments ([all-children-referenceable] ++ the gifts' ready_deferreds): remaining, _fired
   r2/f2    AsyncAND of the call (CallUnslicer._ready_deferreds = [the arguments' AsyncAND])
   out      how the delivery's ready_deferred fired (Some true: callback, Some false: errback), None while it has not
   left     third-party references not yet resolved or failed
   and_cb, update_child, args_close_has_all, args_close_dl_len, call_close_has_and, and_init are generated from
   util.py AsyncAND / call.py ArgumentUnslicer, CallUnslicer on every run. *)
Record gnet := gmk { g_nunref : Z; g_has_all : bool; g_r1 : Z; g_f1 : bool; g_r2 : Z; g_f2 : bool;
                     g_out : option bool; g_left : nat }.

Definition and_st := (Z * bool)%type.

(* one component Deferred of an AsyncAND fires; `fire` = what the AsyncAND itself has fired so far in this chain *)
Definition and_apply (st : and_st) (fire : option bool) (succeeded : bool) : and_st * option bool :=
  match and_cb (fst st) (snd st) succeeded with
  | (r, f, o) => ((r, f), match fire with Some x => Some x | None => o end)
  end.

Definition and_feed (st : and_st * option bool) (r : bool) : and_st * option bool := and_apply (fst st) (snd st) r.

(* ArgumentUnslicer.receiveClose then CallUnslicer.receiveClose for a call of which the third-party references with the
   results `pre` have ALREADY resolved / failed while the call was being received, and m are still unresolved.  Every gift
   contributed one ready_deferred; only the unresolved ones still count in num_unreferenceable_children (updateChild of an
   early one ran before _all_children_are_referenceable_d existed: no effect besides the decrement).  AsyncAND.__init__
   runs _cbDeferred at once for every component that has already fired; if that fires the arguments' AsyncAND, the
   call's AsyncAND (built next, over that one component) fires at once too. *)
Definition gnet_close (pre : list bool) (m : nat) : gnet :=
  let nun := Z.of_nat m in
  let a1 := fold_left and_feed pre (and_init (args_close_dl_len nun (Z.of_nat (List.length pre + m))), None) in
  let a2 : and_st * option bool :=
      match snd a1 with Some r => and_apply (and_init 1%Z) None r | None => (and_init 1%Z, None) end in
  gmk nun (args_close_has_all nun) (fst (fst a1)) (snd (fst a1)) (fst (fst a2)) (snd (fst a2)) (snd a2) m.

Definition gnet_init (n : nat) : gnet := gnet_close [] n.

(* TheirReferenceUnslicer: Tub.getReference fired.  _ready: obj_deferred.callback (-> ArgumentUnslicer.updateChild, which
   may fire _all_children_are_referenceable_d -> the arguments' AsyncAND), then ready_deferred.callback (-> the arguments'
   AsyncAND); _failed: obj_deferred.callback(placeholder) likewise, then ready_deferred.errback.  When the arguments'
   AsyncAND fires, the call's AsyncAND gets that outcome, and when that one fires the delivery's ready_deferred does. *)
Definition gift_fire (ok : bool) (g : gnet) : gnet :=
  match update_child (g_nunref g) (g_has_all g) with
  | (nun, fire_all) =>
    let s0 : and_st * option bool := ((g_r1 g, g_f1 g), None) in
    let s1 := if fire_all then and_apply (fst s0) (snd s0) true else s0 in
    let s1 := and_apply (fst s1) (snd s1) ok in
    let s2 : and_st * option bool :=
        match snd s1 with Some r => and_apply (g_r2 g, g_f2 g) None r | None => ((g_r2 g, g_f2 g), None) end in
    gmk nun (g_has_all g) (fst (fst s1)) (snd (fst s1)) (fst (fst s2)) (snd (fst s2))
        (match g_out g with Some x => Some x | None => snd s2 end) (pred (g_left g))
  end.

Fixpoint gifts_run (rs : list bool) (g : gnet) : gnet :=
  match rs with [] => g | r :: rest => gifts_run rest (gift_fire r g) end.

(* state of the delivery's ready_deferred: fired, failed, or still depending on the network g *)
Inductive rdy := Ready | Pending (g : gnet) | Broken.

Record state := mk {
  next_id : nat;                  (* number of calls issued so far = id of the next one *)
  sendq : list call;
  cur : option (call * nat);      (* call being serialized, number of Deferreds it will still wait for (>= 1) *)
  wire : list call;
  inq : list (call * rdy);
  waiting : list (call * gnet);
  evq : list thunk;
  trace : list event;             (* newest first *)
  lost : bool;                    (* the receiver's Broker.disconnected (Broker.finish has run) *)
  dropped : list call;            (* deliveries that were queued when the connection was lost: they never run *)
  early : list (nat * bool);      (* third-party references that resolved / failed while their call was still being received *)
  cut : option nat                (* the SENDER has lost the connection: Some k = only the first k calls of `wire` are really in
                                     flight; what is serialized afterwards is written to a dead transport and stays there *)
}.

Definition init : state := mk 0 [] None [] [] [] [] [] false [] [] None.

Definition is_none {A} (o : option A) : bool := match o with None => true | Some _ => false end.
Definition is_nil {A} (l : list A) : bool := match l with [] => true | _ => false end.

(* Banana.produce with only the RootSlicer on the stack: RootSlicer.__next__ dequeues one object at a time;
   an object whose slicers never yield a Deferred is written out completely *)
Fixpoint pump (fuel : nat) (s : state) : state :=
  match fuel with
  | 0 => s
  | S f =>
    match cur s with
    | Some _ => s
    | None =>
      match q_take sendq_pop (sendq s) with
      | None => s
      | Some (c, rest) =>
        match stalls c with
        | 0 => pump f (mk (next_id s) rest None (wire s ++ [c]) (inq s) (waiting s) (evq s) (trace s) (lost s) (dropped s) (early s) (cut s))
        | S _ => mk (next_id s) rest (Some (c, stalls c)) (wire s) (inq s) (waiting s) (evq s) (trace s) (lost s) (dropped s) (early s) (cut s)
        end
      end
    end
  end.

(* RootSlicer.send: idle = stack holds only the root and the queue is empty; enqueue; wake up produce() if idle *)
Definition issue (st : nat) (f : fate) (s : state) : state :=
  let c := {| cid := next_id s; stalls := st; cfate := f |} in
  let q := q_put sendq_push c (sendq s) in
  let idle := is_none (cur s) && is_nil (if send_idle_before_enqueue then sendq s else q) in
  let s1 := mk (S (next_id s)) q (cur s) (wire s) (inq s) (waiting s) (evq s) (trace s) (lost s) (dropped s) (early s) (cut s) in
  if idle then pump (S (List.length q)) s1 else s1.

(* the Deferred on which produce() is paused fires *)
Definition release (s : state) : state :=
  match cur s with
  | None => s
  | Some (c, S (S m)) => mk (next_id s) (sendq s) (Some (c, S m)) (wire s) (inq s) (waiting s) (evq s) (trace s) (lost s) (dropped s) (early s) (cut s)
  | Some (c, _) =>
    pump (S (List.length (sendq s)))
         (mk (next_id s) (sendq s) None (wire s ++ [c]) (inq s) (waiting s) (evq s) (trace s) (lost s) (dropped s) (early s) (cut s))
  end.

(* the last byte of the oldest serialized call reaches the receiver: CallUnslicer.receiveClose ->
   PBRootUnslicer.receiveChild -> Broker.scheduleCall *)
Definition early_of (k : nat) (e : list (nat * bool)) : list bool := map snd (filter (fun x => fst x =? k) e).

Definition rdy_on_arrival (c : call) (e : list (nat * bool)) : rdy :=
  match cfate c with
  | FGift (S n) =>
    let pre := firstn (S n) (early_of (cid c) e) in
    let g := gnet_close pre (S n - List.length pre) in
    match g_out g with Some true => Ready | Some false => Broken | None => Pending g end
  | _ => Ready
  end.

Definition in_flight (s : state) : bool := match cut s with Some 0 => false | _ => true end.
Definition cut_pred (s : state) : option nat := match cut s with Some k => Some (pred k) | None => None end.

Definition deliver (s : state) : state :=
  if lost s then s else       (* nothing reaches a Broker after its connectionLost *)
  if negb (in_flight s) then s else     (* the sender is gone and everything it had really sent has arrived *)
  match wire s with
  | [] => s
  | c :: w =>
    match cfate c with
    | FRejectEarly => mk (next_id s) (sendq s) (cur s) w (inq s) (waiting s) (evq s) (Rejected (cid c) :: trace s) (lost s) (dropped s) (early s) (cut_pred s)
    | f => mk (next_id s) (sendq s) (cur s) w
              (q_put inq_push (c, rdy_on_arrival c (early s)) (inq s))
              (waiting s) (q_put evq_push TDoNext (evq s)) (Queued (cid c) :: trace s) (lost s) (dropped s) (early s) (cut_pred s)
    end
  end.

Definition is_late (c : call) : bool := match cfate c with FRejectLate => true | _ => false end.

(* ready_deferred fired: _ready re-arms doNextCall, then (same callback chain) _doCall checks the
   arguments and gives control to the method, or the failure goes to callFailed *)
Definition finish_call (c : call) (ok : bool) (s : state) : state :=
  mk (next_id s) (sendq s) (cur s) (wire s) (inq s) (waiting s) (q_put evq_push TDoNext (evq s))
     ((if ok && negb (is_late c) then Entered (cid c) else Failed (cid c)) :: trace s) (lost s) (dropped s) (early s) (cut s).

Definition blocked (s : state) : bool :=
  match head_of_line with HolBlocking => negb (is_nil (waiting s)) | HolNone => false end.

Definition do_next (s : state) : state :=
  if checks_disconnected && lost s then s else      (* `if self.disconnected: return` *)
  if blocked s then s else
  match q_take inq_pop (inq s) with
  | None => s
  | Some ((c, r), rest) =>
    let s1 := mk (next_id s) (sendq s) (cur s) (wire s) rest (waiting s) (evq s) (trace s) (lost s) (dropped s) (early s) (cut s) in
    match r with
    | Ready => finish_call c true s1
    | Broken => finish_call c false s1
    | Pending g => mk (next_id s) (sendq s) (cur s) (wire s) rest (waiting s ++ [(c, g)]) (evq s) (trace s) (lost s) (dropped s) (early s) (cut s)
    end
  end.

(* one third-party reference of a delivery resolves: its network takes a step; when the network fires, so does the
   delivery's ready_deferred *)
Definition step_rdy (ok : bool) (r : rdy) : rdy :=
  match r with
  | Pending g =>
    let g' := gift_fire ok g in
    match g_out g' with Some true => Ready | Some false => Broken | None => Pending g' end
  | r => r
  end.

(* one third-party reference of call k resolves (ok) or cannot be resolved.  The delivery is either the one popped by
   doNextCall (waiting): when its ready_deferred fires, _ready re-arms doNextCall and _doCall / callFailed run; or it is
   still queued: then only its ready_deferred changes.  After Broker.finish the acknowledgement that
   TheirReferenceUnslicer.ackGift sends through broker.remote_broker (None by then) raises, so a gift that resolves after
   the loss counts as failed (ack_after_loss_fails, read from the source) *)
Definition gift_ready_gen (acked : bool) (k : nat) (ok : bool) (s : state) : state :=
  let ok' := ok && negb (lost s && ((acked && ack_after_loss_fails) || docall_checks_disconnected)) in
  match find (fun e => cid (fst e) =? k) (waiting s) with
  | Some (c, g) =>
    let g' := gift_fire ok' g in
    match g_out g' with
    | Some r =>
      finish_call c r (mk (next_id s) (sendq s) (cur s) (wire s) (inq s)
                          (filter (fun e => negb (cid (fst e) =? k)) (waiting s)) (evq s) (trace s) (lost s) (dropped s) (early s) (cut s))
    | None =>
      mk (next_id s) (sendq s) (cur s) (wire s) (inq s)
         (map (fun e => if cid (fst e) =? k then (fst e, g') else e) (waiting s)) (evq s) (trace s) (lost s) (dropped s) (early s) (cut s)
    end
  | None =>
    mk (next_id s) (sendq s) (cur s) (wire s)
       (map (fun e => if cid (fst e) =? k then (fst e, step_rdy ok' (snd e)) else e) (inq s))
       (waiting s) (evq s) (trace s) (lost s) (dropped s) (early s) (cut s)
  end.

(* acked = true: the reference came with a non-zero giftID, as every honest sender's does (Broker.makeGift counts from 1);
   acked = false: the PEER chose giftID 0, ackGift sends nothing and therefore cannot fail after a loss.
   docall_checks_disconnected (read from Broker._doCall): the method is not given control on a finished Broker anyway *)
Definition gift_ready := gift_ready_gen true.

(* a third-party reference of call k resolves / fails while k is still being received (its bytes are on the wire) *)
Definition early_gift (k : nat) (ok : bool) (s : state) : state :=
  if existsb (fun c => cid c =? k) (wire s)
  then mk (next_id s) (sendq s) (cur s) (wire s) (inq s) (waiting s) (evq s) (trace s) (lost s) (dropped s) (early s ++ [(k, ok)]) (cut s)
  else s.

(* the SENDER's Broker gets connectionLost: its RootSlicer keeps its queue and goes on serializing (Banana.connectionLost does
   not touch it), but the transport is dead -- only what was completely written before can still arrive *)
Definition sender_lost (s : state) : state :=
  match cut s with
  | Some _ => s
  | None => mk (next_id s) (sendq s) (cur s) (wire s) (inq s) (waiting s) (evq s) (trace s) (lost s) (dropped s) (early s)
               (Some (List.length (wire s)))
  end.

(* Broker.connectionLost -> Broker.finish on the receiving side: disconnected = True; the queued deliveries are forgotten *)
Definition disconnect (s : state) : state :=
  if lost s then s else
  if finish_clears_inq
  then mk (next_id s) (sendq s) (cur s) (wire s) [] (waiting s) (evq s) (trace s) true (dropped s ++ map fst (inq s)) (early s) (cut s)
  else mk (next_id s) (sendq s) (cur s) (wire s) (inq s) (waiting s) (evq s) (trace s) true (dropped s) (early s) (cut s).

Definition run_thunk (s : state) (t : thunk) : state := match t with TDoNext => do_next s end.

(* _SimpleCallQueue._turn: take the current batch, run it *)
Definition turn (s : state) : state :=
  let batch := match evq_iter with IterForward => evq s | IterReverse => rev (evq s) end in
  fold_left run_thunk batch (mk (next_id s) (sendq s) (cur s) (wire s) (inq s) (waiting s) [] (trace s) (lost s) (dropped s) (early s) (cut s)).

Inductive op := Issue (stalls : nat) (f : fate) | StallRelease | Deliver | GiftReady (k : nat) (ok : bool) | Turn | Disconnect
  | EarlyGift (k : nat) (ok : bool) | SenderLost | GiftReady0 (k : nat) (ok : bool).

Definition step (s : state) (o : op) : state :=
  match o with
  | Issue st f => issue st f s
  | StallRelease => release s
  | Deliver => deliver s
  | GiftReady k ok => gift_ready k ok s
  | Turn => turn s
  | Disconnect => disconnect s
  | EarlyGift k ok => early_gift k ok s
  | SenderLost => sender_lost s
  | GiftReady0 k ok => gift_ready_gen false k ok s
  end.

Definition run (ops : list op) : state := fold_left step ops init.

(* ---- observations *)
Fixpoint entered_of (tr : list event) : list nat :=
  match tr with
  | [] => []
  | Entered c :: r => entered_of r ++ [c]
  | _ :: r => entered_of r
  end.

Definition entered (s : state) : list nat := entered_of (trace s).
Definition history (s : state) : list event := rev (trace s).      (* oldest first *)
Definition issued (s : state) : list nat := seq 0 (next_id s).     (* call k is the k-th one issued *)

Definition ids (l : list call) : list nat := map cid l.
Definition cur_ids (s : state) : list nat := match cur s with Some (c, _) => [cid c] | None => [] end.
Definition upstream (s : state) : list nat := ids (wire s) ++ cur_ids s ++ ids (sendq s).
Definition inq_ids (s : state) : list nat := ids (map fst (inq s)).
Definition wait_ids (s : state) : list nat := ids (map fst (waiting s)).
Definition pipeline (s : state) : list nat := wait_ids s ++ inq_ids s ++ upstream s.

Definition count_issues (ops : list op) : nat :=
  List.length (filter (fun o => match o with Issue _ _ => true | _ => false end) ops).

(* what the correspondence compares with the real objects after every script step *)
Definition gnet_obs (g : gnet) := ((g_nunref g, g_r2 g), (g_f2 g, g_left g)).
Definition pending_obs (e : call * rdy) := match snd e with Pending g => [(cid (fst e), gnet_obs g)] | _ => [] end.
Definition observe (s : state) :=
  (ids (sendq s), cur_ids s, ids (wire s), (inq_ids s, negb (is_nil (waiting s)), entered s),
   (lost s, map (fun e => (cid (fst e), gnet_obs (snd e))) (waiting s) ++ flat_map pending_obs (inq s))).

Fixpoint observe_steps (s : state) (steps : list (list op)) :=
  match steps with
  | [] => []
  | ops :: r => let s' := fold_left step ops s in observe s' :: observe_steps s' r
  end.

(* ---- foolscap.eventual's queue as a channel.  Two users depend on nothing but this queue for their order:
   LocalReferenceable.callRemote (fireEventually().addCallback(call)) and broker.LoopbackTransport, the pair a Tub
   uses to talk to itself, whose write() is eventually(peer.dataReceived, bytes) -- there the byte stream of the
   connection shares the queue with every other eventual-send of the process.
     LData n   the n-th item written (a local call / a chunk of bytes)
     LNop      an unrelated callable
     LBoom     an unrelated callable that raises (log.err)
     LSpawn    an unrelated callable that, when it runs, writes the next item (e.g. issues a call)
   What a raising callable does to the rest of the batch is read from _turn (evq_isolates_exceptions). *)
Inductive lthunk := LData (n : nat) | LNop | LBoom | LSpawn.
Record lstate := lmk { l_next : nat; l_evq : list lthunk; l_entered : list nat }.
Inductive lop := LIssue | LNoise (raises : bool) | LSpawnOp | LTurn.

Fixpoint run_batch (batch : list lthunk) (s : lstate) : lstate :=
  match batch with
  | [] => s
  | t :: rest =>
    match t with
    | LData n => run_batch rest (lmk (l_next s) (l_evq s) (l_entered s ++ [n]))
    | LNop => run_batch rest s
    | LSpawn => run_batch rest (lmk (S (l_next s)) (q_put evq_push (LData (l_next s)) (l_evq s)) (l_entered s))
    | LBoom =>
      if evq_isolates_exceptions then run_batch rest s
      else (* the rest of the batch is queued again, behind what was queued during this turn *)
        lmk (l_next s) (fold_left (fun q t' => q_put evq_push t' q) rest (l_evq s)) (l_entered s)
    end
  end.

Definition lstep (s : lstate) (o : lop) : lstate :=
  match o with
  | LIssue => lmk (S (l_next s)) (q_put evq_push (LData (l_next s)) (l_evq s)) (l_entered s)
  | LNoise b => lmk (l_next s) (q_put evq_push (if b then LBoom else LNop) (l_evq s)) (l_entered s)
  | LSpawnOp => lmk (l_next s) (q_put evq_push LSpawn (l_evq s)) (l_entered s)
  | LTurn => run_batch (match evq_iter with IterForward => l_evq s | IterReverse => rev (l_evq s) end)
                       (lmk (l_next s) [] (l_entered s))
  end.
Definition lrun (ops : list lop) : lstate := fold_left lstep ops (lmk 0 [] []).

Fixpoint datas (q : list lthunk) : list nat :=
  match q with [] => [] | LData n :: r => n :: datas r | _ :: r => datas r end.

(* ---- calls issued from INSIDE the serialization of a call (re-entrant send).
   Application code gets control in the middle of Banana.produce -- Copyable.getStateToCopy, the body of a streaming slicer before
   its first token, between two chunks, right after a pause has ended, as it finishes -- and may invoke callRemote there.
   RootSlicer.send then finds a slicer stack deeper than the root (idle = false whatever the queue holds): the new call is only
   put on the queue; the producer that is already running picks it up when its turn comes. *)
Definition enqueue (i : nat * fate) (s : state) : state :=
  mk (S (next_id s)) (q_put sendq_push {| cid := next_id s; stalls := fst i; cfate := snd i |} (sendq s)) (cur s) (wire s) (inq s)
     (waiting s) (evq s) (trace s) (lost s) (dropped s) (early s) (cut s).

Definition issue1 (s : state) (i : nat * fate) : state := issue (fst i) (snd i) s.
Definition enqueue1 (s : state) (i : nat * fate) : state := enqueue i s.

Definition with_cur (p : option (call * nat)) (s : state) : state :=
  mk (next_id s) (sendq s) p (wire s) (inq s) (waiting s) (evq s) (trace s) (lost s) (dropped s) (early s) (cut s).
Definition wrote (c : call) (s : state) : state :=
  mk (next_id s) (sendq s) (cur s) (wire s ++ [c]) (inq s) (waiting s) (evq s) (trace s) (lost s) (dropped s) (early s) (cut s).

(* ---- HOOKS: what the application code that a call's slicers run does, as a table.  An entry ((k, left), inner) says: when the
   serialization of call k reaches the control point at which it still has `left` Deferreds to wait for -- left = stalls k: it has
   just been taken off the queue (Copyable.getStateToCopy, the body of a streaming slicer before its first token / before its
   first pause); stalls k > left > 0: right after a pause has ended; left = 0: as it finishes -- the code issues `inner`, in that
   order.  Each control point of a call is passed once; the entry is used up there.  The hooks of a call that was only QUEUED
   (busy sender) therefore run later, out of whatever wakes the producer up: pump_h. *)
Definition hook := ((nat * nat) * list (nat * fate))%type.
Definition h_is (k left : nat) (h : hook) : bool := (fst (fst h) =? k) && (snd (fst h) =? left).
Definition h_find (k left : nat) (H : list hook) : list (nat * fate) :=
  match find (h_is k left) H with Some h => snd h | None => [] end.
Definition h_drop (k left : nat) (H : list hook) : list hook := filter (fun h => negb (h_is k left h)) H.
Definition h_size (H : list hook) : nat := fold_right (fun h n => List.length (snd h) + n) 0 H.

(* Banana.produce with hooks: like pump, but the slicers of the call that is taken off the queue run application code first
   (RootSlicer.send sees a stack deeper than the root: only enqueues).  Returns the state, the hooks not yet used, and the calls
   that were issued from inside, in the order issued.  Every round takes one call off the queue and uses up the hooks that put
   calls on it, so S (queue + calls in the table) rounds always suffice (nfuel). *)
Fixpoint pump_h (fuel : nat) (H : list hook) (s : state) {struct fuel} : state * list hook * list (nat * fate) :=
  match fuel with
  | 0 => (s, H, [])
  | S f =>
    match cur s with
    | Some _ => (s, H, [])
    | None =>
      match q_take sendq_pop (sendq s) with
      | None => (s, H, [])
      | Some (c, rest) =>
        let inner := h_find (cid c) (stalls c) H in
        let H' := h_drop (cid c) (stalls c) H in
        let s' := fold_left enqueue1 inner
                    (mk (next_id s) rest None (wire s) (inq s) (waiting s) (evq s) (trace s) (lost s) (dropped s) (early s) (cut s)) in
        match stalls c with
        | 0 => match pump_h f H' (wrote c s') with (s2, H2, iss) => (s2, H2, inner ++ iss) end
        | S _ => (with_cur (Some (c, stalls c)) s', H', inner)
        end
      end
    end
  end.

Definition nfuel (H : list hook) (s : state) : nat := S (List.length (sendq s) + h_size H).

(* callRemote from ordinary code.  Idle sender: the producer is woken inside this very send() and runs the slicers, hooks
   included, before send() returns.  Busy sender: the call is only queued -- at the END of the queue, like any other --; its hooks
   run when the producer gets to it. *)
Definition issue_h (st : nat) (f : fate) (H : list hook) (s : state) : state * list hook * list (nat * fate) :=
  let c := {| cid := next_id s; stalls := st; cfate := f |} in
  let q := q_put sendq_push c (sendq s) in
  let idle := is_none (cur s) && is_nil (if send_idle_before_enqueue then sendq s else q) in
  let s1 := mk (S (next_id s)) q (cur s) (wire s) (inq s) (waiting s) (evq s) (trace s) (lost s) (dropped s) (early s) (cut s) in
  if idle then pump_h (nfuel H s1) H s1 else (s1, H, []).

(* the Deferred on which produce() is paused fires; the code that runs next inside the slicer is the call's next control point;
   then the call pauses again, or it is written out and the producer goes on with the queue (hooks of the calls it finds there) *)
Definition release_h (H : list hook) (s : state) : state * list hook * list (nat * fate) :=
  match cur s with
  | None => (s, H, [])
  | Some (c, S (S m)) =>
    let inner := h_find (cid c) (S m) H in
    (fold_left enqueue1 inner (with_cur (Some (c, S m)) s), h_drop (cid c) (S m) H, inner)
  | Some (c, _) =>
    let inner := h_find (cid c) 0 H in
    let H' := h_drop (cid c) 0 H in
    let s' := wrote c (with_cur None (fold_left enqueue1 inner s)) in
    match pump_h (nfuel H' s') H' s' with (s2, H2, iss) => (s2, H2, inner ++ iss) end
  end.

Definition issue_ops (inner : list (nat * fate)) : list op := map (fun i => Issue (fst i) (snd i)) inner.

(* a history in which only the calls made by ORDINARY code are ops; those made from inside a serialization come out of the hook
   table when their moment comes.  n_flat is the same history written flat: every op, followed by the Issue ops of the calls that
   were issued from inside while it ran *)
Record nstate := nmk { n_state : state; n_hooks : list hook; n_flat : list op }.

Definition nstep (n : nstate) (o : op) : nstate :=
  match o with
  | Issue st f =>
    match issue_h st f (n_hooks n) (n_state n) with (s, H, iss) => nmk s H (n_flat n ++ o :: issue_ops iss) end
  | StallRelease =>
    match release_h (n_hooks n) (n_state n) with (s, H, iss) => nmk s H (n_flat n ++ o :: issue_ops iss) end
  | _ => nmk (step (n_state n) o) (n_hooks n) (n_flat n ++ [o])
  end.

Definition ninit (H : list hook) : nstate := nmk init H [].
Definition nrun (H : list hook) (ops : list op) : nstate := fold_left nstep ops (ninit H).

(* for the correspondence: the observation after every script step, and the number of calls still in the table at the end *)
Fixpoint observe_steps_h (n : nstate) (steps : list (list op)) :=
  match steps with
  | [] => []
  | ops :: r => let n' := fold_left nstep ops n in observe (n_state n') :: observe_steps_h n' r
  end.

Definition hooks_left_after (H : list hook) (steps : list (list op)) : nat := h_size (n_hooks (nrun H (concat steps))).
