(* C01: the read-back `canon` inverts the denotation: for every well-formed term t the graph it denotes
   (heap_of n t, val_of n t) canonicalises back to t.  Used to state "the receiver's graph is isomorphic to the
   sender's" as equality of canonical terms (SendHeapProofs.v). *)
From Coq Require Import ZArith List String Bool Lia.
Import ListNotations.
Require Import Verif.lib.PyLite Verif.gen.BananaGen Verif.gen.SlicersGen Verif.lib.Token Verif.lib.TokenProofs
        Verif.lib.Obj Verif.lib.ObjProofs.
Local Open Scope Z_scope.

(* every reference points below the position (OPEN number) at which it is emitted *)
Fixpoint refs_lt (n : Z) (t : obj) : bool :=
  match t with
  | ORef k => k <? n
  | OCont _ xs => (fix go (m : Z) (l : list obj) : bool := match l with [] => true | x :: r => refs_lt m x && go (m + opens x) r end) (n + 1) xs
  | _ => true
  end.
Definition refs_lt_list := fix go (m : Z) (l : list obj) : bool := match l with [] => true | x :: r => refs_lt m x && go (m + opens x) r end.

Definition all_lt (hi : Z) (l : list Z) : Prop := forall k, mem k l = true -> k < hi.

Definition PU (t : obj) : Prop :=
  forall s sc vis imm n vis', wf_gen s sc vis imm n t = Some vis' -> all_lt n vis ->
    refs_lt n t = true /\ all_lt (n + opens t) vis'.

Lemma all_lt_mono a b l : a <= b -> all_lt a l -> all_lt b l.
Proof. intros L A k H. specialize (A k H). lia. Qed.

Lemma refs_lt_list_wf xs : Forall PU xs -> forall s sc vis imm n vis',
  wf_list_gen s sc imm vis n xs = Some vis' -> all_lt n vis -> refs_lt_list n xs = true /\ all_lt (n + opens_list xs) vis'.
Proof.
  induction 1 as [|x r Hx _ IH]; intros s sc vis imm n vis' W A.
  - cbn in W. inversion W; subst. split; [reflexivity|]. cbn [opens_list]. rewrite Z.add_0_r. exact A.
  - rewrite wf_list_cons in W. destruct (wf_gen s sc vis imm n x) as [v1|] eqn:W1; [|discriminate].
    destruct (Hx s sc vis imm n v1 W1 A) as [R1 A1].
    destruct (IH s sc v1 imm (n + opens x) vis' W A1) as [R2 A2].
    split; [cbn [refs_lt_list]; rewrite R1; exact R2|].
    change (opens_list (x :: r)) with (opens x + opens_list r). rewrite Z.add_assoc. exact A2.
Qed.

Theorem refs_below : forall t, PU t.
Proof.
  apply obj_ind'.
  - intros t L s sc vis imm n vis' W A. pose proof (opens_nonneg t) as ON.
    destruct t; try discriminate; try (cbn in W; inversion W; subst; split; [reflexivity|eapply all_lt_mono; [|exact A]; lia]).
    cbn [wf_gen] in W. destruct (sc && mem k vis) eqn:E; [|discriminate]. inversion W; subst.
    apply andb_true_iff in E as [_ E]. split; [cbn; apply Z.ltb_lt; apply A; exact E|eapply all_lt_mono; [|exact A]; lia].
  - intros c xs F s sc vis imm n vis' W A. rewrite wf_at_cont in W. cbv zeta in W.
    match type of W with (if ?b then _ else _) = _ => destruct b; [|discriminate] end.
    match type of W with match ?w with _ => _ end = _ => destruct w as [v|] eqn:WL; [|discriminate] end.
    inversion W; subst vis'; clear W.
    assert (A1 : all_lt (n + 1) (if (sc || is_scope c) && tracked c then n :: vis else vis)).
    { destruct ((sc || is_scope c) && tracked c).
      - intros k H. cbn [mem] in H. apply orb_true_iff in H as [H|H]; [apply Z.eqb_eq in H; lia|specialize (A k H); lia].
      - eapply all_lt_mono; [|exact A]. lia. }
    destruct (refs_lt_list_wf xs F s _ _ _ (n + 1) v WL A1) as [R A2].
    rewrite opens_cont. split; [exact R|].
    replace (n + (1 + opens_list xs)) with (n + 1 + opens_list xs) by lia.
    destruct (is_scope c); [|exact A2].
    eapply all_lt_mono; [|exact A]. pose proof (opens_nonneg (OCont c xs)) as ON. rewrite opens_cont in ON. lia.
Qed.

(* ------------------------------------------------------------------ where the nodes of a term sit in its heap *)
Lemma find_app k a b : find k (a ++ b) = match find k a with Some nd => Some nd | None => find k b end.
Proof. induction a as [|[i nd] a IH]; cbn [app find]; [reflexivity|]. destruct (i =? k); [reflexivity|exact IH]. Qed.

Definition PK (t : obj) : Prop := forall n k nd, find k (heap_of n t) = Some nd -> n <= k < n + opens t.

Lemma keys_list xs : Forall PK xs -> forall n k nd, find k (heap_list n xs) = Some nd -> n <= k < n + opens_list xs.
Proof.
  induction 1 as [|x r Hx _ IH]; intros n k nd H; [discriminate|].
  change (heap_list n (x :: r)) with (heap_of n x ++ heap_list (n + opens x) r) in H. rewrite find_app in H.
  change (opens_list (x :: r)) with (opens x + opens_list r).
  pose proof (opens_nonneg x) as O1.
  assert (O2 : 0 <= opens_list r). { clear. induction r as [|y r IH]; cbn; [lia|]. pose proof (opens_nonneg y). lia. }
  destruct (find k (heap_of n x)) as [nd1|] eqn:E.
  - specialize (Hx n k nd1 E). lia.
  - specialize (IH _ _ _ H). lia.
Qed.

Theorem keys_range : forall t, PK t.
Proof.
  apply obj_ind'.
  - intros t L n k nd H. destruct t; try discriminate; cbn in H; discriminate.
  - intros c xs F n k nd H. rewrite heap_of_cont, find_app in H. rewrite opens_cont.
    assert (O2 : 0 <= opens_list xs). { clear. induction xs as [|y r IH]; cbn; [lia|]. pose proof (opens_nonneg y). lia. }
    destruct (find k (heap_list (n + 1) xs)) as [nd1|] eqn:E.
    + pose proof (keys_list xs F _ _ _ E). lia.
    + cbn [find] in H. destruct (n =? k) eqn:Q; [|discriminate]. apply Z.eqb_eq in Q. lia.
Qed.

Definition sub_heap (a H : heap) : Prop := forall k nd, find k a = Some nd -> find k H = Some nd.

Lemma Forall_PK xs : Forall PK xs.
Proof. apply Forall_forall. intros x _. apply keys_range. Qed.

Lemma opens_list_nonneg xs : 0 <= opens_list xs.
Proof. induction xs as [|y r IH]; cbn; [lia|]. pose proof (opens_nonneg y). lia. Qed.

(* ------------------------------------------------------------------ canon inverts the denotation *)
Definition PC (t : obj) : Prop :=
  forall H n fuel, refs_lt n t = true -> sub_heap (heap_of n t) H -> (size t <= fuel)%nat ->
    canon fuel H n (val_of n t) = Some (t, n + opens t).

Lemma canon_list_inv xs : Forall PC xs -> forall H n fuel, refs_lt_list n xs = true -> sub_heap (heap_list n xs) H ->
  (size_list xs <= fuel)%nat -> canon_list fuel H n (vals_list n xs) = Some (xs, n + opens_list xs).
Proof.
  induction 1 as [|x r Hx _ IH]; intros H n fuel R S F.
  - cbn. rewrite Z.add_0_r. reflexivity.
  - cbn [refs_lt_list] in R. apply andb_true_iff in R as [R1 R2].
    change (size_list (x :: r)) with (size x + size_list r)%nat in F.
    change (vals_list n (x :: r)) with (val_of n x :: vals_list (n + opens x) r). cbn [canon_list].
    change (heap_list n (x :: r)) with (heap_of n x ++ heap_list (n + opens x) r) in S.
    assert (S1 : sub_heap (heap_of n x) H).
    { intros k nd E. apply S. rewrite find_app, E. reflexivity. }
    assert (S2 : sub_heap (heap_list (n + opens x) r) H).
    { intros k nd E. apply S. rewrite find_app. destruct (find k (heap_of n x)) as [nd1|] eqn:E1; [|exact E].
      pose proof (keys_range x n k nd1 E1). pose proof (keys_list r (Forall_PK r) _ _ _ E). lia. }
    rewrite (Hx H n fuel R1 S1 ltac:(lia)).
    fold (canon_list fuel H). rewrite (IH H (n + opens x) fuel R2 S2 ltac:(lia)).
    change (opens_list (x :: r)) with (opens x + opens_list r). rewrite Z.add_assoc. reflexivity.
Qed.

Theorem canon_inv : forall t, PC t.
Proof.
  apply obj_ind'.
  - intros t L H n fuel R S F. destruct fuel as [|fu]; [destruct t; cbn in F; lia|].
    destruct t; try discriminate; cbn [val_of canon opens]; rewrite ?Z.add_0_r; try reflexivity.
    + (* bool *) destruct (bool_toks) as [T1 T2]. destruct b; rewrite ?T1, ?T2; reflexivity.
    + (* ref *) cbn [refs_lt] in R. rewrite R. reflexivity.
  - intros c xs Fx H n fuel R S F. destruct fuel as [|fu]; [cbn in F; lia|].
    cbn [val_of canon]. rewrite Z.ltb_irrefl, Z.eqb_refl.
    assert (FN : find n H = Some {| n_kind := c; n_items := vals_list (n + 1) xs |}).
    { apply S. rewrite heap_of_cont, find_app.
      destruct (find n (heap_list (n + 1) xs)) as [nd1|] eqn:E.
      - pose proof (keys_list xs (Forall_PK xs) _ _ _ E). lia.
      - cbn [find]. rewrite Z.eqb_refl. reflexivity. }
    rewrite FN. cbn [n_items n_kind].
    assert (S1 : sub_heap (heap_list (n + 1) xs) H).
    { intros k nd E. apply S. rewrite heap_of_cont, find_app, E. reflexivity. }
    change (size (OCont c xs)) with (Datatypes.S (size_list xs)) in F.
    pose proof (canon_list_inv xs Fx H (n + 1) fu R S1 ltac:(lia)) as CL. unfold canon_list in CL. rewrite CL.
    rewrite opens_cont. f_equal. f_equal. lia.
Qed.

(* the property's "equal in value and type ... same sharing/cycle structure", as a statement about graphs: the graph
   the receiver builds reads back as the sender's canonical term *)
Theorem canon_inverts scoped n t : wf_obj_wide scoped n t = true ->
  canon (size t) (heap_of n t) n (val_of n t) = Some (t, n + opens t).
Proof.
  unfold wf_obj_wide, wf_wide. destruct (wf_gen false scoped [] [] n t) as [v|] eqn:W; [|discriminate]. intros _.
  apply canon_inv; [|intros k nd E; exact E|lia].
  apply (refs_below t false scoped [] [] n v W). intros k H. discriminate.
Qed.

Example ex_canon : let t := OTuple [OList [OTuple [ORef 0]; ORef 1]; OText [97]] in
  wf_obj_wide true 0 t = true /\ canon (size t) (heap_of 0 t) 0 (val_of 0 t) = Some (t, 6).
Proof. vm_compute. split; reflexivity. Qed.
