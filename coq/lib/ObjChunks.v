(* C01 x C07: the end-to-end statement "for every way of splitting the sender's bytes into packets the delivered graph
   is the sent graph".  The byte-level receiver is C07's generic tokenizer (lib/Recv.v: buffering, header cap, re-queueing
   of incomplete tokens) instantiated with handlers that hand every complete token to the layer above; its chunk
   independence is C07's theorem (RecvProofs.feed_all_is_run), reused, not re-proved.  New here: on a stream that the
   whole-string scanner `decode` reads cleanly, the incremental receiver emits exactly `decode`'s tokens. *)
From Coq Require Import ZArith List String Bool Lia.
Import ListNotations.
Require Import Verif.lib.PyLite Verif.gen.BananaGen Verif.gen.SlicersGen Verif.lib.Token Verif.lib.TokenProofs
        Verif.lib.Recv Verif.lib.RecvProofs Verif.lib.Obj Verif.lib.ObjProofs Verif.lib.ObjDefer Verif.lib.ObjDeferProofs.
Local Open Scope Z_scope.

(* the layer above the tokenizer: accept every body, deliver every complete token (Token.interp = handleData's per-type clauses) *)
Definition col_begin (c : unit) (ty hdr : Z) : bres unit token := BAccept.
Definition col_finish (c : unit) (ty hdr : Z) (body : list Z) : hres2 unit token :=
  match interp {| r_ty := ty; r_hdr := hdr; r_body := body |} with Some tk => HCont tt [tk] | None => HFatal [] end.
Definition col_nobody (c : unit) (ty hdr : Z) : hres2 unit token :=
  match body_kind ty with
  | NoBody => match interp {| r_ty := ty; r_hdr := hdr; r_body := [] |} with Some tk => HCont tt [tk] | None => HFatal [] end
  | _ => HFatal []
  end.

Definition cfeed_all := feed_all unit token col_begin col_finish col_nobody [] [] (fun _ => []).
Definition crun := Recv.run unit token col_begin col_finish col_nobody [] [] (fun _ => []).
Definition cloop := loop unit token col_begin col_finish col_nobody [] [] (fun _ => []).
Definition ctok_step := tok_step unit token col_begin col_finish col_nobody [] [] (fun _ => []).

(* the tokens the receiver hands upward when the bytes arrive as the packets cs *)
Definition tokens_of_chunks (cs : list (list Z)) : list token := snd (cfeed_all (Recv.init tt) cs).

Definition no_err (t : token) : bool := match t with TError _ => false | _ => true end.

Lemma tok_step_scan bs t rest tk :
  scan_token bs = STok t rest -> interp t = Some tk -> no_err tk = true -> ctok_step tt bs = TCont unit token tt [tk] rest.
Proof.
  unfold scan_token, ctok_step, tok_step. destruct (scan_header 64 [] bs) as [| |ds ty rest0]; try discriminate.
  set (hdr := le128 ds). destruct (body_len ty hdr) as [n|] eqn:BL; [|discriminate].
  destruct (Z.of_nat (List.length rest0) <? n) eqn:LT; [discriminate|]. intros H; inversion H; subst t rest; clear H.
  intros I NE. unfold lenZ.
  unfold body_len, body_kind in BL. unfold has_body, blen, col_begin, col_finish, col_nobody, body_kind.
  unfold interp in I. cbn [r_ty r_hdr r_body] in I.
  destruct (ty =? tok_ERROR) eqn:E0.
  { apply Z.eqb_eq in E0. subst ty. cbn in I. inversion I; subst tk. discriminate. }
  destruct (ty =? tok_STRING) eqn:E1.
  { apply Z.eqb_eq in E1. subst ty. cbn in BL, I |- *. inversion BL; subst n. rewrite LT. unfold interp. cbn. inversion I. reflexivity. }
  destruct (ty =? tok_LONGINT) eqn:E2.
  { apply Z.eqb_eq in E2. subst ty. cbn in BL, I |- *. inversion BL; subst n. rewrite LT. unfold interp. cbn. inversion I. reflexivity. }
  destruct (ty =? tok_LONGNEG) eqn:E3.
  { apply Z.eqb_eq in E3. subst ty. cbn in BL, I |- *. inversion BL; subst n. rewrite LT. unfold interp. cbn. inversion I. reflexivity. }
  destruct (ty =? tok_FLOAT) eqn:E4.
  { apply Z.eqb_eq in E4. subst ty. cbn in BL, I |- *. inversion BL; subst n. rewrite LT. unfold interp. cbn. inversion I. reflexivity. }
  cbn [orb] in BL |- *.
  assert (N0 : n = 0 /\ ((ty =? tok_INT) || (ty =? tok_NEG) || (ty =? tok_VOCAB) || (ty =? tok_OPEN) || (ty =? tok_CLOSE)
          || (ty =? tok_ABORT) || (ty =? tok_PING) || (ty =? tok_PONG)) = true).
  { destruct ((ty =? tok_INT) || (ty =? tok_NEG) || (ty =? tok_VOCAB) || (ty =? tok_OPEN) || (ty =? tok_CLOSE)
          || (ty =? tok_ABORT) || (ty =? tok_PING) || (ty =? tok_PONG)); [inversion BL; split; reflexivity|discriminate]. }
  destruct N0 as [N0 NB]. subst n. rewrite NB. cbn [Z.to_nat firstn skipn] in *.
  unfold interp. cbn [r_ty r_hdr r_body]. rewrite ?E0, ?E1, ?E2, ?E3, ?E4. cbv iota. cbv iota in I. rewrite I. reflexivity.
Qed.

Lemma cloop_decode : forall fuel bs ts, decode_all fuel bs = (ts, EndClean) -> forallb no_err ts = true ->
  cloop fuel tt bs = (Recv.mk tt [] 0 false, ts).
Proof.
  induction fuel as [|f IH]; intros bs ts D NE; [discriminate|]. cbn [decode_all] in D. unfold cloop. cbn [loop]. fold cloop.
  destruct bs as [|b0 bs']; [inversion D; reflexivity|].
  destruct (scan_token (b0 :: bs')) as [| |t rest] eqn:S; try discriminate.
  destruct (interp t) as [tk|] eqn:I; [|discriminate].
  destruct (decode_all f rest) as [ts' e] eqn:D'. inversion D; subst ts e; clear D.
  cbn [forallb] in NE. apply andb_true_iff in NE as [N1 N2].
  fold ctok_step. rewrite (tok_step_scan _ _ _ _ S I N1). fold cloop. rewrite (IH _ _ D' N2). reflexivity.
Qed.

(* on a byte string that `decode` reads cleanly the incremental receiver, fed the whole string, emits decode's tokens *)
Lemma crun_decode bs ts : decode bs = (ts, EndClean) -> forallb no_err ts = true -> snd (crun tt bs) = ts.
Proof.
  intros D NE. unfold crun, Recv.run, feed. cbn [Recv.init Recv.mk r_dead r_skip r_buf r_ctx]. cbn [Z.ltb andb Z.to_nat skipn app].
  fold cloop. unfold decode in D. rewrite (cloop_decode _ _ _ D NE). reflexivity.
Qed.

(* ... and, by C07's chunk independence, the same tokens however the string is split into packets *)
Theorem chunks_decode cs ts : decode (List.concat cs) = (ts, EndClean) -> forallb no_err ts = true -> tokens_of_chunks cs = ts.
Proof.
  intros D NE. unfold tokens_of_chunks, cfeed_all. rewrite feed_all_is_run. apply (crun_decode _ _ D NE).
Qed.

Lemma slice_no_err : forall t n, forallb no_err (slice n t) = true.
Proof.
  apply (obj_ind' (fun t => forall n, forallb no_err (slice n t) = true)).
  - intros t L n. destruct t; try discriminate; reflexivity.
  - intros c xs F n. rewrite slice_cont. cbn [forallb no_err andb]. rewrite forallb_app. apply andb_true_iff. split.
    + unfold strs. induction (opentype_of c); [reflexivity|cbn; assumption].
    + rewrite forallb_app. apply andb_true_iff. split; [|reflexivity].
      generalize (n + 1). induction F as [|x r Hx _ IH]; intros m; [reflexivity|].
      rewrite slice_list_cons, forallb_app, Hx, IH. reflexivity.
Qed.

(* END TO END: object -> tokens -> bytes -> any packets -> tokens -> object *)
Theorem end_to_end_any_chunking scoped n t bs cs :
  wf_obj_wide scoped n t = true -> forallb wf_token (slice n t) = true -> encode_stream (slice n t) = Ok bs -> List.concat cs = bs ->
  unslice scoped n (tokens_of_chunks cs) = Some (heap_of n t, [val_of n t]).
Proof.
  intros W T E C. subst bs. rewrite (chunks_decode cs (slice n t)).
  - apply slice_unslice_wide. exact W.
  - apply stream_roundtrip; assumption.
  - apply slice_no_err.
Qed.

(* the same for the Deferred-level receiver and the wide guard (partial correctness, see ObjDeferProofs.deferred_sound) *)
Theorem end_to_end_any_chunking_deferred scoped n t bs cs r :
  wf_obj_wide scoped n t = true -> forallb wf_token (slice n t) = true -> encode_stream (slice n t) = Ok bs -> List.concat cs = bs ->
  dunslice scoped n (tokens_of_chunks cs) = Some r -> r = (heap_of n t, [val_of n t]).
Proof.
  intros W T E C. subst bs. rewrite (chunks_decode cs (slice n t)).
  - apply deferred_sound. exact W.
  - apply stream_roundtrip; assumption.
  - apply slice_no_err.
Qed.

(* non-vacuity: [1, "é", (2,)] with a self-reference, three different packetisations of its bytes *)
Example ex_chunks :
  let t := OList [OInt 1; OText [195; 169]; OTuple [OInt 2]; ORef 0] in
  match encode_stream (slice 0 t) with
  | Ok bs => wf_obj true 0 t = true /\ forallb wf_token (slice 0 t) = true /\
             tokens_of_chunks [bs] = slice 0 t /\ tokens_of_chunks (map (fun b => [b]) bs) = slice 0 t /\
             tokens_of_chunks [firstn 7 bs; []; skipn 7 bs] = slice 0 t
  | Exc _ => False
  end.
Proof. vm_compute. repeat split; reflexivity. Qed.
