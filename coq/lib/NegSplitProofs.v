(* C13: the negotiation block splitter gives the same blocks, the same verdict and hands the same
   bytes to Banana for every way of splitting the byte stream into packets. *)
From Coq Require Import ZArith List Bool Lia Arith.
Import ListNotations.
Require Import Verif.lib.PyLite Verif.gen.NegotiateGen Verif.lib.NegSplit.
Local Open Scope nat_scope.

Lemma slack_is_4 : slack = 4.
Proof. reflexivity. Qed.

Lemma starts_term_app l m : starts_term l = true -> starts_term (l ++ m) = true.
Proof. destruct l as [|a [|b [|c [|d r]]]]; cbn [starts_term app]; try discriminate. trivial. Qed.

Lemma starts_term_len l : starts_term l = true -> 4 <= List.length l.
Proof. destruct l as [|a [|b [|c [|d r]]]]; cbn [starts_term List.length]; try discriminate. lia. Qed.

(* with four bytes available the test does not look further *)
Lemma starts_term_app_long l m : 4 <= List.length l -> starts_term (l ++ m) = starts_term l.
Proof. destruct l as [|a [|b [|c [|d r]]]]; cbn [List.length]; try lia. reflexivity. Qed.

Lemma find_term_bound l : forall e, find_term l = Some e -> e + 4 <= List.length l.
Proof.
  induction l as [|x l IH]; intros e H; [cbn in H; discriminate|].
  cbn [find_term] in H. destruct (starts_term (x :: l)) eqn:S.
  - inversion H; subst. apply starts_term_len in S. lia.
  - destruct (find_term l) as [e'|] eqn:F; [|discriminate]. cbn in H. inversion H; subst.
    specialize (IH _ eq_refl). cbn [List.length]. lia.
Qed.

Lemma find_term_some_app l : forall e m, find_term l = Some e -> find_term (l ++ m) = Some e.
Proof.
  induction l as [|x l IH]; intros e m H; [cbn in H; discriminate|].
  cbn [find_term] in H. change ((x :: l) ++ m) with (x :: (l ++ m)). cbn [find_term].
  change (x :: l ++ m) with ((x :: l) ++ m).
  destruct (starts_term (x :: l)) eqn:S.
  - rewrite (starts_term_app _ m S). exact H.
  - destruct (find_term l) as [e'|] eqn:F; [|discriminate]. cbn in H. inversion H; subst.
    pose proof (find_term_bound _ _ F) as B.
    rewrite starts_term_app_long by (cbn [List.length]; lia). rewrite S.
    rewrite (IH e' m eq_refl). reflexivity.
Qed.

(* a terminator found in l ++ m but not in l starts in the last three bytes of l or later *)
Lemma find_term_none_app l : forall m e, find_term l = None -> find_term (l ++ m) = Some e -> List.length l < e + 4.
Proof.
  induction l as [|x l IH]; intros m e N H; [cbn [List.length]; lia|].
  cbn [find_term] in N. destruct (starts_term (x :: l)) eqn:S; [discriminate|].
  destruct (find_term l) as [e'|] eqn:F; [discriminate|].
  change ((x :: l) ++ m) with (x :: (l ++ m)) in H. cbn [find_term] in H.
  change (x :: l ++ m) with ((x :: l) ++ m) in H.
  destruct (starts_term ((x :: l) ++ m)) eqn:S2.
  - inversion H; subst.
    destruct (Nat.le_gt_cases 4 (List.length (x :: l))) as [L|L]; [|lia].
    rewrite (starts_term_app_long _ m L) in S2. congruence.
  - destruct (find_term (l ++ m)) as [e'|] eqn:F2; [|discriminate]. cbn in H. inversion H; subst.
    specialize (IH m e' eq_refl F2). cbn [List.length]. lia.
Qed.

Section Proofs.
Variable ok : list Z -> bool.
Notation drain := (drain ok).
Notation nfeed := (nfeed ok).
Notation nfeed_all := (nfeed_all ok).

Lemma drain_fuel f1 : forall f2 buf k, List.length buf < f1 -> List.length buf < f2 -> drain f1 buf k = drain f2 buf k.
Proof.
  induction f1 as [|f1 IH]; intros f2 buf k H1 H2; [lia|]. destruct f2 as [|f2]; [lia|].
  destruct k as [|k]; [reflexivity|]. cbn [NegSplit.drain].
  destruct (find_term buf) as [e|] eqn:F; [|reflexivity].
  destruct (cap <? e); [reflexivity|]. destruct (ok (firstn e buf)); [|reflexivity].
  pose proof (find_term_bound _ _ F) as B.
  rewrite (IH f2 (skipn (e + 4) buf) k); [reflexivity| |]; rewrite skipn_length; lia.
Qed.

(* combine the outputs of two successive feeds *)
Definition seq2 (r1 : nst * list (list Z) * list Z) (g : nst -> nst * list (list Z) * list Z) :=
  let '(s1, b1, p1) := r1 in let '(s2, b2, p2) := g s1 in (s2, b1 ++ b2, p1 ++ p2).

Lemma drain_app : forall n x y k f1 f2, List.length x <= n -> List.length x < f1 -> List.length (x ++ y) < f2 ->
  drain f2 (x ++ y) k = seq2 (drain f1 x k) (fun s => nfeed s y).
Proof.
  induction n as [|n IH]; intros x y k f1 f2 Hn H1 H2.
  - destruct x; [|cbn in Hn; lia]. destruct f1; [lia|]. cbn [app] in *.
    destruct k as [|k].
    + destruct f2; cbn [NegSplit.drain seq2 NegSplit.nfeed app]; reflexivity.
    + cbn [NegSplit.drain find_term starts_term]. cbn [List.length].
      destruct (Nat.leb_spec (cap + slack) 0) as [Hc|_]; [rewrite slack_is_4 in Hc; lia|].
      cbn [seq2 NegSplit.nfeed app]. rewrite (drain_fuel f2 (S (List.length y)) y (S k)) by lia.
      destruct (drain (S (List.length y)) y (S k)) as [[s b] p]. reflexivity.
  - destruct k as [|k].
    + destruct f1, f2; cbn [NegSplit.drain seq2 NegSplit.nfeed app]; rewrite ?app_nil_r; reflexivity.
    + destruct f1 as [|f1]; [lia|]. destruct f2 as [|f2]; [lia|].
      cbn [NegSplit.drain].
      destruct (find_term x) as [e|] eqn:F.
      * rewrite (find_term_some_app x e y F). pose proof (find_term_bound _ _ F) as B.
        destruct (cap <? e); [reflexivity|].
        rewrite firstn_app. replace (e - List.length x) with 0 by lia. cbn [firstn]. rewrite app_nil_r.
        destruct (ok (firstn e x)); [|reflexivity].
        rewrite skipn_app. replace (e + 4 - List.length x) with 0 by lia. cbn [skipn].
        rewrite (IH (skipn (e + 4) x) y k f1 f2); [| rewrite skipn_length; lia | rewrite skipn_length; lia
                                                  | rewrite app_length, skipn_length; rewrite app_length in H2; lia].
        destruct (drain f1 (skipn (e + 4) x) k) as [[s1 b1] p1]. cbn [seq2].
        destruct (nfeed s1 y) as [[s2 b2] p2]. reflexivity.
      * (* no terminator in x yet *)
        destruct (Nat.leb_spec (cap + slack) (List.length x)) as [Hx|Hx].
        -- (* x alone is already too long: the longer buffer is refused too *)
           cbn [seq2 NegSplit.nfeed app].
           destruct (find_term (x ++ y)) as [e|] eqn:F2.
           ++ pose proof (find_term_none_app x y e F F2) as L. rewrite slack_is_4 in Hx.
              destruct (Nat.ltb_spec cap e); [reflexivity|lia].
           ++ destruct (Nat.leb_spec (cap + slack) (List.length (x ++ y))); [reflexivity|rewrite app_length in *; lia].
        -- cbn [seq2 NegSplit.nfeed]. cbn [app].
           rewrite (drain_fuel (S (List.length (x ++ y))) (S f2) (x ++ y) (S k)) by lia. cbn [NegSplit.drain].
           destruct (find_term (x ++ y)) as [e|]; [|destruct (cap + slack <=? List.length (x ++ y)); reflexivity].
           destruct (cap <? e); [reflexivity|]. destruct (ok (firstn e (x ++ y))); [|reflexivity].
           destruct (drain f2 (skipn (e + 4) (x ++ y)) k) as [[s b] p]. reflexivity.
Qed.

Theorem nfeed_app s x y : nfeed s (x ++ y) = seq2 (nfeed s x) (fun s' => nfeed s' y).
Proof.
  destruct s as [buf k| |]; cbn [NegSplit.nfeed seq2]; [|reflexivity|reflexivity].
  rewrite app_assoc.
  apply (drain_app (List.length (buf ++ x)) (buf ++ x) y k); lia.
Qed.

(* states in which the splitter rests between packets *)
Definition stable (s : nst) : Prop :=
  s = NPass \/ s = NDead \/
  exists buf k, s = NWait buf (S k) /\ find_term buf = None /\ List.length buf < cap + slack.

Lemma drain_stable f : forall buf k, List.length buf < f -> stable (fst (fst (drain f buf k))).
Proof.
  induction f as [|f IH]; intros buf k H; [lia|].
  destruct k as [|k]; [left; reflexivity|]. cbn [NegSplit.drain].
  destruct (find_term buf) as [e|] eqn:F.
  - destruct (cap <? e); [right; left; reflexivity|]. destruct (ok (firstn e buf)); [|right; left; reflexivity].
    pose proof (find_term_bound _ _ F) as B.
    specialize (IH (skipn (e + 4) buf) k ltac:(rewrite skipn_length; lia)).
    destruct (drain f (skipn (e + 4) buf) k) as [[s b] p]. exact IH.
  - destruct (Nat.leb_spec (cap + slack) (List.length buf)); [right; left; reflexivity|].
    right; right. exists buf, k. auto.
Qed.

Lemma nfeed_stable s c : stable (fst (fst (nfeed s c))).
Proof.
  destruct s as [buf k| |]; cbn [NegSplit.nfeed]; [apply drain_stable; lia|left; reflexivity|right; left; reflexivity].
Qed.

Lemma nfeed_nil s : stable s -> nfeed s [] = (s, [], []).
Proof.
  intros [->|[->|(buf & k & -> & F & L)]]; [reflexivity|reflexivity|].
  cbn [NegSplit.nfeed]. rewrite app_nil_r. cbn [NegSplit.drain]. rewrite F.
  destruct (Nat.leb_spec (cap + slack) (List.length buf)); [lia|reflexivity].
Qed.

Theorem nfeed_all_concat cs : forall s, stable s -> nfeed_all s cs = nfeed s (concat cs).
Proof.
  induction cs as [|c cs IH]; intros s St; cbn [NegSplit.nfeed_all concat].
  - rewrite nfeed_nil by exact St. reflexivity.
  - rewrite nfeed_app. unfold seq2. pose proof (nfeed_stable s c) as St1.
    destruct (nfeed s c) as [[s1 b1] p1]. cbn [fst] in St1. rewrite (IH s1 St1). reflexivity.
Qed.

Lemma init_stable k : stable (NWait [] (S k)).
Proof.
  right; right. exists [], k. split; [reflexivity|]. split; [reflexivity|]. cbn [List.length]. rewrite slack_is_4. lia.
Qed.

(* C13: every packetisation of the negotiation bytes yields the same header blocks, the same verdict
   and hands the same bytes to the RPC layer *)
Theorem split_chunk_independent k cs cs' : concat cs = concat cs' ->
  nfeed_all (NWait [] (S k)) cs = nfeed_all (NWait [] (S k)) cs'.
Proof. intros E. rewrite !nfeed_all_concat by apply init_stable. rewrite E. reflexivity. Qed.

(* C13: feeding packet by packet from a fresh object equals feeding the whole stream at once *)
Theorem split_incremental_is_whole k cs : nfeed_all (NWait [] (S k)) cs = nfeed (NWait [] (S k)) (concat cs).
Proof. apply nfeed_all_concat. apply init_stable. Qed.

End Proofs.

(* ------------------------------------------------------------------------------------------------------------ *)
(* The size guard of the splitter model IS the verdict translated from Negotiation.dataReceived: `drain` refuses, waits or splits
   exactly as header_verdict says for (bytes.find(terminator), len(buffer)).  So the chunk-independence theorems above are about
   the translated guard, not about a restatement of it. *)
Require Import Verif.lib.Negotiate Verif.lib.NegotiateProofs.

(* self.buffer.find(b"\r\n\r\n") *)
Definition eoh_of (buf : list Z) : Z := match find_term buf with Some e => Z.of_nat e | None => (-1)%Z end.

Theorem drain_test_is_header_verdict (ok : list Z -> bool) f buf k :
  drain ok (S f) buf (S k) =
    let v := header_verdict (eoh_of buf) (Z.of_nat (List.length buf)) in
    if (v =? 0)%Z then (NDead, [], [])
    else if (v =? 1)%Z then (NWait buf (S k), [], [])
    else let e := Z.to_nat (eoh_of buf) in
         let hdr := firstn e buf in
         if ok hdr then let '(s, bs, p) := drain ok f (skipn (e + 4) buf) k in (s, hdr :: bs, p)
         else (NDead, [hdr], []).
Proof.
  cbn [drain]. unfold eoh_of. cbv zeta. destruct (find_term buf) as [e|] eqn:F.
  - destruct (Nat.ltb_spec cap e) as [H|H].
    + rewrite header_verdict_beyond_cap; [reflexivity|]. unfold cap, negotiation_header_cap in H. lia.
    + rewrite header_verdict_within_cap; [|unfold cap, negotiation_header_cap in H; lia].
      rewrite Nat2Z.id. reflexivity.
  - destruct (Nat.leb_spec (cap + slack) (List.length buf)) as [H|H].
    + rewrite (proj2 (header_verdict_noterm _)); [reflexivity|].
      unfold cap, slack, negotiation_header_cap, negotiation_noterm_slack in H. lia.
    + rewrite (proj2 (header_verdict_noterm_waits _)); [reflexivity|].
      unfold cap, slack, negotiation_header_cap, negotiation_noterm_slack in H. lia.
Qed.
