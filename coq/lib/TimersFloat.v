(* C15: IEEE-754 binary64 addition / subtraction of time values, modelled exactly in Z (no real numbers, no axioms).
   A time value is an integer number of units of 2^-U seconds (U arbitrary: every finite double is a multiple of
   2^-1074 s, every double of magnitude >= 2^-(U-52) is a multiple of 2^-U).  The exact sum / difference of two such
   values is again an integer; binary64 returns it rounded to 53 significant bits, nearest, ties to even: rnd53.
   Definitions only; proofs in TimersFloatProofs.v. *)
From Coq Require Import ZArith List Bool.
Require Import Verif.lib.Timers Verif.lib.TimersRound.
Local Open Scope Z_scope.

(* nearest multiple of 2^e, ties to the even multiple *)
Definition rnd_to (e x : Z) : Z :=
  let p := 2 ^ e in let q := x / p in let r := x mod p in
  if 2 * r <? p then p * q
  else if p <? 2 * r then p * q + p
  else if Z.even q then p * q else p * q + p.

(* round to 53 significant bits (binary64, normal range) *)
Definition rnd53 (x : Z) : Z :=
  if Z.abs x <? 2 ^ 53 then x else rnd_to (Z.log2 (Z.abs x) - 52) x.

(* 2^31 seconds, in units of 2^-U s *)
Definition horizon (U : Z) : Z := 2 ^ (31 + U).

(* binary64 a + b and a - b for results below 2^31 s (time.time() passes 2^31 in 2038); beyond that horizon the model
   is left exact, so that it is total *)
Definition fadd (U a b : Z) : Z := let x := a + b in if Z.abs x <? horizon U then rnd53 x else x.
Definition fsub (U a b : Z) : Z := let x := a - b in if Z.abs x <? horizon U then rnd53 x else x.

(* half an ulp of the binade [2^30, 2^31) s: 2^-23 s *)
Definition delta64 (U : Z) : Z := 2 ^ (U - 23).
