(* C19 -- two uploads at the same time: the refutation for ONE name, and the lifting of the single-upload theorems to every
   schedule of two uploads of DISTINCT names. *)
From Coq Require Import NArith List Bool Arith Lia.
Import ListNotations.
Require Import Verif.lib.UploadShape Verif.gen.UploadGen Verif.lib.Paths Verif.lib.PathsProofs
               Verif.lib.Upload Verif.lib.UploadProofs Verif.lib.UploadHist Verif.lib.UploadHistProofs Verif.lib.UploadConc.

(* ---------- same name: the published file is torn ---------- *)
Local Open Scope N_scope.
Definition ex_A : list N := [65; 65; 65; 65].
Definition ex_B : list N := [66; 66; 66; 66; 66; 66; 66; 66].
Theorem concurrent_same_name_refuted :
  let s := run2 (lift2 (mk_st [] [])) (tear_schedule ex_final [ex_A] [ex_B]) in
  look2 s ex_final = VFile [65; 65; 65; 65; 66; 66; 66; 66] /\
  look2 s ex_final <> VFile ex_A /\ look2 s ex_final <> VFile ex_B /\
  fA s = true /\ fB s = false /\ fo2 s = false /\
  sched (upload_ops ex_final [ex_A] Done) (upload_ops ex_final [ex_B] Done) 6 6 (tear_schedule ex_final [ex_A] [ex_B]).
Proof.
  cbv zeta. split; [vm_compute; reflexivity|]. split; [vm_compute; discriminate|]. split; [vm_compute; discriminate|].
  split; [vm_compute; reflexivity|]. split; [vm_compute; reflexivity|]. split; [vm_compute; reflexivity|].
  assert (E : tear_schedule ex_final [ex_A] [ex_B] =
              ((((((((((([] ++ [(WA, UnlinkIfLink (ex_final ++ putfile_tmp_ext))]) ++ [(WA, Open (ex_final ++ putfile_tmp_ext))]) ++
                [(WA, Write (ex_final ++ putfile_tmp_ext) ex_A)]) ++
                [(WB, UnlinkIfLink (ex_final ++ putfile_tmp_ext))]) ++ [(WB, Open (ex_final ++ putfile_tmp_ext))]) ++
                [(WB, Write (ex_final ++ putfile_tmp_ext) ex_B)]) ++ [(WB, Close (ex_final ++ putfile_tmp_ext))]) ++
                [(WB, RenameElseUnlink (ex_final ++ putfile_tmp_ext) ex_final (ex_final ++ putfile_tmp_ext))]) ++ [(WB, Chmod ex_final)]) ++
                [(WA, Close (ex_final ++ putfile_tmp_ext))]) ++
                [(WA, RenameElseUnlink (ex_final ++ putfile_tmp_ext) ex_final (ex_final ++ putfile_tmp_ext))]) ++ [(WA, Chmod ex_final)])
    by reflexivity.
  rewrite E.
  repeat (first [apply sched_nil | apply sched_A; [|reflexivity] | apply sched_B; [|reflexivity]]).
Qed.
Local Close Scope N_scope.

(* ---------- what one operation can change ---------- *)
Lemma step_o_failed : forall s o, failed s = true -> step_o s o = s.
Proof. intros s o H. destruct o; unfold step_o, step; rewrite H; reflexivity. Qed.

Lemma step_o_inv : forall s o, Inv s -> Inv (step_o s o).
Proof.
  intros s o H. destruct o; try (apply step_inv; exact H). unfold step_o.
  destruct (failed s); [exact H|]. destruct (handle s) as [[i pend]|]; exact H.
Qed.

(* for a single writer the inode is empty when it is closed: the two semantics of close() coincide *)
Definition hempty (s : st) : Prop := forall i pend, handle s = Some (i, pend) -> data s i = [].
Lemma step_o_single : forall s o, hempty s -> step_o s o = step s o.
Proof.
  intros s o H. destruct o; try reflexivity. unfold step_o, step. destruct (failed s); [reflexivity|].
  destruct (handle s) as [[i pend]|] eqn:E; [|reflexivity]. rewrite (H i pend E). unfold overlay.
  rewrite skipn_nil, app_nil_r. reflexivity.
Qed.

Lemma upd_in : forall (n : str -> option ent) p v q e, upd n p v q = Some e -> (q = p /\ v = Some e) \/ (q <> p /\ n q = Some e).
Proof. intros n p v q e H. destruct (upd_cases _ n p v q) as [[-> E]|[Hn E]]; rewrite E in H; auto. Qed.

Definition effect (s s' : st) (T : list str) : Prop :=
  (forall q, ~ In q T -> names s' q = names s q) /\
  (forall j, (forall p, In p T -> names s p <> Some (F j)) -> j <> next s -> (forall pend, handle s <> Some (j, pend)) ->
             data s' j = data s j) /\
  (next s <= next s')%nat /\
  (forall i pend, handle s' = Some (i, pend) ->
     (exists pend', handle s = Some (i, pend')) \/ (exists p, In p T /\ names s' p = Some (F i))) /\
  (forall q e, names s' q = Some e -> names s q = Some e \/ (exists a, In a T /\ names s a = Some e) \/ e = F (next s)).

Lemma effect_refl : forall s T, effect s s T.
Proof.
  intros s T. split; [reflexivity|]. split; [reflexivity|]. split; [lia|]. split.
  - intros i pend H. left. exists pend. exact H.
  - intros q e H. left. exact H.
Qed.

(* states that differ from s only in handle / failed / followed *)
Lemma effect_same_fs : forall s T h f fo, h = handle s \/ h = None -> effect s (mkst (names s) (data s) (next s) h f fo) T.
Proof.
  intros s T h f fo Hh. split; [reflexivity|]. split; [reflexivity|]. split; [cbn; lia|]. split.
  - intros i pend H. cbn [handle] in H. destruct Hh as [->| ->]; [left; exists pend; exact H|discriminate].
  - intros q e H. left. exact H.
Qed.

Lemma effect_remove : forall s T p h f fo, In p T -> (h = handle s \/ h = None) ->
  effect s (mkst (upd (names s) p None) (data s) (next s) h f fo) T.
Proof.
  intros s T p h f fo Hp Hh. split; [|split; [reflexivity|split; [cbn; lia|split]]].
  - intros q Hq. cbn [names]. apply upd_other. intros ->. exact (Hq Hp).
  - intros i pend H. cbn [handle] in H. destruct Hh as [->| ->]; [left; exists pend; exact H|discriminate].
  - intros q e H. cbn [names] in H. apply upd_in in H. destruct H as [[_ H]|[_ H]]; [discriminate|left; exact H].
Qed.

Lemma step_rename_effect : forall s a b, effect s (step_rename s a b) [a; b].
Proof.
  intros s a b. unfold step_rename. destruct (names s a) as [e|] eqn:Ea; [|apply effect_same_fs; left; reflexivity].
  assert (Hmove : str_eqb a b = false ->
                  effect s (mkst (upd (upd (names s) b (Some e)) a None) (data s) (next s) (handle s) false (followed s)) [a; b]).
  { intros Eab. split; [|split; [reflexivity|split; [cbn; lia|split]]].
    - intros q Hq. cbn [names]. rewrite upd_other by (intros ->; apply Hq; left; reflexivity).
      apply upd_other. intros ->. apply Hq. right. left. reflexivity.
    - intros i pend H. left. exists pend. exact H.
    - intros q e0 H. cbn [names] in H. apply upd_in in H. destruct H as [[_ H]|[_ H]]; [discriminate|].
      apply upd_in in H. destruct H as [[_ H]|[_ H]]; [|left; exact H].
      right. left. exists a. split; [left; reflexivity|]. rewrite Ea. exact H. }
  destruct (names s b) as [[i|t|]|]; try (apply effect_same_fs; left; reflexivity);
    (destruct (str_eqb a b) eqn:Eab; [apply effect_refl|apply Hmove; reflexivity]).
Qed.

Lemma effect_weaken : forall s s' T T', (forall p, In p T -> In p T') -> effect s s' T -> effect s s' T'.
Proof.
  intros s s' T T' Hs (E1 & E2 & E3 & E4 & E5). split; [|split; [|split; [exact E3|split]]].
  - intros q Hq. apply E1. intros X. apply Hq. apply Hs. exact X.
  - intros j H1 H2 H3. apply E2; auto.
  - intros i pend H. destruct (E4 i pend H) as [X|(p & Hp & X)]; [left; exact X|right; exists p; auto].
  - intros q e H. destruct (E5 q e H) as [X|[(a & Ha & X)|X]]; auto. right. left. exists a. auto.
Qed.

Lemma step_o_effect : forall s o, okop o = true -> wf_st s -> effect s (step_o s o) (touched o).
Proof.
  intros s o Hok Hwf. destruct (failed s) eqn:Hf; [rewrite step_o_failed by exact Hf; apply effect_refl|].
  destruct o; try discriminate; unfold step_o, step; rewrite Hf; cbn [touched].
  - (* Open *)
    destruct (names s p) as [[i|t|]|] eqn:E.
    + split; [reflexivity|]. split; [|split; [cbn; lia|split]].
      * intros j H1 _ _. cbn [data]. apply updn_other. intros ->. apply (H1 p); [left; reflexivity|exact E].
      * intros i0 pend H. cbn [handle] in H. injection H as <- _. right. exists p. split; [left; reflexivity|exact E].
      * intros q e H. left. exact H.
    + apply effect_same_fs. left. reflexivity.
    + apply effect_same_fs. left. reflexivity.
    + split; [|split; [|split; [cbn; lia|split]]].
      * intros q Hq. cbn [names]. apply upd_other. intros ->. apply Hq. left. reflexivity.
      * intros j _ H2 _. cbn [data]. apply updn_other. exact H2.
      * intros i0 pend H. cbn [handle] in H. injection H as <- _. right. exists p. split; [left; reflexivity|]. cbn [names]. apply upd_same.
      * intros q e H. cbn [names] in H. apply upd_in in H. destruct H as [[_ H]|[_ H]]; [right; right; injection H as <-; reflexivity|left; exact H].
  - (* Write *)
    destruct (handle s) as [[i pend]|] eqn:E.
    + split; [reflexivity|]. split; [reflexivity|]. split; [cbn; lia|]. split.
      * intros i0 pend0 H. cbn [handle] in H. injection H as <- _. left. exists pend. exact E.
      * intros q e H. left. exact H.
    + apply effect_same_fs. left. reflexivity.
  - (* Close *)
    destruct (handle s) as [[i pend]|] eqn:E.
    + split; [reflexivity|]. split; [|split; [cbn; lia|split]].
      * intros j _ _ H3. cbn [data]. apply updn_other. intros ->. exact (H3 pend E).
      * intros i0 pend0 H. discriminate.
      * intros q e H. left. exact H.
    + apply effect_same_fs. left. reflexivity.
  - (* RenameElseUnlink *)
    pose proof (step_rename_effect s a b) as Hr.
    destruct (failed (step_rename s a b)).
    + destruct (names s c) as [[i|t|]|]; try (apply effect_same_fs; left; reflexivity);
        (apply effect_remove; [right; right; left; reflexivity|left; reflexivity]).
    + eapply effect_weaken; [|exact Hr]. intros p [<-|[<-|[]]]; [left; reflexivity|right; left; reflexivity].
  - (* Chmod *)
    destruct (names s p) as [[i|t|]|]; try apply effect_refl; apply effect_same_fs; left; reflexivity.
  - (* Unlink *)
    destruct (names s p) as [e|]; [|apply effect_same_fs; left; reflexivity].
    apply effect_remove; [left; reflexivity|left; reflexivity].
  - (* UnlinkIfLink *)
    destruct (names s p) as [[i|t|]|]; try apply effect_refl. apply effect_remove; [left; reflexivity|left; reflexivity].
Qed.

(* ---------- two file systems that AGREE on a set of names P: the same views there, the same unflushed text ---------- *)
Definition hrel (P : str -> Prop) (x y : st) : Prop :=
  (handle x = None /\ handle y = None) \/
  (exists i i' pend, handle x = Some (i, pend) /\ handle y = Some (i', pend) /\ data x i = [] /\ data y i' = [] /\
     forall p, P p -> (names x p = Some (F i) <-> names y p = Some (F i'))).
Definition agree (P : str -> Prop) (x y : st) : Prop :=
  (forall p, P p -> look x p = look y p) /\ hrel P x y /\ failed x = failed y.
Definition agree_res (P : str -> Prop) (x y x' y' : st) : Prop :=
  agree P x' y' /\ exists f, followed x' = followed x || f /\ followed y' = followed y || f.

Lemma look_eq_cases : forall x y p, look x p = look y p ->
  (names x p = None /\ names y p = None) \/
  (exists t, names x p = Some (L t) /\ names y p = Some (L t)) \/
  (names x p = Some D /\ names y p = Some D) \/
  (exists i i', names x p = Some (F i) /\ names y p = Some (F i') /\ data x i = data y i').
Proof.
  intros x y p H. unfold look in H.
  destruct (names x p) as [[i|t|]|]; destruct (names y p) as [[i'|t'|]|]; try discriminate.
  - injection H as H. right. right. right. exists i, i'. auto.
  - injection H as ->. right. left. exists t'. auto.
  - right. right. left. auto.
  - left. auto.
Qed.

Lemma look_mk_upd_same : forall n d nx h f fo p v,
  look (mkst (upd n p v) d nx h f fo) p = match v with None => VNone | Some (L t) => VLink t | Some (F i) => VFile (d i) | Some D => VDir end.
Proof. intros. unfold look. cbn [names data]. rewrite upd_same. reflexivity. Qed.

Lemma look_mk_upd_other : forall n d nx h f fo p v q, q <> p ->
  look (mkst (upd n p v) d nx h f fo) q = look (mkst n d nx h f fo) q.
Proof. intros. unfold look. cbn [names data]. rewrite upd_other by assumption. reflexivity. Qed.

Lemma look_mk : forall s h f fo q, look (mkst (names s) (data s) (next s) h f fo) q = look s q.
Proof. reflexivity. Qed.

Lemma orb_f : forall b, b = b || false. Proof. intros []; reflexivity. Qed.

Lemma agree_flags : forall P x y f fo fo', agree P x y ->
  agree P (mkst (names x) (data x) (next x) (handle x) f fo) (mkst (names y) (data y) (next y) (handle y) f fo').
Proof. intros P x y f fo fo' (H1 & H2 & H3). split; [exact H1|]. split; [exact H2|reflexivity]. Qed.

Lemma agree_remove : forall P x y p f fo fo', agree P x y ->
  agree P (mkst (upd (names x) p None) (data x) (next x) (handle x) f fo)
          (mkst (upd (names y) p None) (data y) (next y) (handle y) f fo').
Proof.
  intros P x y p f fo fo' (H1 & H2 & H3). split; [|split; [|reflexivity]].
  - intros q Hq. destruct (str_eqb q p) eqn:E.
    + apply str_eqb_eq in E. subst q. rewrite !look_mk_upd_same. reflexivity.
    + apply str_eqb_false_neq in E. rewrite !look_mk_upd_other by exact E. apply (H1 q Hq).
  - destruct H2 as [H2|(i & i' & pend & A & B & C & Dd & Ee)]; [left; exact H2|].
    right. exists i, i', pend. cbn [handle data names]. split; [exact A|]. split; [exact B|]. split; [exact C|]. split; [exact Dd|].
    intros q Hq. destruct (str_eqb q p) eqn:E.
    + apply str_eqb_eq in E. subst q. rewrite !upd_same. split; discriminate.
    + apply str_eqb_false_neq in E. rewrite !upd_other by exact E. apply Ee. exact Hq.
Qed.

Lemma agree_move : forall P x y a b e e', agree P x y -> P a -> P b -> a <> b ->
  names x a = Some e -> names y a = Some e' ->
  agree P (mkst (upd (upd (names x) b (Some e)) a None) (data x) (next x) (handle x) false (followed x))
          (mkst (upd (upd (names y) b (Some e')) a None) (data y) (next y) (handle y) false (followed y)).
Proof.
  intros P x y a b e e' (H1 & H2 & H3) Pa Pb Hab Ea Ea'. split; [|split; [|reflexivity]].
  - intros q Hq. pose proof (H1 q Hq) as Hlq. pose proof (H1 a Pa) as Hla. unfold look in *. cbn [names data].
    rewrite Ea, Ea' in Hla.
    destruct (str_eqb q a) eqn:E.
    + apply str_eqb_eq in E. subst q. rewrite !upd_same. reflexivity.
    + apply str_eqb_false_neq in E. rewrite !(upd_other _ _ a None q E).
      destruct (str_eqb q b) eqn:E2.
      * apply str_eqb_eq in E2. subst q. rewrite !upd_same. exact Hla.
      * apply str_eqb_false_neq in E2. rewrite !(upd_other _ _ b _ q E2). exact Hlq.
  - destruct H2 as [H2|(i & i' & pend & A & B & C & Dd & Ee)]; [left; exact H2|].
    right. exists i, i', pend. cbn [handle data names]. split; [exact A|]. split; [exact B|]. split; [exact C|]. split; [exact Dd|].
    intros q Hq.
    destruct (str_eqb q a) eqn:E.
    + apply str_eqb_eq in E. subst q. rewrite !upd_same. split; discriminate.
    + apply str_eqb_false_neq in E. rewrite !(upd_other _ _ a None q E).
      destruct (str_eqb q b) eqn:E2.
      * apply str_eqb_eq in E2. subst q. rewrite !upd_same. pose proof (Ee a Pa) as Ha. rewrite Ea, Ea' in Ha. exact Ha.
      * apply str_eqb_false_neq in E2. rewrite !upd_other by exact E2. apply Ee. exact Hq.
Qed.

Lemma step_failed : forall s o, failed s = true -> step s o = s.
Proof. intros s o H. unfold step. rewrite H. reflexivity. Qed.

Lemma overlay_nil : forall pend, overlay pend [] = pend.
Proof. intros. unfold overlay. rewrite skipn_nil, app_nil_r. reflexivity. Qed.

Lemma look_updn_fresh : forall s v nx h f fo q, wf_st s ->
  look (mkst (names s) (updn (data s) (next s) v) nx h f fo) q = look s q.
Proof.
  intros s v nx h f fo q Hwf. apply look_frame; [reflexivity|]. intros j Hj. cbn [data]. apply updn_other.
  apply Hwf in Hj. lia.
Qed.

Lemma look_updn_other_inode : forall s p i v nx h f fo q, Inv s -> names s p = Some (F i) -> q <> p ->
  look (mkst (names s) (updn (data s) i v) nx h f fo) q = look s q.
Proof.
  intros s p i v nx h f fo q [_ Hn] Hp Hq. apply look_frame; [reflexivity|]. intros j Hj. cbn [data]. apply updn_other.
  intros ->. apply Hq. exact (Hn q p i Hj Hp).
Qed.

Lemma agree_res_same : forall P x y, agree P x y -> agree_res P x y x y.
Proof. intros P x y H. split; [exact H|]. exists false. split; apply orb_f. Qed.

Lemma agree_res_fail : forall P x y, agree P x y -> agree_res P x y (fail x) (fail y).
Proof. intros P x y H. split; [apply (agree_flags P x y true (followed x) (followed y) H)|]. exists false. split; apply orb_f. Qed.

Lemma agree_res_follow : forall P x y, agree P x y -> agree_res P x y (follow x) (follow y).
Proof.
  intros P x y H. split; [apply (agree_flags P x y true true true H)|]. exists true.
  split; cbn [follow followed]; symmetry; apply orb_true_r.
Qed.

Lemma agree_rename : forall (P : str -> Prop) x y a b, agree P x y -> P a -> P b -> failed x = false ->
  (failed (step_rename x a b) = true /\ failed (step_rename y a b) = true /\ step_rename x a b = fail x /\ step_rename y a b = fail y) \/
  (failed (step_rename x a b) = false /\ failed (step_rename y a b) = false /\
   agree_res P x y (step_rename x a b) (step_rename y a b)).
Proof.
  intros P x y a b Hag Pa Pb Hfx. pose proof Hag as (H1 & H2 & H3).
  assert (Hfy : failed y = false) by (rewrite <- H3; exact Hfx).
  unfold step_rename.
  destruct (look_eq_cases x y a (H1 a Pa)) as [[Ex Ey]|Hsome].
  { rewrite Ex, Ey. left. auto. }
  assert (He : exists e e', names x a = Some e /\ names y a = Some e').
  { destruct Hsome as [(t & Ex & Ey)|[[Ex Ey]|(i & i' & Ex & Ey & _)]]; eauto. }
  destruct He as (e & e' & Ex & Ey). rewrite Ex, Ey.
  destruct (look_eq_cases x y b (H1 b Pb)) as [[Bx By]|[(t & Bx & By)|[[Bx By]|(j & j' & Bx & By & _)]]]; rewrite Bx, By;
    try (left; auto; fail);
    (destruct (str_eqb a b) eqn:Eab;
     [right; split; [exact Hfx|split; [exact Hfy|apply agree_res_same; exact Hag]]
     |right; split; [reflexivity|split; [reflexivity|]]; split;
      [apply agree_move; auto; apply str_eqb_false_neq; exact Eab|exists false; split; apply orb_f]]).
Qed.

Lemma agree_step : forall (P : str -> Prop) x y o, okop o = true -> (forall p, In p (touched o) -> P p) -> Inv x -> Inv y ->
  agree P x y -> agree_res P x y (step_o x o) (step y o).
Proof.
  intros P x y o Hok HT Ix Iy Hag. pose proof Hag as (H1 & H2 & H3).
  destruct (failed x) eqn:Hfx.
  { rewrite step_o_failed by exact Hfx. rewrite step_failed by (symmetry; exact H3). apply agree_res_same. exact Hag. }
  assert (Hfy : failed y = false) by (symmetry; exact H3).
  pose proof (Inv_wf _ Ix) as Wx. pose proof (Inv_wf _ Iy) as Wy.
  destruct o; try discriminate; unfold step_o, step; rewrite Hfx, Hfy; cbn [touched] in HT.
  - (* Open *)
    assert (Pp : P p) by (apply HT; left; reflexivity).
    destruct (look_eq_cases x y p (H1 p Pp)) as [[Ex Ey]|[(t & Ex & Ey)|[[Ex Ey]|(i & i' & Ex & Ey & Ed)]]]; rewrite Ex, Ey.
    + split; [|exists false; split; apply orb_f]. split; [|split; [|reflexivity]].
      * intros q Hq. destruct (str_eqb q p) eqn:E.
        -- apply str_eqb_eq in E. subst q. rewrite !look_mk_upd_same, !updn_same. reflexivity.
        -- apply str_eqb_false_neq in E. rewrite !look_mk_upd_other by exact E.
           rewrite (look_updn_fresh x) by exact Wx. rewrite (look_updn_fresh y) by exact Wy. apply H1. exact Hq.
      * right. exists (next x), (next y), []. cbn [handle data names].
        split; [reflexivity|]. split; [reflexivity|]. split; [apply updn_same|]. split; [apply updn_same|].
        intros q Hq. destruct (str_eqb q p) eqn:E.
        -- apply str_eqb_eq in E. subst q. rewrite !upd_same. split; reflexivity.
        -- apply str_eqb_false_neq in E. rewrite !upd_other by exact E.
           split; intros Hc; exfalso; [apply Wx in Hc|apply Wy in Hc]; lia.
    + apply agree_res_follow. exact Hag.
    + apply agree_res_fail. exact Hag.
    + split; [|exists false; split; apply orb_f]. split; [|split; [|reflexivity]].
      * intros q Hq. destruct (str_eqb q p) eqn:E.
        -- apply str_eqb_eq in E. subst q. unfold look. cbn [names data]. rewrite Ex, Ey, !updn_same. reflexivity.
        -- apply str_eqb_false_neq in E.
           rewrite (look_updn_other_inode x p i) by assumption. rewrite (look_updn_other_inode y p i') by assumption. apply H1. exact Hq.
      * right. exists i, i', []. cbn [handle data names].
        split; [reflexivity|]. split; [reflexivity|]. split; [apply updn_same|]. split; [apply updn_same|].
        intros q Hq. destruct (str_eqb q p) eqn:E.
        -- apply str_eqb_eq in E. subst q. rewrite Ex, Ey. split; reflexivity.
        -- apply str_eqb_false_neq in E.
           split; intros Hc; exfalso; apply E; [exact (proj2 Ix q p i Hc Ex)|exact (proj2 Iy q p i' Hc Ey)].
  - (* Write *)
    destruct H2 as [[Ax Ay]|(i & i' & pend & Ax & Ay & Dx & Dy & En)]; rewrite Ax, Ay.
    + apply agree_res_fail. exact Hag.
    + split; [|exists false; split; apply orb_f]. split; [exact H1|]. split; [|reflexivity].
      right. exists i, i', (pend ++ d). cbn [handle data names]. auto.
  - (* Close *)
    destruct H2 as [[Ax Ay]|(i & i' & pend & Ax & Ay & Dx & Dy & En)]; rewrite Ax, Ay.
    + apply agree_res_fail. exact Hag.
    + rewrite Dx, Dy, overlay_nil. cbn [app].
      split; [|exists false; split; apply orb_f]. split; [|split; [left; split; reflexivity|reflexivity]].
      intros q Hq. pose proof (En q Hq) as Enq.
      destruct (look_eq_cases x y q (H1 q Hq)) as [[Ex Ey]|[(t & Ex & Ey)|[[Ex Ey]|(j & j' & Ex & Ey & Ed)]]];
        unfold look; cbn [names data]; rewrite Ex, Ey; try reflexivity.
      destruct (Nat.eq_dec j i) as [->|Hji].
      * assert (Ey2 : names y q = Some (F i')) by (apply Enq; exact Ex).
        rewrite Ey in Ey2. injection Ey2 as ->. rewrite !updn_same. reflexivity.
      * assert (Hji' : j' <> i').
        { intros ->. apply Hji. assert (Ex2 : names x q = Some (F i)) by (apply Enq; exact Ey).
          rewrite Ex in Ex2. injection Ex2 as ->. reflexivity. }
        rewrite !updn_other by assumption. rewrite Ed. reflexivity.
  - (* RenameElseUnlink *)
    assert (Pa : P a) by (apply HT; left; reflexivity).
    assert (Pb : P b) by (apply HT; right; left; reflexivity).
    assert (Pc : P c) by (apply HT; right; right; left; reflexivity).
    destruct (agree_rename P x y a b Hag Pa Pb Hfx) as [(F1 & F2 & _ & _)|(F1 & F2 & R)]; rewrite F1, F2; [|exact R].
    destruct (look_eq_cases x y c (H1 c Pc)) as [[Ex Ey]|[(t & Ex & Ey)|[[Ex Ey]|(j & j' & Ex & Ey & _)]]]; rewrite Ex, Ey.
    + apply agree_res_fail. exact Hag.
    + split; [apply agree_remove; exact Hag|exists false; split; apply orb_f].
    + apply agree_res_fail. exact Hag.
    + split; [apply agree_remove; exact Hag|exists false; split; apply orb_f].
  - (* Chmod *)
    assert (Pp : P p) by (apply HT; left; reflexivity).
    destruct (look_eq_cases x y p (H1 p Pp)) as [[Ex Ey]|[(t & Ex & Ey)|[[Ex Ey]|(i & i' & Ex & Ey & Ed)]]]; rewrite Ex, Ey.
    + apply agree_res_fail. exact Hag.
    + apply agree_res_follow. exact Hag.
    + apply agree_res_same. exact Hag.
    + apply agree_res_same. exact Hag.
  - (* Unlink *)
    assert (Pp : P p) by (apply HT; left; reflexivity).
    destruct (look_eq_cases x y p (H1 p Pp)) as [[Ex Ey]|[(t & Ex & Ey)|[[Ex Ey]|(i & i' & Ex & Ey & Ed)]]]; rewrite Ex, Ey;
      [apply agree_res_fail; exact Hag| | |]; (split; [apply agree_remove; exact Hag|exists false; split; apply orb_f]).
  - (* UnlinkIfLink *)
    assert (Pp : P p) by (apply HT; left; reflexivity).
    destruct (look_eq_cases x y p (H1 p Pp)) as [[Ex Ey]|[(t & Ex & Ey)|[[Ex Ey]|(i & i' & Ex & Ey & Ed)]]]; rewrite Ex, Ey;
      try (apply agree_res_same; exact Hag).
    split; [apply agree_remove; exact Hag|exists false; split; apply orb_f].
Qed.

(* ---------- two calls with DISJOINT sets of names: every schedule is simulated by the two calls run alone ---------- *)
Definition other (w : who) : who := match w with WA => WB | WB => WA end.

Section TwoCalls.
Variables PA PB : str -> Prop.
Hypothesis disjoint : forall p, PA p -> PB p -> False.
Definition Pw (w : who) : str -> Prop := match w with WA => PA | WB => PB end.

Lemma Pw_disjoint : forall w p, Pw w p -> Pw (other w) p -> False.
Proof. intros [] p H1 H2; [exact (disjoint p H1 H2)|exact (disjoint p H2 H1)]. Qed.

(* one file system, two file objects: the inode a call holds open is below `next`, is named (if at all) only by that call's
   own names, and is not the inode the other call holds open *)
Definition G (s : st2) : Prop :=
  winv (n2 s) (nx2 s) /\
  (forall w i pend, hd2 s w = Some (i, pend) -> (i < nx2 s)%nat /\ forall q, n2 s q = Some (F i) -> Pw w q) /\
  (forall w i pend j pend', hd2 s w = Some (i, pend) -> hd2 s (other w) = Some (j, pend') -> i <> j).

Lemma as1_put_same : forall w s s1, as1 w (put w s s1) = s1.
Proof. intros [] s [n d nx h f fo]; reflexivity. Qed.
Lemma as1_put_other : forall w s s1,
  as1 (other w) (put w s s1) = mkst (names s1) (data s1) (next s1) (hd2 s (other w)) (fl2 s (other w)) (followed s1).
Proof. intros [] s s1; reflexivity. Qed.

Lemma str_in_dec : forall (q : str) l, {In q l} + {~ In q l}.
Proof. intros. apply in_dec. apply list_eq_dec. apply N.eq_dec. Qed.

Lemma sim_step : forall w s2 sw so s0 o,
  okop o = true -> (forall p, In p (touched o) -> Pw w p) ->
  G s2 -> Inv sw ->
  agree (Pw w) (as1 w s2) sw -> agree (Pw (other w)) (as1 (other w) s2) so ->
  (forall q, ~ PA q -> ~ PB q -> look2 s2 q = look s0 q) ->
  G (step2 s2 (w, o)) /\
  agree (Pw w) (as1 w (step2 s2 (w, o))) (step sw o) /\
  agree (Pw (other w)) (as1 (other w) (step2 s2 (w, o))) so /\
  (forall q, ~ PA q -> ~ PB q -> look2 (step2 s2 (w, o)) q = look s0 q) /\
  exists f, fo2 (step2 s2 (w, o)) = fo2 s2 || f /\ followed (step sw o) = followed sw || f.
Proof.
  intros w s2 sw so s0 o Hok HT (G1 & G2 & G3) Isw Agw Ago Hfr.
  unfold step2. cbn [fst snd].
  set (x := as1 w s2) in *. set (x' := step_o x o).
  assert (Ix : Inv x) by exact G1.
  assert (Ix' : Inv x') by (apply step_o_inv; exact Ix).
  destruct (step_o_effect x o Hok (Inv_wf _ Ix)) as (E1 & E2 & E3 & E4 & E5). fold x' in E1, E2, E3, E4, E5.
  destruct (agree_step (Pw w) x sw o Hok HT Ix Isw Agw) as (Agw' & f & F1 & F2). fold x' in Agw', F1.
  assert (Hnames : forall q, n2 s2 q = names x q) by reflexivity.
  assert (Hhx : handle x = hd2 s2 w) by reflexivity.
  (* data of an inode that the acting call neither names, nor holds open, nor is about to create *)
  assert (Hkeep : forall j, (forall p, Pw w p -> names x p <> Some (F j)) -> (j < next x)%nat ->
                            (forall pend, handle x <> Some (j, pend)) -> data x' j = data x j).
  { intros j K1 K2 K3. apply E2; [intros p Hp; apply K1; apply HT; exact Hp|lia|exact K3]. }
  (* an inode named at q outside the acting call's names *)
  assert (Hout : forall q j, ~ Pw w q -> names x q = Some (F j) -> data x' j = data x j).
  { intros q j Hq Hj. apply Hkeep.
    - intros p Hp Hc. apply Hq. rewrite (proj2 Ix q p j Hj Hc). exact Hp.
    - exact (proj1 Ix q j Hj).
    - intros pend Hc. apply Hq. rewrite Hhx in Hc. apply (proj2 (G2 w j pend Hc)). exact Hj. }
  assert (Hnout : forall q, ~ Pw w q -> names x' q = names x q).
  { intros q Hq. apply E1. intros Hin. apply Hq. apply HT. exact Hin. }
  assert (Hlook : forall q h fl fo, ~ Pw w q -> look (mkst (names x') (data x') (next x') h fl fo) q = look x q).
  { intros q h fl fo Hq. apply look_frame; cbn [names data]; [apply Hnout; exact Hq|].
    intros j Hj. apply (Hout q j Hq Hj). }
  (* the new invariant, second clause for the OTHER call first (it is used for the third) *)
  assert (G2o : forall i pend, hd2 s2 (other w) = Some (i, pend) ->
                  (i < next x')%nat /\ forall q, names x' q = Some (F i) -> Pw (other w) q).
  { intros i pend Hh. destruct (G2 (other w) i pend Hh) as [Lt Nm]. split; [change (nx2 s2) with (next x) in Lt; lia|].
    intros q Hq. destruct (E5 q (F i) Hq) as [Hc|[(a & Ha & Hc)|Hc]].
    - apply Nm. exact Hc.
    - exfalso. apply (Pw_disjoint w a); [apply HT; exact Ha|apply Nm; exact Hc].
    - injection Hc as ->. change (nx2 s2) with (next x) in Lt. lia. }
  assert (G2w : forall i pend, handle x' = Some (i, pend) ->
                  (i < next x')%nat /\ forall q, names x' q = Some (F i) -> Pw w q).
  { intros i pend Hh. destruct (E4 i pend Hh) as [(pend' & Ho)|(p & Hp & Hn)].
    - rewrite Hhx in Ho. destruct (G2 w i pend' Ho) as [Lt Nm]. split; [change (nx2 s2) with (next x) in Lt; lia|].
      intros q Hq. destruct (str_in_dec q (touched o)) as [Hin|Hnin]; [apply HT; exact Hin|].
      apply Nm. rewrite Hnames, <- (E1 q Hnin). exact Hq.
    - split; [exact (proj1 Ix' p i Hn)|]. intros q Hq. rewrite (proj2 Ix' q p i Hq Hn). apply HT. exact Hp. }
  assert (G3' : forall i pend j pend', handle x' = Some (i, pend) -> hd2 s2 (other w) = Some (j, pend') -> i <> j).
  { intros i pend j pend' Hh Ho. destruct (E4 i pend Hh) as [(pend0 & Hold)|(p & Hp & Hn)].
    - rewrite Hhx in Hold. exact (G3 w i pend0 j pend' Hold Ho).
    - intros ->. apply (Pw_disjoint w p); [apply HT; exact Hp|]. apply (proj2 (G2o j pend' Ho)). exact Hn. }
  split; [|split; [|split; [|split]]].
  - (* G *)
    split; [destruct w; exact Ix'|]. split.
    + intros w0 i pend Hh. destruct w, w0; cbn [put hd2 hA hB n2 nx2 Pw] in *;
        first [exact (G2w i pend Hh) | exact (G2o i pend Hh)].
    + intros w0 i pend j pend' Hi Hj. destruct w, w0; cbn [put hd2 hA hB other] in *;
        first [exact (G3' i pend j pend' Hi Hj) | (intros Hc; symmetry in Hc; revert Hc; exact (G3' j pend' i pend Hj Hi))].
  - rewrite as1_put_same. exact Agw'.
  - rewrite as1_put_other. destruct Ago as (A1 & A2 & A3).
    set (z := as1 (other w) s2) in *.
    assert (Hzq : forall q, Pw (other w) q -> ~ Pw w q) by (intros q Hq Hc; exact (Pw_disjoint w q Hc Hq)).
    split; [|split; [|exact A3]].
    + intros q Hq. rewrite (Hlook q _ _ _ (Hzq q Hq)). apply (A1 q Hq).
    + destruct A2 as [[Z1 Z2]|(i & i' & pend & Z1 & Z2 & Z3 & Z4 & Z5)]; [left; split; [exact Z1|exact Z2]|].
      right. exists i, i', pend. cbn [handle data names]. split; [exact Z1|]. split; [exact Z2|]. split; [|split; [exact Z4|]].
      * change (handle z) with (hd2 s2 (other w)) in Z1. destruct (G2 (other w) i pend Z1) as [Lt Nm].
        change (data z i) with (data x i) in Z3. rewrite <- Z3. apply Hkeep.
        -- intros p Hp Hc. apply (Pw_disjoint w p Hp). apply Nm. exact Hc.
        -- exact Lt.
        -- intros pend0 Hc. rewrite Hhx in Hc. exact (G3 w i pend0 i pend Hc Z1 eq_refl).
      * intros q Hq. rewrite (Hnout q (Hzq q Hq)). apply (Z5 q Hq).
  - intros q HqA HqB. rewrite <- (Hfr q HqA HqB). unfold look2.
    assert (Hq : ~ Pw w q) by (destruct w; assumption).
    transitivity (look x q); [|reflexivity].
    destruct w; cbn [put as1 n2 d2 nx2 hd2 fl2 fo2 hA hB fA fB]; apply Hlook; exact Hq.
  - exists f. split; [|exact F2]. destruct w; cbn [put fo2]; exact F1.
Qed.
End TwoCalls.

(* ---------- the lifting theorem ---------- *)
Lemma firstn_S_nth : forall (A : Type) (l : list A) k o, nth_error l k = Some o -> firstn (S k) l = firstn k l ++ [o].
Proof.
  induction l as [|a l IH]; intros k o H; [destruct k; discriminate|].
  destruct k as [|k]; [injection H as ->; reflexivity|]. cbn [nth_error] in H. change (firstn (S (S k)) (a :: l)) with (a :: firstn (S k) l).
  change (firstn (S k) (a :: l)) with (a :: firstn k l). rewrite (IH k o H). reflexivity.
Qed.

Definition upload_names (final : str) (p : str) : Prop := p = final \/ p = final ++ putfile_tmp_ext.

Lemma upload_ops_ok : forall final blocks oc o, In o (upload_ops final blocks oc) ->
  okop o = true /\ forall p, In p (touched o) -> upload_names final p.
Proof.
  intros final blocks oc.
  apply (upload_ops_forall (fun o => okop o = true /\ forall p, In p (touched o) -> upload_names final p) final blocks oc);
    try (intros b); (split; [reflexivity|]); intros p Hp; cbn in Hp; unfold upload_names; intuition (subst; auto).
Qed.

(* EVERY schedule of two uploads whose final names differ and where neither final name is the other's temporary (this is the
   exact guard: the four names final_A, final_A.partial, final_B, final_B.partial are pairwise distinct): the file system
   agrees, on each call's names, with that call run ALONE on the initial state for the same number of operations -- so every
   single-upload theorem (atomic publish, interrupted upload, containment) holds for each of them, and nothing else changes *)
Theorem concurrent_simulation : forall s0 fa ba oca fb bb ocb kA kB l,
  Inv s0 -> failed s0 = false -> handle s0 = None ->
  fa <> fb -> fa <> fb ++ putfile_tmp_ext -> fb <> fa ++ putfile_tmp_ext ->
  sched (upload_ops fa ba oca) (upload_ops fb bb ocb) kA kB l ->
  G (upload_names fa) (upload_names fb) (run2 (lift2 s0) l) /\
  agree (upload_names fa) (as1 WA (run2 (lift2 s0) l)) (run s0 (firstn kA (upload_ops fa ba oca))) /\
  agree (upload_names fb) (as1 WB (run2 (lift2 s0) l)) (run s0 (firstn kB (upload_ops fb bb ocb))) /\
  (forall q, ~ upload_names fa q -> ~ upload_names fb q -> look2 (run2 (lift2 s0) l) q = look s0 q) /\
  fo2 (run2 (lift2 s0) l) = followed (run s0 (firstn kA (upload_ops fa ba oca))) || followed (run s0 (firstn kB (upload_ops fb bb ocb))) || followed s0.
Proof.
  intros s0 fa ba oca fb bb ocb kA kB l HI Hf Hh N1 N2 N3 Hs.
  assert (Hdis : forall p, upload_names fa p -> upload_names fb p -> False).
  { intros p [->| ->] [E|E].
    - exact (N1 E).
    - exact (N2 E).
    - apply N3. symmetry. exact E.
    - apply N1. apply (app_inv_tail _ _ _ E). }
  induction Hs as [|kA kB l o Hs IH Hn|kA kB l o Hs IH Hn].
  - cbn [firstn run run2 fold_left]. split; [|split; [|split; [|split]]].
    + split; [exact HI|]. split; [intros [] i pend H; discriminate|intros [] i pend j pend' H; discriminate].
    + split; [reflexivity|]. split; [left; split; [reflexivity|exact Hh]|symmetry; exact Hf].
    + split; [reflexivity|]. split; [left; split; [reflexivity|exact Hh]|symmetry; exact Hf].
    + reflexivity.
    + cbn. destruct (followed s0); reflexivity.
  - destruct IH as (I1 & I2 & I3 & I4 & I5).
    assert (Ho : In o (upload_ops fa ba oca)) by (eapply nth_error_In; eauto).
    destruct (upload_ops_ok fa ba oca o Ho) as [Hok HT].
    unfold run2 in *. rewrite fold_left_app. cbn [fold_left]. rewrite (firstn_S_nth _ _ _ _ Hn), run_app. cbn [run fold_left].
    destruct (sim_step (upload_names fa) (upload_names fb) Hdis WA _ _ _ s0 o Hok HT I1 (run_inv _ _ HI) I2 I3 I4)
      as (J1 & J2 & J3 & J4 & f & J5 & J6).
    split; [exact J1|]. split; [exact J2|]. split; [exact J3|]. split; [exact J4|].
    rewrite J5, J6, I5.
    destruct (followed (run s0 (firstn kA (upload_ops fa ba oca)))), (followed (run s0 (firstn kB (upload_ops fb bb ocb)))), (followed s0), f; reflexivity.
  - destruct IH as (I1 & I2 & I3 & I4 & I5).
    assert (Ho : In o (upload_ops fb bb ocb)) by (eapply nth_error_In; eauto).
    destruct (upload_ops_ok fb bb ocb o Ho) as [Hok HT].
    unfold run2 in *. rewrite fold_left_app. cbn [fold_left]. rewrite (firstn_S_nth _ _ _ _ Hn), run_app. cbn [run fold_left].
    destruct (sim_step (upload_names fa) (upload_names fb) Hdis WB _ _ _ s0 o Hok HT I1 (run_inv _ _ HI) I3 I2 I4)
      as (J1 & J2 & J3 & J4 & f & J5 & J6).
    split; [exact J1|]. split; [exact J3|]. split; [exact J2|]. split; [exact J4|].
    rewrite J5, J6, I5.
    destruct (followed (run s0 (firstn kA (upload_ops fa ba oca)))), (followed (run s0 (firstn kB (upload_ops fb bb ocb)))), (followed s0), f; reflexivity.
Qed.

(* ... spelled out: after ANY schedule nothing went through a link, each final name shows its old entry or that call's
   complete file, and every name that is not one of the four is untouched *)
Theorem concurrent_distinct_names : forall s0 fa ba oca fb bb ocb kA kB l,
  Inv s0 -> failed s0 = false -> followed s0 = false -> handle s0 = None ->
  fa <> fb -> fa <> fb ++ putfile_tmp_ext -> fb <> fa ++ putfile_tmp_ext ->
  sched (upload_ops fa ba oca) (upload_ops fb bb ocb) kA kB l ->
  fo2 (run2 (lift2 s0) l) = false /\
  (look2 (run2 (lift2 s0) l) fa = look s0 fa \/ (oca = Done /\ look2 (run2 (lift2 s0) l) fa = VFile (concat ba))) /\
  (look2 (run2 (lift2 s0) l) fb = look s0 fb \/ (ocb = Done /\ look2 (run2 (lift2 s0) l) fb = VFile (concat bb))) /\
  (forall q, q <> fa -> q <> fa ++ putfile_tmp_ext -> q <> fb -> q <> fb ++ putfile_tmp_ext ->
     look2 (run2 (lift2 s0) l) q = look s0 q).
Proof.
  intros s0 fa ba oca fb bb ocb kA kB l HI Hf Hfl Hh N1 N2 N3 Hs.
  destruct (concurrent_simulation s0 fa ba oca fb bb ocb kA kB l HI Hf Hh N1 N2 N3 Hs) as (_ & (A1 & _) & (B1 & _) & Fr & Fo).
  destruct (usession s0 fa ba oca kA HI Hf Hfl) as (_ & _ & UA1 & _ & UA3).
  destruct (usession s0 fb bb ocb kB HI Hf Hfl) as (_ & _ & UB1 & _ & UB3).
  split; [rewrite Fo, UA1, UB1, Hfl; reflexivity|]. split; [|split].
  - assert (E : look2 (run2 (lift2 s0) l) fa = look (run s0 (firstn kA (upload_ops fa ba oca))) fa) by (apply A1; left; reflexivity).
    rewrite E. exact UA3.
  - assert (E : look2 (run2 (lift2 s0) l) fb = look (run s0 (firstn kB (upload_ops fb bb ocb))) fb) by (apply (B1 fb); left; reflexivity).
    rewrite E. exact UB3.
  - intros q Q1 Q2 Q3 Q4. apply Fr; intros [X|X]; auto.
Qed.

(* the guard is needed: with fa = fb (same name) the conclusion fails -- concurrent_same_name_refuted is a schedule of two
   complete uploads of one name after which the final name shows neither *)
Example concurrent_guard_example :
  let fa := ex_final in let fb := ex_base ++ [47; 121]%N in
  fa <> fb /\ fa <> fb ++ putfile_tmp_ext /\ fb <> fa ++ putfile_tmp_ext /\ Inv (mk_st [] []) /\ handle (mk_st [] []) = None.
Proof.
  cbv zeta. split; [vm_compute; discriminate|]. split; [vm_compute; discriminate|]. split; [vm_compute; discriminate|].
  split; [split; intros p; intros; discriminate|reflexivity].
Qed.
