(* C04: the producer with HOOKS (calls issued from inside the serialization of a call: lib/Order.v pump_h / issue_h / release_h /
   nrun) against the flat ordering model.  Builds on the re-entrant-send lemmas at the end of lib/OrderProofs.v. *)
From Coq Require Import List Bool Arith ZArith Lia Sorted.
Import ListNotations.
Require Import Verif.gen.OrderGen Verif.lib.Order Verif.lib.OrderProofs.

(* with enough fuel the producer runs to the end of what it can do: more fuel changes nothing *)
Lemma pump_enough f : forall s, List.length (sendq s) < f -> pump f s = pump (S (List.length (sendq s))) s.
Proof.
  induction f as [|f IH]; intros s Hl; [lia|].
  destruct (Nat.eq_dec f (List.length (sendq s))) as [->|Hn]; [reflexivity|].
  rewrite pump_one_more by lia. apply IH. lia.
Qed.

Lemma h_size_cons h r : h_size (h :: r) = List.length (snd h) + h_size r.
Proof. reflexivity. Qed.

Lemma h_size_filter p H : h_size (filter p H) <= h_size H.
Proof.
  induction H as [|x r IH]; [cbn; lia|]. cbn [filter]. destruct (p x); rewrite ?h_size_cons; lia.
Qed.

Lemma h_size_drop k left H : h_size (h_drop k left H) + List.length (h_find k left H) <= h_size H.
Proof.
  unfold h_find, h_drop. induction H as [|h r IH]; [cbn; lia|].
  cbn [find filter]. destruct (h_is k left h) eqn:E; cbn [negb]; rewrite ?h_size_cons.
  - pose proof (h_size_filter (fun h0 => negb (h_is k left h0)) r). lia.
  - lia.
Qed.

Lemma fold_enqueue_cur inner : forall s, cur (fold_left enqueue1 inner s) = cur s.
Proof. induction inner as [|i r IH]; intros s; cbn [fold_left]; [reflexivity|]. rewrite IH. reflexivity. Qed.

Lemma fold_issue1_app a b s : fold_left issue1 (a ++ b) s = fold_left issue1 b (fold_left issue1 a s).
Proof. apply fold_left_app. Qed.

(* THE PRODUCER WITH HOOKS: running it (calls issued from inside the serializations it performs, at their control points) leaves
   the sender where the plain producer followed by those calls, issued one after the other from ordinary code, leaves it *)
Lemma pump_h_flat fuel : forall H s, cur s = None -> List.length (sendq s) + h_size H < fuel ->
  fst (fst (pump_h fuel H s)) = fold_left issue1 (snd (pump_h fuel H s)) (pump (S (List.length (sendq s))) s).
Proof.
  induction fuel as [|f IH]; intros H s Ec Hf; [lia|].
  cbn [pump_h pump]. rewrite Ec, sendq_take.
  destruct (sendq s) as [|c rest] eqn:Eq; [reflexivity|].
  set (inner := h_find (cid c) (stalls c) H). set (H' := h_drop (cid c) (stalls c) H).
  set (s0 := mk (next_id s) rest None (wire s) (inq s) (waiting s) (evq s) (trace s) (lost s) (dropped s) (early s) (cut s)).
  pose proof (h_size_drop (cid c) (stalls c) H) as HS. fold inner H' in HS.
  destruct (stalls c) as [|k] eqn:Es.
  - (* written out at once: the producer goes on *)
    assert (Ew : wrote c (fold_left enqueue1 inner s0) = fold_left enqueue1 inner (wrote c s0)) by apply fold_enqueue_wrote.
    rewrite Ew.
    assert (Ec' : cur (fold_left enqueue1 inner (wrote c s0)) = None).
    { rewrite fold_enqueue_cur. reflexivity. }
    assert (El : List.length (sendq (fold_left enqueue1 inner (wrote c s0))) = List.length rest + List.length inner).
    { rewrite fold_enqueue_len. reflexivity. }
    specialize (IH H' (fold_left enqueue1 inner (wrote c s0)) Ec').
    cbn [List.length] in Hf.
    assert (Hf' : List.length (sendq (fold_left enqueue1 inner (wrote c s0))) + h_size H' < f) by (rewrite El; lia).
    specialize (IH Hf').
    destruct (pump_h f H' (fold_left enqueue1 inner (wrote c s0))) as [[s2 H2] iss]. cbn [fst snd] in IH |- *.
    rewrite IH, El, fold_issue1_app. f_equal.
    pose proof (enqueue_many_then_pump inner (wrote c s0) eq_refl) as P.
    change (sendq (wrote c s0)) with rest in P. rewrite P. f_equal.
  - (* pauses on its first Deferred *)
    cbn [fst snd].
    change (mk (next_id s) rest (Some (c, S k)) (wire s) (inq s) (waiting s) (evq s) (trace s) (lost s) (dropped s) (early s) (cut s))
      with (with_cur (Some (c, S k)) s0).
    rewrite fold_enqueue_with_cur. symmetry. apply (fold_issue_busy inner _ (c, S k)). reflexivity.
Qed.

Theorem issue_h_is_sequence st f H s :
  fst (fst (issue_h st f H s)) = fold_left issue1 (snd (issue_h st f H s)) (issue st f s).
Proof.
  unfold issue_h, issue. rewrite idle_test_before_enqueue.
  destruct (is_none (cur s) && is_nil (sendq s)) eqn:Ei; [|reflexivity].
  apply andb_true_iff in Ei as [E1 E2].
  destruct (cur s) as [p|] eqn:Ec; [discriminate|]. destruct (sendq s) as [|x r] eqn:Eq; [|discriminate].
  rewrite sendq_put. cbn [app List.length].
  set (s1 := mk (S (next_id s)) [ {| cid := next_id s; stalls := st; cfate := f |} ] None (wire s) (inq s) (waiting s) (evq s)
                (trace s) (lost s) (dropped s) (early s) (cut s)).
  apply (pump_h_flat (nfuel H s1) H s1 eq_refl). unfold nfuel. lia.
Qed.

Theorem release_h_is_sequence H s :
  fst (fst (release_h H s)) = fold_left issue1 (snd (release_h H s)) (release s).
Proof.
  unfold release_h, release. destruct (cur s) as [[c n]|] eqn:Ec; [|reflexivity].
  assert (W : forall inner H',
    let s' := wrote c (with_cur None (fold_left enqueue1 inner s)) in
    fst (fst (let '(s2, H2, iss) := pump_h (nfuel H' s') H' s' in (s2, H2, inner ++ iss))) =
    fold_left issue1 (snd (let '(s2, H2, iss) := pump_h (nfuel H' s') H' s' in (s2, H2, inner ++ iss)))
      (pump (S (List.length (sendq s)))
         (mk (next_id s) (sendq s) None (wire s ++ [c]) (inq s) (waiting s) (evq s) (trace s) (lost s) (dropped s) (early s) (cut s)))).
  { intros inner H' s'.
    assert (Es : s' = fold_left enqueue1 inner (wrote c (with_cur None s))).
    { subst s'. rewrite fold_enqueue_with_cur, fold_enqueue_wrote. reflexivity. }
    assert (Ec' : cur s' = None) by (rewrite Es, fold_enqueue_cur; reflexivity).
    pose proof (pump_h_flat (nfuel H' s') H' s' Ec') as P. unfold nfuel in P at 1. specialize (P ltac:(lia)).
    destruct (pump_h (nfuel H' s') H' s') as [[s2 H2] iss]. cbn [fst snd] in P |- *.
    rewrite P, fold_issue1_app. f_equal. rewrite Es, fold_enqueue_len.
    pose proof (enqueue_many_then_pump inner (wrote c (with_cur None s)) eq_refl) as Q.
    change (sendq (wrote c (with_cur None s))) with (sendq s) in Q |- *. exact Q. }
  destruct n as [|[|m]].
  - apply W.
  - apply W.
  - cbn [fst snd].
    change (mk (next_id s) (sendq s) (Some (c, S m)) (wire s) (inq s) (waiting s) (evq s) (trace s) (lost s) (dropped s) (early s) (cut s))
      with (with_cur (Some (c, S m)) s).
    symmetry. apply (fold_issue_busy _ _ (c, S m)). reflexivity.
Qed.

Lemma fold_issue_ops inner : forall s, fold_left step (issue_ops inner) s = fold_left issue1 inner s.
Proof. induction inner as [|i r IH]; intros s; cbn [issue_ops map fold_left]; [reflexivity|]. apply IH. Qed.

Lemma nstep_flat n o : n_state n = run (n_flat n) -> n_state (nstep n o) = run (n_flat (nstep n o)).
Proof.
  intros Hn. unfold run in *.
  destruct o; cbn [nstep]; try (cbn [n_state n_flat]; rewrite fold_left_app, <- Hn; reflexivity).
  - pose proof (issue_h_is_sequence stalls f (n_hooks n) (n_state n)) as P.
    destruct (issue_h stalls f (n_hooks n) (n_state n)) as [[s H] iss]. cbn [fst snd n_state n_flat] in P |- *.
    rewrite fold_left_app, <- Hn. cbn [fold_left step]. rewrite fold_issue_ops. exact P.
  - pose proof (release_h_is_sequence (n_hooks n) (n_state n)) as P.
    destruct (release_h (n_hooks n) (n_state n)) as [[s H] iss]. cbn [fst snd n_state n_flat] in P |- *.
    rewrite fold_left_app, <- Hn. cbn [fold_left step]. rewrite fold_issue_ops. exact P.
Qed.

(* RE-ENTRANT SEND, for every hook table, every history and EVERY state of the sender (idle, paused, with calls queued, with hooked
   calls queued behind a paused one): the history with hooks is the flat history n_flat -- no hypothesis on cur *)
Theorem hooks_run_is_history H ops : n_state (nrun H ops) = run (n_flat (nrun H ops)).
Proof.
  unfold nrun. assert (G : forall ops n, n_state n = run (n_flat n) -> n_state (fold_left nstep ops n) = run (n_flat (fold_left nstep ops n))).
  { clear. induction ops as [|o ops IH]; intros n Hn; cbn [fold_left]; [exact Hn|]. apply IH, nstep_flat, Hn. }
  apply G. reflexivity.
Qed.

(* one more op on top of any history with hooks: the two single-step statements, on every reachable state *)
Theorem reentrant_issue_is_history H ops st f :
  let n := nrun H ops in
  fst (fst (issue_h st f (n_hooks n) (n_state n))) = run (n_flat n ++ Issue st f :: issue_ops (snd (issue_h st f (n_hooks n) (n_state n)))).
Proof.
  intros n. rewrite issue_h_is_sequence. unfold n. rewrite hooks_run_is_history.
  unfold run. rewrite fold_left_app. cbn [fold_left step]. rewrite fold_issue_ops. reflexivity.
Qed.

Theorem reentrant_issue_after_pause_is_history H ops :
  let n := nrun H ops in
  fst (fst (release_h (n_hooks n) (n_state n))) = run (n_flat n ++ StallRelease :: issue_ops (snd (release_h (n_hooks n) (n_state n)))).
Proof.
  intros n. rewrite release_h_is_sequence. unfold n. rewrite hooks_run_is_history.
  unfold run. rewrite fold_left_app. cbn [fold_left step]. rewrite fold_issue_ops. reflexivity.
Qed.

(* the hooks DO run, also on a busy sender: a hooked call that is queued behind a paused one issues its calls when the producer
   gets to it, and they are numbered (and sent) after everything issued meanwhile *)
Theorem hooks_of_a_queued_call_run_when_it_is_dequeued H s c0 c rest :
  cur s = Some (c0, 1) -> h_find (cid c0) 0 H = [] -> sendq s = c :: rest -> stalls c = S (pred (stalls c)) ->
  let H' := h_drop (cid c0) 0 H in
  release_h H s =
    (with_cur (Some (c, stalls c)) (fold_left enqueue1 (h_find (cid c) (stalls c) H') (wrote c0
        (mk (next_id s) rest None (wire s) (inq s) (waiting s) (evq s) (trace s) (lost s) (dropped s) (early s) (cut s)))),
     h_drop (cid c) (stalls c) H', h_find (cid c) (stalls c) H').
Proof.
  intros Ec Eh Eq Es H'. unfold release_h. rewrite Ec, Eh. fold H'. cbn [fold_left app].
  unfold nfuel. cbn [pump_h]. cbn [cur wrote with_cur sendq]. rewrite sendq_take, Eq. rewrite Es. cbn [pred].
  rewrite <- Es. cbn [next_id wire inq waiting evq trace lost dropped early cut].
  reflexivity.
Qed.

(* non-vacuity.  Call 0 pauses; call 1, whose slicer issues two calls as it starts, is queued behind it (BUSY sender) and so is call 2
   from ordinary code; the pause ends: 0 is written, 1 is taken off the queue, its hook issues 3 and 4, 1 pauses; its pause ends and
   its last control point issues 5: everything leaves in issue order, and the flat history is the one a caller would write down *)
Example hooks_example :
  let H := [((1, 1), [(0, FPlain); (0, FPlain)]); ((1, 0), [(0, FPlain)])] in
  let n := nrun H [Issue 1 FPlain; Issue 1 FPlain; Issue 0 FPlain; StallRelease] in
  (ids (wire (n_state n)), cur_ids (n_state n), ids (sendq (n_state n)), h_size (n_hooks n)) = ([0], [1], [2; 3; 4], 1) /\
  n_flat n = [Issue 1 FPlain; Issue 1 FPlain; Issue 0 FPlain; StallRelease; Issue 0 FPlain; Issue 0 FPlain] /\
  let n' := nrun H [Issue 1 FPlain; Issue 1 FPlain; Issue 0 FPlain; StallRelease; StallRelease] in
  (ids (wire (n_state n')), cur_ids (n_state n'), ids (sendq (n_state n')), h_size (n_hooks n')) = ([0; 1; 2; 3; 4; 5], [], [], 0).
Proof. vm_compute. repeat split; reflexivity. Qed.

(* ... on an idle sender the hook runs inside the issuing send() itself *)
Example hooks_example_idle :
  let n := nrun [((0, 1), [(0, FPlain); (1, FPlain)])] [Issue 1 FPlain; Issue 0 FPlain; StallRelease] in
  (ids (wire (n_state n)), cur_ids (n_state n), ids (sendq (n_state n))) = ([0; 1], [2], [3]) /\
  n_flat n = [Issue 1 FPlain; Issue 0 FPlain; Issue 1 FPlain; Issue 0 FPlain; StallRelease].
Proof. vm_compute. split; reflexivity. Qed.

Example hooks_example_entered :
  let H := [((1, 1), [(0, FPlain); (0, FPlain)]); ((1, 0), [(0, FPlain)])] in
  entered (run (n_flat (nrun H [Issue 1 FPlain; Issue 1 FPlain; Issue 0 FPlain; StallRelease; StallRelease]) ++
                [Deliver; Deliver; Deliver; Deliver; Deliver; Deliver; Turn; Turn; Turn; Turn; Turn; Turn])) = [0; 1; 2; 3; 4; 5].
Proof. vm_compute. reflexivity. Qed.
