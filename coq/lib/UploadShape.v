(* C19 -- vocabulary of the shape facts that translate/g_upload.py extracts from the source
   (no proofs, no model: only the types the generated file is written in). *)
From Coq Require Import NArith List.

(* which of the two files of a write-then-rename protocol a statement works on *)
Inductive tgt := Tmp | Final.

(* one recognised file statement, in source order *)
Inductive stepk :=
| SOpen (t : tgt)          (* f = open(t, "w"/"wb") : create or truncate, get a handle *)
| SBlocks (t : tgt)        (* FileUploaderReader: one write per non-empty block, may end in a source error *)
| SDump (t : tgt)          (* json.dump(data, f): write the whole new content *)
| SClose (t : tgt)         (* f.close(): flush *)
| SMove (a b : tgt)        (* os.rename(a, b) / a.moveTo(b) *)
| SMoveRetryAfterUnlink (a b : tgt)  (* try: rename(a, b)  except OSError: (try: remove(b) except OSError: pass); rename(a, b) *)
| SMoveElseUnlink (a b c : tgt)  (* try: a.moveTo(b)  except: (try: os.unlink(c) except OSError: pass); raise *)
| SChmod (t : tgt)
| SUnlink (t : tgt)
| SUnlinkIfLink (t : tgt)    (* if t.islink(): t.remove()   -- lstat: true for every symlink, dangling or not *)
| SUnlinkIfExists (t : tgt). (* if t.exists(): t.remove()   -- stat: FOLLOWS symlinks, false for a dangling one *)

(* is FilePath.child(name) followed by `if child.parent() != dir: raise` before the file is used *)
Inductive guardk := GuardParentEq | NoGuard.

(* is the path that is finally used derived from the validated (normalised) FilePath child, or re-built from the raw
   remote-supplied name (which the kernel resolves physically: "link/../x", "link/" ...) *)
Inductive pathsrc := FromValidated | FromRawName.
