(* C19 -- histories: the services run again and again on the directory the previous incarnation left behind
   (model only, no proofs).

   An incarnation of a service call is the execution of a PREFIX of its operation list (the process is killed / the
   machine is switched off before the k-th operation; k beyond the end = the call runs to completion), or -- for the
   registry -- the k-th system call FAILING with an errno (the statement's own exception handling still runs).  Then the
   process is gone (`reboot`): its open file object is lost together with whatever it had not flushed, the next
   incarnation starts unfailed on the directory as it is, INCLUDING leftovers (`<name>.partial`, `services.json.tmp`).
   Between two incarnations a local actor may put a symbolic link at ANY name that is not a directory (`plant`): the
   pre-existing symlinks of the property's quantifier, made compositional.  A link planted WHILE a call is running is a
   different matter: see `toctou_*` below and UploadHistProofs.concurrent_symlink_refuted. *)
From Coq Require Import NArith List Bool Arith.
Import ListNotations.
Require Import Verif.lib.UploadShape Verif.gen.UploadGen Verif.lib.Paths Verif.lib.Upload.

(* the process is gone: no handle, unflushed data lost; what is on disk stays; a new process is not `failed` *)
Definition reboot (s : st) : st := mkst (names s) (data s) (next s) None false (followed s).

(* a local actor puts a symlink with text t at p, replacing a file or a link (never a directory) *)
Definition plant (s : st) (p t : str) : st :=
  match names s p with
  | Some D => s
  | _ => mkst (upd (names s) p (Some (L t))) (data s) (next s) (handle s) (failed s) (followed s)
  end.

(* ---- upload service ---- *)
Inductive uevent :=
| UUpload (final : str) (blocks : list (list N)) (oc : outcome) (k : nat)
| UPlant (p t : str).

Definition do_uevent (s : st) (e : uevent) : st :=
  match e with
  | UUpload final blocks oc k => reboot (run s (firstn k (upload_ops final blocks oc)))
  | UPlant p t => plant s p t
  end.
Definition uhistory (s : st) (es : list uevent) : st := fold_left do_uevent es s.

(* the temporary names used by the uploads of a history *)
Definition utmps (es : list uevent) : list str :=
  flat_map (fun e => match e with UUpload final _ _ _ => [final ++ putfile_tmp_ext] | UPlant _ _ => [] end) es.

(* the final names of the uploads of a history *)
Definition ufinals (es : list uevent) : list str :=
  flat_map (fun e => match e with UUpload final _ _ _ => [final] | UPlant _ _ => [] end) es.

(* THE GUARD under which the history theorems speak about every final name: no final name of the history is the temporary
   of an upload of the history (`x.partial` uploaded as a file of its own, and `x` uploaded too).  The service does not
   enforce it -- it accepts names that end in the temporary extension --: UploadHistProofs.upload_name_is_temporary_refuted *)
Definition no_name_collision (es : list uevent) : Prop := forall f, In f (ufinals es) -> ~ In f (utmps es).

(* what may legitimately be seen at a name that is not one of those temporaries: the initial entry, a planted link,
   or the COMPLETE content of one of the uploads that were sent under that name *)
Definition uallowed (s0 : st) (es : list uevent) (q : str) (v : view) : Prop :=
  v = look s0 q \/
  (exists t, In (UPlant q t) es /\ v = VLink t) \/
  (exists blocks k, In (UUpload q blocks Done k) es /\ v = VFile (concat blocks)).

(* ---- service registry ---- *)
Inductive revent :=
| RSave (chunks : list (list N)) (k : nat) (fault : bool)   (* fault = false: dies before operation k; true: operation k fails *)
| RPlant (p t : str).

Definition do_revent (basedir : str) (s : st) (e : revent) : st :=
  match e with
  | RSave chunks k false => reboot (run s (firstn k (registry_ops basedir chunks)))
  | RSave chunks k true => reboot (run_fault k s (registry_ops basedir chunks))
  | RPlant p t => plant s p t
  end.
Definition rhistory (basedir : str) (s : st) (es : list revent) : st := fold_left (do_revent basedir) es s.

Definition rallowed (s0 : st) (es : list revent) (q : str) (v : view) : Prop :=
  v = look s0 q \/
  (exists t, In (RPlant q t) es /\ v = VLink t) \/
  (exists chunks k f, In (RSave chunks k f) es /\ v = VFile (concat chunks)).

(* load_service_data: services.json if os.path.exists() says so (a regular file; links are not modelled here), else the
   old-style directory walk *)
Inductive loaded := LoadedJson (text : list N) | LoadedLegacy | LoadFails.
Definition registry_load (s : st) (basedir : str) : loaded :=
  match look s (join basedir registry_load_basename) with
  | VFile c => LoadedJson c
  | VNone => LoadedLegacy
  | _ => LoadFails
  end.

(* ---- paths an operation may REMOVE or MOVE AWAY (directories are never among them in the services), and the
        destinations of its renames ---- *)
Definition movable (o : op) : list str :=
  match o with
  | Rename a _ | RenameRetry a _ => [a]
  | RenameElseUnlink a _ c => [a; c]
  | Unlink p | UnlinkIfExists p => [p]
  | _ => []
  end.
Definition dests (o : op) : list str :=
  match o with
  | Rename _ b | RenameElseUnlink _ b _ | RenameRetry _ b => [b]
  | _ => []
  end.

(* ---- helpers for the correspondence: after every event, the full view of the watched names and the KIND of entry at
        the names in `kinds` (the content of a temporary after a kill depends on what the dying process had flushed) ---- *)
Definition kind_of (v : view) : list N := firstn 1 (code_view v).

Definition code_uevent_views (s0 : st) (es : list uevent) (watch kinds : list str) : list (list N) :=
  flat_map (fun n => let s := uhistory s0 (firstn n es) in
                     [b2n (followed s)] :: map (fun p => code_view (look s p)) watch ++ map (fun p => kind_of (look s p)) kinds)
           (seq 1 (List.length es)).

Definition code_revent_views (basedir : str) (s0 : st) (es : list revent) (watch kinds : list str) : list (list N) :=
  flat_map (fun n => let s := rhistory basedir s0 (firstn n es) in
                     map (fun p => code_view (look s p)) watch ++ map (fun p => kind_of (look s p)) kinds)
           (seq 1 (List.length es)).

(* ---- the read paths that do not go through FilePath.child ----
   LogPublisher.list_incident_names(since) (reached by remote_list_incidents and by IncidentSubscription.catch_up): every
   entry of os.listdir(logdir) that starts with the prefix and does not end in the skipped suffix; its basename is the
   entry with the trimmed suffixes cut off (in that order, each at most once); it is reported -- and its file opened by
   get_incident_trigger -- when basename > since (code-point order = byte order of UTF-8) *)
Definition suffixb (suf s : str) : bool := prefixb (rev suf) (rev s).
Definition trim1 (s suf : str) : str := if suffixb suf s then firstn (List.length s - List.length suf) s else s.
Definition trim (s : str) (sufs : list str) : str := fold_left trim1 sufs s.
Fixpoint str_ltb (a b : str) : bool :=
  match a, b with
  | _, [] => false
  | [], _ :: _ => true
  | x :: a', y :: b' => if N.ltb x y then true else if N.eqb x y then str_ltb a' b' else false
  end.

Definition list_incidents (base : str) (listing : list str) (since : str) : list (str * str) :=
  flat_map (fun fn =>
    if prefixb listing_prefix fn && negb (suffixb listing_skip_suffix fn) then
      let bn := trim fn listing_trim in
      if str_ltb since bn then [(bn, join base fn)] else []
    else []) listing.

(* ---- files that are opened FOR READING: the same `followed` flag, for a read that goes through a symbolic link ----
   (what is read then is the link's target: a file that need not be in the directory).  A read changes nothing in the file
   system.  A read that raises (directory, missing entry) stops the call: `failed`.  What happens AFTER a link was followed
   (the target may be missing: the open raises) is outside the model; the flag is what containment is about. *)
Inductive rop :=
| ROpen (p : str)              (* open(p, "r" | "rb") / BZ2File(p): FOLLOWS a symbolic link at p *)
| ROpenUnlessLink (p : str).   (* the same open behind an lstat test: `if not islink(p): open(p)` resp. `if islink(p): continue | raise`
                                  in front of it -- a link at p is not opened (whether the call then goes on or raises is not observed) *)

Definition mark_followed (s : st) : st := mkst (names s) (data s) (next s) (handle s) (failed s) true.
Definition is_link (s : st) (p : str) : bool := match names s p with Some (L _) => true | _ => false end.

Definition rstep (s : st) (o : rop) : st :=
  if failed s then s else
  match o with
  | ROpen p => match names s p with Some (F _) => s | Some (L _) => mark_followed s | _ => fail s end
  | ROpenUnlessLink p => match names s p with Some (F _) | Some (L _) => s | _ => fail s end
  end.
Definition rrun (s : st) (ops : list rop) : st := fold_left rstep ops s.

(* the open as the source has it: behind the lstat test, or bare (the flags are read off the source by g_upload.py) *)
Definition guarded_read (g : bool) (p : str) : rop := if g then ROpenUnlessLink p else ROpen p.
(* a fresh call on the directory as it is *)
Definition calm (s : st) : st := mkst (names s) (data s) (next s) (handle s) false false.

(* list_incident_names ON A DIRECTORY STATE: with `if os.path.islink(fullname): continue` in front of the yield an entry that
   is a symbolic link is not reported (listing_link_skipped, read off the source); without it, it is *)
Definition list_incidents_at (s : st) (base : str) (listing : list str) (since : str) : list (str * str) :=
  filter (fun np => negb (listing_link_skipped && is_link s (snd np))) (list_incidents base listing since).

(* remote_list_incidents: get_incident_trigger opens every reported file, in the order of the listing.
   (IncidentSubscription.catch_up opens a subset of them -- one per basename -- in sorted order: the theorems are stated for
   EVERY sequence of reads of reported files.) *)
Definition listing_read_ops (s : st) (base : str) (listing : list str) (since : str) : list rop :=
  map (fun np => ROpen (snd np)) (list_incidents_at s base listing since).

(* IncidentObserver.connect: the state file `latest` is read back (and its content sent to the publisher as since=) *)
Definition connect_read_ops (base : str) : list rop := [guarded_read gatherer_state_read_guarded (join base gatherer_latest)].

(* everything IncidentObserver._got_incident writes for one incident: the savefile and the `latest` marker *)
Definition gatherer_writes (cwd base name : str) : option (list str) :=
  option_map (fun q => [q; join base gatherer_latest]) (gatherer_path cwd base name).

(* ---- PHYSICAL containment of the gatherer's writes and the publisher's reads: pre-existing symbolic links AT the names
        that are opened (`<name>.flog.bz2`, `latest`; `<name>.flog[.bz2]`).
   save_incident / update_latest: [if islink(p): unlink(p)] ; f = open(p, "w") ; writes ; f.close() -- whether the bracketed guard
   is there is read off the source (gatherer_save_guarded / gatherer_latest_guarded). *)
Definition file_write_ops (guarded : bool) (p : str) (chunks : list (list N)) : list op :=
  (if guarded then [UnlinkIfLink p] else []) ++ Open p :: map (Write p) chunks ++ [Close p].

(* IncidentObserver._got_incident once the name is accepted: the savefile, then the `latest` marker *)
Definition gatherer_ops (q latest : str) (chunks : list (list N)) (ltext : list N) : list op :=
  file_write_ops gatherer_save_guarded q chunks ++ file_write_ops gatherer_latest_guarded latest [ltext].

Definition gatherer_call (cwd base name : str) (chunks : list (list N)) (ltext : list N) : option (list op) :=
  option_map (fun q => gatherer_ops q (join base gatherer_latest) chunks ltext) (gatherer_path cwd base name).

(* LogPublisher.remote_get_incident: the file that is opened for reading -- the first candidate if os.path.exists() (which
   follows links) says so, else the second -- and whether that open goes THROUGH a symbolic link *)
Definition publisher_opened (s : st) (paths : list str) : option str :=
  match paths with
  | [p1; p2] => Some (if exists_at exists_fuel s p1 then p1 else p2)
  | _ => None
  end.
(* the read of remote_get_incident as an operation list: the selected file, behind `if os.path.islink(fn): raise KeyError`
   or not (publisher_link_refused, read off the source) *)
Definition publisher_read_ops (s : st) (cwd base name : str) : list rop :=
  match publisher_paths cwd base name with
  | Some paths => match publisher_opened s paths with
                  | Some p => [guarded_read publisher_link_refused p]
                  | None => []
                  end
  | None => []
  end.
Definition publisher_reads_through_link (s : st) (cwd base name : str) : bool :=
  followed (rrun (calm s) (publisher_read_ops s cwd base name)).

(* ---- an operating-system operation of an UPLOAD fails (errno) instead of being performed ----
   a failing f.write() raises inside _got_data, which reaches _got_error and hence remote_putfile's _err (that is the
   BadBlock ending after the blocks written so far); every other operation failing raises out of the statement it is in:
   run_fault (the handler of the publishing rename still removes the temporary) *)
Definition upload_fault (k : nat) (s : st) (final : str) (blocks : list (list N)) (oc : outcome) : st :=
  match nth_error (upload_ops final blocks oc) k with
  | Some (Write _ _) => run s (upload_ops final (firstn (k - 2) blocks) BadBlock)
  | _ => run_fault k s (upload_ops final blocks oc)
  end.

Definition upload_fault_views (s : st) (final : str) (blocks : list (list N)) (oc : outcome) : list (list N) :=
  flat_map (fun k => let s' := upload_fault k s final blocks oc in
                     [code_view (look s' final); kind_of (look s' (final ++ putfile_tmp_ext))])
           (seq 0 (List.length (upload_ops final blocks oc))).
