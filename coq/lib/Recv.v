(* The receive tokenizer of Banana.handleData / dataReceived, written once, generically:
   buffering, the 64-byte header cap, skipping of rejected bodies, re-queueing of
   incomplete accepted tokens, abandonment.  What the layers above do with a token
   (discardCount / inOpen / unslicer stack) is a parameter.  Model only. *)
From Coq Require Import ZArith List Bool Lia.
Import ListNotations.
Require Import Verif.lib.PyLite Verif.gen.BananaGen Verif.lib.Token.
Local Open Scope Z_scope.

Section Recv.
Variables ctx ev : Type.

(* verdict when the type byte of a token WITH A BODY (STRING, LONGINT, LONGNEG, FLOAT) has
   arrived.  BAccept is pure by construction: an accepted token whose body is still
   incomplete is pushed back and tasted again on the next chunk. *)
Inductive bres := BAccept | BReject (c : ctx) (es : list ev) | BFatal (es : list ev).
Inductive hres2 := HCont (c : ctx) (es : list ev) | HFatal (es : list ev).

Variable begin_body : ctx -> Z -> Z -> bres.                  (* ctx, type byte, header *)
Variable finish_body : ctx -> Z -> Z -> list Z -> hres2.      (* accepted token with complete body *)
Variable step_nobody : ctx -> Z -> Z -> hres2.                (* every other type byte except ERROR *)
Variable ev_hdr_too_long : list ev.                           (* 65 bytes without a type byte *)
Variable ev_error_oversize : list ev.                         (* ERROR token with header > SIZE_LIMIT *)
Variable ev_error_token : list Z -> list ev.                  (* a complete ERROR token: handleError *)

Record rstate := { r_ctx : ctx; r_buf : list Z; r_skip : Z; r_dead : bool }.

Definition has_body (ty : Z) : bool :=
  (ty =? tok_STRING) || (ty =? tok_LONGINT) || (ty =? tok_LONGNEG) || (ty =? tok_FLOAT).

Definition blen (ty hdr : Z) : Z := if ty =? tok_FLOAT then 8 else hdr.

Inductive tres :=
| TNeed                                               (* wait for more bytes; nothing changed *)
| TSkip (c : ctx) (es : list ev) (n : Z)              (* rejected body: drop what we have, skip n more *)
| TCont (c : ctx) (es : list ev) (rest : list Z)      (* token consumed *)
| TDead (es : list ev).                               (* connection abandoned *)

Definition lenZ {A} (l : list A) : Z := Z.of_nat (List.length l).

(* one pass of the `while len(self.buffer)` loop body on buffer b *)
Definition tok_step (c : ctx) (b : list Z) : tres :=
  match scan_header 64 [] b with
  | HNeed => TNeed
  | HBad => TDead ev_hdr_too_long
  | HOk ds ty rest =>
    let hdr := le128 ds in
    if ty =? tok_ERROR then
      if SIZE_LIMIT <? hdr then TDead ev_error_oversize
      else if lenZ rest <? hdr then TNeed
      else TDead (ev_error_token (firstn (Z.to_nat hdr) rest))
    else if has_body ty then
      let n := blen ty hdr in
      match begin_body c ty hdr with
      | BFatal es => TDead es
      | BAccept =>
        if lenZ rest <? n then TNeed
        else match finish_body c ty hdr (firstn (Z.to_nat n) rest) with
             | HCont c' es => TCont c' es (skipn (Z.to_nat n) rest)
             | HFatal es => TDead es
             end
      | BReject c' es =>
        if lenZ rest <? n then TSkip c' es (n - lenZ rest)
        else TCont c' es (skipn (Z.to_nat n) rest)
      end
    else match step_nobody c ty hdr with
         | HCont c' es => TCont c' es rest
         | HFatal es => TDead es
         end
  end.

Definition mk (c : ctx) (b : list Z) (s : Z) (d : bool) := {| r_ctx := c; r_buf := b; r_skip := s; r_dead := d |}.

Fixpoint loop (fuel : nat) (c : ctx) (b : list Z) : rstate * list ev :=
  match fuel with
  | O => (mk c b 0 false, [])          (* unreachable with fuel > length b *)
  | S f =>
    match b with
    | [] => (mk c [] 0 false, [])
    | _ =>
      match tok_step c b with
      | TNeed => (mk c b 0 false, [])
      | TSkip c' es n => (mk c' [] n false, es)
      | TCont c' es rest => let '(s, es') := loop f c' rest in (s, es ++ es')
      | TDead es => (mk c [] 0 true, es)
      end
    end
  end.

(* Banana.dataReceived + handleData for one chunk *)
Definition feed (s : rstate) (chunk : list Z) : rstate * list ev :=
  if r_dead s then (s, [])
  else if (0 <? r_skip s) && (lenZ chunk <=? r_skip s)
       then (mk (r_ctx s) (r_buf s) (r_skip s - lenZ chunk) false, [])
       else let b := r_buf s ++ skipn (Z.to_nat (r_skip s)) chunk in
            loop (S (List.length b)) (r_ctx s) b.

Fixpoint feed_all (s : rstate) (cs : list (list Z)) : rstate * list ev :=
  match cs with
  | [] => (s, [])
  | c :: r => let '(s1, e1) := feed s c in let '(s2, e2) := feed_all s1 r in (s2, e1 ++ e2)
  end.

Definition init (c : ctx) : rstate := mk c [] 0 false.

(* the specification: the whole byte string processed in one pass *)
Definition run (c : ctx) (bytes : list Z) : rstate * list ev := feed (init c) bytes.

End Recv.

Arguments BAccept {ctx ev}.
Arguments BReject {ctx ev} c es.
Arguments BFatal {ctx ev} es.
Arguments HCont {ctx ev} c es.
Arguments HFatal {ctx ev} es.
Arguments r_ctx {ctx}.
Arguments r_buf {ctx}.
Arguments r_skip {ctx}.
Arguments r_dead {ctx}.
Arguments mk {ctx}.
Arguments init {ctx}.
