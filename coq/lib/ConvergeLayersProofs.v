From Coq Require Import ZArith List Bool Arith Lia.
Import ListNotations.
Require Import Verif.lib.PyLite Verif.gen.ConvergeGen Verif.lib.ConvergeLayers.

(* ------------------------------------------------------------------ (a) offers *)
Definition oinv (rec : nat -> Z * Z) (s : ost) : Prop :=
  o_priv s = map rec (o_tgts s) /\
  (forall n c, In (n, c) (o_out s) -> exists tgt, nth_error (o_tgts s) n = Some tgt /\ c = rec tgt).

Lemma ostep_inv rec s e : oinv rec s -> oinv rec (ostep true rec s e).
Proof.
  intros [Hp Ho]. destruct e as [tgt|n]; cbn [ostep].
  - split; cbn [o_priv o_tgts o_out]; [rewrite map_app, Hp; reflexivity|].
    intros n c H. destruct (Ho n c H) as (t & Ht & Hc). exists t. split; [|exact Hc].
    rewrite nth_error_app1; [exact Ht|]. apply nth_error_Some. congruence.
  - destruct (nth_error (o_priv s) n) as [r|] eqn:En; [|split; assumption].
    split; cbn [o_priv o_tgts o_out]; [exact Hp|]. intros n' c H. apply in_app_or in H as [H|[H|[]]]; [apply Ho, H|].
    inversion H; subst n' c. rewrite Hp in En. rewrite nth_error_map in En.
    destruct (nth_error (o_tgts s) n) as [t|]; [|discriminate]. cbn in En. inversion En. exists t. auto.
Qed.

(* with a dict per Negotiation, every hello carries the record of ITS OWN target, however the set-up of other outbound
   negotiations (more hints, another peer) is interleaved with it *)
Theorem hello_carries_own_record_for fresh rec evs n c :
  fresh = true -> In (n, c) (o_out (orun fresh rec evs)) ->
  exists tgt, nth_error (o_tgts (orun fresh rec evs)) n = Some tgt /\ c = rec tgt.
Proof.
  intros -> H. assert (G : forall l s, oinv rec s -> oinv rec (fold_left (ostep true rec) l s)).
  { induction l as [|e l IH]; intros s Hs; cbn [fold_left]; [exact Hs|apply IH, ostep_inv, Hs]. }
  destruct (G evs oinit) as [_ Ho]; [split; [reflexivity|intros ? ? []]|]. apply Ho, H.
Qed.

(* ... which is what the code does (translated) *)
Theorem hello_carries_own_record rec evs n c :
  In (n, c) (o_out (orun offer_dict_fresh rec evs)) ->
  exists tgt, nth_error (o_tgts (orun offer_dict_fresh rec evs)) n = Some tgt /\ c = rec tgt.
Proof. apply hello_carries_own_record_for. reflexivity. Qed.

(* with one shared dict it is false: initClient(A->B), initClient(A->C), sendHello(A->B) *)
Theorem shared_offer_refuted :
  exists rec evs n c, In (n, c) (o_out (orun false rec evs)) /\
    nth_error (o_tgts (orun false rec evs)) n = Some 0 /\ c <> rec 0.
Proof.
  exists (fun t => if Nat.eqb t 0 then (1, 3)%Z else (0, 0)%Z), [ONew 0; ONew 1; OSend 0], 0, (0, 0)%Z.
  cbn. split; [left; reflexivity|]. split; [reflexivity|discriminate].
Qed.

(* ------------------------------------------------------------------ (b) prestart *)
Lemma nin_In x l : nin x l = true <-> In x l.
Proof.
  unfold nin. rewrite existsb_exists. split.
  - intros (y & Hy & E). apply Nat.eqb_eq in E. subst. exact Hy.
  - intros H. exists x. split; [exact H|apply Nat.eqb_refl].
Qed.

Definition pinv (s : pst) : Prop :=
  NoDup (map fst (p_inner s)) /\
  NoDup (map snd (p_inner s) ++ p_queue s) /\
  (forall o, o < p_no s <-> In o (map snd (p_inner s) ++ p_queue s)) /\
  (forall w, In w (map fst (p_inner s)) -> w < p_nw s) /\
  (forall w o, In (w, o) (p_inner s) -> (In w (p_answered s) <-> In o (p_fired s))) /\
  NoDup (p_fired s) /\
  (p_running s = true -> p_queue s = []) /\
  (forall w, In w (p_answered s) -> In w (map fst (p_inner s))) /\
  (forall o, In o (p_fired s) -> In o (map snd (p_inner s))).

Lemma NoDup_fst_inj (l : list (nat * nat)) w o o' : NoDup (map fst l) -> In (w, o) l -> In (w, o') l -> o = o'.
Proof.
  induction l as [|[a b] l IH]; intros Hn H1 H2; [destruct H1|]. cbn in Hn. inversion Hn as [|? ? Hx Hn']; subst.
  destruct H1 as [H1|H1], H2 as [H2|H2].
  - congruence.
  - inversion H1; subst. exfalso. apply Hx. apply in_map_iff. exists (w, o'). auto.
  - inversion H2; subst. exfalso. apply Hx. apply in_map_iff. exists (w, o). auto.
  - apply IH; assumption.
Qed.
Lemma NoDup_snd_inj (l : list (nat * nat)) w w' o : NoDup (map snd l) -> In (w, o) l -> In (w', o) l -> w = w'.
Proof.
  induction l as [|[a b] l IH]; intros Hn H1 H2; [destruct H1|]. cbn in Hn. inversion Hn as [|? ? Hx Hn']; subst.
  destruct H1 as [H1|H1], H2 as [H2|H2].
  - congruence.
  - inversion H1; subst. exfalso. apply Hx. apply in_map_iff. exists (w', o). auto.
  - inversion H2; subst. exfalso. apply Hx. apply in_map_iff. exists (w, o). auto.
  - apply IH; assumption.
Qed.
Lemma combine_fst (a b : list nat) : List.length a = List.length b -> map fst (combine a b) = a.
Proof. revert b. induction a as [|x a IH]; intros [|y b] H; cbn in *; try discriminate; [reflexivity|]. f_equal. apply IH. lia. Qed.
Lemma combine_snd (a b : list nat) : List.length a = List.length b -> map snd (combine a b) = b.
Proof. revert b. induction a as [|x a IH]; intros [|y b] H; cbn in *; try discriminate; [reflexivity|]. f_equal. apply IH. lia. Qed.
Lemma NoDup_app_intro {A} (l1 l2 : list A) : NoDup l1 -> NoDup l2 -> (forall x, In x l1 -> ~ In x l2) -> NoDup (l1 ++ l2).
Proof.
  induction l1 as [|a l1 IH]; intros H1 H2 Hd; [exact H2|]. cbn. inversion H1; subst. constructor.
  - intros H. apply in_app_or in H as [H|H]; [contradiction|]. apply (Hd a); [left; reflexivity|exact H].
  - apply IH; [assumption|assumption|]. intros x Hx. apply Hd. right. exact Hx.
Qed.
Lemma NoDup_app_l {A} (l1 l2 : list A) : NoDup (l1 ++ l2) -> NoDup l1.
Proof.
  induction l1 as [|a l1 IH]; intros H; [constructor|]. cbn in H. inversion H as [|? ? Hx Hn]; subst.
  constructor; [intros C; apply Hx, in_or_app; left; exact C|apply IH; assumption].
Qed.
Lemma NoDup_snoc {A} (l : list A) x : NoDup l -> ~ In x l -> NoDup (l ++ [x]).
Proof. intros H Hx. apply NoDup_app_intro; [exact H|constructor; [intros []|constructor]|]. intros y Hy [E|[]]. subst. contradiction. Qed.

Lemma pstep_inv s e : pinv s -> pinv (pstep true s e).
Proof.
  intros (I1 & I2 & I3 & I4 & I5 & I6 & I7 & I8 & I9). destruct e as [| |w]; cbn [pstep].
  - destruct (p_running s) eqn:Er.
    + specialize (I7 eq_refl). rewrite I7 in *. rewrite app_nil_r in *.
      unfold pinv. cbn [p_inner p_queue p_no p_nw p_answered p_fired p_running]. rewrite !map_app, app_nil_r. cbn [map fst snd].
      split; [apply NoDup_snoc; [exact I1|intros H; apply I4 in H; lia]|].
      split; [apply NoDup_snoc; [exact I2|intros H; apply I3 in H; lia]|].
      split; [intros o; rewrite in_app_iff; cbn; rewrite <- I3; lia|].
      split; [intros w Hw; apply in_app_or in Hw as [Hw|[<-|[]]]; [apply I4 in Hw; lia|lia]|].
      split.
      { intros w o Hw. apply in_app_or in Hw as [Hw|[Hw|[]]]; [apply I5, Hw|]. inversion Hw; subst. split; intros H; exfalso.
        - apply I8, I4 in H. lia.
        - apply I9, I3 in H. lia. }
      split; [exact I6|]. split; [reflexivity|]. split; [intros w Hw; apply in_or_app; left; apply I8, Hw|].
      intros o Ho. apply in_or_app. left. apply I9, Ho.
    + unfold pinv. cbn [p_inner p_queue p_no p_nw p_answered p_fired p_running].
      split; [exact I1|]. split; [rewrite app_assoc; apply NoDup_snoc; [exact I2|intros H; apply I3 in H; lia]|].
      split; [intros o; rewrite app_assoc, in_app_iff; cbn; rewrite <- I3; lia|].
      split; [exact I4|]. split; [exact I5|]. split; [exact I6|]. split; [discriminate|]. split; assumption.
  - destruct (p_running s) eqn:Er; [unfold pinv; rewrite Er; auto 12|].
    set (q := p_queue s) in *.
    assert (Etg : map (fun o : nat => o) q = q) by apply map_id.
    unfold pinv. cbn [p_inner p_queue p_no p_nw p_answered p_fired p_running]. rewrite Etg, !map_app.
    rewrite combine_fst by (rewrite seq_length; reflexivity). rewrite combine_snd by (rewrite seq_length; reflexivity).
    rewrite app_nil_r.
    split.
    { apply NoDup_app_intro; [exact I1|apply seq_NoDup|]. intros x Hx Hs. apply I4 in Hx. apply in_seq in Hs. lia. }
    split; [exact I2|]. split; [exact I3|].
    split; [intros w Hw; apply in_app_or in Hw as [Hw|Hw]; [apply I4 in Hw; lia|apply in_seq in Hw; lia]|].
    split.
    { intros w o Hw. apply in_app_or in Hw as [Hw|Hw]; [apply I5, Hw|].
      pose proof (in_combine_l _ _ _ _ Hw) as Hl. pose proof (in_combine_r _ _ _ _ Hw) as Hr. apply in_seq in Hl.
      split; intros H; exfalso.
      - apply I8, I4 in H. lia.
      - apply I9 in H. clear - I2 H Hr. induction (map snd (p_inner s)) as [|a l IH]; [destruct H|].
        cbn in I2. inversion I2 as [|? ? Hx Hn]; subst. destruct H as [<-|H]; [apply Hx, in_or_app; right; exact Hr|apply IH; assumption]. }
    split; [exact I6|]. split; [reflexivity|]. split; [intros w Hw; apply in_or_app; left; apply I8, Hw|].
    intros o Ho. apply in_or_app. left. apply I9, Ho.
  - destruct (nin w (p_answered s)) eqn:Ea; [unfold pinv; auto 12|].
    destruct (find (fun p : nat * nat => Nat.eqb (fst p) w) (p_inner s)) as [[w0 o]|] eqn:Ef; [|unfold pinv; auto 12].
    apply find_some in Ef as [Hin Ew]. cbn in Ew. apply Nat.eqb_eq in Ew. subst w0.
    assert (Hna : ~ In w (p_answered s)) by (intros H; apply nin_In in H; congruence).
    assert (Hnf : ~ In o (p_fired s)) by (intros H; apply Hna, (I5 w o Hin), H).
    assert (Ef' : nin o (p_fired s) = false) by (destruct (nin o (p_fired s)) eqn:E; [apply nin_In in E; contradiction|reflexivity]).
    rewrite Ef'. unfold pinv. cbn [p_inner p_queue p_no p_nw p_answered p_fired p_running].
    split; [exact I1|]. split; [exact I2|]. split; [exact I3|]. split; [exact I4|].
    split.
    { intros w' o' H'. rewrite !in_app_iff. cbn. destruct (Nat.eq_dec w' w) as [->|Hne].
      - rewrite (NoDup_fst_inj _ _ _ _ I1 H' Hin). tauto.
      - destruct (Nat.eq_dec o' o) as [->|Hno].
        + exfalso. apply Hne. apply (NoDup_snd_inj _ _ _ _ (NoDup_app_l _ _ I2) H' Hin).
        + rewrite (I5 w' o' H'). split; intros [H|[H|[]]]; auto; congruence. }
    split; [apply NoDup_snoc; assumption|]. split; [exact I7|].
    split; [intros w' Hw; apply in_app_or in Hw as [Hw|[<-|[]]]; [apply I8, Hw|apply in_map_iff; exists (w, o); auto]|].
    intros o' Ho. apply in_app_or in Ho as [Ho|[<-|[]]]; [apply I9, Ho|apply in_map_iff; exists (w, o); auto].
Qed.

Lemma prun_inv evs : pinv (prun true evs).
Proof.
  unfold prun. assert (G : forall l s, pinv s -> pinv (fold_left (pstep true) l s)).
  { induction l as [|e l IH]; intros s Hs; cbn [fold_left]; [exact Hs|apply IH, pstep_inv, Hs]. }
  apply G. unfold pinv, pinit. cbn. repeat split; try constructor; try (intros; lia); try (intros []); try (intros ? []); auto.
Qed.

(* with the relay bound per iteration: every Deferred handed out by getReference -- queued before the start or not --
   is still queued (Tub not started) or has exactly ONE lookup of its own, and is fired exactly when that lookup is
   answered; no Deferred fires twice *)
Theorem each_deferred_has_its_own_lookup_for binds evs o :
  binds = true -> let s := prun binds evs in
  o < p_no s ->
  NoDup (p_fired s) /\
  ((In o (p_queue s) /\ p_running s = false) \/
   exists w, In (w, o) (p_inner s) /\ (forall w', In (w', o) (p_inner s) -> w' = w) /\ (In w (p_answered s) <-> In o (p_fired s))).
Proof.
  intros -> s Ho. destruct (prun_inv evs) as (I1 & I2 & I3 & I4 & I5 & I6 & I7 & I8 & I9). fold s in I1, I2, I3, I4, I5, I6, I7, I8, I9.
  split; [exact I6|]. apply I3 in Ho. apply in_app_or in Ho as [Ho|Ho].
  - right. apply in_map_iff in Ho as ([w o'] & E & Hin). cbn in E. subst o'. exists w. split; [exact Hin|]. split; [|apply I5, Hin].
    intros w' H'. apply (NoDup_snd_inj _ _ _ _ (NoDup_app_l _ _ I2) H' Hin).
  - left. split; [exact Ho|]. destruct (p_running s) eqn:Er; [|reflexivity]. rewrite (I7 eq_refl) in Ho. destruct Ho.
Qed.

Theorem each_deferred_has_its_own_lookup evs o :
  let s := prun relay_binds_own_deferred evs in
  o < p_no s ->
  NoDup (p_fired s) /\
  ((In o (p_queue s) /\ p_running s = false) \/
   exists w, In (w, o) (p_inner s) /\ (forall w', In (w', o) (p_inner s) -> w' = w) /\ (In w (p_answered s) <-> In o (p_fired s))).
Proof. apply each_deferred_has_its_own_lookup_for. reflexivity. Qed.

(* read late (the failure shape of a lambda without the default argument): two queued lookups, both answered, the
   first caller's Deferred never fires *)
Theorem late_binding_refuted :
  let s := prun false [PGet; PGet; PStart; PAnswer 0; PAnswer 1] in
  p_answered s = [0; 1] /\ p_fired s = [1] /\ ~ In 0 (p_fired s).
Proof. cbn. split; [reflexivity|]. split; [reflexivity|]. intros [H|[]]. discriminate. Qed.

Example prestart_example :
  let s := prun true [PGet; PGet; PStart; PGet; PAnswer 1; PAnswer 0] in
  p_inner s = [(0, 0); (1, 1); (2, 2)] /\ p_fired s = [1; 0] /\ p_queue s = [].
Proof. cbn. auto. Qed.
