(* C13: model of the negotiation decision (negotiate.py: evaluateHello,
   evaluateNegotiationVersion1, acceptDecision, acceptDecisionVersion1), built on
   the TRANSLATED best_overlap / check_inrange / master_cmp of gen/NegotiateGen.v. *)
From Coq Require Import ZArith List String Bool Lia.
Import ListNotations.
Require Import Verif.lib.PyLite Verif.gen.NegotiateGen.
Local Open Scope Z_scope.

(* ---- tub ids are native strings compared with Python's < / > : lexicographic on code points *)
Fixpoint str_ltb (a b : list Z) : bool :=
  match a, b with
  | [], [] => false
  | [], _ :: _ => true
  | _ :: _, [] => false
  | x :: a', y :: b' => if x <? y then true else if y <? x then false else str_ltb a' b'
  end.

Definition cmp_eval (op : cmpop) (a b : list Z) : bool :=
  match op with
  | CmpGt => str_ltb b a
  | CmpLt => str_ltb a b
  | CmpGe => negb (str_ltb a b)
  | CmpLe => negb (str_ltb b a)
  | CmpEq => list_eqb a b
  | CmpNe => negb (list_eqb a b)
  end.

(* `iAmTheMaster = myTubID > theirTubID`, operator read from the source *)
Definition i_am_master (my their : list Z) : bool := cmp_eval master_cmp my their.

Record endpoint := {
  ep_id : list Z;
  ep_vmin : Z; ep_vmax : Z;           (* minVersion, maxVersion *)
  ep_vocmin : Z; ep_vocmax : Z;       (* initialVocabTableRange *)
  ep_hash : Z -> Z;                   (* hashVocabTable on this endpoint's tables *)
  ep_accepts : Z -> bool              (* hasattr(self, "acceptDecisionVersion%d") *)
}.

Record params := { p_version : Z; p_vocab : Z }.

Inductive outcome := Banana (p : params) | Failed (why : string).

Record decision := { d_version : Z; d_vocab : Z; d_hash : Z }.

(* what one side computes on receipt of the other's hello (evaluateHello):
   the version both will use, or NegotiationError *)
Definition eval_hello (me peer : endpoint) : res Z :=
  best_overlap (ep_vmin me) (ep_vmax me) (ep_vmin peer) (ep_vmax peer).

(* master side of evaluateNegotiationVersion1 *)
Definition master_decide (me peer : endpoint) : res decision :=
  match eval_hello me peer with
  | Exc t => Exc t
  | Ok ver =>
    match best_overlap (ep_vocmin me) (ep_vocmax me) (ep_vocmin peer) (ep_vocmax peer) with
    | Exc t => Exc t
    | Ok idx => Ok {| d_version := ver; d_vocab := idx; d_hash := ep_hash me idx |}
    end
  end.

(* non-master side: acceptDecision + acceptDecisionVersion1 *)
Definition slave_accept (me : endpoint) (d : decision) : res params :=
  if negb (ep_accepts me (d_version d)) then Exc "AttributeError"
  else match check_inrange (ep_vocmin me) (ep_vocmax me) (d_vocab d) with
       | Exc t => Exc t
       | Ok _ =>
         if (hash_checked_from_index <=? d_vocab d) && negb (ep_hash me (d_vocab d) =? d_hash d)
         then Exc "NegotiationError"
         else Ok {| p_version := d_version d; p_vocab := d_vocab d |}
       end.

Definition out_of {T} (r : res T) (f : T -> params) : outcome :=
  match r with Ok v => Banana (f v) | Exc t => Failed t end.

(* one connection between a and b.  Both evaluate the other's hello; exactly the
   master decides and sends the decision (or an error block, after which it hangs
   up and the other side fails with RemoteNegotiationError / connection lost). *)
Definition negotiate (a b : endpoint) : outcome * outcome :=
  let run (m s : endpoint) : outcome * outcome :=   (* m is master *)
    match eval_hello s m with
    | Exc t => (Failed "peer-hung-up", Failed t)     (* the slave itself refuses the hello *)
    | Ok _ =>
      match master_decide m s with
      | Exc t => (Failed t, Failed "RemoteNegotiationError")
      | Ok d =>
        match slave_accept s d with
        | Exc t => (Failed "peer-hung-up", Failed t)
        | Ok p => (Banana {| p_version := d_version d; p_vocab := d_vocab d |}, Banana p)
        end
      end
    end in
  if i_am_master (ep_id a) (ep_id b) then run a b
  else if i_am_master (ep_id b) (ep_id a) then let '(ob, oa) := run b a in (oa, ob)
  else (Failed "no-master", Failed "no-master").

Definition masters (a b : endpoint) : nat :=
  (if i_am_master (ep_id a) (ep_id b) then 1 else 0) + (if i_am_master (ep_id b) (ep_id a) then 1 else 0).

