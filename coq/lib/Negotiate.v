(* C13: model of the negotiation decision (negotiate.py: evaluateHello,
   evaluateNegotiationVersion1, acceptDecision, acceptDecisionVersion1), built on
   the TRANSLATED best_overlap / check_inrange / master_cmp of gen/NegotiateGen.v. *)
From Coq Require Import ZArith List String Bool Lia.
Import ListNotations.
Require Import Verif.lib.PyLite Verif.gen.NegotiateGen.
Local Open Scope Z_scope.

(* ---- tub ids are native strings compared with Python's < / > : lexicographic on code points *)
Fixpoint str_ltb (a b : list Z) : bool :=
  match a, b with
  | [], [] => false
  | [], _ :: _ => true
  | _ :: _, [] => false
  | x :: a', y :: b' => if x <? y then true else if y <? x then false else str_ltb a' b'
  end.

Definition cmp_eval (op : cmpop) (a b : list Z) : bool :=
  match op with
  | CmpGt => str_ltb b a
  | CmpLt => str_ltb a b
  | CmpGe => negb (str_ltb a b)
  | CmpLe => negb (str_ltb b a)
  | CmpEq => list_eqb a b
  | CmpNe => negb (list_eqb a b)
  end.

(* `iAmTheMaster = myTubID > theirTubID`, operator read from the source *)
Definition i_am_master (my their : list Z) : bool := cmp_eval master_cmp my their.

Record endpoint := {
  ep_id : list Z;
  ep_vmin : Z; ep_vmax : Z;           (* minVersion, maxVersion *)
  ep_vocmin : Z; ep_vocmax : Z;       (* initialVocabTableRange *)
  ep_hash : Z -> Z;                   (* hashVocabTable on this endpoint's tables *)
  ep_accepts : Z -> bool              (* hasattr(self, "acceptDecisionVersion%d") *)
}.

Record params := { p_version : Z; p_vocab : Z }.

(* what one end of one connection attempt comes to:
     Banana p          -- it switched to the RPC protocol (created its Broker) with p and the connection stands;
     Failed why        -- it abandoned the attempt BEFORE switching: negotiationFailed(why), no Broker was created;
     SwitchedThenLost p -- it switched to the RPC protocol with p (Broker created, attached to the Tub) and THEN the peer
                          hung up: this end never sees a negotiation error, its Broker sees connectionLost and whoever waits
                          on it gets DeadReferenceError / ConnectionLost.  Only the decider can end here: sendDecision does
                          sendBlock(decision); send_phase = BANANA; switchToBanana(params) without waiting for the other end
                          (the version-1 protocol has no acknowledgement of the decision). *)
Inductive outcome := Banana (p : params) | Failed (why : string) | SwitchedThenLost (p : params).

Record decision := { d_version : Z; d_vocab : Z; d_hash : Z }.

(* what one side computes on receipt of the other's hello (evaluateHello):
   the version both will use, or NegotiationError *)
Definition eval_hello (me peer : endpoint) : res Z :=
  best_overlap (ep_vmin me) (ep_vmax me) (ep_vmin peer) (ep_vmax peer).

(* master side of evaluateNegotiationVersion1 *)
Definition master_decide (me peer : endpoint) : res decision :=
  match eval_hello me peer with
  | Exc t => Exc t
  | Ok ver =>
    match best_overlap (ep_vocmin me) (ep_vocmax me) (ep_vocmin peer) (ep_vocmax peer) with
    | Exc t => Exc t
    | Ok idx => Ok {| d_version := ver; d_vocab := idx; d_hash := ep_hash me idx |}
    end
  end.

(* non-master side: acceptDecision + acceptDecisionVersion1 *)
Definition slave_accept (me : endpoint) (d : decision) : res params :=
  if negb (ep_accepts me (d_version d)) then Exc "AttributeError"
  else match check_inrange (ep_vocmin me) (ep_vocmax me) (d_vocab d) with
       | Exc t => Exc t
       | Ok _ =>
         if (hash_checked_from_index <=? d_vocab d) && negb (ep_hash me (d_vocab d) =? d_hash d)
         then Exc "NegotiationError"
         else Ok {| p_version := d_version d; p_vocab := d_vocab d |}
       end.

Definition out_of {T} (r : res T) (f : T -> params) : outcome :=
  match r with Ok v => Banana (f v) | Exc t => Failed t end.

Definition params_of (d : decision) : params := {| p_version := d_version d; p_vocab := d_vocab d |}.

(* one connection between the decider m and the other end s.  Both hellos are sent when the ENCRYPTED phase is entered and each
   end handles the peer's hello when it arrives, independently of what the peer makes of its own (the link is FIFO: a hello always
   precedes the error or decision block of the same sender):
     s: evaluateHello; a refusal ends s with that error (error block sent, connection dropped); otherwise s waits for the decision;
     m: evaluateHello + evaluateNegotiationVersion1; a refusal ends m with that error, and s -- if it still waits -- reads m's error
        block as RemoteNegotiationError; otherwise m SENDS THE DECISION AND SWITCHES AT ONCE (sendDecision).  If s then refuses
        the decision (or had already refused the hello) s abandons with its error, and m, which has a Broker, only loses the
        connection. *)
Definition run (m s : endpoint) : outcome * outcome :=
  match master_decide m s with
  | Exc tm => (Failed tm, match eval_hello s m with Exc ts => Failed ts | Ok _ => Failed "RemoteNegotiationError" end)
  | Ok d =>
    match eval_hello s m with
    | Exc ts => (SwitchedThenLost (params_of d), Failed ts)
    | Ok _ =>
      match slave_accept s d with
      | Exc t => (SwitchedThenLost (params_of d), Failed t)
      | Ok p => (Banana (params_of d), Banana p)
      end
    end
  end.

Definition swap {A B} (x : A * B) : B * A := (snd x, fst x).

(* one connection between a and b: exactly the end with the greater id runs as decider; with equal ids nobody decides, both wait
   and the attempt ends by the negotiation timeout *)
Definition negotiate (a b : endpoint) : outcome * outcome :=
  if i_am_master (ep_id a) (ep_id b) then run a b
  else if i_am_master (ep_id b) (ep_id a) then swap (run b a)
  else (Failed "no-master", Failed "no-master").

Definition masters (a b : endpoint) : nat :=
  (if i_am_master (ep_id a) (ep_id b) then 1 else 0) + (if i_am_master (ep_id b) (ep_id a) then 1 else 0).

