(* C16 -- the Tub side: a Tub and ALL the Reconnectors it created (definitions only).

   Tub.connectTo, the Reconnector parts of Tub.startService / Tub.stopService and Tub._removeReconnector are NOT
   written here: they are m_tub_* of gen/ReconnectorGen.v, translated from pb.py on every run.  This file adds the
   dispatcher: which Tub method an event calls, the eventual queue delivering the queued startConnecting calls, and
   the events of the individual Reconnectors (lib/Reconnector.v) running inside the Tub, where every
   self._tub._removeReconnector(self) they make really edits the Tub's list (and raises if the entry is gone).

   Events
     TConnectTo      tub.connectTo(furl, cb): creates Reconnector number (length t_rcs)
     TStartService   tub.startService()
     TStopService    tub.stopService()
     TTurn           the eventual queue delivers the oldest queued rc.startConnecting(tub)
     TRc i e         event e (anything but Start) of Reconnector i: a Deferred / watcher / timer of it fires, or
                     the user calls its reset() / stopConnecting()

   `tenabled` = what the API permits: connectTo and startService raise once stopService ran (rebound to
   _tubHasBeenShutDown / _tubsAreNotRestartable); startService at most once; stopService asserts self.running and
   is called at most once; startConnecting is NEVER an event of its own -- whether it is called at most once per
   Reconnector is now a theorem about the translated Tub methods (ReconnectorTubProofs.tub_refines), no longer an
   assumption. *)
From Coq Require Import QArith List Bool Arith.
Import ListNotations.
Require Import Verif.lib.ReconnectorBase Verif.gen.ReconnectorGen Verif.lib.Reconnector.

Inductive tevent := TConnectTo | TStartService | TStopService | TTurn | TRc (i : nat) (e : event).

(* Reconnector i of the Tub; one that has not been created yet is in the state __init__ will leave it in *)
Definition rc_at (t : tub_st) (i : nat) : st := nth i (t_rcs t) init_state.

Definition is_start (e : event) : bool := match e with Start => true | _ => false end.

Definition tenabled (t : tub_st) (e : tevent) : bool :=
  match e with
  | TConnectTo => negb (t_shut t)
  | TStartService => negb (t_running t) && negb (t_shut t)
  | TStopService => t_running t && negb (t_shut t)
  | TTurn => match t_queue t with [] => false | _ :: _ => true end
  | TRc i e => negb (is_start e) && (i <? List.length (t_rcs t))%nat && enabled (rc_at t i) e
  end.

(* the caller of a Tub method / the eventual queue / the reactor: sees (and thereby ends) a propagating exception.
   [t_exc] of the state after an event = "this event raised" *)
Definition clear_exc (t : tub_st) : tub_st :=
  mkTub (t_running t) (t_shut t) (t_list t) (t_queue t) (t_rcs t) (t_cur t) false.
Definition pop_queue (t : tub_st) : tub_st :=
  mkTub (t_running t) (t_shut t) (t_list t) (tl (t_queue t)) (t_rcs t) (hd 0%nat (t_queue t)) (t_exc t).

Definition tstep (t : tub_st) (e : tevent) : tub_st * list tout :=
  let t := clear_exc t in
  match e with
  | TConnectTo => m_tub_connectTo t
  | TStartService => m_tub_startService t
  | TStopService => m_tub_stopService t
  | TTurn => t_call_rc m_tub__removeReconnector m_startConnecting (pop_queue t)
  | TRc i e => t_call_rc m_tub__removeReconnector (fun s => step s e) (t_set_cur i t)
  end.

Fixpoint trun (t : tub_st) (h : list tevent) : tub_st * list tout :=
  match h with
  | [] => (t, [])
  | e :: r => let (t1, o1) := tstep t e in let (t2, o2) := trun t1 r in (t2, o1 ++ o2)
  end.

Fixpoint tpermitted (t : tub_st) (h : list tevent) : Prop :=
  match h with
  | [] => True
  | e :: r => tenabled t e = true /\ tpermitted (fst (tstep t e)) r
  end.

Fixpoint tpermittedb (t : tub_st) (h : list tevent) : bool :=
  match h with
  | [] => true
  | e :: r => tenabled t e && tpermittedb (fst (tstep t e)) r
  end.

(* ---- what a Tub-level event means for the individual Reconnectors: the events of lib/Reconnector.v it makes
   them take, in order.  Hand-written; that the translated Tub methods do exactly this is tub_refines. *)
Definition tevents (t : tub_st) (e : tevent) : list (nat * event) :=
  match e with
  | TConnectTo => if t_running t then [(List.length (t_rcs t), Start)] else []
  | TStartService => []
  | TStopService => match t_list t with Some l => map (fun i => (i, Stop)) l | None => [] end
  | TTurn => match t_queue t with i :: _ => [(i, Start)] | [] => [] end
  | TRc i e => [(i, e)]
  end.

(* what the Reconnectors do to their environment during one Tub-level event (each takes at most one event) *)
Definition touts (t : tub_st) (e : tevent) : list tout :=
  flat_map (fun p => map (pair (fst p)) (snd (step (rc_at t (fst p)) (snd p)))) (tevents t e).
Definition tagged (j : nat) (o : list tout) : list out := map snd (filter (fun p => Nat.eqb (fst p) j) o).

Fixpoint thistory (t : tub_st) (h : list tevent) : list (nat * event) :=
  match h with
  | [] => []
  | e :: r => tevents t e ++ thistory (fst (tstep t e)) r
  end.

(* the events of Reconnector i *)
Definition proj (i : nat) (l : list (nat * event)) : list event :=
  map snd (filter (fun p => Nat.eqb (fst p) i) l).

(* an event that asks a Reconnector to stop which the Tub has already forgotten (second stopConnecting, or
   stopConnecting after Tub.stopService), and a stopService while startConnecting calls are still queued: these are
   the histories on which Tub._removeReconnector raises (ReconnectorTubProofs.no_exception / *_raises) *)
Fixpoint has_stop (u : list uop) : bool :=
  match u with [] => false | UStop :: _ => true | UReset :: r => has_stop r end.
Fixpoint count_stop (u : list uop) : nat :=
  match u with [] => 0 | UStop :: r => S (count_stop r) | UReset :: r => count_stop r end.
Definition forgotten (s : st) : bool := stopped s && tub s.
Definition polite (t : tub_st) (e : tevent) : bool :=
  match e with
  | TRc i Stop => negb (forgotten (rc_at t i))
  | TRc i (AttemptOk u) => if active (rc_at t i) then (count_stop u <=? 1)%nat else true
  | TStopService => match t_queue t with [] => true | _ => false end
  | _ => true
  end.
Fixpoint tpolite (t : tub_st) (h : list tevent) : Prop :=
  match h with
  | [] => True
  | e :: r => polite t e = true /\ tpolite (fst (tstep t e)) r
  end.
Fixpoint raised (t : tub_st) (h : list tevent) : list bool :=
  match h with
  | [] => []
  | e :: r => t_exc (fst (tstep t e)) :: raised (fst (tstep t e)) r
  end.

(* ------------------------------------------------------------------ for the correspondence check *)
Local Open Scope Z_scope.
(* per event: (did it raise + 2*(running and not shut down) + 4*(shut down), self.reconnectors as ids or [-1] if deleted, queue, per Reconnector the flags of
   Reconnector.obs (active, stopped, tub, info, inflight, watching, leaked)) *)
Definition rc_flags (s : st) : Z := match obs s [] with (f, _, _, _) => f end.
Definition tobs (t : tub_st) : Z * list Z * list Z * list Z :=
  (b2z (t_exc t) + 2 * b2z (t_running t && negb (t_shut t)) + 4 * b2z (t_shut t),
   match t_list t with Some l => map Z.of_nat l | None => [-1] end,
   map Z.of_nat (t_queue t),
   map rc_flags (t_rcs t)).
Fixpoint ttrace (t : tub_st) (h : list tevent) : list (Z * list Z * list Z * list Z) :=
  match h with
  | [] => []
  | e :: r => if tenabled t e then let t' := fst (tstep t e) in tobs t' :: ttrace t' r else []
  end.
Definition tobs_eqb (a b : Z * list Z * list Z * list Z) : bool :=
  match a, b with (a1, a2, a3, a4), (b1, b2, b3, b4) =>
    (a1 =? b1) && (if list_eq_dec Z.eq_dec a2 b2 then true else false)
    && (if list_eq_dec Z.eq_dec a3 b3 then true else false) && (if list_eq_dec Z.eq_dec a4 b4 then true else false) end.
Fixpoint tfirst_mismatch (i : Z) (ms ps : list (Z * list Z * list Z * list Z)) {struct ms}
  : Z * option (Z * list Z * list Z * list Z) :=
  match ms, ps with
  | [], [] => (-1, None)
  | m :: mr, p :: pr => if tobs_eqb m p then tfirst_mismatch (i + 1) mr pr else (i, Some m)
  | m :: _, [] => (i, Some m)
  | [], _ :: _ => (i, None)
  end.
