(* C17 -- Eventual-sends and Promises deliver in order, exactly once, never synchronously.
   Property theorems only; proofs live in lib/EventualProofs.v and lib/PromiseProofs.v.
   All statements are about the models instantiated with the shape facts and constants
   translated from eventual.py / promise.py (src_cfg, src_pcfg). *)
From Coq Require Import ZArith List Bool Permutation.
Import ListNotations.
Require Import Verif.gen.EventualGen Verif.lib.Eventual Verif.lib.EventualProofs Verif.lib.Promise Verif.lib.PromiseProofs
  Verif.lib.PromiseGlobal Verif.lib.PromiseChain.
Local Open Scope Z_scope.

(* "A callable passed to the eventual-send primitive never runs before the caller returns":
   eventually(s), at top level, from a running callable or from the callback of a flush Deferred, only records s.
   This depends on the translated shape fact ev_append_runs_callable = false (c_append_runs src_cfg: nothing in
   _SimpleCallQueue.append calls cb), which the model interprets: EventualProofs.ev_never_sync_needs_fact shows that
   the dependence is real -- for a configuration whose append() calls cb the statement is false. *)
Theorem C17_ev_never_sync : forall ctx st s,
  snd (do_act src_cfg ctx st (AEnq s)) = [Sub (sid s)] /\
  forall l, rans (snd (run_acts src_cfg ctx st l)) = [].
Proof. exact ev_never_sync. Qed.
Print Assumptions C17_ev_never_sync.

(* "callables run in the order submitted": for every program (top-level and re-entrant
   submissions, turns, flushes) the submitted ids are the ids already run followed by those queued *)
Theorem C17_ev_fifo : forall ops st t,
  run src_cfg q0 ops = (st, t) -> subs t = rans t ++ map sid (events st).
Proof. exact ev_fifo. Qed.
Print Assumptions C17_ev_fifo.

(* ... hence each exactly once, in submission order, as soon as the queue has drained *)
Theorem C17_ev_exactly_once : forall ops st t,
  run src_cfg q0 ops = (st, t) -> events st = [] -> rans t = subs t.
Proof. exact ev_exactly_once. Qed.
Print Assumptions C17_ev_exactly_once.

(* "one that raises does not prevent later ones": a turn runs every callable that was queued when
   it started -- whether it returns, raises an Exception or raises any other BaseException (rkind
   RNo/RExc/RBase; the handler is the bare `except:`) -- and exactly those: re-entrant submissions
   wait for a later turn *)
Theorem C17_ev_isolation : forall ops st t st' t',
  run src_cfg q0 ops = (st, t) -> turn src_cfg st = (st', t') ->
  rans t' = map sid (events st) /\ map sid (events st') = subs t'.
Proof. exact ev_isolation. Qed.
Print Assumptions C17_ev_isolation.

(* queued work and registered flush observers always have a reactor call pending *)
Theorem C17_ev_scheduled : forall ops st t,
  run src_cfg q0 ops = (st, t) ->
  (events st <> [] -> sched st = true) /\ (flushers st <> [] -> sched st = true) /\ in_turn st = false.
Proof. exact ev_scheduled. Qed.
Print Assumptions C17_ev_scheduled.

(* "the queue-flush notification fires only when the queue is empty": nothing queued, nothing of
   the running batch left, no callable executing -- also when the callbacks of earlier observers
   enqueue work or call flushEventualQueue() again, with callbacks that do the same, nested to any
   depth (both repairs of flush()/_turn: full strength) *)
Theorem C17_ev_flush : forall ops st t,
  run src_cfg q0 ops = (st, t) ->
  Forall (fun e => match e with FlushFired _ n r => n = 0%nat /\ r = false | _ => True end) t.
Proof. exact ev_flush. Qed.
Print Assumptions C17_ev_flush.

(* ... and every flush request is notified, once: for every program the deferred requests made so far
   (FlushReq f true) are, in request order, the observers _turn has taken out of the list (FlushPop) followed
   by those still registered -- none lost, none duplicated, first come first served --, and the notifications
   (FlushFired) are, in order and one for one, the requests answered at once (FlushReq f false) and the
   observers taken out of the list *)
Theorem C17_ev_flush_accounting : forall ops st t,
  run src_cfg q0 ops = (st, t) ->
  fdeferred t = fpopped t ++ map fst (flushers st) /\ ffired t = fanswered t.
Proof. exact ev_flush_accounting. Qed.
Print Assumptions C17_ev_flush_accounting.

(* ... no observer stays registered when the queue is empty between two operations (so: after a turn that
   leaves the queue empty every deferred request made so far has been notified) *)
Theorem C17_ev_flush_drained : forall ops st t,
  run src_cfg q0 ops = (st, t) -> events st = [] ->
  flushers st = [] /\ fdeferred t = fpopped t.
Proof. exact ev_flush_drained. Qed.
Print Assumptions C17_ev_flush_drained.

(* ... a request made between two operations is answered at once (and its callback runs right there) exactly
   when nothing is queued; otherwise it is registered behind the observers already waiting *)
Theorem C17_ev_flush_sync_iff : forall ops st t fid cb,
  run src_cfg q0 ops = (st, t) ->
  (events st = [] -> exists t', snd (do_act src_cfg None st (AFlush fid cb)) = FlushReq fid false :: FlushFired fid 0%nat false :: t') /\
  (events st <> [] -> do_act src_cfg None st (AFlush fid cb) = (set_flushers st (flushers st ++ [(fid, cb)]), [FlushReq fid true])).
Proof. exact ev_flush_sync_iff. Qed.
Print Assumptions C17_ev_flush_sync_iff.

(* adequacy of the model of `while self._flushObservers and not self._events: ...pop(0).callback(None)`: with the
   fuel [fire] gives it, the loop of the model stops because that condition is false (for every configuration,
   not only the current one): no iteration of the real loop is cut off *)
Theorem C17_ev_observer_loop_complete : forall c fuel st,
  (obs_weight (flushers st) <= fuel)%nat ->
  flushers (fst (fire_while c fuel st)) = [] \/ events (fst (fire_while c fuel st)) <> [].
Proof. exact fire_while_complete. Qed.
Print Assumptions C17_ev_observer_loop_complete.

(* ------------------------------------------------------------------ Promises *)

(* "it cannot be resolved twice": resolving (value / promise / Failure) a promise that is not
   EVENTUAL is refused with UsageError and changes nothing *)
Theorem C17_pr_second_resolve_refused : forall s p pr x,
  tbl s p = Some pr -> pstate pr <> SEventual ->
  resolve_call src_pcfg true s p x = (s, [ERefused p true]).
Proof. exact pr_second_resolve_refused. Qed.
Print Assumptions C17_pr_second_resolve_refused.

(* ... and in every reachable state an accepted resolution (also a break: D10) leaves EVENTUAL *)
Theorem C17_pr_resolve_leaves_eventual : forall ops s t p pr x s' e,
  prun src_pcfg ps0 ops = (s, t) -> tbl s p = Some pr -> pstate pr = SEventual ->
  (match x with RProm q => tbl s q <> None | _ => True end) ->
  resolve_call src_pcfg true s p x = (s', e) ->
  exists pr', tbl s' p = Some pr' /\ pstate pr' <> SEventual.
Proof. exact pr_resolve_leaves_eventual. Qed.
Print Assumptions C17_pr_resolve_leaves_eventual.

(* "once resolved or broken ...": NEAR v / BROKEN f is kept, with the same target, through every
   further program (sends, observers, resolutions, chains firing, turns) *)
Theorem C17_pr_stable : forall ops1 ops2 s1 t1 s2 t2 p pr,
  prun src_pcfg ps0 ops1 = (s1, t1) -> tbl s1 p = Some pr ->
  (pstate pr = SNear \/ pstate pr = SBroken) ->
  prun src_pcfg s1 ops2 = (s2, t2) ->
  tbl s2 p = Some pr /\
  exists o, ptarget pr = Some o /\ (pstate pr = SNear <-> exists v, o = Val v).
Proof. exact pr_stable. Qed.
Print Assumptions C17_pr_stable.

(* "... every past and future observer (when/_then/_except/sends) sees that same outcome": all that
   a run reports about a promise -- observers told, messages handed over -- carries one outcome,
   the promise's final target *)
Theorem C17_pr_observers_agree : forall ops s t p e1 o1,
  prun src_pcfg ps0 ops = (s, t) -> In e1 t -> outcome_of p e1 = Some o1 ->
  (exists pr, tbl s p = Some pr /\ ptarget pr = Some o1 /\
              pstate pr = match o1 with Val _ => SNear | Fail _ => SBroken end) /\
  forall e2 o2, In e2 t -> outcome_of p e2 = Some o2 -> o2 = o1.
Proof. exact pr_observers_agree. Qed.
Print Assumptions C17_pr_observers_agree.

(* "A Promise delivers every message sent to it, in send order and exactly once, to its resolution" -- the GLOBAL
   statement, for every program (sends / sendOnlys before and after the resolution, re-entrant sends from inside a
   method, observers, resolutions with values, Failures and promises, chains of promises, methods returning promises
   or Deferreds, turns in every position) and every promise: the messages accepted for it are, AS A LIST (order and
   multiplicity), those already handed to its resolution ++ those scheduled in the eventual-send queue ++ those still
   held in _pendingMethods.  (That each hand-over is to the promise's one final outcome is C17_pr_observers_agree:
   EDelivered events are among the reports it speaks about.) *)
Theorem C17_pr_delivery_global : forall ops s t p,
  prun src_pcfg ps0 ops = (s, t) ->
  sent_to p t = delivered_to p t ++ queued_for p (queue s) ++ pending_of s p.
Proof. exact pr_delivery_global. Qed.
Print Assumptions C17_pr_delivery_global.

(* ... hence, once the queue has drained and the promise is NEAR or BROKEN: delivered = sent, each once, in send order *)
Theorem C17_pr_delivery_complete : forall ops s t p pr,
  prun src_pcfg ps0 ops = (s, t) -> queue s = [] -> tbl s p = Some pr ->
  (pstate pr = SNear \/ pstate pr = SBroken) -> delivered_to p t = sent_to p t.
Proof. exact pr_delivery_complete. Qed.
Print Assumptions C17_pr_delivery_complete.

(* "every past and future observer (when/_then/_except) sees that same outcome" -- the counting half: the observers
   registered on a promise are, with multiplicity, those already told ++ those whose callback is scheduled ++ those
   still in _watchers; nobody is told twice or dropped.  (A multiset, not a list: when() on a resolved promise
   answers at once, possibly before observers whose callbacks are still scheduled.) *)
Theorem C17_pr_observers_exactly_once : forall ops s t p,
  prun src_pcfg ps0 ops = (s, t) ->
  Permutation (observed p t ++ cb_for p (queue s) ++ watching s p) (whens p t).
Proof. exact pr_observers_exactly_once. Qed.
Print Assumptions C17_pr_observers_exactly_once.

(* "chains of promises resolved to promises": in every reachable state each promise has exactly as many pending calls
   of its _resolve2 (links: `Chain p` in some promise's _watchers, or its callback scheduled in the queue) as it must
   have: one while it is CHAINED, none in any other state *)
Theorem C17_pr_links_exact : forall ops s t p,
  prun src_pcfg ps0 ops = (s, t) -> nlinks p s = want_links s p.
Proof. exact pr_links_exact. Qed.
Print Assumptions C17_pr_links_exact.

(* ... so _resolve2 is never entered on a promise that is already NEAR or BROKEN: wherever a link is registered or
   scheduled, its promise is CHAINED, unresolved and still has its lists *)
Theorem C17_pr_link_targets_chained : forall ops s t p,
  prun src_pcfg ps0 ops = (s, t) ->
  ((exists q o, In (TCallback q (Chain p) o) (queue s)) \/
   (exists q qr, tbl s q = Some qr /\ In (Chain p) (pwatch qr))) ->
  exists pr, tbl s p = Some pr /\ pstate pr = SChained /\ plive pr = true /\ ptarget pr = None.
Proof. exact pr_link_targets_chained. Qed.
Print Assumptions C17_pr_link_targets_chained.

(* when the link of a CHAINED promise p fires, p takes exactly the outcome o of the promise q it was resolved with
   (q is resolved with o), and its queued messages and observers are released towards o, in order *)
Theorem C17_pr_chain_fires_same_outcome : forall ops s t q p o q' s' e,
  prun src_pcfg ps0 ops = (s, t) -> queue s = TCallback q (Chain p) o :: q' -> run_one src_pcfg s = (s', e) ->
  (exists qr, tbl s q = Some qr /\ ptarget qr = Some o /\ pstate qr = match o with Val _ => SNear | Fail _ => SBroken end) /\
  (exists pr, tbl s p = Some pr /\ pstate pr = SChained /\
     exists pr', tbl s' p = Some pr' /\ ptarget pr' = Some o /\
                 pstate pr' = match o with Val _ => SNear | Fail _ => SBroken end /\
                 queue s' = q' ++ map (TDeliver p) (ppending pr) ++ map (fun wt => TCallback p wt o) (pwatch pr)) /\
  e = [].
Proof. exact pr_chain_fires_same_outcome. Qed.
Print Assumptions C17_pr_chain_fires_same_outcome.

(* "... and chains of promises resolved to promises": for every program, a promise p that was (acceptedly) resolved
   with the promise q -- directly, through a method that returned q, or through a Deferred that fired with q -- and
   that is now NEAR / BROKEN has exactly the outcome of q, which is then NEAR / BROKEN too; p is never resolved with
   two different promises.  Chains of any length follow link by link; with C17_pr_delivery_global and
   C17_pr_observers_agree: the messages sent to the head of a chain reach, in send order and once each, the outcome
   of its end. *)
Theorem C17_pr_chained_same_outcome : forall ops s t p q pp o,
  prun src_pcfg ps0 ops = (s, t) -> In (EChained p q) t ->
  tbl s p = Some pp -> ptarget pp = Some o -> (pstate pp = SNear \/ pstate pp = SBroken) ->
  (exists qq, tbl s q = Some qq /\ ptarget qq = Some o /\
              pstate qq = match o with Val _ => SNear | Fail _ => SBroken end) /\
  pstate pp = match o with Val _ => SNear | Fail _ => SBroken end /\
  forall q', In (EChained p q') t -> q' = q.
Proof. exact pr_chained_same_outcome. Qed.
Print Assumptions C17_pr_chained_same_outcome.

(* the crash branches of the model (AttributeError on the deleted _pendingMethods/_watchers, _resolve2 on a resolved
   promise, a delivery without a target) are unreachable: no program produces a crash event *)
Theorem C17_pr_no_crash : forall ops s t p top,
  prun src_pcfg ps0 ops = (s, t) -> ~ In (ECrash p top) t.
Proof. exact pr_no_crash. Qed.
Print Assumptions C17_pr_no_crash.

(* observer.OneShotObserverList: every subscriber, past or future, is (eventually) sent one and the same result *)
Theorem C17_oso_single_result : forall ops w1 r1 w2 r2,
  In (OEventually w1 r1) (snd (oso_run oso0 ops)) -> In (OEventually w2 r2) (snd (oso_run oso0 ops)) -> r1 = r2.
Proof. exact oso_single_result. Qed.
Print Assumptions C17_oso_single_result.

(* ... and exactly once, in subscription order, whatever the interleaving of whenFired() and fire():
   told ++ still waiting = asked (lists) *)
Theorem C17_oso_exactly_once : forall ops,
  oso_told (snd (oso_run oso0 ops)) ++ o_watchers (fst (oso_run oso0 ops)) = oso_asked ops.
Proof. exact oso_exactly_once. Qed.
Print Assumptions C17_oso_exactly_once.
