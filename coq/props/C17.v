(* C17 -- Eventual-sends and Promises deliver in order, exactly once, never synchronously.
   Property theorems only; proofs live in lib/EventualProofs.v and lib/PromiseProofs.v.
   All statements are about the models instantiated with the shape facts and constants
   translated from eventual.py / promise.py (src_cfg, src_pcfg). *)
From Coq Require Import ZArith List Bool.
Import ListNotations.
Require Import Verif.gen.EventualGen Verif.lib.Eventual Verif.lib.EventualProofs.
Local Open Scope Z_scope.

(* "A callable passed to the eventual-send primitive never runs before the caller returns":
   eventually(s), at top level or from a running callable, only records s *)
Theorem C17_ev_never_sync : forall ctx st s,
  snd (do_act src_cfg ctx st (AEnq s)) = [Sub (sid s)] /\
  forall l, rans (snd (run_acts src_cfg ctx st l)) = [].
Proof. exact ev_never_sync. Qed.
Print Assumptions C17_ev_never_sync.

(* "callables run in the order submitted": for every program (top-level and re-entrant
   submissions, turns, flushes) the submitted ids are the ids already run followed by those queued *)
Theorem C17_ev_fifo : forall ops st t,
  run src_cfg q0 ops = (st, t) -> subs t = rans t ++ map sid (events st).
Proof. exact ev_fifo. Qed.
Print Assumptions C17_ev_fifo.

(* ... hence each exactly once, in submission order, as soon as the queue has drained *)
Theorem C17_ev_exactly_once : forall ops st t,
  run src_cfg q0 ops = (st, t) -> events st = [] -> rans t = subs t.
Proof. exact ev_exactly_once. Qed.
Print Assumptions C17_ev_exactly_once.

(* "one that raises does not prevent later ones": a turn runs every callable that was queued when
   it started (raising or not), and exactly those: re-entrant submissions wait for a later turn *)
Theorem C17_ev_isolation : forall ops st t st' t',
  run src_cfg q0 ops = (st, t) -> turn src_cfg st = (st', t') ->
  rans t' = map sid (events st) /\ map sid (events st') = subs t'.
Proof. exact ev_isolation. Qed.
Print Assumptions C17_ev_isolation.

(* queued work and registered flush observers always have a reactor call pending *)
Theorem C17_ev_scheduled : forall ops st t,
  run src_cfg q0 ops = (st, t) ->
  (events st <> [] -> sched st = true) /\ (flushers st <> [] -> sched st = true) /\ in_turn st = false.
Proof. exact ev_scheduled. Qed.
Print Assumptions C17_ev_scheduled.

(* "the queue-flush notification fires only when the queue is empty": nothing queued, nothing of
   the running batch left, no callable executing (D11 repaired: full strength) *)
Theorem C17_ev_flush : forall ops st t,
  run src_cfg q0 ops = (st, t) ->
  Forall (fun e => match e with FlushFired _ n r => n = 0%nat /\ r = false | _ => True end) t.
Proof. exact ev_flush. Qed.
Print Assumptions C17_ev_flush.
