(* C17 -- Eventual-sends and Promises deliver in order, exactly once, never synchronously.
   Property theorems only; proofs live in lib/EventualProofs.v (+ lib/EventualSpecProofs.v), lib/PromiseProofs.v,
   lib/PromiseGlobal.v, lib/PromiseChain.v, lib/PromiseQueue.v.
   QUEUE: the statements are about the TRANSLATED code of eventual.py (gen/EventualGen.v: m_append, m__turn, m_flush,
   m_eventually, m_fireEventually, m_flushEventualQueue, generated statement by statement on every run) running in the
   hand-written environment of lib/Eventual.v (run_g: scripts as callables, Deferreds, one pending reactor call).
   PROMISES: the statements are about the model of lib/Promise.v instantiated with the shape facts and constants
   translated from promise.py (src_pcfg). *)
From Coq Require Import ZArith List Bool Permutation.
Import ListNotations.
Require Import Verif.lib.EventualBase Verif.gen.EventualGen Verif.lib.EventualSpec Verif.lib.Eventual Verif.lib.EventualProofs
  Verif.lib.Promise Verif.lib.PromiseProofs Verif.lib.PromiseGlobal Verif.lib.PromiseChain Verif.lib.PromiseQueue.
Local Open Scope Z_scope.

(* THE TIE of the queue: for every program the translated code in its environment and the hand-written reference
   machine of lib/EventualSpec.v (the shape of the current code) produce the same trace and reach the same state.
   (The theorems below are proved on the reference machine and carried over by this equality.) *)
Theorem C17_ev_translated_code_is_reference_machine : forall ops w,
  let '(w', t) := run_g w ops in run good_cfg (to_q w) ops = (to_q w', t).
Proof. exact run_bridge. Qed.
Print Assumptions C17_ev_translated_code_is_reference_machine.

(* "A callable passed to the eventual-send primitive never runs before the caller returns": the translated
   eventually() produces no event of its own and ends normally whatever its environment is -- it never invokes the
   entry --, so eventually(s), at top level, from a running callable or from the callback of a flush Deferred, only
   records s.  (EventualProofs.ev_never_sync_needs_translation: an append() that also contains the call statement
   translates to code for which this is false.) *)
Theorem C17_ev_never_sync : forall (E : qenv) s w,
  (exists w', m_eventually E s w = (w', [], FNorm)) /\
  forall ctx, snd (do_act_g ctx w (AEnq s)) = [Sub (sid s)] /\
  forall l, rans (snd (run_acts_g ctx w l)) = [].
Proof. exact ev_never_sync_code. Qed.
Print Assumptions C17_ev_never_sync.

(* fireEventually(v) is eventually(d.callback, v) for a new Deferred d, returned unfired *)
Theorem C17_ev_fire_eventually : forall (E : qenv) s w,
  exists w', m_fireEventually E s w = (w', [], FRet RUnfired) /\ m_eventually E s w = (w', [], FNorm).
Proof. exact fire_eventually_is_eventually. Qed.
Print Assumptions C17_ev_fire_eventually.

(* "callables run in the order submitted": for every program (top-level and re-entrant
   submissions, turns, flushes) the submitted ids are the ids already run followed by those queued *)
Theorem C17_ev_fifo : forall ops w t,
  run_g w0 ops = (w, t) -> subs t = rans t ++ map sid (w_events w).
Proof. exact ev_fifo_code. Qed.
Print Assumptions C17_ev_fifo.

(* ... hence each exactly once, in submission order, as soon as the queue has drained *)
Theorem C17_ev_exactly_once : forall ops w t,
  run_g w0 ops = (w, t) -> w_events w = [] -> rans t = subs t.
Proof. exact ev_exactly_once_code. Qed.
Print Assumptions C17_ev_exactly_once.

(* "one that raises does not prevent later ones": a turn runs every callable that was queued when
   it started -- whether it returns, raises an Exception or raises any other BaseException -- and exactly those:
   re-entrant submissions wait for a later turn *)
Theorem C17_ev_isolation : forall ops w t w' t',
  run_g w0 ops = (w, t) -> turn_g w = (w', t') ->
  rans t' = map sid (w_events w) /\ map sid (w_events w') = subs t'.
Proof. exact ev_isolation_code. Qed.
Print Assumptions C17_ev_isolation.

(* queued work and registered flush observers always have a reactor call pending *)
Theorem C17_ev_scheduled : forall ops w t,
  run_g w0 ops = (w, t) ->
  (w_events w <> [] -> w_sched w = true) /\ (w_flushers w <> [] -> w_sched w = true) /\ w_in_turn w = false.
Proof. exact ev_scheduled_code. Qed.
Print Assumptions C17_ev_scheduled.

(* "the queue-flush notification fires only when the queue is empty": nothing queued, nothing of
   the running batch left, no callable executing -- also when the callbacks of earlier observers
   enqueue work or call flushEventualQueue() again, with callbacks that do the same, nested to any depth *)
Theorem C17_ev_flush : forall ops w t,
  run_g w0 ops = (w, t) ->
  Forall (fun e => match e with FlushFired _ n r => n = 0%nat /\ r = false | _ => True end) t.
Proof. exact ev_flush_code. Qed.
Print Assumptions C17_ev_flush.

(* ... and every flush request is notified, once: the deferred requests made so far are, in request order, the
   observers _turn has taken out of the list followed by those still registered; the notifications are, in order and
   one for one, the requests answered at once and the observers taken out of the list *)
Theorem C17_ev_flush_accounting : forall ops w t,
  run_g w0 ops = (w, t) ->
  fdeferred t = fpopped t ++ map fst (w_flushers w) /\ ffired t = fanswered t.
Proof. exact ev_flush_accounting_code. Qed.
Print Assumptions C17_ev_flush_accounting.

(* ... no observer stays registered when the queue is empty between two operations *)
Theorem C17_ev_flush_drained : forall ops w t,
  run_g w0 ops = (w, t) -> w_events w = [] ->
  w_flushers w = [] /\ fdeferred t = fpopped t.
Proof. exact ev_flush_drained_code. Qed.
Print Assumptions C17_ev_flush_drained.

(* ... a request made between two operations is answered at once (and its callback runs right there) exactly
   when nothing is queued; otherwise it is registered behind the observers already waiting *)
Theorem C17_ev_flush_sync_iff : forall ops w t fid cb,
  run_g w0 ops = (w, t) ->
  (w_events w = [] -> exists t', snd (do_act_g None w (AFlush fid cb)) = FlushReq fid false :: FlushFired fid 0%nat false :: t') /\
  (w_events w <> [] -> exists w', do_act_g None w (AFlush fid cb) = (w', [FlushReq fid true]) /\
                                  w_flushers w' = w_flushers w ++ [(fid, cb)] /\ w_events w' = w_events w).
Proof. exact ev_flush_sync_iff_code. Qed.
Print Assumptions C17_ev_flush_sync_iff.

(* adequacy of the iteration bound the environment gives the translated `while` loop: for every loop whose condition is
   "observers registered and nothing queued" and whose body pops the head of the live list and fires it, when the model
   stops iterating the loop condition of the code is false -- no iteration of the real loop is cut off *)
Theorem C17_ev_observer_loop_complete : forall c body n w,
  obs_cond c -> pops_and_fires body -> (obs_weight (w_flushers w) <= n)%nat ->
  let w1 := fst (fst (while_fuel n c body w)) in c w1 = false.
Proof. exact observer_loop_complete. Qed.
Print Assumptions C17_ev_observer_loop_complete.

(* ------------------------------------------------------------------ Promises *)

(* "it cannot be resolved twice": resolving (value / promise / Failure) a promise that is not
   EVENTUAL is refused with UsageError and changes nothing *)
Theorem C17_pr_second_resolve_refused : forall s p pr x,
  tbl s p = Some pr -> pstate pr <> SEventual ->
  resolve_call src_pcfg true s p x = (s, [ERefused p true]).
Proof. exact pr_second_resolve_refused. Qed.
Print Assumptions C17_pr_second_resolve_refused.

(* ... and in every reachable state an accepted resolution (also a break: D10) leaves EVENTUAL *)
Theorem C17_pr_resolve_leaves_eventual : forall ops s t p pr x s' e,
  prun src_pcfg ps0 ops = (s, t) -> tbl s p = Some pr -> pstate pr = SEventual ->
  (match x with RProm q => tbl s q <> None | _ => True end) ->
  resolve_call src_pcfg true s p x = (s', e) ->
  exists pr', tbl s' p = Some pr' /\ pstate pr' <> SEventual.
Proof. exact pr_resolve_leaves_eventual. Qed.
Print Assumptions C17_pr_resolve_leaves_eventual.

(* "once resolved or broken ...": NEAR v / BROKEN f is kept, with the same target, through every
   further program (sends, observers, resolutions, chains firing, turns) *)
Theorem C17_pr_stable : forall ops1 ops2 s1 t1 s2 t2 p pr,
  prun src_pcfg ps0 ops1 = (s1, t1) -> tbl s1 p = Some pr ->
  (pstate pr = SNear \/ pstate pr = SBroken) ->
  prun src_pcfg s1 ops2 = (s2, t2) ->
  tbl s2 p = Some pr /\
  exists o, ptarget pr = Some o /\ (pstate pr = SNear <-> exists v, o = Val v).
Proof. exact pr_stable. Qed.
Print Assumptions C17_pr_stable.

(* "... every past and future observer (when/_then/_except/sends) sees that same outcome": all that
   a run reports about a promise -- observers told, messages handed over -- carries one outcome,
   the promise's final target *)
Theorem C17_pr_observers_agree : forall ops s t p e1 o1,
  prun src_pcfg ps0 ops = (s, t) -> In e1 t -> outcome_of p e1 = Some o1 ->
  (exists pr, tbl s p = Some pr /\ ptarget pr = Some o1 /\
              pstate pr = match o1 with Val _ => SNear | Fail _ => SBroken end) /\
  forall e2 o2, In e2 t -> outcome_of p e2 = Some o2 -> o2 = o1.
Proof. exact pr_observers_agree. Qed.
Print Assumptions C17_pr_observers_agree.

(* "A Promise delivers every message sent to it, in send order and exactly once, to its resolution" -- the GLOBAL
   statement, for every program (sends / sendOnlys before and after the resolution, re-entrant sends from inside a
   method, observers, resolutions with values, Failures and promises, chains of promises, methods returning promises
   or Deferreds, turns in every position) and every promise: the messages accepted for it are, AS A LIST (order and
   multiplicity), those already handed to its resolution ++ those scheduled in the eventual-send queue ++ those still
   held in _pendingMethods.  (That each hand-over is to the promise's one final outcome is C17_pr_observers_agree:
   EDelivered events are among the reports it speaks about.)  A message whose method the target does not have
   (send(p).nosuch(..), behaviour BNoMeth) is handed over like every other one -- delivered_to counts its event
   EDeliveredNM -- and does not disturb the messages around it; what the hand-over does then (nothing is invoked, the
   result promise is BROKEN with the AttributeError, a sendOnly swallows it) is PromiseProofs.pr_nometh_delivery /
   pr_nometh_breaks_result / pr_nometh_sendonly_swallowed. *)
Theorem C17_pr_delivery_global : forall ops s t p,
  prun src_pcfg ps0 ops = (s, t) ->
  sent_to p t = delivered_to p t ++ queued_for p (queue s) ++ pending_of s p.
Proof. exact pr_delivery_global. Qed.
Print Assumptions C17_pr_delivery_global.

(* ... hence, once the queue has drained and the promise is NEAR or BROKEN: delivered = sent, each once, in send order *)
Theorem C17_pr_delivery_complete : forall ops s t p pr,
  prun src_pcfg ps0 ops = (s, t) -> queue s = [] -> tbl s p = Some pr ->
  (pstate pr = SNear \/ pstate pr = SBroken) -> delivered_to p t = sent_to p t.
Proof. exact pr_delivery_complete. Qed.
Print Assumptions C17_pr_delivery_complete.

(* "every past and future observer (when/_then/_except) sees that same outcome" -- the counting half: the observers
   registered on a promise are, with multiplicity, those already told ++ those whose callback is scheduled ++ those
   still in _watchers; nobody is told twice or dropped.  (A multiset, not a list: when() on a resolved promise
   answers at once, possibly before observers whose callbacks are still scheduled.) *)
Theorem C17_pr_observers_exactly_once : forall ops s t p,
  prun src_pcfg ps0 ops = (s, t) ->
  Permutation (observed p t ++ cb_for p (queue s) ++ watching s p) (whens p t).
Proof. exact pr_observers_exactly_once. Qed.
Print Assumptions C17_pr_observers_exactly_once.

(* "chains of promises resolved to promises": in every reachable state each promise has exactly as many pending calls
   of its _resolve2 (links: `Chain p` in some promise's _watchers, or its callback scheduled in the queue) as it must
   have: one while it is CHAINED, none in any other state *)
Theorem C17_pr_links_exact : forall ops s t p,
  prun src_pcfg ps0 ops = (s, t) -> nlinks p s = want_links s p.
Proof. exact pr_links_exact. Qed.
Print Assumptions C17_pr_links_exact.

(* ... so _resolve2 is never entered on a promise that is already NEAR or BROKEN: wherever a link is registered or
   scheduled, its promise is CHAINED, unresolved and still has its lists *)
Theorem C17_pr_link_targets_chained : forall ops s t p,
  prun src_pcfg ps0 ops = (s, t) ->
  ((exists q o, In (TCallback q (Chain p) o) (queue s)) \/
   (exists q qr, tbl s q = Some qr /\ In (Chain p) (pwatch qr))) ->
  exists pr, tbl s p = Some pr /\ pstate pr = SChained /\ plive pr = true /\ ptarget pr = None.
Proof. exact pr_link_targets_chained. Qed.
Print Assumptions C17_pr_link_targets_chained.

(* when the link of a CHAINED promise p fires, p takes exactly the outcome o of the promise q it was resolved with
   (q is resolved with o), and its queued messages and observers are released towards o, in order *)
Theorem C17_pr_chain_fires_same_outcome : forall ops s t q p o q' s' e,
  prun src_pcfg ps0 ops = (s, t) -> queue s = TCallback q (Chain p) o :: q' -> run_one src_pcfg s = (s', e) ->
  (exists qr, tbl s q = Some qr /\ ptarget qr = Some o /\ pstate qr = match o with Val _ => SNear | Fail _ => SBroken end) /\
  (exists pr, tbl s p = Some pr /\ pstate pr = SChained /\
     exists pr', tbl s' p = Some pr' /\ ptarget pr' = Some o /\
                 pstate pr' = match o with Val _ => SNear | Fail _ => SBroken end /\
                 queue s' = q' ++ map (TDeliver p) (ppending pr) ++ map (fun wt => TCallback p wt o) (pwatch pr)) /\
  e = [].
Proof. exact pr_chain_fires_same_outcome. Qed.
Print Assumptions C17_pr_chain_fires_same_outcome.

(* "... and chains of promises resolved to promises": for every program, a promise p that was (acceptedly) resolved
   with the promise q -- directly, through a method that returned q, or through a Deferred that fired with q -- and
   that is now NEAR / BROKEN has exactly the outcome of q, which is then NEAR / BROKEN too; p is never resolved with
   two different promises.  Chains of any length follow link by link; with C17_pr_delivery_global and
   C17_pr_observers_agree: the messages sent to the head of a chain reach, in send order and once each, the outcome
   of its end. *)
Theorem C17_pr_chained_same_outcome : forall ops s t p q pp o,
  prun src_pcfg ps0 ops = (s, t) -> In (EChained p q) t ->
  tbl s p = Some pp -> ptarget pp = Some o -> (pstate pp = SNear \/ pstate pp = SBroken) ->
  (exists qq, tbl s q = Some qq /\ ptarget qq = Some o /\
              pstate qq = match o with Val _ => SNear | Fail _ => SBroken end) /\
  pstate pp = match o with Val _ => SNear | Fail _ => SBroken end /\
  forall q', In (EChained p q') t -> q' = q.
Proof. exact pr_chained_same_outcome. Qed.
Print Assumptions C17_pr_chained_same_outcome.

(* the crash branches of the model (AttributeError on the deleted _pendingMethods/_watchers, _resolve2 on a resolved
   promise, a delivery without a target) are unreachable: no program produces a crash event *)
Theorem C17_pr_no_crash : forall ops s t p top,
  prun src_pcfg ps0 ops = (s, t) -> ~ In (ECrash p top) t.
Proof. exact pr_no_crash. Qed.
Print Assumptions C17_pr_no_crash.

(* observer.OneShotObserverList: every subscriber, past or future, is (eventually) sent one and the same result *)
Theorem C17_oso_single_result : forall ops w1 r1 w2 r2,
  In (OEventually w1 r1) (snd (oso_run oso0 ops)) -> In (OEventually w2 r2) (snd (oso_run oso0 ops)) -> r1 = r2.
Proof. exact oso_single_result. Qed.
Print Assumptions C17_oso_single_result.

(* ... and exactly once, in subscription order, whatever the interleaving of whenFired() and fire():
   told ++ still waiting = asked (lists) *)
Theorem C17_oso_exactly_once : forall ops,
  oso_told (snd (oso_run oso0 ops)) ++ o_watchers (fst (oso_run oso0 ops)) = oso_asked ops.
Proof. exact oso_exactly_once. Qed.
Print Assumptions C17_oso_exactly_once.

(* ------------------------------------------------------------------ Promises ON the eventual-send queue *)

(* the translated eventually(), for EVERY kind of callable, environment and state: the entry goes to the tail of
   self._events, the reactor is armed, nothing else happens -- the entry is not invoked *)
Theorem C17_ev_eventually_any_callable : forall (C F U : Type) (E : env C F U) (x : C) (w : world C F U),
  m_eventually E x w = (appended w x, [], FNorm).
Proof. exact (@eventually_gen). Qed.
Print Assumptions C17_ev_eventually_any_callable.

(* the translated _turn, for EVERY kind of callable and environment: the batch is taken out of self._events (left
   empty), each entry of the batch is invoked once, in order, whatever it raises is swallowed, then the flush
   observers are served; what the entries submit meanwhile is in self._events afterwards *)
Theorem C17_ev_turn_any_callable : forall (C F U : Type) (E : env C F U) (w : world C F U),
  m__turn E w =
  let '(w2, t2, f2) := for_list (fun x rest => swallow (e_call E x rest)) (w_events w) (turn_start w) in
  match f2 with
  | FNorm => let '(w3, t3, f3) := seqa (obs_loop E) ret (turn_mid w2) in (w3, t2 ++ t3, f3)
  | _ => (w2, t2, f2)
  end.
Proof. exact (@turn_gen). Qed.
Print Assumptions C17_ev_turn_any_callable.

(* REFINEMENT: "the Promise model shares the discipline of the queue" as a theorem.  run_p runs the promise operations
   on top of the translated queue code: every call they schedule goes through the translated eventually(), a reactor turn
   is the translated _turn whose environment invokes Promise._deliver / Deferred.callback.  For every configuration of
   the promise code and every program it produces exactly the events and the state of the model of lib/Promise.v (whose
   `queue` is self._events).  With the two theorems above: a scheduled promise callback never runs inside the operation
   that schedules it, the callbacks of a turn are those scheduled when it started, in scheduling order, each once, and
   what they schedule waits for the next turn. *)
Theorem C17_pr_runs_on_the_translated_queue : forall c ops,
  prun c ps0 ops = (abs (run_p c pw0 ops), plog (run_p c pw0 ops)).
Proof. exact pq_refines0. Qed.
Print Assumptions C17_pr_runs_on_the_translated_queue.
