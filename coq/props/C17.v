(* C17 -- Eventual-sends and Promises deliver in order, exactly once, never synchronously.
   Property theorems only; proofs live in lib/EventualProofs.v and lib/PromiseProofs.v.
   All statements are about the models instantiated with the shape facts and constants
   translated from eventual.py / promise.py (src_cfg, src_pcfg). *)
From Coq Require Import ZArith List Bool.
Import ListNotations.
Require Import Verif.gen.EventualGen Verif.lib.Eventual Verif.lib.EventualProofs Verif.lib.Promise Verif.lib.PromiseProofs.
Local Open Scope Z_scope.

(* "A callable passed to the eventual-send primitive never runs before the caller returns":
   eventually(s), at top level or from a running callable, only records s *)
Theorem C17_ev_never_sync : forall ctx st s,
  snd (do_act src_cfg ctx st (AEnq s)) = [Sub (sid s)] /\
  forall l, rans (snd (run_acts src_cfg ctx st l)) = [].
Proof. exact ev_never_sync. Qed.
Print Assumptions C17_ev_never_sync.

(* "callables run in the order submitted": for every program (top-level and re-entrant
   submissions, turns, flushes) the submitted ids are the ids already run followed by those queued *)
Theorem C17_ev_fifo : forall ops st t,
  run src_cfg q0 ops = (st, t) -> subs t = rans t ++ map sid (events st).
Proof. exact ev_fifo. Qed.
Print Assumptions C17_ev_fifo.

(* ... hence each exactly once, in submission order, as soon as the queue has drained *)
Theorem C17_ev_exactly_once : forall ops st t,
  run src_cfg q0 ops = (st, t) -> events st = [] -> rans t = subs t.
Proof. exact ev_exactly_once. Qed.
Print Assumptions C17_ev_exactly_once.

(* "one that raises does not prevent later ones": a turn runs every callable that was queued when
   it started -- whether it returns, raises an Exception or raises any other BaseException (rkind
   RNo/RExc/RBase; the handler is the bare `except:`) -- and exactly those: re-entrant submissions
   wait for a later turn *)
Theorem C17_ev_isolation : forall ops st t st' t',
  run src_cfg q0 ops = (st, t) -> turn src_cfg st = (st', t') ->
  rans t' = map sid (events st) /\ map sid (events st') = subs t'.
Proof. exact ev_isolation. Qed.
Print Assumptions C17_ev_isolation.

(* queued work and registered flush observers always have a reactor call pending *)
Theorem C17_ev_scheduled : forall ops st t,
  run src_cfg q0 ops = (st, t) ->
  (events st <> [] -> sched st = true) /\ (flushers st <> [] -> sched st = true) /\ in_turn st = false.
Proof. exact ev_scheduled. Qed.
Print Assumptions C17_ev_scheduled.

(* "the queue-flush notification fires only when the queue is empty": nothing queued, nothing of
   the running batch left, no callable executing -- also when the callbacks of earlier observers
   enqueue work (both repairs of flush()/_turn: full strength) *)
Theorem C17_ev_flush : forall ops st t,
  run src_cfg q0 ops = (st, t) ->
  Forall (fun e => match e with FlushFired _ n r => n = 0%nat /\ r = false | _ => True end) t.
Proof. exact ev_flush. Qed.
Print Assumptions C17_ev_flush.

(* ------------------------------------------------------------------ Promises *)

(* "it cannot be resolved twice": resolving (value / promise / Failure) a promise that is not
   EVENTUAL is refused with UsageError and changes nothing *)
Theorem C17_pr_second_resolve_refused : forall s p pr x,
  tbl s p = Some pr -> pstate pr <> SEventual ->
  resolve_call src_pcfg true s p x = (s, [ERefused p true]).
Proof. exact pr_second_resolve_refused. Qed.
Print Assumptions C17_pr_second_resolve_refused.

(* ... and in every reachable state an accepted resolution (also a break: D10) leaves EVENTUAL *)
Theorem C17_pr_resolve_leaves_eventual : forall ops s t p pr x s' e,
  prun src_pcfg ps0 ops = (s, t) -> tbl s p = Some pr -> pstate pr = SEventual ->
  (match x with RProm q => tbl s q <> None | _ => True end) ->
  resolve_call src_pcfg true s p x = (s', e) ->
  exists pr', tbl s' p = Some pr' /\ pstate pr' <> SEventual.
Proof. exact pr_resolve_leaves_eventual. Qed.
Print Assumptions C17_pr_resolve_leaves_eventual.

(* "once resolved or broken ...": NEAR v / BROKEN f is kept, with the same target, through every
   further program (sends, observers, resolutions, chains firing, turns) *)
Theorem C17_pr_stable : forall ops1 ops2 s1 t1 s2 t2 p pr,
  prun src_pcfg ps0 ops1 = (s1, t1) -> tbl s1 p = Some pr ->
  (pstate pr = SNear \/ pstate pr = SBroken) ->
  prun src_pcfg s1 ops2 = (s2, t2) ->
  tbl s2 p = Some pr /\
  exists o, ptarget pr = Some o /\ (pstate pr = SNear <-> exists v, o = Val v).
Proof. exact pr_stable. Qed.
Print Assumptions C17_pr_stable.

(* "... every past and future observer (when/_then/_except/sends) sees that same outcome": all that
   a run reports about a promise -- observers told, messages handed over -- carries one outcome,
   the promise's final target *)
Theorem C17_pr_observers_agree : forall ops s t p e1 o1,
  prun src_pcfg ps0 ops = (s, t) -> In e1 t -> outcome_of p e1 = Some o1 ->
  (exists pr, tbl s p = Some pr /\ ptarget pr = Some o1 /\
              pstate pr = match o1 with Val _ => SNear | Fail _ => SBroken end) /\
  forall e2 o2, In e2 t -> outcome_of p e2 = Some o2 -> o2 = o1.
Proof. exact pr_observers_agree. Qed.
Print Assumptions C17_pr_observers_agree.

(* "A Promise delivers every message sent to it, in send order and exactly once, to its resolution".
   FULL STATEMENT (not closed in Coq; checked directly on the code by oracle/delivery-order):
     forall ops s t p, prun src_pcfg ps0 ops = (s, t) ->
       sent_to p t = delivered_to p t ++ queued_for p (queue s) ++ pending_of s p.
   Proved: the three local facts it follows from, given the FIFO discipline C17_ev_fifo. *)
Theorem C17_pr_order_send_partial : forall s p pr m b wr s' e,
  tbl s p = Some pr -> (p < next s)%nat -> send_op src_pcfg s p m b wr = (s', e) ->
  (pending_state (pstate pr) = true -> plive pr = true ->
     pending_of s' p = pending_of s p ++ [m] /\ queue s' = queue s) /\
  (pending_state (pstate pr) = false ->
     pending_of s' p = pending_of s p /\ exists mm, mid mm = m /\ queue s' = queue s ++ [TDeliver p mm]).
Proof. exact pr_order_send_partial. Qed.
Print Assumptions C17_pr_order_send_partial.

Theorem C17_pr_order_release_partial : forall top s p pr o s' e,
  tbl s p = Some pr -> plive pr = true -> pstate pr <> SBroken ->
  resolve2 src_pcfg top s p o = (s', e) ->
  e = [] /\ pending_of s' p = [] /\
  queue s' = queue s ++ map (TDeliver p) (ppending pr) ++ map (fun wt => TCallback p wt o) (pwatch pr).
Proof. exact pr_order_release_partial. Qed.
Print Assumptions C17_pr_order_release_partial.

Theorem C17_pr_once_deliver_partial : forall s q' p m pr o s' e,
  queue s = TDeliver p m :: q' -> tbl s p = Some pr -> ptarget pr = Some o ->
  run_one src_pcfg s = (s', e) ->
  (forall p', delivered_to p' e = if Nat.eqb p p' then [mid m] else []) /\
  outcome_of p (hd (ESent 0 0) e) = Some o.
Proof. exact pr_once_deliver_partial. Qed.
Print Assumptions C17_pr_once_deliver_partial.

(* observer.OneShotObserverList: every subscriber, past or future, is (eventually) sent one and the same result *)
Theorem C17_oso_single_result : forall ops w1 r1 w2 r2,
  In (OEventually w1 r1) (snd (oso_run oso0 ops)) -> In (OEventually w2 r2) (snd (oso_run oso0 ops)) -> r1 = r2.
Proof. exact oso_single_result. Qed.
Print Assumptions C17_oso_single_result.
