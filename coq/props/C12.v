(* C12 -- Whatever the sender's schema check accepts, the receiver accepts.
   Property theorems only; proofs live in lib/SchemaProofs.v. *)
From Coq Require Import ZArith List String Bool.
Import ListNotations.
Require Import Verif.lib.PyLite Verif.gen.BananaGen Verif.gen.SchemaGen Verif.lib.Schema Verif.lib.SchemaProofs.
Local Open Scope Z_scope.

(* "If a value passes the schema check that callRemote applies before sending, then the receiver using the same schema
   accepts its serialized form": for every well-formed constraint tree c and value o, inside the guarded region
   (c12_guard: no OPEN-sequence value in a ChoiceOf / nested-Optional slot, no integer of 2^8000 or more in an Any slot):
   every token-level check of the receiver (tasters with the 2^31 and 2^(8*maxBytes) splits of the TRANSLATED sendToken,
   checkOpentype, setConstraint hand-down, list/set/dict "full" tests, tuple arity, the 6*maxLength text bound) accepts
   every token of the honest serialization and the very same object is delivered. *)
(* SCOPE of owf (hypothesis of every theorem below): it is false for two kinds of value that the property's quantifier
   includes, so the theorems say nothing about them:
   - ORemote (a value in a RemoteInterface slot): the model has the RECEIVER's view only (claimed interface name vs
     declared); the sender's side is a live Referenceable judged by interface.providedBy.  For these the full statement is
     FALSE on the current tree (finding oracle/remote-subinterface-rejected: a Referenceable implementing a SUB-interface of
     the declared RemoteInterface passes the outbound check and is refused by the inbound `iface != self.interface`);
     covered by the direct oracle only.
   - OPending (cyclic values such as l = [l] under ListOf(Any)): the honest serialization of a cycle is a reference to a
     container that is still open (WRefOpen / WRef (OPending k)); recvw models their reception (C02 uses it), but ser and
     slice describe acyclic values only.
   and for a third kind that has no serialized form at all:
   - OText with a code point that has no UTF-8 form (a lone surrogate): the sender refuses it locally, see
     C12_unencodable_call_refused_locally / C12_decoder_accepts_iff_encodable below. *)
Theorem C12_sender_accepts_receiver_delivers : forall voc c o,
  wf c = true -> owf o = true -> c12_guard c o = true -> checkObject c o = true ->
  recvw (Some c) (slice voc o) = RDeliver o.
Proof. exact c12_main. Qed.
Print Assumptions C12_sender_accepts_receiver_delivers.

(* ... "no matter how Banana chooses to tokenize it": the same for EVERY serialization w of o (ser): with any connection
   vocabulary voc (byte strings that are vocabulary words travel as VOCAB tokens whose header is the word's index, which the
   tasters must not compare with maxLength), and with any number of repeated list/tuple/set/dict objects travelling as
   OPEN reference (which must get through the checkToken/checkOpentype of EVERY constraint that accepts the object) *)
Theorem C12_every_serialization : forall voc c o w,
  wf c = true -> owf o = true -> c12_guard c o = true -> checkObject c o = true -> ser voc o w ->
  recvw (Some c) w = RDeliver o.
Proof. exact c12_ser. Qed.
Print Assumptions C12_every_serialization.

(* a repeated container sent as a reference needs no guard at all: it is accepted by every slot whose constraint accepts
   the object (also under ChoiceOf, where the first occurrence is not) *)
Theorem C12_reference_accepted : forall c o,
  checkObject c o = true -> refable o = true -> recvw (Some c) (WRef o) = RDeliver o.
Proof. exact ref_ok. Qed.
Print Assumptions C12_reference_accepted.

(* the same for a whole call of ANY method schema (any number of arguments, Optional ones, either unknown-argument flag)
   with any mix of positional and keyword arguments: callRemote's outbound checkAllArgs, the wire, ArgumentUnslicer's
   per-argument constraints (positional and keyword bookkeeping), the inbound checkAllArgs in _doCall, and the invocation
   with the same objects.  ms_wf: distinct argument names, well-formed constraints; args_guarded: c12_guard for every
   bound value against the constraint of the name it is bound to.
   sent_call voc ms a kw p k: the sender's check accepted (a, kw) and p / k are ANY serialization (ser) of the positional /
   keyword values.  That is what the real callRemote emits: ArgumentSlicer is a ScopedSlicer, so within one call the second
   occurrence of a list / tuple / set / dict OBJECT -- m(l, l), m(a=d, b=d), a set shared by members of two arguments --
   travels as OPEN reference, not as a second copy of the tree.  (Stated over the tree stream only -- send_call = map slice,
   the *_tree theorems below -- these theorems would describe a stream the sender never emits for such calls.) *)
Theorem C12_call_delivered : forall voc ms a kw, ms_wf ms -> args_guarded ms a kw ->
  forall p k, sent_call voc ms a kw p k -> recv_call ms p k = CInvoke a kw.
Proof. exact c12_call_ser. Qed.
Print Assumptions C12_call_delivered.

(* ... stated on the children of the `arguments` sequence as the receiver's state machine consumes them *)
Theorem C12_call_delivered_stream : forall voc ms a kw, ms_wf ms -> args_guarded ms a kw ->
  forall p k kb, sent_call voc ms a kw p k -> code_kws kb = k -> names_text kb = true ->
  recv_arguments ms (enc_args p kb) = CInvoke a kw.
Proof. exact c12_call_ser_stream. Qed.
Print Assumptions C12_call_delivered_stream.

(* ... and on the complete `call` sequence as CallUnslicer + ArgumentUnslicer consume it: request id, object id, method name
   (looked up in the RemoteInterface of the addressed object), arguments: the addressed method runs with the same objects *)
Theorem C12_call_sequence_delivered : forall voc env r c mname t tbl ms a kw,
  (negb (r =? 0) && memZ r (be_active env)) = false -> 0 <= c -> utf8_valid mname = true ->
  assocZ c (be_objs env) = Some t -> t_iface t = Some tbl -> assocZ (name_code mname) tbl = Some ms ->
  ms_wf ms -> args_guarded ms a kw ->
  forall p k kb, sent_call voc ms a kw p k -> code_kws kb = k -> names_text kb = true ->
  recv_call_stream env (call_kids r c mname (enc_args p kb)) = QInvoke c (Some (name_code mname)) ms a kw.
Proof. exact call_delivered_ser. Qed.
Print Assumptions C12_call_sequence_delivered.

(* non-vacuity, on m(l, l) with one list object l: the stream with the second l as a reference is a sent_call (and is
   NOT what send_call computes); it is delivered as [l; l] *)
Theorem C12_shared_argument_example :
  let l := OList [OInt 1; OInt 2] in let c := CList (CInt (Some 1024)) None 0 in
  let ms := mkms [{| a_name := nA; a_ctr := c; a_opt := false |}; {| a_name := nB; a_ctr := c; a_opt := false |}] None in
  ms_wf ms /\ args_guarded ms [l; l] [] /\
  sent_call [] ms [l; l] [] [slice [] l; WRef l] [] /\
  send_call [] ms [l; l] [] = Some ([slice [] l; slice [] l], []) /\
  recv_call ms [slice [] l; WRef l] [] = CInvoke [l; l] [].
Proof. exact shared_list_call. Qed.
Print Assumptions C12_shared_argument_example.

(* the special case without repeats: send_call = checkAllArgs, then map slice (the executable sender the correspondence
   runs against the real callRemote for calls in which no container object occurs twice) *)
Theorem C12_call_delivered_tree : forall voc ms a kw, ms_wf ms -> args_guarded ms a kw ->
  forall p k, send_call voc ms a kw = Some (p, k) -> recv_call ms p k = CInvoke a kw.
Proof. exact c12_call. Qed.
Print Assumptions C12_call_delivered_tree.

Theorem C12_call_delivered_stream_tree : forall voc ms a kw, ms_wf ms -> args_guarded ms a kw ->
  forall p k kb, send_call voc ms a kw = Some (p, k) -> code_kws kb = k -> names_text kb = true ->
  recv_arguments ms (enc_args p kb) = CInvoke a kw.
Proof. exact c12_call_stream. Qed.
Print Assumptions C12_call_delivered_stream_tree.

Theorem C12_call_sequence_delivered_tree : forall voc env r c mname t tbl ms a kw,
  (negb (r =? 0) && memZ r (be_active env)) = false -> 0 <= c -> utf8_valid mname = true ->
  assocZ c (be_objs env) = Some t -> t_iface t = Some tbl -> assocZ (name_code mname) tbl = Some ms ->
  ms_wf ms -> args_guarded ms a kw ->
  forall p k kb, send_call voc ms a kw = Some (p, k) -> code_kws kb = k -> names_text kb = true ->
  recv_call_stream env (call_kids r c mname (enc_args p kb)) = QInvoke c (Some (name_code mname)) ms a kw.
Proof. exact call_delivered. Qed.
Print Assumptions C12_call_sequence_delivered_tree.

(* "(and symmetrically for results)": a result that passes the check the target's Broker applies before sending
   (methodSchema.checkResults(res, False) in _callFinished) is accepted by the caller's AnswerUnslicer under the same
   result constraint, and the callRemote callback receives it *)
Theorem C12_result_delivered : forall voc ms c o w,
  ms_resp ms = Some c -> wf c = true -> owf o = true -> c12_guard c o = true ->
  send_answer voc ms o = Some w -> recv_answer (Some c) w = Callback o.
Proof. exact c12_result. Qed.
Print Assumptions C12_result_delivered.

(* "Values the receiver's token-level checks would refuse are already refused locally by the sender" -- text that has no
   UTF-8 form (a str holding a lone surrogate: os.fsdecode / surrogateescape produce them).  Every UnicodeConstraint
   accepts it (checkObject counts code points), so it passes callRemote's schema check; owf excludes it from the theorems
   above because it has no serialized form: UnicodeSlicer.sliceBody (translated: strict encode, UnicodeEncodeError ->
   Violation) fails that one object while it is being serialized -- the call / the answer is refused on the sending side,
   nothing is delivered, the connection stays up. *)
Theorem C12_unencodable_call_refused_locally : forall voc ms a kw,
  forallb encodable a && forallb (fun nv => encodable (snd nv)) kw = false -> send_call voc ms a kw = None.
Proof. exact unencodable_call_refused. Qed.
Print Assumptions C12_unencodable_call_refused_locally.

Theorem C12_unencodable_result_refused_locally : forall voc ms o, encodable o = false -> send_answer voc ms o = None.
Proof. exact unencodable_result_refused. Qed.
Print Assumptions C12_unencodable_result_refused_locally.

(* ... and the two ends agree on WHICH texts those are: the receiver's decoder (UnicodeUnslicer.receiveChild:
   obj.decode("UTF-8"), strict; Schema.utf8_valid / utf8_decode, compared with Python's decoder on every run) accepts the
   UTF-8 form of a text -- the generic one- to four-byte forms, which is also what a lenient errors="surrogatepass" encoder
   emits -- exactly when the text is encodable, the STRING header the sender writes is the length of that form, and
   decoding gives the very text back (the wire tree carries the body BYTES).  So a body the strict encoder produces is
   never refused, and letting a lone surrogate out (instead of refusing it locally) is always refused by the receiver
   (recv_text: a Violation since 66cc69a, the connection before). *)
Theorem C12_sent_text_decodable : forall cps, text_encodable cps = true ->
  utf8_valid (utf8_encode cps) = true /\ zlen (utf8_encode cps) = utf8size cps /\ utf8_decode (utf8_encode cps) = cps.
Proof. exact utf8_roundtrip. Qed.
Print Assumptions C12_sent_text_decodable.

Theorem C12_decoder_accepts_iff_encodable : forall cps, forallb cp_in_range cps = true ->
  utf8_valid (utf8_encode cps) = text_encodable cps.
Proof. exact utf8_encode_valid_iff. Qed.
Print Assumptions C12_decoder_accepts_iff_encodable.

Theorem C12_unencodable_witness :
  let o := OList [OText [99; 97; 102; 56553]; OText [97]] in let c := CList (CText (Some 4) 0) None 0 in
  checkObject c o = true /\ encodable o = false /\ utf8_valid (utf8_encode [99; 97; 102; 56553]) = false /\
  recvw (Some c) (slice [] o) = (if unicode_unslicer_undecodable_violation then RViol else RAbort) /\
  send_call [] (ms1 c) [o] [] = None /\
  encodable (OText [55295; 57344; 1114111]) = true /\ utf8_valid (utf8_encode [55295; 57344; 1114111]) = true /\
  recvw (Some (CText (Some 3) 0)) (slice [] (OText [55295; 57344; 1114111])) = RDeliver (OText [55295; 57344; 1114111]).
Proof. exact unencodable_witness. Qed.
Print Assumptions C12_unencodable_witness.

(* The full statement (without c12_guard) is FALSE on the current tree; each excluded region has its witness: *)
Theorem C12_refuted_choice :        (* D7a, oracle/choiceof-container-drops-connection *)
  checkObject d7a_ctr (OList [OInt 1; OInt 2]) = true /\ recvw (Some d7a_ctr) (slice [] (OList [OInt 1; OInt 2])) = RAbort.
Proof. exact SchemaProofs.C12_refuted_choice. Qed.
Print Assumptions C12_refuted_choice.

Theorem C12_refuted_anystring :
  let c := CChoice [CBytes None 0; CText None 0] in
  checkObject c (OText [97]) = true /\ recvw (Some c) (slice [] (OText [97])) = RAbort.
Proof. exact SchemaProofs.C12_refuted_anystring. Qed.
Print Assumptions C12_refuted_anystring.

Theorem C12_refuted_optional :      (* oracle/optional-container-drops-connection *)
  let c := CList (COpt (CInt (Some 1024))) None 0 in
  checkObject c (OList [OList [OInt 1]]) = true /\ recvw (Some c) (slice [] (OList [OList [OInt 1]])) = RAbort.
Proof. exact SchemaProofs.C12_refuted_optional. Qed.
Print Assumptions C12_refuted_optional.

Theorem C12_refuted_any_huge_int :  (* oracle/any-rejects-huge-int *)
  checkObject CAny (OInt (2 ^ 8001)) = true /\ recvw (Some CAny) (slice [] (OInt (2 ^ 8001))) = RViol.
Proof. exact SchemaProofs.C12_refuted_any_huge_int. Qed.
Print Assumptions C12_refuted_any_huge_int.
