(* C12 -- Whatever the sender's schema check accepts, the receiver accepts.
   Property theorems only; proofs live in lib/SchemaProofs.v. *)
From Coq Require Import ZArith List String Bool.
Import ListNotations.
Require Import Verif.lib.PyLite Verif.gen.BananaGen Verif.gen.SchemaGen Verif.lib.Schema Verif.lib.SchemaProofs.
Local Open Scope Z_scope.

(* The full statement   forall c o, checkObject c o = true -> recvw (Some c) (slice o) = RDeliver o
   is FALSE on the current tree; each excluded region has its witness: *)
Theorem C12_refuted_choice :        (* D7a, oracle/choiceof-container-drops-connection *)
  checkObject d7a_ctr (OList [OInt 1; OInt 2]) = true /\ recvw (Some d7a_ctr) (slice (OList [OInt 1; OInt 2])) = RAbort.
Proof. exact SchemaProofs.C12_refuted_choice. Qed.
Print Assumptions C12_refuted_choice.

Theorem C12_refuted_anystring :
  let c := CChoice [CBytes None 0; CText None 0] in
  checkObject c (OText [97]) = true /\ recvw (Some c) (slice (OText [97])) = RAbort.
Proof. exact SchemaProofs.C12_refuted_anystring. Qed.
Print Assumptions C12_refuted_anystring.

Theorem C12_refuted_optional :      (* oracle/optional-container-drops-connection *)
  let c := CList (COpt (CInt (Some 1024))) None 0 in
  checkObject c (OList [OList [OInt 1]]) = true /\ recvw (Some c) (slice (OList [OList [OInt 1]])) = RAbort.
Proof. exact SchemaProofs.C12_refuted_optional. Qed.
Print Assumptions C12_refuted_optional.

Theorem C12_refuted_any_huge_int :  (* oracle/any-rejects-huge-int *)
  checkObject CAny (OInt (2 ^ 8001)) = true /\ recvw (Some CAny) (slice (OInt (2 ^ 8001))) = RViol.
Proof. exact SchemaProofs.C12_refuted_any_huge_int. Qed.
Print Assumptions C12_refuted_any_huge_int.
