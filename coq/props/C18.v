(* C18 -- Logging never fails the caller, stays bounded, and its files read back.
   Property theorems only; proofs live in lib/LogBufProofs.v; the model lib/LogBuf.v interprets the constants and
   shape facts translated from logging/{log,levels,incident,flogfile,publish}.py into gen/LogBufGen.v. *)
From Coq Require Import ZArith List Bool Lia Sorting.Sorted Sorting.Permutation.
Import ListNotations.
Require Import Verif.lib.PyLite Verif.gen.LogBufGen Verif.lib.LogBuf Verif.lib.LogBufProofs.
Require Import Verif.gen.LogJsonGen Verif.lib.LogJson Verif.lib.LogJsonProofs Verif.lib.LogFileProofs Verif.lib.LogOrderProofs.
Require Import Verif.lib.LogFmt Verif.lib.LogFmtProofs Verif.lib.LogReent Verif.lib.LogReentProofs.
Local Open Scope Z_scope.

(* "Emitting a log event never raises ..." : every msg() call -- also one whose _msg raises (uncomparable level,
   unhashable facility, failing str(), negative size limit, failing incident reporter) -- returns a number.
   (By the form of msg(): the model's `step` is total because msg's two handlers -- translated fact msg_catch_all, matched
   literally: `except Exception` around _msg, bare `except: pass` around the replacement event -- leave no path on which an
   exception escapes; what _msg itself can raise on hostile values is the oracle's part.) *)
Theorem C18_msg_total : forall c s o, is_call o = true -> exists n, snd (step c s o) = Some n.
Proof. exact msg_total. Qed.
Print Assumptions C18_msg_total.

(* "... and returns strictly increasing event numbers, whatever objects are passed": over any history the numbers
   handed out by the logger are exactly seq+1, seq+2, ... *)
Theorem C18_numbers_exact : forall c ops s, autos ops (snd (run c s ops)) = zrange (s_seq s + 1) (count_auto ops).
Proof. exact autos_exact. Qed.
Print Assumptions C18_numbers_exact.

Theorem C18_numbers_strictly_increase : forall c ops s,
  StronglySorted Z.lt (autos ops (snd (run c s ops))) /\ Forall (fun n => s_seq s < n) (autos ops (snd (run c s ops))).
Proof. exact numbers_strictly_increase. Qed.
Print Assumptions C18_numbers_strictly_increase.

(* "memory stays bounded (each facility/level history holds at most its configured number of events ...":
   (1) right after an event on (facility, level) that buffer holds at most its limit, namely the most recent events,
       and no other buffer changed -- for EVERY cfg c, i.e. also when the incident handling raises (c_fault c);
   (2) over ANY history (limits may be changed at any time) no buffer ever exceeds the largest configured limit.
   Full statement "length <= current limit at all times" is NOT what the code does: set_buffer_size only records the
   new limit (translated fact set_buffer_size_trims = false, Example ex_bounded), the buffer shrinks at its next event. *)
Theorem C18_buffer_within_limit_after_event : forall c sz b i e,
  0 <= limit_of sz (e_fac e) (e_lvl e) ->
  let q := buf_get (x_bufs (add_event c sz b i e)) (e_fac e) (e_lvl e) in
  Z.of_nat (List.length q) <= limit_of sz (e_fac e) (e_lvl e) /\
  (exists k, q = skipn k (buf_get b (e_fac e) (e_lvl e) ++ [e])) /\
  (forall f l, (f, l) <> (e_fac e, e_lvl e) -> buf_get (x_bufs (add_event c sz b i e)) f l = buf_get b f l).
Proof. exact after_event_within_limit. Qed.
Print Assumptions C18_buffer_within_limit_after_event.

Theorem C18_buffers_bounded : forall M c ops,
  DEFAULT_SIZELIMIT <= M -> Forall (op_limit_le M) ops ->
  forall f l, Z.of_nat (List.length (buf_get (s_bufs (fst (run c init ops))) f l)) <= M.
Proof. intros M c ops H1 H2. exact (buffers_bounded_from_init M c ops H1 H2). Qed.
Print Assumptions C18_buffers_bounded.

(* the same over histories in which the synchronous incident handling fails (c_fault: the qualifier raises, or
   incident_declared raises because the incident directory is gone / a custom reporter raises) and in which that
   fault, the reporter kind or the qualifier are switched in mid-history (segments).  True because the translated
   stage order of add_event trims BEFORE the qualifier runs: an exception out of the qualifier cannot skip the trim. *)
Theorem C18_buffers_bounded_under_incident_faults : forall M segs,
  DEFAULT_SIZELIMIT <= M -> Forall (fun cs => Forall (op_limit_le M) (snd cs)) segs ->
  forall f l, Z.of_nat (List.length (buf_get (s_bufs (run_segs init segs)) f l)) <= M.
Proof.
  intros M segs H1 H2. assert (0 <= M) by (unfold DEFAULT_SIZELIMIT in H1; lia).
  apply buffers_bounded_segs; [assumption | exact H2 | apply init_sizes_le; exact H1 | apply init_bufs_le; assumption].
Qed.
Print Assumptions C18_buffers_bounded_under_incident_faults.

(* "... each remote subscriber at most its queue limit with a bounded number in flight) and subscribers see an
   order-preserving subsequence": for every schedule of sends / queue turns / acknowledgements / failures *)
Theorem C18_subscriber_bounded : forall ops,
  let s := sub_run MAX_QUEUE_SIZE MAX_IN_FLIGHT ops in
  Z.of_nat (List.length (q_queue s)) <= MAX_QUEUE_SIZE /\ 0 <= q_inflight s <= MAX_IN_FLIGHT /\
  subseq (q_delivered s) (q_emitted s) /\ subseq (q_delivered s ++ q_queue s) (q_emitted s).
Proof. intros ops. apply subscriber_bounded; unfold MAX_QUEUE_SIZE, MAX_IN_FLIGHT; discriminate. Qed.
Print Assumptions C18_subscriber_bounded.

(* the same for any limits (the correspondence also runs Subscription subclasses with small limits) *)
Theorem C18_subscriber_bounded_any_limits : forall maxq maxfl ops, 0 <= maxq -> 0 <= maxfl ->
  let s := sub_run maxq maxfl ops in
  Z.of_nat (List.length (q_queue s)) <= maxq /\ 0 <= q_inflight s <= maxfl /\
  subseq (q_delivered s) (q_emitted s) /\ subseq (q_delivered s ++ q_queue s) (q_emitted s).
Proof. exact subscriber_bounded. Qed.
Print Assumptions C18_subscriber_bounded_any_limits.

(* "an incident file contains its triggering event and everything that was buffered, and one unrepresentable event
   never prevents other events or later incidents from being recorded": whenever an event of incident level is added
   while no recording is in progress -- WHATEVER the buffers hold (e_ok arbitrary: non-text keys, cycles, huge
   integers, deep nesting ...) and whatever happened before -- add_event does not raise and
     NonTrailing: the published file is  trigger :: buffered events sorted by number,
     Trailing:    a timed reporter holds exactly those lines (published by C18_incident_trailing below).
   FULL STRENGTH; rests on the translated fact serialize_total = true (three-stage fallback in flogfile): with it
   `enc e` is constantly true, so the quantification over e_ok is free.  That flag is no longer only syntactic: the chain
   it stands for is modelled in lib/LogJson.v and C18_serialize_never_raises (below) proves that it always yields a line;
   C18_incident_recorded_when_encodable is the statement that does not use the flag. *)
Theorem C18_one_bad_event_harmless : forall c sz b i e,
  c_fault c = NoFault -> c_qual c = true -> incident_level <= e_lvl e -> i_rep i = None -> i_zombie i = false ->
  0 <= limit_of sz (e_fac e) (e_lvl e) ->
  let a := add_event c sz b i e in
  x_raised a = false /\
  (c_trailing c = false ->
     i_files (x_inc a) = i_files i ++ [e :: sort_by_num (all_buffered (x_bufs a))] /\
     i_recorded (x_inc a) = i_recorded i + 1 /\ i_junk (x_inc a) = i_junk i /\ i_rep (x_inc a) = None) /\
  (c_trailing c = true ->
     i_rep (x_inc a) = Some (mkRep e (sort_by_num (all_buffered (x_bufs a))) TRAILING_EVENT_LIMIT true) /\
     i_junk (x_inc a) = i_junk i).
Proof. exact incident_recorded. Qed.
Print Assumptions C18_one_bad_event_harmless.

(* the file's lines are a permutation of what was buffered, in event-number order; the trigger is among them *)
Theorem C18_incident_complete : forall l,
  (forall x, In x (sort_by_num l) <-> In x l) /\ StronglySorted num_le (sort_by_num l).
Proof. intros l. split; [intros x; apply sort_in | apply sort_sorted]. Qed.
Print Assumptions C18_incident_complete.

Theorem C18_trigger_is_buffered : forall c sz b i e,
  1 <= limit_of sz (e_fac e) (e_lvl e) -> In e (buf_get (x_bufs (add_event c sz b i e)) (e_fac e) (e_lvl e)).
Proof. exact trigger_buffered. Qed.
Print Assumptions C18_trigger_is_buffered.

(* trailing events: up to TRAILING_EVENT_LIMIT later events are appended in order (each one that can be encoded: all of
   them on this tree), then the timer publishes  trigger :: buffered ++ trailing *)
Theorem C18_incident_trailing : forall evs i r,
  i_rep i = Some r -> Z.of_nat (List.length evs) <= r_remaining r ->
  fold_left trailing_event evs i =
    mkInc (Some (mkRep (r_trigger r) (r_lines r ++ filter enc evs) (r_remaining r - Z.of_nat (List.length evs)) (r_timer r)))
          (i_zombie i) (i_declared i) (i_recorded i) (i_files i) (i_junk i).
Proof. exact trailing_fold. Qed.
Print Assumptions C18_incident_trailing.

Theorem C18_incident_timer_publishes : forall c s r,
  i_rep (s_inc s) = Some r -> r_timer r = true ->
  i_files (s_inc (fst (step c s Timer))) = i_files (s_inc s) ++ [r_trigger r :: r_lines r] /\
  i_recorded (s_inc (fst (step c s Timer))) = i_recorded (s_inc s) + 1 /\ i_rep (s_inc (fst (step c s Timer))) = None.
Proof. exact timer_publishes. Qed.
Print Assumptions C18_incident_timer_publishes.

(* over ANY history no incident is ever abandoned (.flog / .flog.bz2.tmp left behind) *)
Theorem C18_nothing_abandoned : forall c ops, i_junk (s_inc (fst (run c init ops))) = 0.
Proof. intros c ops. rewrite nothing_abandoned. reflexivity. Qed.
Print Assumptions C18_nothing_abandoned.

(* independent of the form of serialize_to_json_utf8: valid for every history whose buffered events can be encoded *)
Theorem C18_incident_recorded_when_encodable : forall c sz b i e,
  c_fault c = NoFault -> c_qual c = true -> incident_level <= e_lvl e -> i_rep i = None -> i_zombie i = false ->
  0 <= limit_of sz (e_fac e) (e_lvl e) ->
  let a := add_event c sz b i e in
  enc e = true -> forallb enc (all_buffered (x_bufs a)) = true ->
  x_raised a = false /\
  (c_trailing c = false -> i_files (x_inc a) = i_files i ++ [e :: sort_by_num (all_buffered (x_bufs a))]) /\
  (c_trailing c = true ->
     i_rep (x_inc a) = Some (mkRep e (sort_by_num (all_buffered (x_bufs a))) TRAILING_EVENT_LIMIT true)).
Proof. exact incident_recorded_guarded. Qed.
Print Assumptions C18_incident_recorded_when_encodable.

(* "each remote subscriber at most its queue limit" also for subscribers that ask for catch-up, whatever the buffers
   hold (far more than MAX_QUEUE_SIZE events included): the catch-up batch -- everything buffered, in number order --
   goes straight to the observer; queue and in-flight counter start empty and stay within their limits *)
Theorem C18_subscriber_bounded_after_catchup : forall catch_up b ops,
  let '(s0, direct) := sub_subscribe catch_up b in
  let s := fold_left (sub_step MAX_QUEUE_SIZE MAX_IN_FLIGHT) ops s0 in
  q_queue s0 = [] /\ q_inflight s0 = 0 /\
  (catch_up = true -> Permutation direct (all_buffered b) /\ StronglySorted num_le direct) /\
  Z.of_nat (List.length (q_queue s)) <= MAX_QUEUE_SIZE /\ 0 <= q_inflight s <= MAX_IN_FLIGHT /\
  subseq (q_delivered s ++ q_queue s) (q_emitted s).
Proof.
  intros catch_up b ops. apply subscriber_bounded_after_catchup; unfold MAX_QUEUE_SIZE, MAX_IN_FLIGHT; discriminate.
Qed.
Print Assumptions C18_subscriber_bounded_after_catchup.

(* "Every event that is written to a log or incident file can be read back", the COMPRESSION layer only (the records are
   opaque here; what a record reads back as is C18_event_reads_back / C18_file_reads_back / C18_logfile_events_read_back /
   C18_incident_file_reads_back below): every writer compresses according to the name get_events will see.  flogtool
   filter -- into a new file or in place (written as NAME.tmp, then renamed), plain or .bz2, any --above /
   --strip-facility selection -- yields a file get_events can open, holding exactly the records it kept; the same for
   LogFileObserver files.  Rests on the translated facts filter_codec_from / logfile_codec_from = FinalName. *)
Theorem C18_filter_codec_matches : forall above strip final_bz2 inplace recs,
  filter_run above strip final_bz2 inplace recs = Some (filter (filter_keep above strip) recs).
Proof. exact filter_reads_back. Qed.
Print Assumptions C18_filter_codec_matches.

Theorem C18_logfile_codec_matches : forall name_bz2 recs, logfile_written name_bz2 recs = Some recs.
Proof. exact logfile_reads_back. Qed.
Print Assumptions C18_logfile_codec_matches.

(* "... one unrepresentable event never prevents other events or later incidents from being recorded", at the grain of
   single reactor iterations (lib/LogBuf.v `iterate`: several calls before the eventual queue runs, an observer calling
   from inside the queue's batch, calls due in the instant of the trailing timer).
   A trigger emitted while NO reporter is recording -- in particular between stop_recording and finished_recording of the
   previous incident, whatever is still being closed (f_closing) -- starts an incident of its own.  Rests on the
   translated fact active_cleared_at = AtStop (the reporter stops claiming to be active when it unsubscribes). *)
Theorem C18_trigger_in_window_recorded : forall c f fac lvl ok rp id,
  c_fault c = NoFault -> c_qual c = true -> i_rep (s_inc (f_s f)) = None ->
  incident_level <= lvl -> cmpZ threshold_drop_cmp lvl (threshold_of (s_thr (f_s f)) fac) = false ->
  0 <= limit_of (s_sizes (f_s f)) fac lvl ->
  let e := mkEv (s_seq (f_s f) + 1) fac lvl ok id in
  let '(f', r, n) := fcall c f (Msg None fac lvl ok rp id) in
  r = Some (e_num e) /\ f_closing f' = f_closing f /\ n = [] /\
  (c_trailing c = true -> exists lines, i_rep (s_inc (f_s f')) = Some (mkRep e lines TRAILING_EVENT_LIMIT true)) /\
  (c_trailing c = false -> exists lines, i_files (s_inc (f_s f')) = i_files (s_inc (f_s f)) ++ [e :: lines]).
Proof. exact trigger_in_window_recorded. Qed.
Print Assumptions C18_trigger_in_window_recorded.

(* What the code does with a trigger-level event emitted WHILE a reporter is recording (by design: new_trigger is the
   documented overlap hook): it does not start an incident, it is an ordinary trailing event of the running incident ... *)
Theorem C18_trigger_absorbed_by_running_incident : forall c b i e r,
  i_rep i = Some r ->
  declare_incident c b i e = (mkInc (i_rep i) (i_zombie i) (i_declared i + 1) (i_recorded i) (i_files i) (i_junk i), false).
Proof. exact absorbed_by_running_incident. Qed.
Print Assumptions C18_trigger_absorbed_by_running_incident.

(* ... and as such subject to the reporter's documented limits (TRAILING_EVENT_LIMIT events, TRAILING_DELAY seconds): two
   histories, replayed on the real code, in which such an event is dropped: (1) it is the 101st event after the first
   trigger; (2) it is emitted by a call that runs just before the trailing timer in the same reactor iteration.  These
   are NOT violations of C18 (the property speaks of an incident's OWN trigger and of what was buffered). *)
Theorem C18_absorbed_trigger_subject_to_limits :
  (exists its, let f := fst (iterations (mkCfg true true NoFault) fine_init its) in
               f_closing f = [] /\ i_rep (s_inc (f_s f)) = None /\ i_declared (s_inc (f_s f)) = 2 /\
               i_recorded (s_inc (f_s f)) = 1 /\ in_some_file (s_inc (f_s f)) 101 = false) /\
  (exists its, let f := fst (iterations (mkCfg true true NoFault) fine_init its) in
               f_closing f = [] /\ i_rep (s_inc (f_s f)) = None /\ i_declared (s_inc (f_s f)) = 2 /\
               i_recorded (s_inc (f_s f)) = 1 /\ in_some_file (s_inc (f_s f)) 1 = false).
Proof. exact absorbed_trigger_subject_to_limits. Qed.
Print Assumptions C18_absorbed_trigger_subject_to_limits.

(* ===================================================================== round 5: the JSON layer inside the model *)
(* lib/LogJson.v models json.dumps + ExtendedEncoder, _make_jsonable, _last_resort and the try / except chain of
   serialize_to_json_utf8 over ALL Python values of its universe (None, bool, int of any size, float, text, opaque objects
   whose repr works / raises / raises unreprably, Failures, lists, tuples, dicts with keys of any kind, containers that
   contain themselves, nesting of any depth), parameterised by the TRANSLATED facts of gen/LogJsonGen.v (which exception
   classes each `except` selects, container / key / scalar type lists, the integer bound, the depth) and by the
   interpreter's budgets L (recursion depth of the C encoder and of Python frames, largest printable integer). *)

(* "... one unrepresentable event never prevents other events ... from being recorded": writing a line NEVER raises,
   whatever the object, for every interpreter whose budgets admit what _last_resort leaves (lims_ok; cpython_ok) *)
Theorem C18_serialize_never_raises : forall L o, lims_ok L -> exists j, serialize L o = Ok j.
Proof. exact serialize_total. Qed.
Print Assumptions C18_serialize_never_raises.

Theorem C18_budgets_of_cpython_admitted : lims_ok cpython.
Proof. exact cpython_ok. Qed.
Print Assumptions C18_budgets_of_cpython_admitted.

(* "Every event that is written to a log or incident file can be read back with the same number, level and message":
   whichever of the three stages produced the line (first try, sanitised copy, last-resort record), the "d" member of
   what json.loads returns carries the event's num, level and message -- for every event dict with text keys (kwargs),
   an integer number and level below 2^64 (small_int; Example ex_huge_num_lost: the bound is needed) and a text message,
   whatever else it holds *)
Theorem C18_event_reads_back : forall L from rx e n l m j,
  is_event e n l m -> serialize L (wrap from rx e) = Ok j ->
  exists d, event_of_line j = Some d /\ view3 d = fields n l m.
Proof. exact event_fields_survive. Qed.
Print Assumptions C18_event_reads_back.

(* the trigger inside the header of an incident file ({"header": {"type", "trigger": EVENT, ..}}: one level deeper) *)
Theorem C18_trigger_reads_back : forall L ty more e n l m j,
  is_event e n l m -> serialize L (header ty e more) = Ok j ->
  exists d, trigger_of_header j = Some d /\ view3 d = fields n l m.
Proof. exact trigger_fields_survive. Qed.
Print Assumptions C18_trigger_reads_back.

(* a whole file written with serialize_wrapper: no write raises and get_events yields every event, in order *)
Theorem C18_file_reads_back : forall L from rx (evs : list (pv * (Z * Z * Z))), lims_ok L ->
  Forall (fun x => is_event (fst x) (fst (fst (snd x))) (snd (fst (snd x))) (snd (snd x))) evs ->
  exists js, write_lines L from rx (map fst evs) = Some js /\
             map line_view js = map (fun x => Some (fields (fst (fst (snd x))) (snd (fst (snd x))) (snd (snd x)))) evs.
Proof. exact file_reads_back. Qed.
Print Assumptions C18_file_reads_back.

(* the layers composed: a LogFileObserver file (plain or .bz2) of the logger model's events reads back completely ... *)
Theorem C18_logfile_events_read_back : forall L (payload : event -> pv) (msg : event -> Z) from rx name_bz2 (evs : list event),
  lims_ok L -> (forall x, In x evs -> is_event (payload x) (e_num x) (e_lvl x) (msg x)) ->
  exists js, write_lines L from rx (map payload evs) = Some js /\
             read_back name_bz2 (write_codec logfile_codec_from name_bz2 false) js = Some js /\
             map line_view js = map (ev_fields msg) evs.
Proof. exact logfile_events_read_back. Qed.
Print Assumptions C18_logfile_events_read_back.

(* ... and "an incident file contains its triggering event and everything that was buffered", down to what a reader gets:
   the file the logger model publishes for a trigger is  trigger :: lines, the trigger is among the lines, the header
   line reads back the trigger's number / level / message and every buffered event's line reads back its own *)
Theorem C18_incident_file_reads_back : forall L (payload : event -> pv) (msg : event -> Z) from rx ty c sz b i e, lims_ok L ->
  (forall x, In x (all_buffered (x_bufs (add_event c sz b i e))) -> is_event (payload x) (e_num x) (e_lvl x) (msg x)) ->
  c_fault c = NoFault -> c_qual c = true -> incident_level <= e_lvl e -> i_rep i = None -> i_zombie i = false ->
  1 <= limit_of sz (e_fac e) (e_lvl e) -> c_trailing c = false ->
  let a := add_event c sz b i e in
  exists lines,
    i_files (x_inc a) = i_files i ++ [e :: lines] /\ In e lines /\
    (exists jh d, serialize L (header ty (payload e) []) = Ok jh /\ trigger_of_header jh = Some d /\
                  view3 d = fields (e_num e) (e_lvl e) (msg e)) /\
    (exists js, write_lines L from rx (map payload lines) = Some js /\ map line_view js = map (ev_fields msg) lines).
Proof. exact incident_file_reads_back. Qed.
Print Assumptions C18_incident_file_reads_back.

(* ===================================================================== round 5: subscribers, end to end *)
(* "... with a bounded number in flight": the remote calls that are neither acknowledged nor failed (q_outstanding)
   never exceed the counter, which never exceeds MAX_IN_FLIGHT *)
Theorem C18_subscriber_window : forall ops,
  let s := sub_run MAX_QUEUE_SIZE MAX_IN_FLIGHT ops in 0 <= q_outstanding s <= q_inflight s /\ q_inflight s <= MAX_IN_FLIGHT.
Proof. intros ops. apply subscriber_window; unfold MAX_QUEUE_SIZE, MAX_IN_FLIGHT; discriminate. Qed.
Print Assumptions C18_subscriber_window.

(* "subscribers see an order-preserving subsequence": logger and Subscription composed.  After ANY history `pre` a
   subscriber arrives (with or without catch-up); during ANY further history `ops` the logger hands Subscription.send
   exactly the events that reach the immediate observers (run_sends: thresholds, failing _msg and its internal-error
   replacement included), interleaved in ANY way with queue turns, acknowledgements and failures.  Then what the
   subscriber has been given -- catch-up batch, then delivered, then still queued -- is in event-number order, the
   catch-up part (numbers <= the counter at subscription) entirely before the live part (numbers above it), the live part
   a subsequence of what was emitted, and the catch-up batch everything that was buffered.
   (auto_only: calls that pass num= explicitly are excluded -- the logger does not order foreign numbers.) *)
Theorem C18_subscriber_sees_ordered : forall c pre ops sops catch_up maxq maxfl,
  0 <= maxq -> 0 <= maxfl -> Forall auto_only pre -> Forall auto_only ops ->
  let s0 := fst (run c init pre) in
  sends_of sops = map e_num (run_sends c s0 ops) ->
  let q0 := fst (sub_subscribe catch_up (s_bufs s0)) in
  let direct := snd (sub_subscribe catch_up (s_bufs s0)) in
  let q := fold_left (sub_step maxq maxfl) sops q0 in
  StronglySorted Z.le (map e_num direct ++ q_delivered q ++ q_queue q) /\
  Forall (fun n => n <= s_seq s0) (map e_num direct) /\
  Forall (fun n => s_seq s0 < n) (q_delivered q ++ q_queue q) /\
  subseq (q_delivered q ++ q_queue q) (sends_of sops) /\
  (catch_up = true -> Permutation direct (all_buffered (s_bufs s0))).
Proof. exact subscriber_sees_ordered. Qed.
Print Assumptions C18_subscriber_sees_ordered.

(* what immediate observers are handed over any history of logger-numbered calls: numbers never decrease (an event and
   the internal-error event that replaces it share a number) and all lie above the counter at the start *)
Theorem C18_sends_in_number_order : forall c ops s, Forall auto_only ops ->
  StronglySorted Z.le (map e_num (run_sends c s ops)) /\ Forall (fun n => s_seq s < n) (map e_num (run_sends c s ops)).
Proof. exact run_sends_sorted. Qed.
Print Assumptions C18_sends_in_number_order.

(* ===================================================================== round 5: rendering *)
(* "rendering an event to text never raises": lib/LogFmt.v models format_message -- key normalisation, the selection of
   format string and arguments with its asserts and conversions, the % operator (either outcome), the fallback with
   repr() of a non-text message and its own guard -- over event dicts whose keys are text, utf-8 bytes, undecodable bytes
   or anything else and whose values are text, bytes (decodable or not), argument sequences, or objects whose repr works
   or raises.  FULL STRENGTH on this tree: no hypothesis on the dict.  Rests on the translated fact
   fmt_keys_outside_try = false (8594ad6 moved `e = ensure_dict_str_keys(e)` inside the try) and on the handler classes. *)
Theorem C18_format_total : forall pct e, exists o, format_message pct e = Ok o.
Proof. exact format_total_all. Qed.
Print Assumptions C18_format_total.

(* independent of where that statement sits: total on every dict whose keys are text or utf-8 bytes *)
Theorem C18_format_total_textlike_keys : forall pct e,
  fmt_keys_outside_try = false \/ keys_textlike e -> exists o, format_message pct e = Ok o.
Proof. exact format_total. Qed.
Print Assumptions C18_format_total_textlike_keys.

(* the repaired defect as a regression statement: were the normalisation outside the try again, these two dicts would
   escape (TypeError / UnicodeDecodeError).  They are fixed witnesses of the oracle (corpus/C18/format_nontext_key.json,
   signature oracle/format-raises-nontext-key). *)
Theorem C18_format_unguarded_keys_escape : fmt_keys_outside_try = true ->
  (forall pct, format_message pct [(FKOther, FVText 10)] = Raise ETypeError) /\
  (forall pct, format_message pct [(FKBytes 11 false, FVText 10); (FKText N_message, FVText 12)] = Raise EValueError).
Proof. exact format_unguarded_keys_escape. Qed.
Print Assumptions C18_format_unguarded_keys_escape.

(* ===================================================================== round 5: re-entrant calls *)
(* "... returns strictly increasing event numbers, whatever objects are passed" when a call of msg() causes further
   calls of msg() while it runs (an observer that logs, a __str__ / __repr__ that logs): lib/LogReent.v, call trees of any
   shape.  msg() takes its number from the translated Count.next before anything else, so the numbers returned, listed in
   the order in which the calls START, are exactly seq+1, seq+2, ...: strictly increasing, every call made from inside
   a call returns more than that call, and whatever is called afterwards returns more than the whole tree. *)
Theorem C18_reentrant_numbers_exact : forall c seq, all_auto c = true ->
  rcall seq c = (seq + Z.of_nat (size c), seq + 1, zrange (seq + 1) (size c)).
Proof. exact reentrant_numbers_exact. Qed.
Print Assumptions C18_reentrant_numbers_exact.

Theorem C18_reentrant_numbers_increase : forall c seq, all_auto c = true ->
  let '(seq', ret, rets) := rcall seq c in
  StronglySorted Z.lt rets /\ Forall (fun n => seq < n <= seq') rets /\ ret = seq + 1 /\ hd 0 rets = ret.
Proof. exact reentrant_numbers_increase. Qed.
Print Assumptions C18_reentrant_numbers_increase.
