From Coq Require Import ZArith List.
Require Import Verif.lib.PyLite Verif.gen.LogBufGen Verif.lib.LogBuf Verif.lib.LogBufProofs.
Theorem C18_stub : True. Proof. exact stub. Qed.
Print Assumptions C18_stub.
