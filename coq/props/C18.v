(* C18 -- Logging never fails the caller, stays bounded, and its files read back.
   Property theorems only; proofs live in lib/LogBufProofs.v; the model lib/LogBuf.v interprets the constants and
   shape facts translated from logging/{log,levels,incident,flogfile,publish}.py into gen/LogBufGen.v. *)
From Coq Require Import ZArith List Bool Lia Sorting.Sorted Sorting.Permutation.
Import ListNotations.
Require Import Verif.lib.PyLite Verif.gen.LogBufGen Verif.lib.LogBuf Verif.lib.LogBufProofs.
Local Open Scope Z_scope.

(* "Emitting a log event never raises ..." : every msg() call -- also one whose _msg raises (uncomparable level,
   unhashable facility, failing str(), negative size limit, failing incident reporter) -- returns a number *)
Theorem C18_msg_total : forall c s o, is_call o = true -> exists n, snd (step c s o) = Some n.
Proof. exact msg_total. Qed.
Print Assumptions C18_msg_total.

(* "... and returns strictly increasing event numbers, whatever objects are passed": over any history the numbers
   handed out by the logger are exactly seq+1, seq+2, ... *)
Theorem C18_numbers_exact : forall c ops s, autos ops (snd (run c s ops)) = zrange (s_seq s + 1) (count_auto ops).
Proof. exact autos_exact. Qed.
Print Assumptions C18_numbers_exact.

Theorem C18_numbers_strictly_increase : forall c ops s,
  StronglySorted Z.lt (autos ops (snd (run c s ops))) /\ Forall (fun n => s_seq s < n) (autos ops (snd (run c s ops))).
Proof. exact numbers_strictly_increase. Qed.
Print Assumptions C18_numbers_strictly_increase.

(* "memory stays bounded (each facility/level history holds at most its configured number of events ...":
   (1) right after an event on (facility, level) that buffer holds at most its limit, namely the most recent events,
       and no other buffer changed -- for EVERY cfg c, i.e. also when the incident handling raises (c_fault c);
   (2) over ANY history (limits may be changed at any time) no buffer ever exceeds the largest configured limit.
   Full statement "length <= current limit at all times" is NOT what the code does: set_buffer_size only records the
   new limit (translated fact set_buffer_size_trims = false, Example ex_bounded), the buffer shrinks at its next event. *)
Theorem C18_buffer_within_limit_after_event : forall c sz b i e,
  0 <= limit_of sz (e_fac e) (e_lvl e) ->
  let q := buf_get (x_bufs (add_event c sz b i e)) (e_fac e) (e_lvl e) in
  Z.of_nat (List.length q) <= limit_of sz (e_fac e) (e_lvl e) /\
  (exists k, q = skipn k (buf_get b (e_fac e) (e_lvl e) ++ [e])) /\
  (forall f l, (f, l) <> (e_fac e, e_lvl e) -> buf_get (x_bufs (add_event c sz b i e)) f l = buf_get b f l).
Proof. exact after_event_within_limit. Qed.
Print Assumptions C18_buffer_within_limit_after_event.

Theorem C18_buffers_bounded : forall M c ops,
  DEFAULT_SIZELIMIT <= M -> Forall (op_limit_le M) ops ->
  forall f l, Z.of_nat (List.length (buf_get (s_bufs (fst (run c init ops))) f l)) <= M.
Proof. intros M c ops H1 H2. exact (buffers_bounded_from_init M c ops H1 H2). Qed.
Print Assumptions C18_buffers_bounded.

(* the same over histories in which the synchronous incident handling fails (c_fault: the qualifier raises, or
   incident_declared raises because the incident directory is gone / a custom reporter raises) and in which that
   fault, the reporter kind or the qualifier are switched in mid-history (segments).  True because the translated
   stage order of add_event trims BEFORE the qualifier runs: an exception out of the qualifier cannot skip the trim. *)
Theorem C18_buffers_bounded_under_incident_faults : forall M segs,
  DEFAULT_SIZELIMIT <= M -> Forall (fun cs => Forall (op_limit_le M) (snd cs)) segs ->
  forall f l, Z.of_nat (List.length (buf_get (s_bufs (run_segs init segs)) f l)) <= M.
Proof.
  intros M segs H1 H2. assert (0 <= M) by (unfold DEFAULT_SIZELIMIT in H1; lia).
  apply buffers_bounded_segs; [assumption | exact H2 | apply init_sizes_le; exact H1 | apply init_bufs_le; assumption].
Qed.
Print Assumptions C18_buffers_bounded_under_incident_faults.

(* "... each remote subscriber at most its queue limit with a bounded number in flight) and subscribers see an
   order-preserving subsequence": for every schedule of sends / queue turns / acknowledgements / failures *)
Theorem C18_subscriber_bounded : forall ops,
  let s := sub_run MAX_QUEUE_SIZE MAX_IN_FLIGHT ops in
  Z.of_nat (List.length (q_queue s)) <= MAX_QUEUE_SIZE /\ 0 <= q_inflight s <= MAX_IN_FLIGHT /\
  subseq (q_delivered s) (q_emitted s) /\ subseq (q_delivered s ++ q_queue s) (q_emitted s).
Proof. intros ops. apply subscriber_bounded; unfold MAX_QUEUE_SIZE, MAX_IN_FLIGHT; discriminate. Qed.
Print Assumptions C18_subscriber_bounded.

(* the same for any limits (the correspondence also runs Subscription subclasses with small limits) *)
Theorem C18_subscriber_bounded_any_limits : forall maxq maxfl ops, 0 <= maxq -> 0 <= maxfl ->
  let s := sub_run maxq maxfl ops in
  Z.of_nat (List.length (q_queue s)) <= maxq /\ 0 <= q_inflight s <= maxfl /\
  subseq (q_delivered s) (q_emitted s) /\ subseq (q_delivered s ++ q_queue s) (q_emitted s).
Proof. exact subscriber_bounded. Qed.
Print Assumptions C18_subscriber_bounded_any_limits.

(* "an incident file contains its triggering event and everything that was buffered, and one unrepresentable event
   never prevents other events or later incidents from being recorded": whenever an event of incident level is added
   while no recording is in progress -- WHATEVER the buffers hold (e_ok arbitrary: non-text keys, cycles, huge
   integers, deep nesting ...) and whatever happened before -- add_event does not raise and
     NonTrailing: the published file is  trigger :: buffered events sorted by number,
     Trailing:    a timed reporter holds exactly those lines (published by C18_incident_trailing below).
   FULL STRENGTH; rests on the translated fact serialize_total = true (three-stage fallback in flogfile). *)
Theorem C18_one_bad_event_harmless : forall c sz b i e,
  c_fault c = NoFault -> c_qual c = true -> incident_level <= e_lvl e -> i_rep i = None -> i_zombie i = false ->
  0 <= limit_of sz (e_fac e) (e_lvl e) ->
  let a := add_event c sz b i e in
  x_raised a = false /\
  (c_trailing c = false ->
     i_files (x_inc a) = i_files i ++ [e :: sort_by_num (all_buffered (x_bufs a))] /\
     i_recorded (x_inc a) = i_recorded i + 1 /\ i_junk (x_inc a) = i_junk i /\ i_rep (x_inc a) = None) /\
  (c_trailing c = true ->
     i_rep (x_inc a) = Some (mkRep e (sort_by_num (all_buffered (x_bufs a))) TRAILING_EVENT_LIMIT true) /\
     i_junk (x_inc a) = i_junk i).
Proof. exact incident_recorded. Qed.
Print Assumptions C18_one_bad_event_harmless.

(* the file's lines are a permutation of what was buffered, in event-number order; the trigger is among them *)
Theorem C18_incident_complete : forall l,
  (forall x, In x (sort_by_num l) <-> In x l) /\ StronglySorted num_le (sort_by_num l).
Proof. intros l. split; [intros x; apply sort_in | apply sort_sorted]. Qed.
Print Assumptions C18_incident_complete.

Theorem C18_trigger_is_buffered : forall c sz b i e,
  1 <= limit_of sz (e_fac e) (e_lvl e) -> In e (buf_get (x_bufs (add_event c sz b i e)) (e_fac e) (e_lvl e)).
Proof. exact trigger_buffered. Qed.
Print Assumptions C18_trigger_is_buffered.

(* trailing events: up to TRAILING_EVENT_LIMIT later events are appended in order (each one that can be encoded: all of
   them on this tree), then the timer publishes  trigger :: buffered ++ trailing *)
Theorem C18_incident_trailing : forall evs i r,
  i_rep i = Some r -> Z.of_nat (List.length evs) <= r_remaining r ->
  fold_left trailing_event evs i =
    mkInc (Some (mkRep (r_trigger r) (r_lines r ++ filter enc evs) (r_remaining r - Z.of_nat (List.length evs)) (r_timer r)))
          (i_zombie i) (i_declared i) (i_recorded i) (i_files i) (i_junk i).
Proof. exact trailing_fold. Qed.
Print Assumptions C18_incident_trailing.

Theorem C18_incident_timer_publishes : forall c s r,
  i_rep (s_inc s) = Some r -> r_timer r = true ->
  i_files (s_inc (fst (step c s Timer))) = i_files (s_inc s) ++ [r_trigger r :: r_lines r] /\
  i_recorded (s_inc (fst (step c s Timer))) = i_recorded (s_inc s) + 1 /\ i_rep (s_inc (fst (step c s Timer))) = None.
Proof. exact timer_publishes. Qed.
Print Assumptions C18_incident_timer_publishes.

(* over ANY history no incident is ever abandoned (.flog / .flog.bz2.tmp left behind) *)
Theorem C18_nothing_abandoned : forall c ops, i_junk (s_inc (fst (run c init ops))) = 0.
Proof. intros c ops. rewrite nothing_abandoned. reflexivity. Qed.
Print Assumptions C18_nothing_abandoned.

(* independent of the form of serialize_to_json_utf8: valid for every history whose buffered events can be encoded *)
Theorem C18_incident_recorded_when_encodable : forall c sz b i e,
  c_fault c = NoFault -> c_qual c = true -> incident_level <= e_lvl e -> i_rep i = None -> i_zombie i = false ->
  0 <= limit_of sz (e_fac e) (e_lvl e) ->
  let a := add_event c sz b i e in
  enc e = true -> forallb enc (all_buffered (x_bufs a)) = true ->
  x_raised a = false /\
  (c_trailing c = false -> i_files (x_inc a) = i_files i ++ [e :: sort_by_num (all_buffered (x_bufs a))]) /\
  (c_trailing c = true ->
     i_rep (x_inc a) = Some (mkRep e (sort_by_num (all_buffered (x_bufs a))) TRAILING_EVENT_LIMIT true)).
Proof. exact incident_recorded_guarded. Qed.
Print Assumptions C18_incident_recorded_when_encodable.

(* "each remote subscriber at most its queue limit" also for subscribers that ask for catch-up, whatever the buffers
   hold (far more than MAX_QUEUE_SIZE events included): the catch-up batch -- everything buffered, in number order --
   goes straight to the observer; queue and in-flight counter start empty and stay within their limits *)
Theorem C18_subscriber_bounded_after_catchup : forall catch_up b ops,
  let '(s0, direct) := sub_subscribe catch_up b in
  let s := fold_left (sub_step MAX_QUEUE_SIZE MAX_IN_FLIGHT) ops s0 in
  q_queue s0 = [] /\ q_inflight s0 = 0 /\
  (catch_up = true -> Permutation direct (all_buffered b) /\ StronglySorted num_le direct) /\
  Z.of_nat (List.length (q_queue s)) <= MAX_QUEUE_SIZE /\ 0 <= q_inflight s <= MAX_IN_FLIGHT /\
  subseq (q_delivered s ++ q_queue s) (q_emitted s).
Proof.
  intros catch_up b ops. apply subscriber_bounded_after_catchup; unfold MAX_QUEUE_SIZE, MAX_IN_FLIGHT; discriminate.
Qed.
Print Assumptions C18_subscriber_bounded_after_catchup.

(* "Every event that is written to a log or incident file can be read back": every writer compresses according to the
   name get_events will see.  flogtool filter -- into a new file or in place (written as NAME.tmp, then renamed), plain
   or .bz2, any --above / --strip-facility selection -- reads back exactly the records it kept; LogFileObserver files
   read back (plain and .bz2).  Rests on the translated facts filter_codec_from / logfile_codec_from = FinalName. *)
Theorem C18_filter_reads_back : forall above strip final_bz2 inplace recs,
  filter_run above strip final_bz2 inplace recs = Some (filter (filter_keep above strip) recs).
Proof. exact filter_reads_back. Qed.
Print Assumptions C18_filter_reads_back.

Theorem C18_logfile_reads_back : forall name_bz2 recs, logfile_written name_bz2 recs = Some recs.
Proof. exact logfile_reads_back. Qed.
Print Assumptions C18_logfile_reads_back.

(* "... one unrepresentable event never prevents other events or later incidents from being recorded", at the grain of
   single reactor iterations (lib/LogBuf.v `iterate`: several calls before the eventual queue runs, an observer calling
   from inside the queue's batch, calls due in the instant of the trailing timer).
   A trigger emitted while NO reporter is recording -- in particular between stop_recording and finished_recording of the
   previous incident, whatever is still being closed (f_closing) -- starts an incident of its own.  Rests on the
   translated fact active_cleared_at = AtStop (the reporter stops claiming to be active when it unsubscribes). *)
Theorem C18_trigger_in_window_recorded : forall c f fac lvl ok rp id,
  c_fault c = NoFault -> c_qual c = true -> i_rep (s_inc (f_s f)) = None ->
  incident_level <= lvl -> cmpZ threshold_drop_cmp lvl (threshold_of (s_thr (f_s f)) fac) = false ->
  0 <= limit_of (s_sizes (f_s f)) fac lvl ->
  let e := mkEv (s_seq (f_s f) + 1) fac lvl ok id in
  let '(f', r, n) := fcall c f (Msg None fac lvl ok rp id) in
  r = Some (e_num e) /\ f_closing f' = f_closing f /\ n = [] /\
  (c_trailing c = true -> exists lines, i_rep (s_inc (f_s f')) = Some (mkRep e lines TRAILING_EVENT_LIMIT true)) /\
  (c_trailing c = false -> exists lines, i_files (s_inc (f_s f')) = i_files (s_inc (f_s f)) ++ [e :: lines]).
Proof. exact trigger_in_window_recorded. Qed.
Print Assumptions C18_trigger_in_window_recorded.

(* What the code does with a trigger-level event emitted WHILE a reporter is recording (by design: new_trigger is the
   documented overlap hook): it does not start an incident, it is an ordinary trailing event of the running incident ... *)
Theorem C18_trigger_absorbed_by_running_incident : forall c b i e r,
  i_rep i = Some r ->
  declare_incident c b i e = (mkInc (i_rep i) (i_zombie i) (i_declared i + 1) (i_recorded i) (i_files i) (i_junk i), false).
Proof. exact absorbed_by_running_incident. Qed.
Print Assumptions C18_trigger_absorbed_by_running_incident.

(* ... and as such subject to the reporter's documented limits (TRAILING_EVENT_LIMIT events, TRAILING_DELAY seconds): two
   histories, replayed on the real code, in which such an event is dropped: (1) it is the 101st event after the first
   trigger; (2) it is emitted by a call that runs just before the trailing timer in the same reactor iteration.  These
   are NOT violations of C18 (the property speaks of an incident's OWN trigger and of what was buffered). *)
Theorem C18_absorbed_trigger_subject_to_limits :
  (exists its, let f := fst (iterations (mkCfg true true NoFault) fine_init its) in
               f_closing f = [] /\ i_rep (s_inc (f_s f)) = None /\ i_declared (s_inc (f_s f)) = 2 /\
               i_recorded (s_inc (f_s f)) = 1 /\ in_some_file (s_inc (f_s f)) 101 = false) /\
  (exists its, let f := fst (iterations (mkCfg true true NoFault) fine_init its) in
               f_closing f = [] /\ i_rep (s_inc (f_s f)) = None /\ i_declared (s_inc (f_s f)) = 2 /\
               i_recorded (s_inc (f_s f)) = 1 /\ in_some_file (s_inc (f_s f)) 1 = false).
Proof. exact absorbed_trigger_subject_to_limits. Qed.
Print Assumptions C18_absorbed_trigger_subject_to_limits.
