(* C18 -- Logging never fails the caller, stays bounded, and its files read back.
   Property theorems only; proofs live in lib/LogBufProofs.v, LogOrderProofs.v, LogJsonProofs.v, LogFileProofs.v,
   LogFmtProofs.v, LogReentProofs.v; the model lib/LogBuf.v interprets the constants and shape facts translated from
   logging/{log,levels,incident,flogfile,publish}.py into gen/LogBufGen.v.
   Review 2 (second strangers' review): (1) the event number is of any kind (e_numk) and the sort key of the snapshot /
   the catch-up batch is translated; the incident / catch-up theorems carry the exact guard nohost with the refuted side
   stated; (2) field preservation for ANY event dict, format events included; (3) per-line read-back theorems without a
   hypothesis on the whole file; (4) the incident file theorem covers both reporters, the limit of C18_msg_total
   (BaseException) is stated, every proof here is `exact`. *)
From Coq Require Import ZArith List Bool Lia Sorting.Sorted Sorting.Permutation.
Import ListNotations.
Require Import Verif.lib.PyLite Verif.gen.LogBufGen Verif.lib.LogBuf Verif.lib.LogBufProofs.
Require Import Verif.lib.LogDisk Verif.lib.LogDiskProofs.
Require Import Verif.gen.LogJsonGen Verif.lib.LogJson Verif.lib.LogJsonProofs Verif.lib.LogFileProofs Verif.lib.LogOrderProofs.
Require Import Verif.lib.LogFmt Verif.lib.LogFmtProofs Verif.lib.LogReent Verif.lib.LogReentProofs.
Local Open Scope Z_scope.

(* "Emitting a log event never raises ..." : every msg() call -- also one whose _msg raises (uncomparable level,
   unhashable facility, failing str(), negative size limit, failing incident reporter) -- returns a number.
   (By the form of msg(): the model's `step` is total because msg's two handlers -- translated fact msg_catch_all, matched
   literally: `except Exception` around _msg, bare `except: pass` around the replacement event -- leave no path on which an
   exception escapes; what _msg itself can raise on hostile values is the oracle's part.
   LIMIT of "never raises" (review 2, finding 4): the outer handler is `except Exception` (log.py msg), not a bare except:
   a BaseException that is not an Exception -- KeyboardInterrupt / SystemExit / GeneratorExit raised by a __str__ /
   __repr__ of a logged value or by an immediate observer -- is NOT caught and escapes msg().  The model's `raised` flag
   stands for Exception subclasses only; the oracle replays a __str__ raising KeyboardInterrupt as an observation.) *)
Theorem C18_msg_total : forall c s o, is_call o = true -> exists n, snd (step c s o) = Some n.
Proof. exact msg_total. Qed.
Print Assumptions C18_msg_total.

(* "... and returns strictly increasing event numbers, whatever objects are passed": over any history the numbers
   handed out by the logger are exactly seq+1, seq+2, ... *)
Theorem C18_numbers_exact : forall c ops s, autos ops (snd (run c s ops)) = zrange (s_seq s + 1) (count_auto ops).
Proof. exact autos_exact. Qed.
Print Assumptions C18_numbers_exact.

Theorem C18_numbers_strictly_increase : forall c ops s,
  StronglySorted Z.lt (autos ops (snd (run c s ops))) /\ Forall (fun n => s_seq s < n) (autos ops (snd (run c s ops))).
Proof. exact numbers_strictly_increase. Qed.
Print Assumptions C18_numbers_strictly_increase.

(* "memory stays bounded (each facility/level history holds at most its configured number of events ...":
   (1) right after an event on (facility, level) that buffer holds at most its limit, namely the most recent events,
       and no other buffer changed -- for EVERY cfg c, i.e. also when the incident handling raises (c_fault c);
   (2) over ANY history (limits may be changed at any time) no buffer ever exceeds the largest configured limit.
   Full statement "length <= current limit at all times" is NOT what the code does: set_buffer_size only records the
   new limit (translated fact set_buffer_size_trims = false, Example ex_bounded), the buffer shrinks at its next event. *)
Theorem C18_buffer_within_limit_after_event : forall c sz b i e,
  0 <= limit_of sz (e_fac e) (e_lvl e) ->
  let q := buf_get (x_bufs (add_event c sz b i e)) (e_fac e) (e_lvl e) in
  Z.of_nat (List.length q) <= limit_of sz (e_fac e) (e_lvl e) /\
  (exists k, q = skipn k (buf_get b (e_fac e) (e_lvl e) ++ [e])) /\
  (forall f l, (f, l) <> (e_fac e, e_lvl e) -> buf_get (x_bufs (add_event c sz b i e)) f l = buf_get b f l).
Proof. exact after_event_within_limit. Qed.
Print Assumptions C18_buffer_within_limit_after_event.

Theorem C18_buffers_bounded : forall M c ops,
  DEFAULT_SIZELIMIT <= M -> Forall (op_limit_le M) ops ->
  forall f l, Z.of_nat (List.length (buf_get (s_bufs (fst (run c init ops))) f l)) <= M.
Proof. exact buffers_bounded_from_init. Qed.
Print Assumptions C18_buffers_bounded.

(* the same over histories in which the synchronous incident handling fails (c_fault: the qualifier raises, or
   incident_declared raises because the incident directory is gone / a custom reporter raises) and in which that
   fault, the reporter kind or the qualifier are switched in mid-history (segments).  True because the translated
   stage order of add_event trims BEFORE the qualifier runs: an exception out of the qualifier cannot skip the trim. *)
Theorem C18_buffers_bounded_under_incident_faults : forall M segs,
  DEFAULT_SIZELIMIT <= M -> Forall (fun cs => Forall (op_limit_le M) (snd cs)) segs ->
  forall f l, Z.of_nat (List.length (buf_get (s_bufs (run_segs init segs)) f l)) <= M.
Proof. exact buffers_bounded_segs_from_init. Qed.
Print Assumptions C18_buffers_bounded_under_incident_faults.

(* "... each remote subscriber at most its queue limit with a bounded number in flight) and subscribers see an
   order-preserving subsequence": for every schedule of sends / queue turns / acknowledgements / failures *)
Theorem C18_subscriber_bounded : forall ops,
  let s := sub_run MAX_QUEUE_SIZE MAX_IN_FLIGHT ops in
  Z.of_nat (List.length (q_queue s)) <= MAX_QUEUE_SIZE /\ 0 <= q_inflight s <= MAX_IN_FLIGHT /\
  subseq (q_delivered s) (q_emitted s) /\ subseq (q_delivered s ++ q_queue s) (q_emitted s).
Proof. exact subscriber_bounded_real. Qed.
Print Assumptions C18_subscriber_bounded.

(* the same for any limits (the correspondence also runs Subscription subclasses with small limits) *)
Theorem C18_subscriber_bounded_any_limits : forall maxq maxfl ops, 0 <= maxq -> 0 <= maxfl ->
  let s := sub_run maxq maxfl ops in
  Z.of_nat (List.length (q_queue s)) <= maxq /\ 0 <= q_inflight s <= maxfl /\
  subseq (q_delivered s) (q_emitted s) /\ subseq (q_delivered s ++ q_queue s) (q_emitted s).
Proof. exact subscriber_bounded. Qed.
Print Assumptions C18_subscriber_bounded_any_limits.

(* "an incident file contains its triggering event and everything that was buffered, and one unrepresentable event
   never prevents other events or later incidents from being recorded": whenever an event of incident level is added
   while no recording is in progress -- WHATEVER the buffers hold (e_ok arbitrary: non-text keys, cycles, huge
   integers, deep nesting ...; numbers of ANY kind the sort key is total on: integers and, since 7a22019, every other
   object -- 'x', None, 1.5, a list, an instance: NumOdd) and whatever happened before -- add_event does not raise and
     NonTrailing: the published file is  trigger :: buffered events sorted by the translated key,
     Trailing:    a timed reporter holds exactly those lines (published by C18_incident_trailing below).
   FULL STRENGTH in e_ok; rests on the translated fact serialize_total = true (three-stage fallback in flogfile).
   EXACT GUARD in the numbers (review 2, finding 1: the model's e_num : Z used to exclude num='x', on which the real
   code lost the incident): nohost = no buffered event's number is an object on which isinstance(num, int) ITSELF
   raises.  That guard is needed and sharp: C18_incident_lost_when_sort_raises is the other side, true of the real
   code (replayed: num = an object whose __class__ property raises; reported, signature oracle/incident-lost-hostile-num).
   The sort key is the TRANSLATED one (incident_sort_key, read from incident.py; catchup_sort_key from publish.py): were
   the key `a['num']` again, the proofs below would no longer build and the model would predict the loss
   (C18_raw_sort_key_loses_incidents). *)
Theorem C18_one_bad_event_harmless : forall c sz b i e,
  c_fault c = NoFault -> c_qual c = true -> incident_level <= e_lvl e -> i_rep i = None -> i_zombie i = false ->
  0 <= limit_of sz (e_fac e) (e_lvl e) ->
  let a := add_event c sz b i e in
  nohost (x_bufs a) ->
  x_raised a = false /\
  (c_trailing c = false ->
     i_files (x_inc a) = i_files i ++ [e :: sort_by_num (all_buffered (x_bufs a))] /\
     i_recorded (x_inc a) = i_recorded i + 1 /\ i_junk (x_inc a) = i_junk i /\ i_rep (x_inc a) = None) /\
  (c_trailing c = true ->
     i_rep (x_inc a) = Some (mkRep e (sort_by_num (all_buffered (x_bufs a))) TRAILING_EVENT_LIMIT true) /\
     i_junk (x_inc a) = i_junk i).
Proof. exact incident_recorded. Qed.
Print Assumptions C18_one_bad_event_harmless.

(* outside the guard: one buffered number on which isinstance(.., int) raises and the incident is lost -- _msg raises
   (msg turns that into an internal-error event), nothing is published, the NonTrailing reporter's files are abandoned,
   the trailing reporter stays subscribed without a timer and swallows every later trigger *)
Theorem C18_incident_lost_when_sort_raises : forall c sz b i e,
  c_fault c = NoFault -> c_qual c = true -> incident_level <= e_lvl e -> i_rep i = None -> i_zombie i = false ->
  0 <= limit_of sz (e_fac e) (e_lvl e) ->
  let a := add_event c sz b i e in
  existsb is_hostile (all_buffered (x_bufs a)) = true ->
  x_raised a = true /\ i_files (x_inc a) = i_files i /\ i_recorded (x_inc a) = i_recorded i /\
  (c_trailing c = false -> i_junk (x_inc a) = i_junk i + 1 /\ i_rep (x_inc a) = None) /\
  (c_trailing c = true -> i_rep (x_inc a) = Some (mkRep e [] TRAILING_EVENT_LIMIT false)).
Proof. exact incident_lost_when_sort_raises. Qed.
Print Assumptions C18_incident_lost_when_sort_raises.

(* the regression statement for the key before 7a22019 (provable whichever key is translated): with `a['num']` the
   history  msg('a', num='x'); msg('b'); msg('trigger', level=BAD); msg('later', level=BAD)  loses both incidents.  On this
   tree the same history records both (Example ex_odd_num_recorded, corpus/C18/noninteger_num.json). *)
Theorem C18_raw_sort_key_loses_incidents : incident_sort_key = KeyRaw ->
  let s := fst (run (mkCfg true false NoFault) init (odd_history NumOdd)) in
  i_files (s_inc s) = [] /\ i_recorded (s_inc s) = 0 /\ i_junk (s_inc s) = 2.
Proof. exact raw_sort_key_loses_incidents. Qed.
Print Assumptions C18_raw_sort_key_loses_incidents.

(* the file's lines are a permutation of what was buffered, ordered by the translated key: the integer-numbered events in
   event-number order, the others (key -1: before every non-negative number) in the order the buffers hold them; the
   trigger is among them *)
Theorem C18_incident_complete : forall l,
  (forall x, In x (sort_by_num l) <-> In x l) /\ StronglySorted num_le (sort_by_num l) /\
  StronglySorted int_num_le (sort_by_num l) /\
  filter (fun x => negb (is_int x)) (sort_by_num l) = filter (fun x => negb (is_int x)) l.
Proof. exact incident_complete. Qed.
Print Assumptions C18_incident_complete.

Theorem C18_trigger_is_buffered : forall c sz b i e,
  1 <= limit_of sz (e_fac e) (e_lvl e) -> In e (buf_get (x_bufs (add_event c sz b i e)) (e_fac e) (e_lvl e)).
Proof. exact trigger_buffered. Qed.
Print Assumptions C18_trigger_is_buffered.

(* trailing events: up to TRAILING_EVENT_LIMIT later events are appended in order (each one that can be encoded: all of
   them on this tree), then the timer publishes  trigger :: buffered ++ trailing *)
Theorem C18_incident_trailing : forall evs i r,
  i_rep i = Some r -> Z.of_nat (List.length evs) <= r_remaining r ->
  fold_left trailing_event evs i =
    mkInc (Some (mkRep (r_trigger r) (r_lines r ++ filter enc evs) (r_remaining r - Z.of_nat (List.length evs)) (r_timer r)))
          (i_zombie i) (i_declared i) (i_recorded i) (i_files i) (i_junk i).
Proof. exact trailing_fold. Qed.
Print Assumptions C18_incident_trailing.

Theorem C18_incident_timer_publishes : forall c s r,
  i_rep (s_inc s) = Some r -> r_timer r = true ->
  i_files (s_inc (fst (step c s Timer))) = i_files (s_inc s) ++ [r_trigger r :: r_lines r] /\
  i_recorded (s_inc (fst (step c s Timer))) = i_recorded (s_inc s) + 1 /\ i_rep (s_inc (fst (step c s Timer))) = None.
Proof. exact timer_publishes. Qed.
Print Assumptions C18_incident_timer_publishes.

(* over ANY history in which no call passes a num= on which isinstance(.., int) raises (op_not_hostile: every other num=
   is allowed) no incident is ever abandoned (.flog / .flog.bz2.tmp left behind) ... *)
Theorem C18_nothing_abandoned : forall c ops, Forall op_not_hostile ops -> i_junk (s_inc (fst (run c init ops))) = 0.
Proof. exact nothing_abandoned_from_init. Qed.
Print Assumptions C18_nothing_abandoned.

(* ... and the guard is needed: the full statement is refuted by the model, and by the real code on the same history
   (Example ex_hostile_num_lost; oracle witness family "hostile") *)
Theorem C18_nothing_abandoned_refuted : exists c ops, i_junk (s_inc (fst (run c init ops))) <> 0.
Proof. exact nothing_abandoned_refuted_hostile. Qed.
Print Assumptions C18_nothing_abandoned_refuted.

(* independent of the form of serialize_to_json_utf8: valid for every history whose buffered events can be encoded *)
Theorem C18_incident_recorded_when_encodable : forall c sz b i e,
  c_fault c = NoFault -> c_qual c = true -> incident_level <= e_lvl e -> i_rep i = None -> i_zombie i = false ->
  0 <= limit_of sz (e_fac e) (e_lvl e) ->
  let a := add_event c sz b i e in
  nohost (x_bufs a) -> enc e = true -> forallb enc (all_buffered (x_bufs a)) = true ->
  x_raised a = false /\
  (c_trailing c = false -> i_files (x_inc a) = i_files i ++ [e :: sort_by_num (all_buffered (x_bufs a))]) /\
  (c_trailing c = true ->
     i_rep (x_inc a) = Some (mkRep e (sort_by_num (all_buffered (x_bufs a))) TRAILING_EVENT_LIMIT true)).
Proof. exact incident_recorded_guarded. Qed.
Print Assumptions C18_incident_recorded_when_encodable.

(* "each remote subscriber at most its queue limit" also for subscribers that ask for catch-up, whatever the buffers
   hold (far more than MAX_QUEUE_SIZE events included): the catch-up batch -- everything buffered, ordered by the
   translated key of publish.py (integer numbers in number order) -- goes straight to the observer; queue and in-flight
   counter start empty and stay within their limits.  Same exact guard as for incidents (nohost); outside it the
   subscriber is handed NO catch-up batch (C18_catchup_lost_when_sort_raises: subscribe() raises after registering). *)
Theorem C18_subscriber_bounded_after_catchup : forall catch_up b ops,
  let '(s0, direct, raised) := sub_subscribe catch_up b in
  let s := fold_left (sub_step MAX_QUEUE_SIZE MAX_IN_FLIGHT) ops s0 in
  q_queue s0 = [] /\ q_inflight s0 = 0 /\
  (catch_up = true -> nohost b ->
     raised = false /\ Permutation direct (all_buffered b) /\ StronglySorted (key_le catchup_sort_key) direct /\
     StronglySorted int_num_le direct) /\
  Z.of_nat (List.length (q_queue s)) <= MAX_QUEUE_SIZE /\ 0 <= q_inflight s <= MAX_IN_FLIGHT /\
  subseq (q_delivered s ++ q_queue s) (q_emitted s).
Proof. exact subscriber_bounded_after_catchup_real. Qed.
Print Assumptions C18_subscriber_bounded_after_catchup.

Theorem C18_catchup_lost_when_sort_raises : forall b,
  existsb is_hostile (all_buffered b) = true -> sub_subscribe true b = (sub_init, [], true).
Proof. exact catchup_lost_when_sort_raises. Qed.
Print Assumptions C18_catchup_lost_when_sort_raises.

(* "Every event that is written to a log or incident file can be read back", the COMPRESSION layer only (the records are
   opaque here; what a record reads back as is C18_event_reads_back / C18_file_reads_back / C18_logfile_events_read_back /
   C18_incident_file_reads_back below): every writer compresses according to the name get_events will see.  flogtool
   filter -- into a new file or in place (written as NAME.tmp, then renamed), plain or .bz2, any --above /
   --strip-facility selection -- yields a file get_events can open, holding exactly the records it kept; the same for
   LogFileObserver files.  Rests on the translated facts filter_codec_from / logfile_codec_from = FinalName. *)
Theorem C18_filter_codec_matches : forall above strip final_bz2 inplace recs,
  filter_run above strip final_bz2 inplace recs = Some (filter (filter_keep above strip) recs).
Proof. exact filter_reads_back. Qed.
Print Assumptions C18_filter_codec_matches.

Theorem C18_logfile_codec_matches : forall name_bz2 recs, logfile_written name_bz2 recs = Some recs.
Proof. exact logfile_reads_back. Qed.
Print Assumptions C18_logfile_codec_matches.

(* "... one unrepresentable event never prevents other events or later incidents from being recorded", at the grain of
   single reactor iterations (lib/LogBuf.v `iterate`: several calls before the eventual queue runs, an observer calling
   from inside the queue's batch, calls due in the instant of the trailing timer).
   A trigger emitted while NO reporter is recording -- in particular between stop_recording and finished_recording of the
   previous incident, whatever is still being closed (f_closing) -- starts an incident of its own.  Rests on the
   translated fact active_cleared_at = AtStop (the reporter stops claiming to be active when it unsubscribes). *)
Theorem C18_trigger_in_window_recorded : forall c f fac lvl ok rp id,
  c_fault c = NoFault -> c_qual c = true -> i_rep (s_inc (f_s f)) = None ->
  incident_level <= lvl -> cmpZ threshold_drop_cmp lvl (threshold_of (s_thr (f_s f)) fac) = false ->
  0 <= limit_of (s_sizes (f_s f)) fac lvl -> nohost (s_bufs (f_s f)) ->
  let e := mkEv (s_seq (f_s f) + 1) fac lvl ok id NumInt in
  let '(f', r, n) := fcall c f (Msg None fac lvl ok rp id) in
  r = Some (e_num e) /\ f_closing f' = f_closing f /\ n = [] /\
  (c_trailing c = true -> exists lines, i_rep (s_inc (f_s f')) = Some (mkRep e lines TRAILING_EVENT_LIMIT true)) /\
  (c_trailing c = false -> exists lines, i_files (s_inc (f_s f')) = i_files (s_inc (f_s f)) ++ [e :: lines]).
Proof. exact trigger_in_window_recorded. Qed.
Print Assumptions C18_trigger_in_window_recorded.

(* What the code does with a trigger-level event emitted WHILE a reporter is recording (by design: new_trigger is the
   documented overlap hook): it does not start an incident, it is an ordinary trailing event of the running incident ... *)
Theorem C18_trigger_absorbed_by_running_incident : forall c b i e r,
  i_rep i = Some r ->
  declare_incident c b i e = (mkInc (i_rep i) (i_zombie i) (i_declared i + 1) (i_recorded i) (i_files i) (i_junk i), false).
Proof. exact absorbed_by_running_incident. Qed.
Print Assumptions C18_trigger_absorbed_by_running_incident.

(* ... and as such subject to the reporter's documented limits (TRAILING_EVENT_LIMIT events, TRAILING_DELAY seconds): two
   histories, replayed on the real code, in which such an event is dropped: (1) it is the 101st event after the first
   trigger; (2) it is emitted by a call that runs just before the trailing timer in the same reactor iteration.  These
   are NOT violations of C18 (the property speaks of an incident's OWN trigger and of what was buffered). *)
Theorem C18_absorbed_trigger_subject_to_limits :
  (exists its, let f := fst (iterations (mkCfg true true NoFault) fine_init its) in
               f_closing f = [] /\ i_rep (s_inc (f_s f)) = None /\ i_declared (s_inc (f_s f)) = 2 /\
               i_recorded (s_inc (f_s f)) = 1 /\ in_some_file (s_inc (f_s f)) 101 = false) /\
  (exists its, let f := fst (iterations (mkCfg true true NoFault) fine_init its) in
               f_closing f = [] /\ i_rep (s_inc (f_s f)) = None /\ i_declared (s_inc (f_s f)) = 2 /\
               i_recorded (s_inc (f_s f)) = 1 /\ in_some_file (s_inc (f_s f)) 1 = false).
Proof. exact absorbed_trigger_subject_to_limits. Qed.
Print Assumptions C18_absorbed_trigger_subject_to_limits.

(* ===================================================================== round 5: the JSON layer inside the model *)
(* lib/LogJson.v models json.dumps + ExtendedEncoder, _make_jsonable, _last_resort and the try / except chain of
   serialize_to_json_utf8 over ALL Python values of its universe (None, bool, int of any size, float, text, opaque objects
   whose repr works / raises / raises unreprably, Failures, lists, tuples, dicts with keys of any kind, containers that
   contain themselves, nesting of any depth), parameterised by the TRANSLATED facts of gen/LogJsonGen.v (which exception
   classes each `except` selects, container / key / scalar type lists, the integer bound, the depth) and by the
   interpreter's budgets L (recursion depth of the C encoder and of Python frames, largest printable integer). *)

(* "... one unrepresentable event never prevents other events ... from being recorded": writing a line NEVER raises,
   whatever the object, for every interpreter whose budgets admit what _last_resort leaves (lims_ok; cpython_ok) *)
Theorem C18_serialize_never_raises : forall L o, lims_ok L -> exists j, serialize L o = Ok j.
Proof. exact serialize_total. Qed.
Print Assumptions C18_serialize_never_raises.

Theorem C18_budgets_of_cpython_admitted : lims_ok cpython.
Proof. exact cpython_ok. Qed.
Print Assumptions C18_budgets_of_cpython_admitted.

(* "Every event that is written to a log or incident file can be read back with the same number, level and message":
   whichever of the three stages produced the line (first try, sanitised copy, last-resort record), the "d" member of
   what json.loads returns carries the event's num, level and message -- for every event dict with text keys (kwargs),
   an integer number and level below 2^64 (small_int; Example ex_huge_num_lost: the bound is needed) and a text message,
   whatever else it holds *)
Theorem C18_event_reads_back : forall L from rx e n l m j,
  is_event e n l m -> serialize L (wrap from rx e) = Ok j ->
  exists d, event_of_line j = Some d /\ view3 d = fields n l m.
Proof. exact event_fields_survive. Qed.
Print Assumptions C18_event_reads_back.

(* the trigger inside the header of an incident file ({"header": {"type", "trigger": EVENT, ..}}: one level deeper) *)
Theorem C18_trigger_reads_back : forall L ty more e n l m j,
  is_event e n l m -> serialize L (header ty e more) = Ok j ->
  exists d, trigger_of_header j = Some d /\ view3 d = fields n l m.
Proof. exact trigger_fields_survive. Qed.
Print Assumptions C18_trigger_reads_back.

(* (review 2, finding 2) the two theorems above speak of events with a text 'message' and integer number / level
   (is_event).  An event logged with format= has NO 'message' key, a level may be a float, a number any object.  What
   the three stages preserve of ANY event dict: every member whose value is a JSON scalar (None, bool, float, text,
   integer below 2^64: `stable`), under whatever text key -- number, level, message, format string, named arguments *)
Theorem C18_event_field_reads_back : forall L from rx e kv s v j0 j,
  is_event_dict e kv -> pfield s kv = Some v -> stable v j0 -> serialize L (wrap from rx e) = Ok j ->
  exists d, event_of_line j = Some d /\ jfield s d = Some j0.
Proof. exact event_field_survives. Qed.
Print Assumptions C18_event_field_reads_back.

Theorem C18_trigger_field_reads_back : forall L ty more e kv s v j0 j,
  is_event_dict e kv -> pfield s kv = Some v -> stable v j0 -> serialize L (header ty e more) = Ok j ->
  exists d, trigger_of_header j = Some d /\ jfield s d = Some j0.
Proof. exact trigger_field_survives. Qed.
Print Assumptions C18_trigger_field_reads_back.

(* a format event: number, level, format string and every scalar named argument read back.  NOT preserved: the TEXT that
   format_message renders, when a named argument needed the fallback encoder -- it reads back as its replacement record
   (Example ex_format_arg_replaced: `%(x)s` shows the record where the emitted event showed str(x)); the property's
   "same ... message" holds for the format string and the scalar arguments only.  PARTIAL with respect to rendering. *)
Theorem C18_format_event_reads_back : forall L from rx e n l f args jn jl jf j,
  is_format_event e n l f args -> stable n jn -> stable l jl -> stable f jf ->
  serialize L (wrap from rx e) = Ok j ->
  exists d, event_of_line j = Some d /\ jfield K_num d = Some jn /\ jfield K_level d = Some jl /\ jfield K_format d = Some jf /\
            Forall (fun a => forall ja, stable (snd a) ja -> jfield (fst a) d = Some ja) args.
Proof. exact format_event_fields_survive. Qed.
Print Assumptions C18_format_event_reads_back.

(* (review 2, finding 3) a whole file LINE BY LINE: no write raises, one line per event in order, and every line reads
   back what its OWN event warrants (line_ok: number / level / message of an is_event, every scalar member of any event
   dict) -- whatever the other lines hold.  C18_file_reads_back below is the all-lines corollary of round 5. *)
Theorem C18_file_lines_read_back : forall L from rx (evs : list pv), lims_ok L ->
  exists js, write_lines L from rx evs = Some js /\ Forall2 line_ok evs js.
Proof. exact file_lines_read_back. Qed.
Print Assumptions C18_file_lines_read_back.

(* a whole file written with serialize_wrapper: no write raises and get_events yields every event, in order *)
Theorem C18_file_reads_back : forall L from rx (evs : list (pv * (Z * Z * Z))), lims_ok L ->
  Forall (fun x => is_event (fst x) (fst (fst (snd x))) (snd (fst (snd x))) (snd (snd x))) evs ->
  exists js, write_lines L from rx (map fst evs) = Some js /\
             map line_view js = map (fun x => Some (fields (fst (fst (snd x))) (snd (fst (snd x))) (snd (snd x)))) evs.
Proof. exact file_reads_back. Qed.
Print Assumptions C18_file_reads_back.

(* the layers composed: a LogFileObserver file (plain or .bz2) of the logger model's events reads back completely ... *)
Theorem C18_logfile_events_read_back : forall L (payload : event -> pv) (msg : event -> Z) from rx name_bz2 (evs : list event),
  lims_ok L -> (forall x, In x evs -> is_event (payload x) (e_num x) (e_lvl x) (msg x)) ->
  exists js, write_lines L from rx (map payload evs) = Some js /\
             read_back name_bz2 (write_codec logfile_codec_from name_bz2 false) js = Some js /\
             map line_view js = map (ev_fields msg) evs.
Proof. exact logfile_events_read_back. Qed.
Print Assumptions C18_logfile_events_read_back.

(* the same line by line, without any hypothesis on the events *)
Theorem C18_logfile_lines_read_back : forall L (payload : event -> pv) from rx name_bz2 (evs : list event), lims_ok L ->
  exists js, write_lines L from rx (map payload evs) = Some js /\
             read_back name_bz2 (write_codec logfile_codec_from name_bz2 false) js = Some js /\
             Forall2 (fun x j => line_ok (payload x) j) evs js.
Proof. exact logfile_lines_read_back. Qed.
Print Assumptions C18_logfile_lines_read_back.

(* ... and "an incident file contains its triggering event and everything that was buffered", down to what a reader gets,
   for BOTH reporters (review 2, finding 4: the default reporter is the trailing one; the round-5 statement required
   c_trailing = false) and LINE BY LINE (finding 3): the lines written at the moment of the trigger are a permutation of
   everything buffered, the trigger among them; NonTrailing publishes  trigger :: lines  at once, the trailing reporter
   holds them and C18_incident_trailing / C18_incident_timer_publishes publish  trigger :: lines ++ later events;
   the header line reads back the trigger (number / level / message of an is_event; every scalar member of any event
   dict), each event line reads back what its own event warrants.  Guard: nohost (exact, see above). *)
Theorem C18_incident_file_reads_back : forall L (payload : event -> pv) from rx ty c sz b i e, lims_ok L ->
  c_fault c = NoFault -> c_qual c = true -> incident_level <= e_lvl e -> i_rep i = None -> i_zombie i = false ->
  1 <= limit_of sz (e_fac e) (e_lvl e) ->
  let a := add_event c sz b i e in
  nohost (x_bufs a) ->
  exists lines,
    (c_trailing c = false -> i_files (x_inc a) = i_files i ++ [e :: lines]) /\
    (c_trailing c = true -> i_rep (x_inc a) = Some (mkRep e lines TRAILING_EVENT_LIMIT true)) /\
    In e lines /\ Permutation lines (all_buffered (x_bufs a)) /\
    (exists jh, serialize L (header ty (payload e) []) = Ok jh /\
       (forall n l m, is_event (payload e) n l m -> exists d, trigger_of_header jh = Some d /\ view3 d = fields n l m) /\
       (forall kv s v j0, is_event_dict (payload e) kv -> pfield s kv = Some v -> stable v j0 ->
          exists d, trigger_of_header jh = Some d /\ jfield s d = Some j0)) /\
    (exists js, write_lines L from rx (map payload lines) = Some js /\ Forall2 (fun x j => line_ok (payload x) j) lines js).
Proof. exact incident_file_reads_back. Qed.
Print Assumptions C18_incident_file_reads_back.

(* ===================================================================== round 5: subscribers, end to end *)
(* "... with a bounded number in flight": the remote calls that are neither acknowledged nor failed (q_outstanding)
   never exceed the counter, which never exceeds MAX_IN_FLIGHT *)
Theorem C18_subscriber_window : forall ops,
  let s := sub_run MAX_QUEUE_SIZE MAX_IN_FLIGHT ops in 0 <= q_outstanding s <= q_inflight s /\ q_inflight s <= MAX_IN_FLIGHT.
Proof. exact subscriber_window_real. Qed.
Print Assumptions C18_subscriber_window.

(* "subscribers see an order-preserving subsequence": logger and Subscription composed.  After ANY history `pre` a
   subscriber arrives (with or without catch-up); during ANY further history `ops` the logger hands Subscription.send
   exactly the events that reach the immediate observers (run_sends: thresholds, failing _msg and its internal-error
   replacement included), interleaved in ANY way with queue turns, acknowledgements and failures.  Then what the
   subscriber has been given -- catch-up batch, then delivered, then still queued -- is in event-number order, the
   catch-up part (numbers <= the counter at subscription) entirely before the live part (numbers above it), the live part
   a subsequence of what was emitted, and the catch-up batch everything that was buffered.
   (auto_only: calls that pass num= explicitly are excluded -- the logger does not order foreign numbers.) *)
Theorem C18_subscriber_sees_ordered : forall c pre ops sops catch_up maxq maxfl,
  0 <= maxq -> 0 <= maxfl -> Forall auto_only pre -> Forall auto_only ops ->
  let s0 := fst (run c init pre) in
  sends_of sops = map e_num (run_sends c s0 ops) ->
  let q0 := fst (fst (sub_subscribe catch_up (s_bufs s0))) in
  let direct := snd (fst (sub_subscribe catch_up (s_bufs s0))) in
  let q := fold_left (sub_step maxq maxfl) sops q0 in
  snd (sub_subscribe catch_up (s_bufs s0)) = false /\
  StronglySorted Z.le (map e_num direct ++ q_delivered q ++ q_queue q) /\
  Forall (fun n => n <= s_seq s0) (map e_num direct) /\
  Forall (fun n => s_seq s0 < n) (q_delivered q ++ q_queue q) /\
  subseq (q_delivered q ++ q_queue q) (sends_of sops) /\
  (catch_up = true -> Permutation direct (all_buffered (s_bufs s0))).
Proof. exact subscriber_sees_ordered. Qed.
Print Assumptions C18_subscriber_sees_ordered.

(* what immediate observers are handed over any history of logger-numbered calls: numbers never decrease (an event and
   the internal-error event that replaces it share a number) and all lie above the counter at the start *)
Theorem C18_sends_in_number_order : forall c ops s, Forall auto_only ops ->
  StronglySorted Z.le (map e_num (run_sends c s ops)) /\ Forall (fun n => s_seq s < n) (map e_num (run_sends c s ops)).
Proof. exact run_sends_sorted. Qed.
Print Assumptions C18_sends_in_number_order.

(* ===================================================================== round 5: rendering *)
(* "rendering an event to text never raises": lib/LogFmt.v models format_message -- key normalisation, the selection of
   format string and arguments with its asserts and conversions, the % operator (either outcome), the fallback with
   repr() of a non-text message and its own guard -- over event dicts whose keys are text, utf-8 bytes, undecodable bytes
   or anything else and whose values are text, bytes (decodable or not), argument sequences, or objects whose repr works
   or raises.  FULL STRENGTH on this tree: no hypothesis on the dict.  Rests on the translated fact
   fmt_keys_outside_try = false (8594ad6 moved `e = ensure_dict_str_keys(e)` inside the try) and on the handler classes. *)
Theorem C18_format_total : forall pct e, exists o, format_message pct e = Ok o.
Proof. exact format_total_all. Qed.
Print Assumptions C18_format_total.

(* independent of where that statement sits: total on every dict whose keys are text or utf-8 bytes *)
Theorem C18_format_total_textlike_keys : forall pct e,
  fmt_keys_outside_try = false \/ keys_textlike e -> exists o, format_message pct e = Ok o.
Proof. exact format_total. Qed.
Print Assumptions C18_format_total_textlike_keys.

(* the repaired defect as a regression statement: were the normalisation outside the try again, these two dicts would
   escape (TypeError / UnicodeDecodeError).  They are fixed witnesses of the oracle (corpus/C18/format_nontext_key.json,
   signature oracle/format-raises-nontext-key). *)
Theorem C18_format_unguarded_keys_escape : fmt_keys_outside_try = true ->
  (forall pct, format_message pct [(FKOther, FVText 10)] = Raise ETypeError) /\
  (forall pct, format_message pct [(FKBytes 11 false, FVText 10); (FKText N_message, FVText 12)] = Raise EValueError).
Proof. exact format_unguarded_keys_escape. Qed.
Print Assumptions C18_format_unguarded_keys_escape.

(* ===================================================================== round 5: re-entrant calls *)
(* "... returns strictly increasing event numbers, whatever objects are passed" when a call of msg() causes further
   calls of msg() while it runs (an observer that logs, a __str__ / __repr__ that logs): lib/LogReent.v, call trees of any
   shape.  msg() takes its number from the translated Count.next before anything else, so the numbers returned, listed in
   the order in which the calls START, are exactly seq+1, seq+2, ...: strictly increasing, every call made from inside
   a call returns more than that call, and whatever is called afterwards returns more than the whole tree. *)
Theorem C18_reentrant_numbers_exact : forall c seq, all_auto c = true ->
  rcall seq c = (seq + Z.of_nat (size c), seq + 1, zrange (seq + 1) (size c)).
Proof. exact reentrant_numbers_exact. Qed.
Print Assumptions C18_reentrant_numbers_exact.

Theorem C18_reentrant_numbers_increase : forall c seq, all_auto c = true ->
  let '(seq', ret, rets) := rcall seq c in
  StronglySorted Z.lt rets /\ Forall (fun n => seq < n <= seq') rets /\ ret = seq + 1 /\ hd 0 rets = ret.
Proof. exact reentrant_numbers_increase. Qed.
Print Assumptions C18_reentrant_numbers_increase.

(* ===================================================================== round 7: on disk when msg() returns *)
(* "an incident file contains its triggering event and everything that was buffered" -- already at the moment the
   triggering log.msg() returns (the qualifier runs synchronously in add_event so that log.msg('abandon ship', level=BAD)
   followed by the death of the process leaves a report): incident_declared does not raise (for the exact guard nohost,
   see C18_incident_lost_when_sort_raises for the other side), and what a second reader finds of the uncompressed file
   (lib/LogDisk.v: what was written before the last flush, the order of writes and flushes TRANSLATED from
   incident_declared) is the magic line, the header with the trigger and every buffered event, in the order of
   C18_incident_complete; for a trailing reporter these are exactly the lines it holds and later publishes.  Both
   reporters.  Trailing events are not claimed: trailing_event does not flush (they reach the disk when the reporter
   finishes, C18_incident_trailing).  Modelled, not verified: a flush hands the bytes to the operating system (death of
   the process, not of the machine). *)
Theorem C18_incident_on_disk_at_return : forall c b i trig, nohost b ->
  snd (incident_declared c b i trig) = false /\
  on_disk_at_return b trig = full_report trig (sort_by_num (all_buffered b)) /\
  (forall x, In x (all_buffered b) -> In (LEvent x) (on_disk_at_return b trig)) /\
  In (LHeader trig) (on_disk_at_return b trig) /\
  (c_trailing c = true -> exists r, i_rep (fst (incident_declared c b i trig)) = Some r /\
                                    on_disk_at_return b trig = full_report (r_trigger r) (r_lines r)).
Proof. exact incident_on_disk_at_return. Qed.
Print Assumptions C18_incident_on_disk_at_return.

(* non-vacuity: a snapshot of two events, trigger included, under the translated order *)
Example ex_on_disk_at_return :
  f1_durable (f1_run incident_f1_ops 9 [4; 9]) = [LMagic; LHeader 9; LEvent 4; LEvent 9].
Proof. reflexivity. Qed.

(* whatever the order of writes and flushes: the disk holds a prefix of what was written; an order that ends with a
   flush leaves everything on disk *)
Theorem C18_disk_is_prefix_of_written : forall (A : Type) ops (trig : A) snap,
  exists rest, f1_written (f1_run ops trig snap) = f1_durable (f1_run ops trig snap) ++ rest.
Proof. exact f1_durable_prefix. Qed.
Print Assumptions C18_disk_is_prefix_of_written.

Theorem C18_flush_last_complete : forall (A : Type) ops (trig : A) snap,
  f1_durable (f1_run (ops ++ [F1Flush]) trig snap) = f1_written (f1_run (ops ++ [F1Flush]) trig snap).
Proof. exact f1_flush_last. Qed.
Print Assumptions C18_flush_last_complete.

(* the other side (seeded change C18-r7s2: the flush moved in front of the loop that copies the history): header on disk,
   the whole snapshot -- the triggering event with it -- not; without any flush nothing is guaranteed.  Fixed oracle
   witnesses: harness/c18.py durable_histories, signature oracle/incident-not-on-disk-at-return. *)
Theorem C18_early_flush_loses_snapshot : forall (A : Type) (trig : A) snap,
  f1_durable (f1_run [F1Magic; F1Header; F1Flush; F1Snapshot] trig snap) = [LMagic; LHeader trig] /\
  f1_written (f1_run [F1Magic; F1Header; F1Flush; F1Snapshot] trig snap) = full_report trig snap.
Proof. exact f1_early_flush_loses_snapshot. Qed.
Print Assumptions C18_early_flush_loses_snapshot.
