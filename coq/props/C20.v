(* C20 -- FURLs and connection hints parse totally, reversibly and in bounded time.
   Property theorems only; proofs live in lib/RegexProofs.v and lib/FurlProofs.v.  The patterns,
   constants and shape facts (gen/FurlGen.v) are re-translated from the source on every run. *)
From Coq Require Import ZArith NArith List String.
Import ListNotations.
Require Import Verif.lib.PyLite Verif.lib.Regex Verif.lib.RegexProofs Verif.gen.FurlGen Verif.lib.Furl Verif.lib.FurlProofs.
Require Import Verif.lib.Connector Verif.lib.ConnectorProofs.
Local Open Scope Z_scope.

(* "Parsing a FURL either yields (tub id, hints, name) ... or raises the documented bad-FURL error":
   decode_furl has no other outcome than a triple, BadFURLError or ValueError *)
Theorem C20_decode_total : forall s,
  (exists t hs n, decode_furl s = Ok (t, hs, n)) \/ decode_furl s = Exc "BadFURLError" \/ decode_furl s = Exc "ValueError".
Proof. exact decode_total. Qed.
Print Assumptions C20_decode_total.

(* "... such that re-encoding gives an equivalent FURL": whatever decode_furl returns decodes, after
   encode_furl, to the same triple *)
Theorem C20_decode_encode : forall s t hs n,
  decode_furl s = Ok (t, hs, n) -> decode_furl (encode_furl t hs n) = Ok (t, hs, n).
Proof. exact decode_encode. Qed.
Print Assumptions C20_decode_encode.

(* the same from the encoder's side, under the stated well-formedness: a non-empty base32 tub id of
   at most TUBID_CUT characters, hints non-empty without ',' and '/', a non-empty name without newline *)
Theorem C20_decode_encode_wf : forall t hs n,
  (t <> [] /\ (List.length t <= TUBID_CUT)%nat /\ is_base32 t = true /\
   Forall (fun h => h <> [] /\ ~ In HINT_SEP h /\ ~ In 47 h) hs /\ n <> [] /\ ~ In 10 n) ->
  decode_furl (encode_furl t hs n) = Ok (t, hs, n).
Proof. exact decode_encode_wf. Qed.
Print Assumptions C20_decode_encode_wf.

(* ... and every decoded triple is well-formed in that sense *)
Theorem C20_decode_wf : forall s t hs n, decode_furl s = Ok (t, hs, n) ->
  t <> [] /\ (List.length t <= TUBID_CUT)%nat /\ is_base32 t = true /\
  Forall (fun h => h <> [] /\ ~ In HINT_SEP h /\ ~ In 47 h) hs /\ n <> [] /\ ~ In 10 n.
Proof. exact decode_wf. Qed.
Print Assumptions C20_decode_wf.

(* "two references compare equal exactly when tub id and name are equal" (SturdyRef.__eq__ over the
   translated _distinguishers), equal references hash alike, TubRef identity is the tub id *)
Theorem C20_sturdy_eq : forall a b, sref_eqb a b = true <-> (sr_tub a = sr_tub b /\ sr_name a = sr_name b).
Proof. exact sturdy_eq. Qed.
Print Assumptions C20_sturdy_eq.

Theorem C20_sturdy_hash : forall a b, sref_eqb a b = true -> sref_key a = sref_key b.
Proof. exact sturdy_hash. Qed.
Print Assumptions C20_sturdy_hash.

(* ... also for references that ARRIVE as copies: the attributes SturdyRef.setCopyableState takes from the peer's
   state (translated) include every attribute identity depends on, and C20_sturdy_eq holds for all records *)
Theorem C20_copy_carries_identity : forall f, In f sturdyref_distinguishers -> In f sturdyref_copied_fields.
Proof. exact copy_carries_identity. Qed.
Print Assumptions C20_copy_carries_identity.

Theorem C20_tubref_eq : forall a b, tubref_eqb a b = true <-> sr_tub a = sr_tub b.
Proof. exact tubref_eq. Qed.
Print Assumptions C20_tubref_eq.

(* "Classifying a connection hint ... ends in an endpoint or the documented invalid-hint error - never
   another exception", for all registered handler sets (type name -> tcp / tor / i2p handler), all
   address filters, all strings *)
Theorem C20_hint_total : forall (handlers : list (str * hkind)) (nonpublic : str -> bool) (loc : str),
  (exists e, get_endpoint handlers nonpublic loc = Ok e) \/ get_endpoint handlers nonpublic loc = Exc "InvalidHintError".
Proof. exact hint_total. Qed.
Print Assumptions C20_hint_total.

(* "... always terminates in time proportional to its length": for each of the four translated hint
   patterns, applied the way the source applies it, the backtracking matcher takes at most
   hint_K * (|s| + 1) steps on EVERY subject s *)
Theorem C20_hint_linear : forall p meth,
  In (p, meth) [(OLD_STYLE_HINT_RE, OLD_STYLE_HINT_RE_method); (NEW_STYLE_HINT_RE, NEW_STYLE_HINT_RE_method);
                (TOR_HINT_RE, TOR_HINT_RE_method); (I2P_HINT_RE, I2P_HINT_RE_method)] ->
  forall s, (re_steps p meth s <= hint_K * (N.of_nat (List.length s) + 1))%N.
Proof. exact hint_linear. Qed.
Print Assumptions C20_hint_linear.

(* the generic form: any pattern accepted by the static analysis and tried at position 0 only *)
Theorem C20_linear_analysis_sound : forall p meth Kb, linear_bound p meth = Some Kb ->
  forall s, (re_steps p meth s <= Kb * (N.of_nat (List.length s) + 1))%N.
Proof. exact linear_bound_sound. Qed.
Print Assumptions C20_linear_analysis_sound.

(* FURL matching terminates within a quadratic number of steps.  (A linear bound does NOT hold:
   AUTH_STURDYREF_RE is unanchored and applied with .search(); FurlProofs.furl_quadratic_witness and
   the known finding oracle/furl-quadratic.)
   full-strength statement that is refuted by the witness:
     forall s, re_steps AUTH_STURDYREF_RE AUTH_STURDYREF_RE_method s <= K * (|s| + 1)  *)
Theorem C20_furl_steps_bounded_partial : forall s,
  (re_steps AUTH_STURDYREF_RE AUTH_STURDYREF_RE_method s
   <= (N.of_nat (List.length s) + 1) * (furl_K * (N.of_nat (List.length s) + 1) + 1))%N.
Proof. exact furl_steps_bounded. Qed.
Print Assumptions C20_furl_steps_bounded_partial.

(* "... so an untrusted FURL (for example one received as a gift) cannot stall ... the process": on a Tub whose peers never
   answer, after ANY history of getReference calls (FURLs with or without a usable hint, for any tub ids) and passage of
   time, every getReference is answered once the connect timeout has passed -- with the order of "store the connector" and
   "connect()" that is translated from Tub.getBrokerForTubRef, and the translated CONNECTION_TIMEOUT *)
Theorem C20_no_stall : forall evs,
  waiters (cstep connector_stored_before_connect CONNECTION_TIMEOUT
             (crun connector_stored_before_connect CONNECTION_TIMEOUT evs) (Advance CONNECTION_TIMEOUT)) = [].
Proof. intros evs. apply (no_stall CONNECTION_TIMEOUT evs). discriminate. Qed.
Print Assumptions C20_no_stall.

(* ... and a FURL with a usable hint for a tub that has no running connector starts a connection attempt, whatever
   FURLs for that tub were seen before *)
Theorem C20_attempt_starts : forall evs t,
  let s := crun connector_stored_before_connect CONNECTION_TIMEOUT evs in
  ~ (exists dl, In (t, dl) (live s)) ->
  In (next s) (started (cstep connector_stored_before_connect CONNECTION_TIMEOUT s (GetRef t true))).
Proof. intros evs t s H. apply (attempt_starts CONNECTION_TIMEOUT evs t); [discriminate | exact H]. Qed.
Print Assumptions C20_attempt_starts.
