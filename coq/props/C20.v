(* C20 -- FURLs and connection hints parse totally, reversibly and in bounded time.
   Property theorems only; proofs live in lib/RegexProofs.v and lib/FurlProofs.v.  The patterns,
   constants and shape facts (gen/FurlGen.v) are re-translated from the source on every run. *)
From Coq Require Import ZArith NArith List String.
Import ListNotations.
Require Import Verif.lib.PyLite Verif.lib.Regex Verif.lib.RegexProofs Verif.lib.FurlPrim Verif.gen.FurlGen Verif.lib.Utf8 Verif.lib.Furl Verif.lib.FurlProofs.
Require Import Verif.lib.Connector Verif.lib.ConnectorProofs Verif.lib.ConnectAll Verif.lib.ConnectAllProofs.
Require Import Verif.lib.TorState Verif.lib.TorStateProofs.
Require Import Verif.lib.ConnectLateProofs Verif.lib.ConnectTor Verif.lib.ConnectTorProofs.
Local Open Scope Z_scope.

(* "Parsing a FURL either yields (tub id, hints, name) ... or raises the documented bad-FURL error".
   DEVIATION, stated precisely: decode_furl has two error classes and BadFURLError is NOT a subclass of ValueError.
   Read strictly (BadFURLError only) the sentence is refuted: C20_decode_strict_refuted.  The library's tested behaviour
   (test_sturdyref.py asserts ValueError("unknown FURL prefix") for a string without the pb://..@../.. shape;
   Tub.getConnectionInfoForFURL catches (ValueError, BadFURLError)) makes ValueError the documented error for strings that
   are not FURLs at all, so the theorem proved is: no outcome other than a triple, BadFURLError or ValueError
   (this theorem is a case split on decode_furl's structure; what the triple and the two errors mean is
   C20_decode_error_classes, C20_decode_wf, C20_decode_encode) *)
Theorem C20_decode_total : forall s,
  (exists t hs n, decode_furl s = Ok (t, hs, n)) \/ decode_furl s = Exc "BadFURLError" \/ decode_furl s = Exc "ValueError".
Proof. exact decode_total. Qed.
Print Assumptions C20_decode_total.

(* which inputs get which error: ValueError exactly when the translated pattern finds no FURL in the string, BadFURLError
   exactly when it finds one whose (cut) tub id is not base32 or one of whose hints is empty *)
Theorem C20_decode_error_classes : forall s,
  (decode_furl s = Exc "ValueError" <-> re_apply AUTH_STURDYREF_RE AUTH_STURDYREF_RE_method s = None) /\
  (decode_furl s = Exc "BadFURLError" <->
   exists c, re_apply AUTH_STURDYREF_RE AUTH_STURDYREF_RE_method s = Some c /\
     (is_base32 (firstn TUBID_CUT (group_or_nil 1 c)) = false \/
      existsb str_is_nil (let hs := split_on HINT_SEP (group_or_nil 2 c) in match hs with [[]] => [] | _ => hs end) = true)).
Proof. exact decode_error_classes. Qed.
Print Assumptions C20_decode_error_classes.

(* documentation of the strict reading (BadFURLError only): refuted by "pb://a/n", on the real code too.  NOT a finding:
   upstream's own test (test_sturdyref.py) asserts ValueError for a string that is not a FURL and its caller
   (Tub.getConnectionInfoForFURL) catches (ValueError, BadFURLError), so ValueError is the documented error here *)
Theorem C20_decode_strict_refuted : exists s, decode_furl s = Exc "ValueError".
Proof. exact decode_strict_refuted. Qed.
Print Assumptions C20_decode_strict_refuted.

(* ... also when the FURL is offered as bytes (six.ensure_str = strict UTF-8 decoding): the only further outcome is
   UnicodeDecodeError, which is a ValueError *)
Theorem C20_decode_bytes_total : forall b,
  (exists t hs n, decode_furl_bytes b = Ok (t, hs, n)) \/ decode_furl_bytes b = Exc "BadFURLError" \/
  decode_furl_bytes b = Exc "ValueError" \/ decode_furl_bytes b = Exc "UnicodeDecodeError".
Proof. exact decode_bytes_total. Qed.
Print Assumptions C20_decode_bytes_total.

(* ... and the UTF-8 bytes of a str decode exactly like the str (every Python str without lone surrogates) *)
Theorem C20_decode_bytes_is_decode_str : forall s, forallb scalarb s = true -> decode_furl_bytes (utf8 s) = decode_furl s.
Proof. exact decode_bytes_is_decode_str. Qed.
Print Assumptions C20_decode_bytes_is_decode_str.

(* "... such that re-encoding gives an equivalent FURL": whatever decode_furl returns decodes, after
   encode_furl, to the same triple *)
Theorem C20_decode_encode : forall s t hs n,
  decode_furl s = Ok (t, hs, n) -> decode_furl (encode_furl t hs n) = Ok (t, hs, n).
Proof. exact decode_encode. Qed.
Print Assumptions C20_decode_encode.

(* the same from the encoder's side, under the stated well-formedness: a non-empty base32 tub id of
   at most TUBID_CUT characters, hints non-empty without ',' and '/', a non-empty name without newline *)
Theorem C20_decode_encode_wf : forall t hs n,
  (t <> [] /\ (List.length t <= TUBID_CUT)%nat /\ is_base32 t = true /\
   Forall (fun h => h <> [] /\ ~ In HINT_SEP h /\ ~ In 47 h) hs /\ n <> [] /\ ~ In 10 n) ->
  decode_furl (encode_furl t hs n) = Ok (t, hs, n).
Proof. exact decode_encode_wf. Qed.
Print Assumptions C20_decode_encode_wf.

(* ... and every decoded triple is well-formed in that sense *)
Theorem C20_decode_wf : forall s t hs n, decode_furl s = Ok (t, hs, n) ->
  t <> [] /\ (List.length t <= TUBID_CUT)%nat /\ is_base32 t = true /\
  Forall (fun h => h <> [] /\ ~ In HINT_SEP h /\ ~ In 47 h) hs /\ n <> [] /\ ~ In 10 n.
Proof. exact decode_wf. Qed.
Print Assumptions C20_decode_wf.

(* "two references compare equal exactly when tub id and name are equal" (SturdyRef.__eq__ over the
   translated _distinguishers), equal references hash alike, TubRef identity is the tub id *)
Theorem C20_sturdy_eq : forall a b, sref_eqb a b = true <-> (sr_tub a = sr_tub b /\ sr_name a = sr_name b).
Proof. exact sturdy_eq. Qed.
Print Assumptions C20_sturdy_eq.

Theorem C20_sturdy_hash : forall a b, sref_eqb a b = true -> sref_key a = sref_key b.
Proof. exact sturdy_hash. Qed.
Print Assumptions C20_sturdy_hash.

(* ... also for references that ARRIVE as copies: the attributes SturdyRef.setCopyableState takes from the peer's
   state (translated) include every attribute identity depends on, and C20_sturdy_eq holds for all records *)
Theorem C20_copy_carries_identity : forall f, In f sturdyref_distinguishers -> In f sturdyref_copied_fields.
Proof. exact copy_carries_identity. Qed.
Print Assumptions C20_copy_carries_identity.

(* ordering (SturdyRef.__lt__ compares the same translated _distinguishers tuples): for references that have a tub id and a
   name -- everything built from a FURL -- `<` never raises and exactly one of a < b, a == b, b < a holds *)
Theorem C20_sturdy_lt_trichotomy : forall a b,
  ((exists t, sr_tub a = Some t) /\ (exists n, sr_name a = Some n)) ->
  ((exists t, sr_tub b = Some t) /\ (exists n, sr_name b = Some n)) ->
  exists x y, sref_ltb a b = Ok x /\ sref_ltb b a = Ok y /\
    ((x = true /\ sref_eqb a b = false /\ y = false) \/ (x = false /\ sref_eqb a b = true /\ y = false) \/
     (x = false /\ sref_eqb a b = false /\ y = true)).
Proof. exact sturdy_lt_trichotomy. Qed.
Print Assumptions C20_sturdy_lt_trichotomy.

Theorem C20_tubref_eq : forall a b, tubref_eqb a b = true <-> sr_tub a = sr_tub b.
Proof. exact tubref_eq. Qed.
Print Assumptions C20_tubref_eq.

(* "Classifying a connection hint ... ends in an endpoint or the documented invalid-hint error - never
   another exception", for all registered handler sets (type name -> foolscap's tcp / tor / i2p handler, the i2p
   handler with or without a default port, or ANY third-party plugin given by what its hint_to_endpoint returns /
   raises), all address filters, all strings.  The only hypothesis is on third-party plugins: each must itself answer
   with an endpoint or InvalidHintError (see C20_hint_exception_origin for what happens otherwise) *)
Theorem C20_hint_total : forall (handlers : list (str * hkind)) (nonpublic : str -> bool) (loc : str),
  Forall (fun h => match snd h with
                   | KPlugin f => forall x, (exists e, f x = Ok e) \/ f x = Exc "InvalidHintError"
                   | _ => True
                   end) handlers ->
  (exists e, get_endpoint handlers nonpublic loc = Ok e) \/ get_endpoint handlers nonpublic loc = Exc "InvalidHintError".
Proof. exact hint_total_all. Qed.
Print Assumptions C20_hint_total.

(* the i2p handler (form of commit 733f931, translated): an I2P hint always gives an endpoint, whose port is the hint's own
   non-zero port, else the handler's default port (None without one) *)
Theorem C20_i2p_port_choice : forall dflt hint,
  i2p_hint_to_endpoint I2P_POPS_PORT dflt hint = Exc "InvalidHintError" \/
  exists host pn, i2p_hint_to_endpoint I2P_POPS_PORT dflt hint = Ok (EpI2p host pn) /\ (pn = dflt \/ exists v, pn = Some v /\ v <> 0).
Proof. exact i2p_port_choice. Qed.
Print Assumptions C20_i2p_port_choice.

(* ... for ALL handler sets the dispatch (legacy conversion, colon test, lookup) raises nothing itself: any other
   exception is the one that the handler registered for the hint's type raised on that hint ... *)
Theorem C20_hint_exception_origin : forall handlers nonpublic loc e,
  get_endpoint handlers nonpublic loc = Exc e ->
  e = "InvalidHintError"%string \/
  exists hint kd, convert_legacy_hint loc = Ok hint /\
                  lookup_handler (take_until HINT_TYPE_SEP hint) handlers = Some kd /\
                  hint_to_endpoint nonpublic kd hint = Exc e.
Proof. exact (hint_exception_origin I2P_POPS_PORT). Qed.
Print Assumptions C20_hint_exception_origin.

(* ... and foolscap's own handlers raise nothing but InvalidHintError, except the pre-733f931 i2p handler with a default port *)
Theorem C20_builtin_handler_exceptions : forall nonpublic kd hint e,
  (match kd with KPlugin _ => False | _ => True end) ->
  hint_to_endpoint nonpublic kd hint = Exc e ->
  e = "InvalidHintError"%string \/ (e = "TypeError"%string /\ I2P_POPS_PORT = false /\ exists d, kd = KI2p (Some d)).
Proof. exact (builtin_exceptions I2P_POPS_PORT). Qed.
Print Assumptions C20_builtin_handler_exceptions.

(* "Classifying a connection hint always terminates ... and ends in an endpoint or the documented invalid-hint error",
   for a Tor handler whose Tor is NOT there: the handler (connections/tor.py _Common.hint_to_endpoint, its five steps in
   the order translated from the source) run against a Tor that is ready / still starting / fails with any exception.
   The classification is by the string alone -- with a ready Tor the handler is the classification of C20_hint_total ... *)
Theorem C20_tor_ready_is_classification : forall nonpublic hint,
  tor_handler nonpublic TorReady hint = Done (tor_hint_to_endpoint nonpublic hint).
Proof. exact tor_ready_is_classification. Qed.
Print Assumptions C20_tor_ready_is_classification.

(* ... a hint that is rejected is rejected at once whatever the Tor does: no waiting for a launch that may take for
   ever, no launch / connection error in place of InvalidHintError ... *)
Theorem C20_tor_invalid_whatever_tor : forall nonpublic st hint,
  tor_hint_to_endpoint nonpublic hint = Exc "InvalidHintError" -> tor_handler nonpublic st hint = Done (Exc "InvalidHintError").
Proof. exact tor_invalid_whatever_tor. Qed.
Print Assumptions C20_tor_invalid_whatever_tor.

(* ... every outcome, for all hints and all states of the Tor: the outcome is a function of (classification, Tor); it is
   `Waiting` / the Tor's own exception only for a hint that IS an endpoint once the Tor is there ... *)
Theorem C20_tor_outcome_table : forall nonpublic st hint,
  tor_handler nonpublic st hint =
  match tor_hint_to_endpoint nonpublic hint with
  | Ok ep => match st with TorReady => Done (Ok ep) | TorStarting => Waiting | TorFails e => Done (Exc e) end
  | Exc _ => Done (Exc "InvalidHintError")
  end.
Proof. exact tor_outcome_table. Qed.
Print Assumptions C20_tor_outcome_table.

(* WEAKENING, stated precisely.  The property says "ends in an endpoint or the documented invalid-hint error - never another
   exception".  For a Tor handler whose Tor cannot be had that sentence is NOT what is proved and is not true of the code:
   with TorFails e an accepted hint ends in the Tor's OWN exception e -- the launch / control-connection error, any class
   (C20_tor_fails_own_exception; read strictly the sentence is refuted: C20_tor_never_another_exception_refuted, witness
   "tor:a.b:80" with a launch that fails with RuntimeError, replayed on the real handlers by oracle_tor_states / the
   tor-state correspondence).  What IS proved in its place is exception ORIGIN (below: an exception of the handler is
   InvalidHintError or the very exception its Tor failed with, never a third one, and never the Tor's for a hint that is
   rejected) plus CONTAINMENT in the connector (C20_hint_status_is_own, C20_settled_status_is_final, C20_tor_down_reported:
   the exception becomes that hint's "failed to connect" status and the other hints are unaffected).  This is not reported as
   a finding: "the Tor is not available" is not a property of the hint, and InvalidHintError would be the wrong answer *)
Theorem C20_tor_exception_origin : forall nonpublic st hint e,
  tor_handler nonpublic st hint = Done (Exc e) -> e = "InvalidHintError"%string \/ st = TorFails e.
Proof. exact tor_exception_origin. Qed.
Print Assumptions C20_tor_exception_origin.

Theorem C20_tor_fails_own_exception : forall nonpublic e hint,
  tor_handler nonpublic (TorFails e) hint =
  match tor_hint_to_endpoint nonpublic hint with Ok _ => Done (Exc e) | Exc _ => Done (Exc "InvalidHintError") end.
Proof. exact tor_fails_own_exception. Qed.
Print Assumptions C20_tor_fails_own_exception.

Theorem C20_tor_never_another_exception_refuted : exists nonpublic st hint e,
  tor_handler nonpublic st hint = Done (Exc e) /\ e <> "InvalidHintError"%string.
Proof. exact tor_strict_total_refuted. Qed.
Print Assumptions C20_tor_never_another_exception_refuted.

(* ... and the order of the steps matters (regression, seeded change C20-r6s1): were the handler to get its Tor going
   before it looks at the hint, an invalid hint would wait as long as the Tor takes and end in the Tor's exception *)
Theorem C20_tor_wait_first_refuted : exists nonpublic hint,
  tor_hint_to_endpoint nonpublic hint = Exc "InvalidHintError" /\
  tor_handler_gen TOR_STEPS_WAIT_FIRST nonpublic TorStarting hint = Waiting /\
  tor_handler_gen TOR_STEPS_WAIT_FIRST nonpublic (TorFails "RuntimeError") hint = Done (Exc "RuntimeError").
Proof. exact tor_wait_first_refuted. Qed.
Print Assumptions C20_tor_wait_first_refuted.

(* "... always terminates in time proportional to its length": for each of the four translated hint
   patterns, applied the way the source applies it, the backtracking matcher takes at most
   hint_K * (|s| + 1) steps on EVERY subject s *)
Theorem C20_hint_linear : forall p meth,
  In (p, meth) [(OLD_STYLE_HINT_RE, OLD_STYLE_HINT_RE_method); (NEW_STYLE_HINT_RE, NEW_STYLE_HINT_RE_method);
                (TOR_HINT_RE, TOR_HINT_RE_method); (I2P_HINT_RE, I2P_HINT_RE_method)] ->
  forall s, (re_steps p meth s <= hint_K * (N.of_nat (List.length s) + 1))%N.
Proof. exact hint_linear. Qed.
Print Assumptions C20_hint_linear.

(* the generic form: any pattern accepted by the static analysis and tried at position 0 only *)
Theorem C20_linear_analysis_sound : forall p meth Kb, linear_bound p meth = Some Kb ->
  forall s, (re_steps p meth s <= Kb * (N.of_nat (List.length s) + 1))%N.
Proof. exact linear_bound_sound. Qed.
Print Assumptions C20_linear_analysis_sound.

(* FURL matching: "time proportional to its length" is REFUTED for decode_furl on the current tree (AUTH_STURDYREF_RE is
   unanchored and applied with .search(): known finding oracle/furl-quadratic), and the growth is characterised
   from both sides.
   full-strength statement:  exists K, forall s, re_steps AUTH_STURDYREF_RE AUTH_STURDYREF_RE_method s <= K * (|s| + 1)
   (1) refuted for every constant K *)
Theorem C20_furl_linear_refuted : forall K : N, exists s,
  (K * (N.of_nat (List.length s) + 1) < re_steps AUTH_STURDYREF_RE AUTH_STURDYREF_RE_method s)%N.
Proof. exact furl_linear_refuted. Qed.
Print Assumptions C20_furl_linear_refuted.

(* (2) the witness family, for every size: "pb://" k times costs at least (5/2) k (k - 1) steps *)
Theorem C20_furl_quadratic_lower : forall k,
  (5 * N.of_nat k * N.of_nat k <= 2 * re_steps AUTH_STURDYREF_RE AUTH_STURDYREF_RE_method (pb_repeat k) + 5 * N.of_nat k)%N.
Proof. exact furl_search_lower. Qed.
Print Assumptions C20_furl_quadratic_lower.

(* (3) upper bound on every subject: quadratic ... *)
Theorem C20_furl_steps_bounded_partial : forall s,
  (re_steps AUTH_STURDYREF_RE AUTH_STURDYREF_RE_method s
   <= (N.of_nat (List.length s) + 1) * (furl_K * (N.of_nat (List.length s) + 1) + 1))%N.
Proof. exact furl_steps_bounded. Qed.
Print Assumptions C20_furl_steps_bounded_partial.

(* (4) ... and precisely: linear in the length times the NUMBER OF OCCURRENCES OF THE SCHEME "pb://" in the subject *)
Theorem C20_furl_steps_by_occurrences : forall s,
  (re_steps AUTH_STURDYREF_RE AUTH_STURDYREF_RE_method s
   <= 6 * (N.of_nat (List.length s) + 1) + occ ENC_PREFIX s * (furl_K * (N.of_nat (List.length s) + 1)))%N.
Proof. exact furl_steps_by_occurrences. Qed.
Print Assumptions C20_furl_steps_by_occurrences.

(* (5) so a FURL in which the scheme occurs at most once (everything a Tub prints) is matched in linear time *)
Theorem C20_furl_single_scheme_linear : forall s, (occ ENC_PREFIX s <= 1)%N ->
  (re_steps AUTH_STURDYREF_RE AUTH_STURDYREF_RE_method s <= (furl_K + 6) * (N.of_nat (List.length s) + 1))%N.
Proof. exact furl_single_scheme_linear. Qed.
Print Assumptions C20_furl_single_scheme_linear.

(* (6) the anchored alternative (a leading `^`, or .match()) is linear on every subject with the same constant; it accepts
   fewer strings (FurlProofs.anchoring_changes_language), which is why the finding is left to the maintainers *)
Theorem C20_furl_anchored_linear : forall meth s,
  (re_steps (anchored AUTH_STURDYREF_RE) meth s <= furl_K * (N.of_nat (List.length s) + 1))%N /\
  (re_steps AUTH_STURDYREF_RE MMatch s <= furl_K * (N.of_nat (List.length s) + 1))%N.
Proof. exact (fun meth s => conj (furl_anchored_linear meth s) (furl_match_linear s)). Qed.
Print Assumptions C20_furl_anchored_linear.

(* per-hint error containment (TubConnector.connectToAll with its callback chain, _connectionFailed, checkForFailure,
   failed; model lib/ConnectAll.v), for ALL hint lists (duplicates included) and ALL behaviours of the individual
   hints -- an endpoint that is dialled (HPending), a handler that has not answered when the reactor is idle (HWaiting: a Tor
   handler whose Tor is starting, TorState.Waiting), an endpoint whose connect() fails at once, or get_endpoint failing with
   ANY exception (InvalidHintError or the handler's own):
   (1) every hint of the FURL is considered, whatever any hint does *)
Theorem C20_every_hint_tried : forall beh hints h, In h hints -> In h (attempted (connect_all beh hints)).
Proof. exact every_hint_tried. Qed.
Print Assumptions C20_every_hint_tried.

(* (2) a hint that yields a live endpoint is dialled, a hint whose handler is still waiting is held -- no exception raised for
   another hint prevents it (is_pending o = true iff o is HPending or HWaiting) ... *)
Theorem C20_usable_hint_dialled : forall beh hints h, In h hints -> is_pending (beh h) = true -> In h (pending (connect_all beh hints)).
Proof. exact usable_hint_dialled. Qed.
Print Assumptions C20_usable_hint_dialled.

(* ... validHints holds exactly the hints for which get_endpoint gave an endpoint (dialled, or connect() failed at once) ... *)
Theorem C20_valid_hints : forall beh hints h,
  (In h (valid (connect_all beh hints)) -> gives_endpoint (beh h) = true) /\
  (In h hints -> gives_endpoint (beh h) = true -> In h (valid (connect_all beh hints))).
Proof. exact (fun beh hints h => conj (valid_only_endpoints beh hints h) (endpoints_are_valid beh hints h)). Qed.
Print Assumptions C20_valid_hints.

(* ... so a WAITING hint sits in pendingConnections but not in validHints, its status is the one get_endpoint / the handler
   set, the connector is active and has reported nothing *)
Theorem C20_waiting_hint_held : forall beh hints h, In h hints -> beh h = HWaiting ->
  let r := connect_all beh hints in
  In h (pending r) /\ ~ In h (valid r) /\ status_of h (statuses r) = Some SResolving /\
  active r = true /\ failed_calls r = 0%nat.
Proof. exact waiting_hint_held. Qed.
Print Assumptions C20_waiting_hint_held.

(* (3) ... and every hint ends with the status that its OWN outcome determines *)
Theorem C20_hint_status_is_own : forall beh hints h, In h hints ->
  status_of h (statuses (connect_all beh hints)) = Some (expected_status (beh h)).
Proof. exact status_is_own. Qed.
Print Assumptions C20_hint_status_is_own.

(* (4) the connector neither stalls nor reports twice: either a connection attempt is running and nothing has been reported
   (the connect timer bounds the wait: C20_no_stall), or failed() -- Tub.connectionFailed, which answers every waiting
   getReference -- ran exactly once before connect() returned; `usable` (the flag of Connector.v's GetRef event: some hint is
   dialled OR waited for) decides *)
Theorem C20_connect_all_outcome : forall beh hints,
  let r := connect_all beh hints in
  (usable beh hints = true /\ pending r <> [] /\ active r = true /\ failed_calls r = 0%nat) \/
  (usable beh hints = false /\ pending r = [] /\ active r = false /\ failed_calls r = 1%nat).
Proof. exact connect_all_outcome. Qed.
Print Assumptions C20_connect_all_outcome.

(* (5) AFTER connect() has returned (the asynchronous path).  Late events, in any order and number: the Deferred of a waiting
   hint fires at last (LResolve h o: endpoint pending / connect() fails / the handler fails), a pending connect() fails
   (LConnFail), the connect timer fires (LTimeout: connectionTimedOut -> shutdown -> d.cancel() for every pending Deferred ->
   _remove / _connectionFailed with the cancellation error cx h -> failed()).  For ALL hint lists, behaviours, schedules and
   cancellation errors: either nothing has been reported, the connector is active (timer armed) and something is pending, or
   failed() ran EXACTLY once and nothing is pending -- never twice, never "inactive but unreported" *)
Theorem C20_late_outcome : forall cx beh hints evs,
  let r := run_late cx evs (connect_all beh hints) in
  (active r = true /\ failed_calls r = 0%nat /\ pending r <> []) \/
  (active r = false /\ failed_calls r = 1%nat /\ pending r = []).
Proof. exact late_outcome. Qed.
Print Assumptions C20_late_outcome.

(* (6) ... and once the connect timer has fired the failure HAS been reported, exactly once (the time bound is C20_no_stall's) *)
Theorem C20_timeout_reports : forall cx beh hints evs,
  let r := run_late cx (evs ++ [LTimeout]) (connect_all beh hints) in
  active r = false /\ failed_calls r = 1%nat /\ pending r = [].
Proof. exact timeout_reports. Qed.
Print Assumptions C20_timeout_reports.

(* (7) a hint whose handler never answers: held, and nothing reported, until the timer fires -- whatever the other hints do
   meanwhile; then cancelled (status of the cancellation error: "abandoned" for CancelledError), failure NegotiationError *)
Theorem C20_waiting_forever : forall cx beh hints h evs,
  In h hints -> beh h = HWaiting -> (forall o, ~ In (LResolve h o) evs) ->
  let r := run_late cx evs (connect_all beh hints) in
  (active r = true /\ failed_calls r = 0%nat /\ In h (pending r) /\ ~ In h (valid r) /\
   status_of h (statuses r) = Some SResolving) \/
  (In LTimeout evs /\ active r = false /\ failed_calls r = 1%nat /\ pending r = [] /\
   status_of h (statuses r) = Some (classify (cx h)) /\ reason r = Some "NegotiationError"%string).
Proof. exact waiting_forever. Qed.
Print Assumptions C20_waiting_forever.

(* (8) a hint that was settled when connect() returned keeps the status of its OWN outcome whatever happens later *)
Theorem C20_settled_status_is_final : forall cx beh hints h evs, In h hints -> is_pending (beh h) = false ->
  status_of h (statuses (run_late cx evs (connect_all beh hints))) = Some (expected_status (beh h)).
Proof. exact settled_status_is_final. Qed.
Print Assumptions C20_settled_status_is_final.

(* THE COMPOSITION of the Tor handler (the C20_tor_ theorems above) with the connector: tor_beh nonpublic st epb h is what the connector sees of
   the hint h when it is handled by a Tor handler in state st (Waiting -> HWaiting, endpoint -> what its connect() does, epb h;
   exception -> passed through by get_endpoint).
   (9) a hint list containing a Tor hint h whose Tor NEVER comes up (the other hints: anything; the late schedule: anything in
   which h's Deferred does not fire): reported exactly once when the timer has fired, nothing left pending; a hint the handler
   rejects is "bad hint" from the start and stays so; a hint it accepts was held (pending, NOT valid, nothing reported when
   connect() returned) and ends cancelled, the failure being NegotiationError *)
Theorem C20_tor_never_up_reported : forall nonpublic epb cx beh hints h evs,
  In h hints -> beh h = tor_beh nonpublic TorStarting epb h -> (forall o, ~ In (LResolve h o) evs) ->
  let r0 := connect_all beh hints in
  let r := run_late cx (evs ++ [LTimeout]) r0 in
  active r = false /\ failed_calls r = 1%nat /\ pending r = [] /\
  match tor_hint_to_endpoint nonpublic h with
  | Exc _ => status_of h (statuses r0) = Some SBadHint /\ status_of h (statuses r) = Some SBadHint
  | Ok _ => In h (pending r0) /\ ~ In h (valid r0) /\ active r0 = true /\ failed_calls r0 = 0%nat /\
            status_of h (statuses r0) = Some SResolving /\
            status_of h (statuses r) = Some (classify (cx h)) /\ reason r = Some "NegotiationError"%string
  end.
Proof. exact tor_never_up_reported. Qed.
Print Assumptions C20_tor_never_up_reported.

(* (10) a Tor that is DOWN (fails with e): the hint is settled when the reactor is idle, with the status of InvalidHintError
   resp. of the Tor's own exception, for good.  (Here the Tor's exception is taken as the hint's outcome AT reactor idle; the
   statuses, validHints as a set and the counters do not depend on that, the ORDER in which failures reach failureReason does:
   see (10') for the real order) *)
Theorem C20_tor_down_reported : forall nonpublic epb cx beh hints h e evs,
  In h hints -> beh h = tor_beh nonpublic (TorFails e) epb h ->
  let r := run_late cx evs (connect_all beh hints) in
  ~ In h (pending (connect_all beh hints)) /\
  status_of h (statuses r) = Some (match tor_hint_to_endpoint nonpublic h with Ok _ => classify e | Exc _ => SBadHint end).
Proof. exact tor_down_reported. Qed.
Print Assumptions C20_tor_down_reported.

(* (10') the same in the order of the real reactor turns: a Tor handler answers an ACCEPTED hint through its observer list, in a
   later turn even when the Tor has already failed (or is there) -- when connect() returns the hint is waiting and the Tor's
   exception arrives as a late event, after the synchronous outcomes of all other hints.  Whatever happens in between (anything but
   the timer) and afterwards, the hint ends with the status of the Tor's own exception; generally (C20_late_resolution) with the
   status of whatever failure its handler answers late *)
Theorem C20_late_resolution : forall cx beh hints h evs1 o evs2,
  In h hints -> beh h = HWaiting -> (forall o', ~ In (LResolve h o') evs1) -> ~ In LTimeout evs1 -> is_pending o = false ->
  status_of h (statuses (run_late cx (evs1 ++ LResolve h o :: evs2) (connect_all beh hints))) = Some (expected_status o).
Proof. exact late_resolution. Qed.
Print Assumptions C20_late_resolution.

Theorem C20_tor_down_reported_late : forall nonpublic epb cx beh hints h e ep evs1 evs2,
  In h hints -> tor_hint_to_endpoint nonpublic h = Ok ep -> beh h = HWaiting ->
  (forall o', ~ In (LResolve h o') evs1) -> ~ In LTimeout evs1 ->
  status_of h (statuses (run_late cx (evs1 ++ LResolve h (tor_beh nonpublic (TorFails e) epb h) :: evs2) (connect_all beh hints)))
    = Some (classify e).
Proof. exact tor_down_reported_late. Qed.
Print Assumptions C20_tor_down_reported_late.

(* (11) a FURL all of whose hints are rejected by the Tor handler is answered before connect() returns, whatever the Tor does *)
Theorem C20_tor_all_rejected_answered_at_once : forall nonpublic st epb beh hints,
  (forall h, In h hints -> beh h = tor_beh nonpublic st epb h /\ tor_hint_to_endpoint nonpublic h = Exc "InvalidHintError"%string) ->
  let r := connect_all beh hints in
  failed_calls r = 1%nat /\ active r = false /\ pending r = [].
Proof. exact tor_all_rejected_answered_at_once. Qed.
Print Assumptions C20_tor_all_rejected_answered_at_once.

(* "... so an untrusted FURL (for example one received as a gift) cannot stall ... the process": on a Tub whose peers never
   answer, after ANY history of getReference calls (FURLs with or without a usable hint, for any tub ids) and passage of
   time, every getReference is answered once the connect timeout has passed -- with the order of "store the connector" and
   "connect()" that is translated from Tub.getBrokerForTubRef, and the translated CONNECTION_TIMEOUT *)
Theorem C20_no_stall : forall evs,
  waiters (cstep connector_stored_before_connect CONNECTION_TIMEOUT
             (crun connector_stored_before_connect CONNECTION_TIMEOUT evs) (Advance CONNECTION_TIMEOUT)) = [].
Proof. exact no_stall_translated. Qed.
Print Assumptions C20_no_stall.

(* ... and a FURL with a usable hint for a tub that has no running connector starts a connection attempt, whatever
   FURLs for that tub were seen before *)
Theorem C20_attempt_starts : forall evs t,
  let s := crun connector_stored_before_connect CONNECTION_TIMEOUT evs in
  ~ (exists dl, In (t, dl) (live s)) ->
  In (next s) (started (cstep connector_stored_before_connect CONNECTION_TIMEOUT s (GetRef t true))).
Proof. exact attempt_starts_translated. Qed.
Print Assumptions C20_attempt_starts.
