(* C20 -- placeholder while the development is being built *)
From Coq Require Import ZArith List String.
Require Import Verif.lib.PyLite Verif.lib.Regex Verif.gen.FurlGen Verif.lib.Furl.
Theorem C20_stub : True. Proof. exact I. Qed.
Print Assumptions C20_stub.
