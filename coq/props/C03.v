(* C03 -- Every callRemote resolves exactly once, whatever happens to the connection.
   Property theorems only; proofs live in lib/RequestsProofs.v.  `run ops` is the state of the calling Broker
   after an ARBITRARY finite sequence of: callRemote / callRemoteOnly / locally rejected call, answer / error /
   answer-violation arriving for any request id, complete() or fail() invoked on any request object at any time
   (send failure, late answer), connectionLost / shutdown with any reason (a class listed in LOST_CONNECTION_ERRORS, a proper subclass of one,
   or an unrelated exception), other callables -- raising or not -- put into the shared eventual-send queue at any point,
   and turns of that queue (one event each). *)
From Coq Require Import ZArith List Bool.
Import ListNotations.
Require Import Verif.gen.RequestsGen Verif.lib.Requests Verif.lib.RequestsProofs.
Local Open Scope Z_scope.

(* "nothing fires twice": for every interleaving, every Deferred has been fired at most once *)
Theorem C03_at_most_once : forall ops h c,
  get (run ops) h = Some c -> (List.length (c_fires c) <= 1)%nat.
Proof. exact at_most_once. Qed.
Print Assumptions C03_at_most_once.

(* "... or fires after having fired": once a Deferred has fired with outcome o, no continuation of the history
   changes that (one firing, same outcome) *)
Theorem C03_first_outcome_is_final : forall ops1 ops2 h c o,
  get (run ops1) h = Some c -> c_fires c = [o] ->
  exists c', get (run (ops1 ++ ops2)) h = Some c' /\ c_fires c' = [o] /\ c_rid c' = c_rid c /\ c_twoway c' = c_twoway c.
Proof. exact first_outcome_is_final. Qed.
Print Assumptions C03_first_outcome_is_final.

(* the pending-request table (Broker.waitingForAnswers) holds exactly the registered requests that have not fired *)
Theorem C03_table_iff_pending : forall ops rid,
  In rid (map fst (table (run ops))) <->
  exists h c, get (run ops) h = Some c /\ c_tracked c = true /\ c_rid c = rid /\ c_fires c = [].
Proof. exact table_iff_pending. Qed.
Print Assumptions C03_table_iff_pending.

(* request ids of registered requests are unique, positive (never the one-way id) and below the counter *)
Theorem C03_reqids_unique_and_fresh : forall ops h1 h2 c1 c2,
  get (run ops) h1 = Some c1 -> get (run ops) h2 = Some c2 -> c_tracked c1 = true -> c_tracked c2 = true ->
  (c_rid c1 = c_rid c2 -> h1 = h2) /\ oneway_reqid < c_rid c1 < nextid (run ops).
Proof. exact reqids_unique_and_fresh. Qed.
Print Assumptions C03_reqids_unique_and_fresh.

Theorem C03_table_keys_unique : forall ops, NoDup (map fst (table (run ops))).
Proof. exact table_keys_unique. Qed.
Print Assumptions C03_table_keys_unique.

(* "after a connection is lost no request stays pending" and "fires exactly once ... with DeadReferenceError once
   the connection is gone": in every reachable state in which the broker is disconnected and the eventual-send
   queue is empty, the table is empty and every callRemote Deferred has fired exactly once *)
Theorem C03_drained_after_loss : forall ops,
  disconnected (run ops) = true -> evq (run ops) = [] ->
  table (run ops) = [] /\
  forall h c, get (run ops) h = Some c -> c_twoway c = true -> List.length (c_fires c) = 1%nat.
Proof. exact drained_after_loss. Qed.
Print Assumptions C03_drained_after_loss.

(* ... and that state is reached: after any history, connectionLost/shutdown followed by as many turns of the
   eventual queue as it has entries leaves nothing pending and every callRemote fired exactly once *)
Theorem C03_loss_then_drain : forall ops r,
  let s1 := run (ops ++ [Finish r]) in
  let s2 := run_from s1 (repeat Turn (List.length (evq s1))) in
  disconnected s2 = true /\ evq s2 = [] /\ table s2 = [] /\
  List.length (calls s2) = List.length (calls (run ops)) /\
  forall h c, get s2 h = Some c -> c_twoway c = true -> List.length (c_fires c) = 1%nat.
Proof. exact loss_then_drain. Qed.
Print Assumptions C03_loss_then_drain.

(* a late answer / complete() / fail() on a request that has already been retired fires nothing and leaves
   the table alone; a wire answer for its id is ignored *)
Theorem C03_late_events_fire_nothing : forall ops h c,
  get (run ops) h = Some c -> c_active c = false ->
  calls (step (run ops) (Complete h)) = calls (run ops) /\
  table (step (run ops) (Complete h)) = table (run ops) /\
  (forall o, step (run ops) (Fail h o) = run ops) /\
  (c_tracked c = true ->
     step (run ops) (Answer (c_rid c)) = run ops /\ step (run ops) (Error (c_rid c)) = run ops /\
     step (run ops) (AnswerViolation (c_rid c)) = run ops).
Proof. exact late_events_fire_nothing. Qed.
Print Assumptions C03_late_events_fire_nothing.

(* answers for ids that are not pending change nothing *)
Theorem C03_unknown_reqid_ignored : forall ops rid,
  ~ In rid (map fst (table (run ops))) ->
  step (run ops) (Answer rid) = run ops /\ step (run ops) (Error rid) = run ops /\
  step (run ops) (AnswerViolation rid) = run ops.
Proof. exact unknown_reqid_ignored. Qed.
Print Assumptions C03_unknown_reqid_ignored.

(* the only exception in the request machinery: KeyError from removeRequest when complete() runs on a registered,
   already retired request; fail() and wire answers/errors never raise; the KeyError changes no Deferred and no entry *)
Theorem C03_keyerror_only_from_late_complete : forall ops x,
  raised (step (run ops) x) = raised (run ops) \/
  (raised (step (run ops) x) = S (raised (run ops)) /\
   exists h c, x = Complete h /\ get (run ops) h = Some c /\ c_tracked c = true /\ c_active c = false /\
               calls (step (run ops) x) = calls (run ops) /\ table (step (run ops) x) = table (run ops)).
Proof. exact keyerror_only_from_late_complete. Qed.
Print Assumptions C03_keyerror_only_from_late_complete.

(* a callRemote issued on a dead connection fails immediately with DeadReferenceError and is never registered *)
Theorem C03_call_after_loss_is_dead : forall ops k,
  disconnected (run ops) = true -> k <> KOneWay ->
  let s' := step (run ops) (Call k) in
  exists c, get s' (List.length (calls (run ops))) = Some c /\ c_fires c = [ODeadRef] /\ c_tracked c = false /\
            table s' = table (run ops) /\ evq s' = evq (run ops).
Proof. exact call_after_loss_is_dead. Qed.
Print Assumptions C03_call_after_loss_is_dead.

(* "... or with DeadReferenceError once the connection is gone": the translated test of abandonAllRequests maps every
   lost-connection reason -- the listed classes and every subclass of them -- to DeadReferenceError; other reasons
   (shutdown with an application error) pass through *)
Theorem C03_lost_reason_is_DeadReferenceError : forall r, is_lost r = true -> reason_outcome r = ODeadRef.
Proof. exact lost_reason_is_DeadReferenceError. Qed.
Print Assumptions C03_lost_reason_is_DeadReferenceError.

(* every callRemote pending when the connection ends fires with exactly the outcome the reason maps to, whatever was
   outstanding and however the queued failures are drained *)
Theorem C03_loss_outcome : forall ops r h c,
  disconnected (run ops) = false -> get (run ops) h = Some c -> c_twoway c = true -> c_fires c = [] ->
  let s1 := run (ops ++ [Finish r]) in
  let s2 := run_from s1 (repeat Turn (List.length (evq s1))) in
  exists c', get s2 h = Some c' /\ c_fires c' = [reason_outcome r].
Proof. exact loss_outcome. Qed.
Print Assumptions C03_loss_outcome.

Theorem C03_lost_connection_gives_DeadReferenceError : forall ops r h c,
  is_lost r = true ->
  disconnected (run ops) = false -> get (run ops) h = Some c -> c_twoway c = true -> c_fires c = [] ->
  let s1 := run (ops ++ [Finish r]) in
  let s2 := run_from s1 (repeat Turn (List.length (evq s1))) in
  exists c', get s2 h = Some c' /\ c_fires c' = [ODeadRef].
Proof. exact lost_connection_gives_DeadReferenceError. Qed.
Print Assumptions C03_lost_connection_gives_DeadReferenceError.

(* the eventual-send queue (translated: FIFO append, batch snapshot, per-event try/except of _turn): running one event
   removes exactly that event -- an exception raised by it drops nothing that is queued behind it *)
Theorem C03_turn_runs_exactly_one_event : forall ops,
  evq (step (run ops) Turn) = tl (evq (run ops)) /\ disconnected (step (run ops) Turn) = disconnected (run ops).
Proof. exact turn_runs_exactly_one_event. Qed.
Print Assumptions C03_turn_runs_exactly_one_event.

(* a foreign event (a notifyOnDisconnect handler, an application's eventually(), raising or not) touches no request *)
Theorem C03_foreign_event_changes_no_request : forall ops r q,
  evq (run ops) = EForeign r :: q ->
  calls (step (run ops) Turn) = calls (run ops) /\ table (step (run ops) Turn) = table (run ops) /\
  evq (step (run ops) Turn) = q.
Proof. exact foreign_event_changes_no_request. Qed.
Print Assumptions C03_foreign_event_changes_no_request.
