From Coq Require Import ZArith List Bool.
Require Import Verif.gen.RequestsGen Verif.lib.Requests Verif.lib.RequestsProofs.
Theorem C03_placeholder : True. Proof. exact placeholder. Qed.
Print Assumptions C03_placeholder.
