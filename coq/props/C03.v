(* C03 -- Every callRemote resolves exactly once, whatever happens to the connection.
   Property theorems only; proofs live in lib/RequestsProofs.v.  `run ops` is the state of the calling Broker
   after an ARBITRARY finite sequence of: callRemote / callRemoteOnly / locally rejected call, answer / error /
   answer-violation arriving for any request id, complete() or fail() invoked on any request object at any time
   (send failure, late answer), connectionLost / shutdown with any reason (a class listed in LOST_CONNECTION_ERRORS, a proper subclass of one,
   or an unrelated exception), other callables -- raising or not -- put into the shared eventual-send queue at any point,
   and turns of that queue (one event each). *)
From Coq Require Import ZArith List Bool.
Import ListNotations.
Require Import Verif.lib.PyLite Verif.gen.BananaGen Verif.lib.Recv.
Require Import Verif.gen.RequestsGen Verif.lib.Requests Verif.lib.RequestsProofs.
Require Import Verif.lib.Token Verif.lib.AnswerRecv Verif.lib.AnswerRecvProofs Verif.lib.AnswerRecvE2E.
Local Open Scope Z_scope.

(* "nothing fires twice": for every interleaving, every Deferred has been fired at most once *)
Theorem C03_at_most_once : forall ops h c,
  get (run ops) h = Some c -> (List.length (c_fires c) <= 1)%nat.
Proof. exact at_most_once. Qed.
Print Assumptions C03_at_most_once.

(* "... or fires after having fired": once a Deferred has fired with outcome o, no continuation of the history
   changes that (one firing, same outcome) *)
Theorem C03_first_outcome_is_final : forall ops1 ops2 h c o,
  get (run ops1) h = Some c -> c_fires c = [o] ->
  exists c', get (run (ops1 ++ ops2)) h = Some c' /\ c_fires c' = [o] /\ c_rid c' = c_rid c /\ c_twoway c' = c_twoway c.
Proof. exact first_outcome_is_final. Qed.
Print Assumptions C03_first_outcome_is_final.

(* the pending-request table (Broker.waitingForAnswers) holds exactly the registered requests that have not fired *)
Theorem C03_table_iff_pending : forall ops rid,
  In rid (map fst (table (run ops))) <->
  exists h c, get (run ops) h = Some c /\ c_tracked c = true /\ c_rid c = rid /\ c_fires c = [].
Proof. exact table_iff_pending. Qed.
Print Assumptions C03_table_iff_pending.

(* request ids of registered requests are unique, positive (never the one-way id) and below the counter *)
Theorem C03_reqids_unique_and_fresh : forall ops h1 h2 c1 c2,
  get (run ops) h1 = Some c1 -> get (run ops) h2 = Some c2 -> c_tracked c1 = true -> c_tracked c2 = true ->
  (c_rid c1 = c_rid c2 -> h1 = h2) /\ oneway_reqid < c_rid c1 < nextid (run ops).
Proof. exact reqids_unique_and_fresh. Qed.
Print Assumptions C03_reqids_unique_and_fresh.

Theorem C03_table_keys_unique : forall ops, NoDup (map fst (table (run ops))).
Proof. exact table_keys_unique. Qed.
Print Assumptions C03_table_keys_unique.

(* "after a connection is lost no request stays pending" and "fires exactly once ... with DeadReferenceError once
   the connection is gone": in every reachable state in which the broker is disconnected and the eventual-send
   queue is empty, the table is empty and every callRemote Deferred has fired exactly once *)
Theorem C03_drained_after_loss : forall ops,
  disconnected (run ops) = true -> evq (run ops) = [] ->
  table (run ops) = [] /\
  forall h c, get (run ops) h = Some c -> c_twoway c = true -> List.length (c_fires c) = 1%nat.
Proof. exact drained_after_loss. Qed.
Print Assumptions C03_drained_after_loss.

(* ... and that state is reached: after any history, connectionLost/shutdown followed by as many turns of the
   eventual queue as it has entries leaves nothing pending and every callRemote fired exactly once *)
Theorem C03_loss_then_drain : forall ops r,
  let s1 := run (ops ++ [Finish r]) in
  let s2 := run_from s1 (repeat Turn (List.length (evq s1))) in
  disconnected s2 = true /\ evq s2 = [] /\ table s2 = [] /\
  List.length (calls s2) = List.length (calls (run ops)) /\
  forall h c, get s2 h = Some c -> c_twoway c = true -> List.length (c_fires c) = 1%nat.
Proof. exact loss_then_drain. Qed.
Print Assumptions C03_loss_then_drain.

(* a late answer / complete() / fail() on a request that has already been retired fires nothing and leaves
   the table alone; a wire answer for its id is ignored *)
Theorem C03_late_events_fire_nothing : forall ops h c,
  get (run ops) h = Some c -> c_active c = false ->
  calls (step (run ops) (Complete h)) = calls (run ops) /\
  table (step (run ops) (Complete h)) = table (run ops) /\
  (forall o, step (run ops) (Fail h o) = run ops) /\
  (c_tracked c = true ->
     step (run ops) (Answer (c_rid c)) = run ops /\ step (run ops) (Error (c_rid c)) = run ops /\
     step (run ops) (AnswerViolation (c_rid c)) = run ops).
Proof. exact late_events_fire_nothing. Qed.
Print Assumptions C03_late_events_fire_nothing.

(* answers for ids that are not pending change nothing *)
Theorem C03_unknown_reqid_ignored : forall ops rid,
  ~ In rid (map fst (table (run ops))) ->
  step (run ops) (Answer rid) = run ops /\ step (run ops) (Error rid) = run ops /\
  step (run ops) (AnswerViolation rid) = run ops.
Proof. exact unknown_reqid_ignored. Qed.
Print Assumptions C03_unknown_reqid_ignored.

(* the only exception in the request machinery: KeyError from removeRequest when complete() runs on a registered,
   already retired request; fail() and wire answers/errors never raise; the KeyError changes no Deferred and no entry *)
Theorem C03_keyerror_only_from_late_complete : forall ops x,
  raised (step (run ops) x) = raised (run ops) \/
  (raised (step (run ops) x) = S (raised (run ops)) /\
   exists h c, x = Complete h /\ get (run ops) h = Some c /\ c_tracked c = true /\ c_active c = false /\
               calls (step (run ops) x) = calls (run ops) /\ table (step (run ops) x) = table (run ops)).
Proof. exact keyerror_only_from_late_complete. Qed.
Print Assumptions C03_keyerror_only_from_late_complete.

(* a callRemote issued on a dead connection fails immediately with DeadReferenceError and is never registered *)
Theorem C03_call_after_loss_is_dead : forall ops k,
  disconnected (run ops) = true -> k <> KOneWay ->
  let s' := step (run ops) (Call k) in
  exists c, get s' (List.length (calls (run ops))) = Some c /\ c_fires c = [ODeadRef] /\ c_tracked c = false /\
            table s' = table (run ops) /\ evq s' = evq (run ops).
Proof. exact call_after_loss_is_dead. Qed.
Print Assumptions C03_call_after_loss_is_dead.

(* "... or with DeadReferenceError once the connection is gone": the translated test of abandonAllRequests maps every
   lost-connection reason -- the listed classes and every subclass of them -- to DeadReferenceError; other reasons
   (shutdown with an application error) pass through *)
Theorem C03_lost_reason_is_DeadReferenceError : forall r, is_lost r = true -> reason_outcome r = ODeadRef.
Proof. exact lost_reason_is_DeadReferenceError. Qed.
Print Assumptions C03_lost_reason_is_DeadReferenceError.

(* every callRemote pending when the connection ends fires with exactly the outcome the reason maps to, whatever was
   outstanding and however the queued failures are drained *)
Theorem C03_loss_outcome : forall ops r h c,
  disconnected (run ops) = false -> get (run ops) h = Some c -> c_twoway c = true -> c_fires c = [] ->
  let s1 := run (ops ++ [Finish r]) in
  let s2 := run_from s1 (repeat Turn (List.length (evq s1))) in
  exists c', get s2 h = Some c' /\ c_fires c' = [reason_outcome r].
Proof. exact loss_outcome. Qed.
Print Assumptions C03_loss_outcome.

Theorem C03_lost_connection_gives_DeadReferenceError : forall ops r h c,
  is_lost r = true ->
  disconnected (run ops) = false -> get (run ops) h = Some c -> c_twoway c = true -> c_fires c = [] ->
  let s1 := run (ops ++ [Finish r]) in
  let s2 := run_from s1 (repeat Turn (List.length (evq s1))) in
  exists c', get s2 h = Some c' /\ c_fires c' = [ODeadRef].
Proof. exact lost_connection_gives_DeadReferenceError. Qed.
Print Assumptions C03_lost_connection_gives_DeadReferenceError.

(* the eventual-send queue (translated: FIFO append, batch snapshot, per-event try/except of _turn): running one event
   removes exactly that event -- an exception raised by it drops nothing that is queued behind it *)
Theorem C03_turn_runs_exactly_one_event : forall ops,
  evq (step (run ops) Turn) = tl (evq (run ops)) /\ disconnected (step (run ops) Turn) = disconnected (run ops).
Proof. exact turn_runs_exactly_one_event. Qed.
Print Assumptions C03_turn_runs_exactly_one_event.

(* a foreign event (a notifyOnDisconnect handler, an application's eventually(), raising or not) touches no request *)
Theorem C03_foreign_event_changes_no_request : forall ops r q,
  evq (run ops) = EForeign r :: q ->
  calls (step (run ops) Turn) = calls (run ops) /\ table (step (run ops) Turn) = table (run ops) /\
  evq (step (run ops) Turn) = q.
Proof. exact foreign_event_changes_no_request. Qed.
Print Assumptions C03_foreign_event_changes_no_request.

(* "fires ... with the method's result, with the remote failure, with a Violation": what an answer / error / Violation for a
   pending request id DOES: that request fires with exactly that outcome and leaves the table; every other call, every other
   table entry, the eventual queue and the connection state are unchanged (`resolves`, lib/RequestsProofs.v) *)
Theorem C03_answer_fires_result : forall ops rid h, tbl_find rid (table (run ops)) = Some h ->
  resolves (run ops) (step (run ops) (Answer rid)) h rid OResult.
Proof. exact answer_fires_result. Qed.
Print Assumptions C03_answer_fires_result.

Theorem C03_error_fires_remote_failure : forall ops rid h, tbl_find rid (table (run ops)) = Some h ->
  resolves (run ops) (step (run ops) (Error rid)) h rid ORemoteError.
Proof. exact error_fires_remote_failure. Qed.
Print Assumptions C03_error_fires_remote_failure.

Theorem C03_violation_fires_violation : forall ops rid h, tbl_find rid (table (run ops)) = Some h ->
  resolves (run ops) (step (run ops) (AnswerViolation rid)) h rid OViolation.
Proof. exact violation_fires_violation. Qed.
Print Assumptions C03_violation_fires_violation.

(* fail(why) / complete(res) on a pending request object -- the serialization failure of the call's own arguments
   (Fail h OSendFail), an answer that finishes late -- fires it with exactly that outcome *)
Theorem C03_fail_on_pending_fires : forall ops rid h o, In (rid, h) (table (run ops)) ->
  resolves (run ops) (step (run ops) (Fail h o)) h rid o /\
  resolves (run ops) (step (run ops) (Complete h)) h rid OResult.
Proof. exact fail_on_pending_fires. Qed.
Print Assumptions C03_fail_on_pending_fires.

(* ... and every callRemote that has not fired can be reached that way: it is in the table under its id *)
Theorem C03_pending_is_in_table : forall ops h c, get (run ops) h = Some c -> c_twoway c = true -> c_fires c = [] ->
  In (c_rid c, h) (table (run ops)) /\ tbl_find (c_rid c) (table (run ops)) = Some h.
Proof. exact pending_is_in_table. Qed.
Print Assumptions C03_pending_is_in_table.

(* ===================================================================================================================
   "... and connection loss at any byte position": the caller's RECEIVE PATH from bytes to the request table
   (lib/AnswerRecv.v: Banana.dataReceived/handleData, handleOpen/Token/Close/Violation, PBRootUnslicer, AnswerUnslicer,
   ErrorUnslicer acting on the state above).  A history `js` is any finite list of operations (JOp, as above) and received
   byte chunks (JData), in any order.  What the result constraint and the unslicers BELOW an answer / error decide for a
   token -- accept, Violation, BananaError, result not ready yet -- is the oracle (taste, after): every theorem holds for
   every oracle, i.e. for every schema and every content of the answers. *)
Section Bytes.
Variable C : Type.
Variable taste : C -> utop -> bool -> Z -> Z -> ck.
Variable after : C -> utop -> bool -> Z -> Z -> list Z -> dres * C.
Notation jrun := (jrun C taste after).
Notation jinit := (jinit C).
Notation jst := (jst C).

(* received bytes act on the requests only through complete() / fail() of lib/Requests.v: the request state after any
   history is `run` of the operations the history performed (issued from outside, or caused by the bytes), in order *)
Theorem C03_bytes_refine_operations : forall cs voc js,
  jst (fst (jrun (jinit cs voc) js)) = run (snd (jrun (jinit cs voc) js)).
Proof. exact (bytes_refine_operations C taste after). Qed.

(* "nothing fires twice", with any bytes in any chunks between any operations *)
Theorem C03_bytes_at_most_once : forall cs voc js h c,
  get (jst (fst (jrun (jinit cs voc) js))) h = Some c -> (List.length (c_fires c) <= 1)%nat.
Proof. exact (bytes_at_most_once C taste after). Qed.

(* "... or fires after having fired", under any continuation including further bytes *)
Theorem C03_bytes_first_outcome_is_final : forall cs voc js1 js2 h c o,
  get (jst (fst (jrun (jinit cs voc) js1))) h = Some c -> c_fires c = [o] ->
  exists c', get (jst (fst (jrun (jinit cs voc) (js1 ++ js2)))) h = Some c' /\ c_fires c' = [o].
Proof. exact (bytes_first_outcome_is_final C taste after). Qed.

Theorem C03_bytes_table_iff_pending : forall cs voc js rid,
  In rid (map fst (table (jst (fst (jrun (jinit cs voc) js))))) <->
  exists h c, get (jst (fst (jrun (jinit cs voc) js))) h = Some c /\ c_tracked c = true /\ c_rid c = rid /\ c_fires c = [].
Proof. exact (bytes_table_iff_pending C taste after). Qed.

(* "connection loss at any byte position": after ANY history -- the answer stream cut after any number of bytes, leaving the
   tokenizer and the unslicers in whatever state -- connectionLost/shutdown and the turns of the eventual queue leave no
   request pending and every callRemote fired exactly once *)
Theorem C03_bytes_cut_anywhere_then_loss : forall cs voc js r,
  let s1 := jst (fst (jrun (jinit cs voc) (js ++ [JOp (Finish r)]))) in
  let s2 := run_from s1 (repeat Turn (List.length (evq s1))) in
  disconnected s2 = true /\ evq s2 = [] /\ table s2 = [] /\
  forall h c, get s2 h = Some c -> c_twoway c = true -> List.length (c_fires c) = 1%nat.
Proof. exact (bytes_cut_anywhere_then_loss C taste after). Qed.

Theorem C03_bytes_drained_after_loss : forall cs voc js,
  let s := jst (fst (jrun (jinit cs voc) js)) in
  disconnected s = true -> evq s = [] ->
  table s = [] /\ forall h c, get s h = Some c -> c_twoway c = true -> List.length (c_fires c) = 1%nat.
Proof. exact (bytes_drained_after_loss C taste after). Qed.

(* "for all chunkings": after any history, a stretch of received data acts as its concatenation (state and operations) *)
Theorem C03_bytes_chunk_independent : forall cs voc js chunks1 chunks2,
  concat chunks1 = concat chunks2 ->
  let s := fst (jrun (jinit cs voc) js) in
  jrun s (map JData chunks1) = jrun s (map JData chunks2).
Proof. exact (bytes_chunk_independent C taste after). Qed.

(* one token performs at most one operation: complete() or fail() of the request bound to the Answer/ErrorUnslicer on the
   stack, which is then gone (tokens without a body; accepted tokens with a body; tokens rejected by the taste) *)
Theorem C03_token_emits_at_most_one : forall c ty hdr,
  emits_ok C c (step_nobody_a C taste after c ty hdr) /\
  (forall body, emits_ok C c (finish_body_a C after c ty hdr body)) /\
  (forall c' es, begin_body_a C taste c ty hdr = BReject c' es -> emits_ok C c (c', es)).
Proof.
  intros c ty hdr. split; [exact (token_emits_at_most_one_nobody C taste after c ty hdr)|].
  split; [exact (token_emits_at_most_one_body C after c ty hdr)|exact (token_emits_at_most_one_rejected C taste c ty hdr)].
Qed.

(* while a rejected sequence is being discarded nothing happens to any request *)
Theorem C03_discarding_emits_nothing : forall c ty hdr, 0 < a_disc c ->
  snd (step_nobody_a C taste after c ty hdr) = [] /\
  (forall c' es, begin_body_a C taste c ty hdr = BReject c' es -> es = []) /\
  begin_body_a C taste c ty hdr <> BAccept.
Proof. exact (discarding_emits_nothing C taste after). Qed.

(* once an exception has escaped handleData (connectionAbandoned) no byte does anything *)
Theorem C03_abandoned_connection_is_inert : forall c ty hdr, a_dead c = true ->
  step_nobody_a C taste after c ty hdr = (c, []) /\ begin_body_a C taste c ty hdr = BReject c [].
Proof. exact (abandoned_connection_is_inert C taste after). Qed.

(* the request-id token binds the unslicer to the request the table holds under that id, or -- unknown id -- fires nothing
   and starts discarding the sequence *)
Theorem C03_reqid_token_binds_through_table : forall c ty hdr body rid err oc, a_top c = UWantId err oc ->
  match tbl_find rid (table (a_st c)) with
  | Some h => handle_token C after c ty hdr body (VInt rid) = (set_top C c (UBody err h false oc []), [])
  | None => snd (handle_token C after c ty hdr body (VInt rid)) = [] /\
            a_top (fst (handle_token C after c ty hdr body (VInt rid))) = URoot /\
            a_disc (fst (handle_token C after c ty hdr body (VInt rid))) = a_disc c + 1
  end.
Proof. exact (reqid_token_binds_through_table C after). Qed.

(* the functional half at the byte level: the CLOSE of a complete answer completes the bound request, the CLOSE of an error
   fails it with the remote failure, a Violation anywhere below an answer / error fails exactly the bound request *)
Theorem C03_close_of_answer_completes : forall c h oc, a_top c = UBody false h true oc [] ->
  fst (after (a_cs c) (a_top c) false tok_CLOSE oc []) <> DLate ->
  snd (handle_close C after c oc) = [Complete h] /\ a_top (fst (handle_close C after c oc)) = URoot /\
  a_st (fst (handle_close C after c oc)) = step (a_st c) (Complete h).
Proof. exact (close_of_answer_completes C after). Qed.

Theorem C03_close_of_error_fails : forall c h oc, a_top c = UBody true h true oc [] ->
  snd (handle_close C after c oc) = [Fail h ORemoteError] /\ a_top (fst (handle_close C after c oc)) = URoot /\
  a_st (fst (handle_close C after c oc)) = step (a_st c) (Fail h ORemoteError).
Proof. exact (close_of_error_fails C after). Qed.

Theorem C03_violation_fails_bound_request : forall c err h hv oc kids io ic, a_top c = UBody err h hv oc kids ->
  snd (violation C c io ic) = [Fail h OViolation] /\ a_top (fst (violation C c io ic)) = URoot /\
  a_st (fst (violation C c io ic)) = step (a_st c) (Fail h OViolation) /\
  a_disc (fst (violation C c io ic)) = a_disc c + (if io then 1 else 0) + lenZ kids + 1 - (if ic then 1 else 0).
Proof. exact (violation_fails_bound_request C). Qed.
(* BYTES TO FIRING, composed (review 2, finding 1): "fires ... with the method's result, with the remote failure".  From ANY
   reachable idle receiver (any history js of operations and received chunks after which no token / sequence is half received),
   for EVERY request id rid the table maps to a handle h and EVERY oracle that accepts the sequence, the bytes the translated
   sender encoding (encode_stream: int2b128 / send_int of banana.py) writes for
        OPEN n  "answer"  INT rid  body  CLOSE n
   cut into ANY chunks make the receiver perform exactly [Complete h]: the request pending under rid fires with the result and
   leaves the table, every other call, table entry, the eventual queue and the connection state are unchanged (`resolves`), and
   the receiver is idle again.  Guards (each needed: lib/AnswerRecvE2E.v ..._refuted): 0 <= rid < 2^31 (a larger id is sent as
   a LONGINT, which AnswerUnslicer.checkToken answers with BananaError); `accepts` = every question the receiver puts to the
   oracle along the body is answered "accept" and the result is ready at the final CLOSE (otherwise: Violation -> the request
   fails with the Violation; not ready -> nothing fires yet).  Body tokens: INT in [0, 2^31), STRING, nested OPEN..CLOSE to any
   depth with as many index tokens as the oracle asks for; NEG / LONGINT / LONGNEG / FLOAT / VOCAB children are NOT covered. *)
Theorem C03_answer_bytes_fire_result : forall cs voc js n rid h body bs chunks,
  let s := fst (jrun (jinit cs voc) js) in
  idle C s -> tbl_find rid (table (jst s)) = Some h -> small_int rid = true -> hdr_ok n = true ->
  accepts C taste after false h n (a_cs (r_ctx s)) body ->
  encode_stream (seq_tokens false n rid body) = Ok bs -> concat chunks = bs ->
  let r := jrun s (map JData chunks) in
  snd r = [Complete h] /\ idle C (fst r) /\ resolves (jst s) (jst (fst r)) h rid OResult.
Proof. exact (answer_bytes_fire_result C taste after). Qed.

(* ... and its twin: OPEN n "error" INT rid body CLOSE n performs exactly [Fail h ORemoteError] *)
Theorem C03_error_bytes_fire_remote_failure : forall cs voc js n rid h body bs chunks,
  let s := fst (jrun (jinit cs voc) js) in
  idle C s -> tbl_find rid (table (jst s)) = Some h -> small_int rid = true -> hdr_ok n = true ->
  accepts C taste after true h n (a_cs (r_ctx s)) body ->
  encode_stream (seq_tokens true n rid body) = Ok bs -> concat chunks = bs ->
  let r := jrun s (map JData chunks) in
  snd r = [Fail h ORemoteError] /\ idle C (fst r) /\ resolves (jst s) (jst (fst r)) h rid ORemoteError.
Proof. exact (error_bytes_fire_remote_failure C taste after). Qed.
(* the two model layers agree (review 2, finding 2): a Violation below an answer OR an error sequence whose request id was read
   fails exactly the bound request with the Violation -- at the byte level `Fail h OViolation`, at the operation level
   `AnswerViolation rid` (never `Error rid`: the caller gets the Violation, not a remote failure) -- and Answer / Error rid are
   Complete h / Fail h ORemoteError on the request the table holds under rid *)
Theorem C03_violation_in_either_sequence : forall (c : actx C) err h hv oc kids io ic rid,
  a_top c = UBody err h hv oc kids -> tbl_find rid (table (a_st c)) = Some h ->
  snd (violation C c io ic) = [Fail h OViolation] /\
  a_st (fst (violation C c io ic)) = step (a_st c) (AnswerViolation rid).
Proof. exact (violation_in_either_sequence_is_AnswerViolation C). Qed.
End Bytes.

Theorem C03_wire_ops_are_request_ops : forall (s : st) rid h, tbl_find rid (table s) = Some h ->
  step s (Answer rid) = step s (Complete h) /\
  step s (Error rid) = step s (Fail h ORemoteError) /\
  step s (AnswerViolation rid) = step s (Fail h OViolation).
Proof. exact wire_ops_are_request_ops. Qed.
Print Assumptions C03_wire_ops_are_request_ops.
Print Assumptions C03_violation_in_either_sequence.
Print Assumptions C03_answer_bytes_fire_result.
Print Assumptions C03_error_bytes_fire_remote_failure.
Print Assumptions C03_close_of_answer_completes.
Print Assumptions C03_close_of_error_fails.
Print Assumptions C03_violation_fails_bound_request.
Print Assumptions C03_bytes_refine_operations.
Print Assumptions C03_bytes_at_most_once.
Print Assumptions C03_bytes_first_outcome_is_final.
Print Assumptions C03_bytes_table_iff_pending.
Print Assumptions C03_bytes_cut_anywhere_then_loss.
Print Assumptions C03_bytes_drained_after_loss.
Print Assumptions C03_bytes_chunk_independent.
Print Assumptions C03_token_emits_at_most_one.
Print Assumptions C03_discarding_emits_nothing.
Print Assumptions C03_abandoned_connection_is_inert.
Print Assumptions C03_reqid_token_binds_through_table.
