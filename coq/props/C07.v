(* C07 -- Inbound bytes decode deterministically, chunk-independently, and never crash.
   Property theorems only; proofs in lib/RecvProofs.v, lib/BananaRecvProofs.v, lib/TokenProofs.v. *)
From Coq Require Import ZArith List Bool.
Import ListNotations.
Require Import Verif.lib.PyLite Verif.gen.BananaGen Verif.lib.Token Verif.lib.TokenProofs Verif.lib.Recv Verif.lib.RecvProofs
               Verif.lib.BananaRecv Verif.lib.BananaRecvProofs Verif.lib.BananaRecvCount.
Local Open Scope Z_scope.

(* "the receiver's observable behaviour is a function of the byte sequence alone - identical for every
   way of splitting it into packets": for EVERY semantics of the layers above the tokenizer
   (any begin/finish/step handlers), any two chunkings of the same bytes give the same events and
   the same final state. *)
Theorem C07_chunk_independent_generic :
  forall (ctx ev : Type) (begin_body : ctx -> Z -> Z -> bres ctx ev) (finish_body : ctx -> Z -> Z -> list Z -> hres2 ctx ev)
         (step_nobody : ctx -> Z -> Z -> hres2 ctx ev) (e1 e2 : list ev) (e3 : list Z -> list ev) (c : ctx) (cs cs' : list (list Z)),
    concat cs = concat cs' ->
    feed_all ctx ev begin_body finish_body step_nobody e1 e2 e3 (init c) cs =
    feed_all ctx ev begin_body finish_body step_nobody e1 e2 e3 (init c) cs'.
Proof. exact chunk_independent. Qed.
Print Assumptions C07_chunk_independent_generic.

(* ... in particular for the transcription of banana.py's discardCount / inOpen / unslicer-stack logic *)
Theorem C07_chunk_independent : forall c cs cs', concat cs = concat cs' -> bfeed_all (init c) cs = bfeed_all (init c) cs'.
Proof. exact banana_chunk_independent. Qed.
Print Assumptions C07_chunk_independent.

(* incremental decoding agrees with the one-pass decoding of the whole byte string *)
Theorem C07_incremental_is_whole : forall c cs, bfeed_all (init c) cs = brun c (concat cs).
Proof. exact banana_feed_is_run. Qed.
Print Assumptions C07_incremental_is_whole.

(* "... close the connection and ignore all further input" *)
Theorem C07_abandon_is_final : forall s cs, r_dead s = true -> bfeed_all s cs = (s, []).
Proof. exact banana_abandon_is_final. Qed.
Print Assumptions C07_abandon_is_final.

(* "... agrees with the Banana token specification": every well-formed token stream the sender can
   emit (translated sendToken / int2b128) is scanned back to exactly the same tokens *)
Theorem C07_token_spec : forall ts bs, forallb wf_token ts = true -> encode_stream ts = Ok bs -> decode bs = (ts, EndClean).
Proof. exact stream_roundtrip. Qed.
Print Assumptions C07_token_spec.

(* a header of 65 bytes without a type byte ends the connection, whatever follows *)
Theorem C07_header_cap : forall c b m, List.length b = 65%nat -> Forall (fun x => x < 128) b ->
  tok_step bctx event begin_body finish_body step_nobody (fatal 0) (fatal 0) (fun _ => [ELose]) c (b ++ m) = TDead bctx event (fatal 0).
Proof. intros; apply header_cap; assumption. Qed.
Print Assumptions C07_header_cap.

(* a violation never pops the root unslicer, and counts exactly the frames it pops for discarding *)
Theorem C07_violation_keeps_root : forall st, root_at_bottom st -> forall d ic,
  exists st' d' es, hv_loop st d ic = Some (st', d', es) /\ root_at_bottom st' /\ d <= d' /\
    d' - d = Z.of_nat (List.length st - List.length st') - (if ic then (if (List.length st' <? List.length st)%nat then 1 else 0) else 0).
Proof. exact hv_loop_root. Qed.
Print Assumptions C07_violation_keeps_root.

(* "A schema violation discards exactly the offending top-level object and decoding of the following
   objects is unaffected": the receiver's depth bookkeeping (discardCount + live unslicers + pending
   index phase) follows the OPEN/CLOSE nesting of the token stream exactly through every violation,
   absorbed or propagated, at any depth ... *)
Theorem C07_depth_exact : forall ts c c' es, wfc c -> apply_all c ts = Ok' c' es ->
  wfc c' /\ rootmode c' = rootmode c /\ vocab c' = vocab c /\ open_depth c' = open_depth c + delta_sum ts.
Proof. exact apply_all_depth. Qed.
Print Assumptions C07_depth_exact.

(* ... hence after ANY balanced token sequence that did not end the connection the receiver is back at
   top level: nothing is being discarded, only the root unslicer is on the stack, no index phase is open *)
Theorem C07_resync : forall c ts c' es, at_top c -> wfc c -> delta_sum ts = 0 -> apply_all c ts = Ok' c' es -> at_top c'.
Proof. exact resync. Qed.
Print Assumptions C07_resync.

(* the token-level statements above are about the byte-level receiver: a complete token in the buffer is
   processed by exactly tok_apply *)
Theorem C07_bytes_to_tokens : forall c b ds ty rest,
  scan_header 64 [] b = HOk ds ty rest -> ty <> tok_ERROR ->
  (has_body ty = true -> blen ty (le128 ds) <= lenZ rest) ->
  let n := if has_body ty then blen ty (le128 ds) else 0 in
  tok_step bctx event begin_body finish_body step_nobody (fatal 0) (fatal 0) (fun _ => [ELose]) c b =
  match tok_apply c ty (le128 ds) (firstn (Z.to_nat n) rest) with
  | Ok' c' es => TCont bctx event c' es (skipn (Z.to_nat n) rest)
  | Fatal' es => TDead bctx event es
  end.
Proof. exact tok_step_complete. Qed.
Print Assumptions C07_bytes_to_tokens.

(* a PING anywhere is answered by exactly one PONG carrying the same number and changes nothing else *)
Theorem C07_ping_transparent : forall c n, exists c', tok_apply c tok_PING n [] = Ok' c' [EPong n] \/
                                                    (exists es, tok_apply c tok_PING n [] = Fatal' es).
Proof. exact ping_transparent. Qed.
Print Assumptions C07_ping_transparent.

(* non-vacuity: a top-level context exists, is well formed, and a balanced object with a violation inside resynchronises *)
Example C07_resync_example :
  let c := ctx0 0 [] in
  at_top c /\ wfc c /\
  exists c' es, apply_all c [(tok_OPEN, 0, []); (tok_STRING, 2, [67; 48]); (tok_INT, 5, []); (tok_INT, 6, []); (tok_CLOSE, 0, [])]
                = Ok' c' es /\ In EViolation es /\ at_top c'.
Proof.
  split; [repeat split|]. split; [apply ctx0_wf|].
  eexists. eexists. split; [vm_compute; reflexivity|]. split; [cbn; auto 10|repeat split].
Qed.

(* Object numbering: every OPEN token consumes one number -- built, rejected by a taster, or dropped while an enclosing object
   is being discarded.  `reference` sequences quote the SENDER's numbers (it numbers every OPEN it emits: sendOpen shape fact in
   gen/BananaGen.v), so a violation must not shift the numbering of what follows: "decoding of the following objects is
   unaffected" includes their back-references. *)
Theorem C07_counter_counts_every_open : forall ts c c' es,
  apply_all c ts = Ok' c' es -> objctr c' = objctr c + count_opens ts.
Proof. exact apply_all_objctr. Qed.

Theorem C07_open_number_is_its_ordinal : forall pre hdr c c1 es1 c2 es2,
  apply_all c pre = Ok' c1 es1 -> tok_apply c1 tok_OPEN hdr [] = Ok' c2 es2 ->
  inbObj c2 = objctr c + count_opens pre.
Proof. exact open_number_counts_every_open. Qed.

Print Assumptions C07_counter_counts_every_open.
Print Assumptions C07_open_number_is_its_ordinal.

(* non-vacuity: the OPEN that follows a discarded object containing two nested OPENs is object number 3 *)
Example C07_numbering_example :
  exists c1 es1 c2 es2,
    apply_all (ctx0 0 []) [(tok_OPEN, 0, []); (tok_STRING, 1, [90]); (tok_OPEN, 1, []); (tok_STRING, 1, [76]); (tok_OPEN, 2, []);
                            (tok_STRING, 1, [76]); (tok_CLOSE, 2, []); (tok_CLOSE, 1, []); (tok_CLOSE, 0, [])] = Ok' c1 es1 /\
    In EViolation es1 /\
    tok_apply c1 tok_OPEN 3 [] = Ok' c2 es2 /\ inbObj c2 = 3.
Proof.
  eexists. eexists. eexists. eexists.
  split; [vm_compute; reflexivity|]. split; [cbn; auto 10|]. split; [vm_compute; reflexivity|reflexivity].
Qed.
